(* C01 at the level of API histories: in every state reachable by any sequence of API calls,
   a solve that returns a path returns only states accepted by the checker installed by the
   most recent setup. *)
From Coq Require Import ZArith NArith List Bool Floats Lia.
From OX Require Import Numerics.FloatBits Gen.Consts Planners.Model Proofs.Basics Proofs.ValidInv Proofs.Prefix.
Import ListNotations.

Section ApiValid.
Context {S V P : Type}.
Variable dist : S -> S -> F.
Variable interp : S -> S -> F -> S.
Variable lvs : F.
Variable valid : V -> S -> bool.
Variable goal : P -> S -> bool.
Variable starts : P -> list S.
Variable u64_at : gen -> N -> N.
Variable usample : gen -> N -> option S * N.
Variable gsample : P -> gen -> N -> option S * N.
Variables maxd bias radius : F.

Notation pstate := (@pstate S V P).
Notation rrt_step := (rrt_step dist interp lvs valid goal starts u64_at usample gsample maxd bias).
Notation rrtstar_step := (rrtstar_step dist interp lvs valid goal starts u64_at usample gsample maxd bias radius).
Notation rrtc_step := (rrtc_step dist interp lvs valid goal starts u64_at usample gsample maxd bias).
Notation prm_step := (prm_step dist interp lvs valid goal starts usample radius).
Notation ok := (ok valid).
Notation nodes_valid := (nodes_valid valid).
Notation rm_valid := (rm_valid valid).

(* the root of the (start) tree is the first start state of the installed problem *)
Definition root_ok (p : P) (t : list (node S)) : Prop :=
  match t with
  | [] => starts p = []
  | n :: _ => exists rest, starts p = st n :: rest
  end.

Definition InvT (s : pstate) : Prop :=
  match pd s, vc s with
  | None, None => tree s = [] /\ gtree s = []
  | Some p, Some v => root_ok p (tree s) /\ nodes_valid v (tl (tree s)) /\ nodes_valid v (tl (gtree s))
  | _, _ => False
  end.

Definition PathOk (s : pstate) (r : response S) : Prop :=
  forall path, r = RPath path -> exists v, vc s = Some v /\ Forall (ok v) path.

Lemma InvT_new : forall b, InvT (new_planner b).
Proof. intros b; cbn; split; reflexivity. Qed.

Lemma nodes_valid_nil : forall v, nodes_valid v [].
Proof. intros v; constructor. Qed.

Lemma nodes_valid_cons : forall v (n : node S) t,
  valid v (st n) = true -> nodes_valid v t -> nodes_valid v (n :: t).
Proof. intros v n t H1 H2; constructor; assumption. Qed.

Lemma nodes_valid_tl : forall v (t : list (node S)), nodes_valid v t -> nodes_valid v (tl t).
Proof. intros v [|n t] H; [exact H|]. inversion H; assumption. Qed.

Lemma tree_setup_inv : forall (s : pstate) p v s' r,
  tree_setup starts s p v = (s', r) -> nodes_valid v (tl (gtree s)) \/ True ->
  pd s' = Some p /\ vc s' = Some v /\ root_ok p (tree s') /\ nodes_valid v (tl (tree s')) /\ gtree s' = gtree s.
Proof.
  intros s p v s' r. unfold tree_setup. destruct (starts p) as [|s0 rest] eqn:Es; intros E _; inversion E; subst; cbn.
  - repeat split; try assumption. apply nodes_valid_nil.
  - repeat split. { exists rest; exact Es. } apply nodes_valid_nil.
Qed.

(* generic solve for RRT / RRT* *)
Lemma tree_solve_inv :
  forall (loop : nat -> P -> V -> list (node S) -> gen -> N -> list (node S) * N * response S),
  (forall fuel p v t g pos t' pos' r, nodes_valid v t -> loop fuel p v t g pos = (t', pos', r) ->
      nodes_valid v t' /\ (forall path, r = RPath path -> Forall (ok v) path)) ->
  (forall fuel p v t g pos t' pos' r, loop fuel p v t g pos = (t', pos', r) -> extends_ t t') ->
  forall (s : pstate) b s' r,
  gtree s = [] -> InvT s -> tree_solve valid starts loop s b = (s', r) -> InvT s' /\ gtree s' = [] /\ PathOk s r.
Proof.
  intros loop Hval Hext s b s' r Hg Hinv. unfold tree_solve, InvT, PathOk in *.
  destruct (pd s) as [p|] eqn:Ep; destruct (vc s) as [v|] eqn:Ev; try contradiction.
  2:{ intros E; inversion E; subst. rewrite Ep, Ev. repeat split; try tauto; discriminate. }
  destruct Hinv as (Hroot & Ht & Hgt).
  destruct (starts p) as [|s0 rest] eqn:Es.
  { intros E; inversion E; subst. rewrite Ep, Ev. repeat split; try assumption; discriminate. }
  destruct (valid v s0) eqn:Es0; cbn [negb].
  2:{ intros E; inversion E; subst. rewrite Ep, Ev. repeat split; try assumption; discriminate. }
  destruct (take_rng s) as [g pos].
  destruct (loop b p v (tree s) g pos) as [[t' pos'] r'] eqn:El.
  intros E; inversion E; subst; clear E. cbn. rewrite Ep, Ev.
  assert (Hall : nodes_valid v (tree s)).
  { destruct (tree s) as [|n t0] eqn:Et; [apply nodes_valid_nil|].
    cbn in Hroot, Ht. destruct Hroot as [rest' Hr]. rewrite Es in Hr. inversion Hr; subst.
    apply nodes_valid_cons; assumption. }
  destruct (Hval _ _ _ _ _ _ _ _ _ Hall El) as [Hall' Hpath].
  apply Hext in El.
  repeat split.
  - destruct (tree s) as [|n t0] eqn:Et.
    + cbn in Hroot. rewrite Es in Hroot; discriminate.
    + destruct (extends_hd _ _ _ El) as (n' & r0 & -> & Hst). cbn in *. rewrite Hst. exact Hroot.
  - apply nodes_valid_tl; exact Hall'.
  - rewrite Hg. apply nodes_valid_nil.
  - exact Hg.
  - intros path Hp. exists v; split; [reflexivity|]. apply Hpath; exact Hp.
Qed.

Definition InvT0 (s : pstate) : Prop := InvT s /\ gtree s = [].

Lemma rrt_step_inv : forall s c s' r, InvT0 s -> rrt_step s c = (s', r) -> InvT0 s' /\ PathOk s r.
Proof.
  intros s c s' r [Hinv Hg]. destruct c as [p v|b|b|p]; cbn [Model.rrt_step].
  - intros E. destruct (tree_setup_inv _ _ _ _ _ E (or_intror I)) as (E1 & E2 & E3 & E4 & E5).
    split; [|intros path Hp; unfold tree_setup in E; destruct (starts p); inversion E; subst; discriminate].
    split; [|rewrite E5; exact Hg]. unfold InvT. rewrite E1, E2, E5, Hg. repeat split; try assumption. apply nodes_valid_nil.
  - intros E. eapply tree_solve_inv in E; try eassumption.
    + destruct E as (A & B & C). split; [split|]; assumption.
    + intros. eapply rrt_loop_valid; eauto.
    + intros. eapply rrt_loop_extends; eauto.
  - intros E; inversion E; subst. split; [split; assumption|intros path Hp; discriminate].
  - intros E; inversion E; subst. split; [split; assumption|intros path Hp; discriminate].
Qed.

Lemma rrtstar_step_inv : forall s c s' r, InvT0 s -> rrtstar_step s c = (s', r) -> InvT0 s' /\ PathOk s r.
Proof.
  intros s c s' r [Hinv Hg]. destruct c as [p v|b|b|p]; cbn [Model.rrtstar_step].
  - intros E. destruct (tree_setup_inv _ _ _ _ _ E (or_intror I)) as (E1 & E2 & E3 & E4 & E5).
    split; [|intros path Hp; unfold tree_setup in E; destruct (starts p); inversion E; subst; discriminate].
    split; [|rewrite E5; exact Hg]. unfold InvT. rewrite E1, E2, E5, Hg. repeat split; try assumption. apply nodes_valid_nil.
  - intros E. eapply tree_solve_inv in E; try eassumption.
    + destruct E as (A & B & C). split; [split|]; assumption.
    + intros. eapply rrtstar_loop_valid; eauto.
    + intros. eapply rrtstar_loop_extends; eauto.
  - intros E; inversion E; subst. split; [split; assumption|intros path Hp; discriminate].
  - intros E; inversion E; subst. split; [split; assumption|intros path Hp; discriminate].
Qed.

(* RRT-Connect *)
Lemma rrtc_step_inv : forall s c s' r, InvT s -> rrtc_step s c = (s', r) -> InvT s' /\ PathOk s r.
Proof.
  intros s c s' r Hinv. destruct c as [p v|b|b|p]; cbn [Model.rrtc_step].
  - unfold rrtc_setup. destruct (starts p) as [|s0 rest] eqn:Es.
    + intros E; inversion E; subst. split; [|intros path Hp; discriminate].
      unfold InvT; cbn. repeat split; try assumption; apply nodes_valid_nil.
    + destruct (take_rng s) as [g pos]. destruct (gsample p g pos) as [res c].
      destruct res as [gs|]; intros E; inversion E; subst; (split; [|intros path Hp; discriminate]);
        unfold InvT; cbn; repeat split; try apply nodes_valid_nil; exists rest; exact Es.
  - unfold rrtc_solve, InvT, PathOk in *.
    destruct (pd s) as [p|] eqn:Ep; destruct (vc s) as [v|] eqn:Ev; try contradiction.
    2:{ intros E; inversion E; subst. rewrite Ep, Ev. split; [assumption|discriminate]. }
    destruct Hinv as (Hroot & Ht & Hgt).
    destruct (starts p) as [|s0 rest] eqn:Es.
    { intros E; inversion E; subst. rewrite Ep, Ev. repeat split; try assumption; discriminate. }
    destruct (valid v s0) eqn:Es0; cbn [negb].
    2:{ intros E; inversion E; subst. rewrite Ep, Ev. repeat split; try assumption; discriminate. }
    destruct (gtree s) as [|g0 grest] eqn:Eg.
    { intros E; inversion E; subst. rewrite Ep, Ev, Eg. repeat split; try assumption; discriminate. }
    destruct (valid v (st g0)) eqn:Eg0; cbn [negb].
    2:{ intros E; inversion E; subst. rewrite Ep, Ev, Eg. repeat split; try assumption; discriminate. }
    destruct (take_rng s) as [g pos].
    destruct (Model.rrtc_loop _ _ _ _ _ _ _ _ _ _ _ _ _ _ _ _ _) as [[[ts' tg'] pos'] r'] eqn:El.
    intros E; inversion E; subst; clear E. cbn. rewrite Ep, Ev.
    assert (Hall : nodes_valid v (tree s)).
    { destruct (tree s) as [|n t0] eqn:Et; [apply nodes_valid_nil|].
      cbn in Hroot, Ht. destruct Hroot as [rest' Hr]. rewrite Es in Hr. inversion Hr; subst.
      apply nodes_valid_cons; assumption. }
    assert (Hgall : nodes_valid v (g0 :: grest)) by (apply nodes_valid_cons; assumption).
    destruct (rrtc_loop_valid dist interp lvs valid goal u64_at usample gsample maxd bias _ _ _ _ _ _ _ _ _ _ _ Hall Hgall El) as (Hs' & Hg' & Hpath).
    apply rrtc_loop_extends in El. destruct El as [Els Elg].
    repeat split.
    + destruct (tree s) as [|n t0] eqn:Et.
      * cbn in Hroot. rewrite Es in Hroot; discriminate.
      * destruct (extends_hd _ _ _ Els) as (n' & r0 & -> & Hst). cbn in *. rewrite Hst. exact Hroot.
    + apply nodes_valid_tl; exact Hs'.
    + apply nodes_valid_tl; exact Hg'.
    + intros path Hp. exists v; split; [reflexivity|]. apply Hpath; exact Hp.
  - intros E; inversion E; subst. split; [assumption|intros path Hp; discriminate].
  - intros E; inversion E; subst. split; [assumption|intros path Hp; discriminate].
Qed.

(* PRM *)
Definition InvP (s : pstate) : Prop :=
  match vc s with
  | Some v => rm_valid v (roadmap s)
  | None => roadmap s = []
  end.

Lemma InvP_new : forall b, InvP (new_planner b).
Proof. intros b; reflexivity. Qed.

Lemma prm_step_inv : forall s c s' r, InvP s -> prm_step s c = (s', r) -> InvP s' /\ PathOk s r.
Proof.
  intros s c s' r Hinv. unfold InvP, PathOk in *. destruct c as [p v|b|b|p]; cbn [Model.prm_step].
  - intros E; inversion E; subst; cbn. split; [constructor|discriminate].
  - destruct (pd s) as [p|]; destruct (vc s) as [v|] eqn:Ev;
      try (intros E; inversion E; subst; rewrite Ev; split; [assumption|discriminate]).
    intros E; inversion E; subst. rewrite Ev. split; [assumption|].
    intros path Hp. exists v; split; [reflexivity|]. eapply prm_query_valid; eauto.
  - destruct (pd s) as [p|]; destruct (vc s) as [v|] eqn:Ev;
      try (intros E; inversion E; subst; rewrite Ev; split; [assumption|discriminate]).
    destruct (roadmap s) as [|m rm] eqn:Erm.
    + destruct (take_rng s) as [g pos].
      destruct (Model.prm_build _ _ _ _ _ _ _ _ _ _ _) as [[rm' pos'] r'] eqn:Eb.
      intros E; inversion E; subst; cbn. rewrite Ev. split.
      * eapply prm_build_valid; [|exact Eb]. constructor.
      * intros path Hp. apply (f_equal (fun x => match x with RPath _ => true | _ => false end)) in Hp.
        clear -Eb Hp. exfalso. revert Eb Hp. generalize (@nil (mnode S)) as rm0. generalize pos.
        induction b as [|b IH]; intros pos0 rm0; cbn [Model.prm_build].
        { intros E; inversion E; subst; discriminate. }
        { destruct (usample g pos0) as [[q|] c0]; [apply IH|intros E; inversion E; subst; discriminate]. }
    + intros E; inversion E; subst. rewrite Ev, Erm. split; [assumption|discriminate].
  - intros E; inversion E; subst; cbn. split; [assumption|discriminate].
Qed.

(* ---- histories ---------------------------------------------------------------------- *)
Section Hist.
Variable step : pstate -> @call V P -> pstate * response S.
Variable Inv : pstate -> Prop.
Hypothesis step_inv : forall s c s' r, Inv s -> step s c = (s', r) -> Inv s' /\ PathOk s r.

Lemma run_inv : forall cs s s' rs, Inv s -> run step s cs = (s', rs) -> Inv s'.
Proof.
  induction cs as [|c cs IH]; intros s s' rs Hs; cbn [run].
  - intros E; inversion E; subst; exact Hs.
  - destruct (step s c) as [s1 r] eqn:E1. destruct (run step s1 cs) as [s2 rs2] eqn:E2.
    intros E; inversion E; subst. eapply IH; [|exact E2]. eapply step_inv; eauto.
Qed.

(* after any history, a call that returns a path returns only accepted states *)
Lemma history_path_ok : forall cs s0 s rs c s' r,
  Inv s0 -> run step s0 cs = (s, rs) -> step s c = (s', r) -> PathOk s r.
Proof.
  intros cs s0 s rs c s' r H0 Hrun Hstep.
  eapply step_inv; [eapply run_inv; eauto|exact Hstep].
Qed.
End Hist.

Theorem rrt_paths_valid : forall sd cs s rs c s' r,
  run rrt_step (new_planner sd) cs = (s, rs) -> rrt_step s c = (s', r) -> PathOk s r.
Proof.
  intros sd cs s rs c s' r. apply (history_path_ok rrt_step InvT0).
  - intros s1 c1 s2 r1 H1 H2. eapply rrt_step_inv; eauto.
  - split; [apply InvT_new|reflexivity].
Qed.

Theorem rrtstar_paths_valid : forall sd cs s rs c s' r,
  run rrtstar_step (new_planner sd) cs = (s, rs) -> rrtstar_step s c = (s', r) -> PathOk s r.
Proof.
  intros sd cs s rs c s' r. apply (history_path_ok rrtstar_step InvT0).
  - intros s1 c1 s2 r1 H1 H2. eapply rrtstar_step_inv; eauto.
  - split; [apply InvT_new|reflexivity].
Qed.

Theorem rrtc_paths_valid : forall sd cs s rs c s' r,
  run rrtc_step (new_planner sd) cs = (s, rs) -> rrtc_step s c = (s', r) -> PathOk s r.
Proof.
  intros sd cs s rs c s' r. apply (history_path_ok rrtc_step InvT).
  - intros s1 c1 s2 r1 H1 H2. eapply rrtc_step_inv; eauto.
  - apply InvT_new.
Qed.

Theorem prm_paths_valid : forall sd cs s rs c s' r,
  run prm_step (new_planner sd) cs = (s, rs) -> prm_step s c = (s', r) -> PathOk s r.
Proof.
  intros sd cs s rs c s' r. apply (history_path_ok prm_step InvP).
  - intros s1 c1 s2 r1 H1 H2. eapply prm_step_inv; eauto.
  - apply InvP_new.
Qed.

End ApiValid.

(* A start state the checker rejects is reported as an invalid-start error. *)
Section InvalidStart.
Context {S V P : Type}.
Variable dist : S -> S -> F.
Variable interp : S -> S -> F -> S.
Variable lvs : F.
Variable valid : V -> S -> bool.
Variable goal : P -> S -> bool.
Variable starts : P -> list S.
Variable u64_at : gen -> N -> N.
Variable usample : gen -> N -> option S * N.
Variable gsample : P -> gen -> N -> option S * N.
Variables maxd bias radius : F.

Definition start_rejected (s : @pstate S V P) : Prop :=
  exists p v s0 rest, pd s = Some p /\ vc s = Some v /\ starts p = s0 :: rest /\ valid v s0 = false.

Lemma rrt_invalid_start : forall s b,
  start_rejected s ->
  snd (rrt_step dist interp lvs valid goal starts u64_at usample gsample maxd bias s (CSolve b)) = RErr EInvalidStart.
Proof.
  intros s b (p & v & s0 & rest & Ep & Ev & Es & Hv). cbn. unfold tree_solve. rewrite Ep, Ev, Es, Hv. reflexivity.
Qed.

Lemma rrtstar_invalid_start : forall s b,
  start_rejected s ->
  snd (rrtstar_step dist interp lvs valid goal starts u64_at usample gsample maxd bias radius s (CSolve b)) = RErr EInvalidStart.
Proof.
  intros s b (p & v & s0 & rest & Ep & Ev & Es & Hv). cbn. unfold tree_solve. rewrite Ep, Ev, Es, Hv. reflexivity.
Qed.

Lemma rrtc_invalid_start : forall s b,
  start_rejected s ->
  snd (rrtc_step dist interp lvs valid goal starts u64_at usample gsample maxd bias s (CSolve b)) = RErr EInvalidStart.
Proof.
  intros s b (p & v & s0 & rest & Ep & Ev & Es & Hv). cbn. unfold rrtc_solve. rewrite Ep, Ev, Es, Hv. reflexivity.
Qed.

(* PRM checks the roadmap first: an empty roadmap is reported as UnsampledStateSpace *)
Lemma prm_invalid_start : forall s b,
  start_rejected s -> roadmap s <> [] ->
  snd (prm_step dist interp lvs valid goal starts usample radius s (CSolve b)) = RErr EInvalidStart.
Proof.
  intros s b (p & v & s0 & rest & Ep & Ev & Es & Hv) Hrm. cbn. rewrite Ep, Ev. cbn.
  unfold prm_query. destruct (roadmap s); [contradiction|]. rewrite Es, Hv. reflexivity.
Qed.
End InvalidStart.
