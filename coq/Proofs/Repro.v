(* C07: a seeded planner's behaviour is a function of the seeded stream only.  Two oracle
   families that agree on the seeded generator (but may differ arbitrarily on every OS-/thread-
   seeded one) give identical states and responses for every API history, as long as no call
   panicked (a panic is itself identical in both runs, and drops the generator). *)
From Coq Require Import ZArith NArith List Bool Floats Lia.
From OX Require Import Numerics.FloatBits Gen.Consts Planners.Model.
Import ListNotations.

Section Repro.
Context {S V P : Type}.
Variable dist : S -> S -> F.
Variable interp : S -> S -> F -> S.
Variable lvs : F.
Variable valid : V -> S -> bool.
Variable goal : P -> S -> bool.
Variable starts : P -> list S.
Variables maxd bias radius : F.
Variables u1 u2 : gen -> N -> N.
Variables us1 us2 : gen -> N -> option S * N.
Variables gs1 gs2 : P -> gen -> N -> option S * N.
Hypothesis Hu : forall pos, u1 GSeed pos = u2 GSeed pos.
Hypothesis Hus : forall pos, us1 GSeed pos = us2 GSeed pos.
Hypothesis Hgs : forall p pos, gs1 p GSeed pos = gs2 p GSeed pos.

Lemma random_bool_agree : forall pos p, random_bool u1 GSeed pos p = random_bool u2 GSeed pos p.
Proof. intros pos p. unfold random_bool. rewrite Hu. reflexivity. Qed.

Lemma draw_agree : forall p pos, draw u1 us1 gs1 bias p GSeed pos = draw u2 us2 gs2 bias p GSeed pos.
Proof.
  intros p pos. unfold draw. rewrite random_bool_agree.
  destruct (random_bool u2 GSeed pos bias) as [[b pos1]|]; [|reflexivity].
  destruct b; [rewrite Hgs|rewrite Hus]; reflexivity.
Qed.

Lemma rrt_loop_agree : forall fuel p v t pos,
  rrt_loop dist interp lvs valid goal u1 us1 gs1 maxd bias fuel p v t GSeed pos =
  rrt_loop dist interp lvs valid goal u2 us2 gs2 maxd bias fuel p v t GSeed pos.
Proof.
  induction fuel as [|f IH]; intros p v t pos; cbn [rrt_loop]; [reflexivity|].
  rewrite draw_agree. destruct (draw u2 us2 gs2 bias p GSeed pos) as [[q|] pos1]; [|reflexivity].
  destruct (extend dist interp lvs valid maxd v t q) as [t1 [| |re i qn]]; try reflexivity; try apply IH.
  destruct (goal p qn); [reflexivity|apply IH].
Qed.

Lemma rrtstar_loop_agree : forall fuel p v t pos,
  rrtstar_loop dist interp lvs valid goal u1 us1 gs1 maxd bias radius fuel p v t GSeed pos =
  rrtstar_loop dist interp lvs valid goal u2 us2 gs2 maxd bias radius fuel p v t GSeed pos.
Proof.
  induction fuel as [|f IH]; intros p v t pos; cbn [rrtstar_loop]; [reflexivity|].
  rewrite draw_agree. destruct (draw u2 us2 gs2 bias p GSeed pos) as [[q|] pos1]; [|reflexivity].
  destruct (rrtstar_iter dist interp lvs valid maxd radius v t q) as [t1 [| |qn]]; try reflexivity; try apply IH.
  destruct (goal p qn); [reflexivity|apply IH].
Qed.

Lemma rrtc_loop_agree : forall fuel p v ts tg pos,
  rrtc_loop dist interp lvs valid goal u1 us1 gs1 maxd bias fuel p v ts tg GSeed pos =
  rrtc_loop dist interp lvs valid goal u2 us2 gs2 maxd bias fuel p v ts tg GSeed pos.
Proof.
  induction fuel as [|f IH]; intros p v ts tg pos; cbn [rrtc_loop]; [reflexivity|].
  rewrite draw_agree. destruct (draw u2 us2 gs2 bias p GSeed pos) as [[q|] pos1]; [|reflexivity].
  destruct (Nat.leb (length ts) (length tg)).
  - destruct (extend dist interp lvs valid maxd v ts q) as [ts1 [| |re ia qn]]; try reflexivity; try apply IH.
    destruct (goal p qn); [reflexivity|].
    destruct (extend dist interp lvs valid maxd v tg qn) as [tg1 [| |[|] ib qn2]]; try reflexivity; apply IH.
  - destruct (extend dist interp lvs valid maxd v tg q) as [tg1 [| |re ia qn]]; try reflexivity; try apply IH.
    destruct (extend dist interp lvs valid maxd v ts qn) as [ts1 [| |[|] ib qn2]]; try reflexivity; apply IH.
Qed.

Lemma prm_build_agree : forall fuel v rm pos,
  prm_build dist interp lvs valid us1 radius fuel v rm GSeed pos =
  prm_build dist interp lvs valid us2 radius fuel v rm GSeed pos.
Proof.
  induction fuel as [|f IH]; intros v rm pos; cbn [prm_build]; [reflexivity|].
  rewrite Hus. destruct (us2 GSeed pos) as [[q|] c]; [apply IH|reflexivity].
Qed.

Notation pstate := (@pstate S V P).
Definition seeded_rng (s : pstate) : Prop := rng s = Some GSeed.

Lemma take_rng_seeded : forall s : pstate, seeded_rng s -> take_rng s = (GSeed, spos s).
Proof. intros s H. unfold take_rng. rewrite H. reflexivity. Qed.

Definition step1_rrt := rrt_step dist interp lvs valid goal starts u1 us1 gs1 maxd bias.
Definition step2_rrt := rrt_step dist interp lvs valid goal starts u2 us2 gs2 maxd bias.
Definition step1_star := rrtstar_step dist interp lvs valid goal starts u1 us1 gs1 maxd bias radius.
Definition step2_star := rrtstar_step dist interp lvs valid goal starts u2 us2 gs2 maxd bias radius.
Definition step1_rrtc := rrtc_step dist interp lvs valid goal starts u1 us1 gs1 maxd bias.
Definition step2_rrtc := rrtc_step dist interp lvs valid goal starts u2 us2 gs2 maxd bias.
Definition step1_prm := prm_step dist interp lvs valid goal starts us1 radius.
Definition step2_prm := prm_step dist interp lvs valid goal starts us2 radius.

Lemma tree_solve_agree : forall loop1 loop2 (s : pstate) b,
  (forall fuel p v t pos, loop1 fuel p v t GSeed pos = loop2 fuel p v t GSeed pos) ->
  seeded_rng s -> tree_solve valid starts loop1 s b = tree_solve valid starts loop2 s b.
Proof.
  intros loop1 loop2 s b H Hs. unfold tree_solve.
  destruct (pd s) as [p|]; [|reflexivity]. destruct (vc s) as [v|]; [|reflexivity].
  destruct (starts p) as [|s0 rest]; [reflexivity|]. destruct (negb (valid v s0)); [reflexivity|].
  rewrite (take_rng_seeded s Hs). rewrite H. reflexivity.
Qed.

Lemma rrt_step_agree : forall s c, seeded_rng s -> step1_rrt s c = step2_rrt s c.
Proof.
  intros s c Hs. destruct c; cbn; try reflexivity.
  apply tree_solve_agree; [intros; apply rrt_loop_agree|exact Hs].
Qed.

Lemma rrtstar_step_agree : forall s c, seeded_rng s -> step1_star s c = step2_star s c.
Proof.
  intros s c Hs. destruct c; cbn; try reflexivity.
  apply tree_solve_agree; [intros; apply rrtstar_loop_agree|exact Hs].
Qed.

Lemma rrtc_step_agree : forall s c, seeded_rng s -> step1_rrtc s c = step2_rrtc s c.
Proof.
  intros s c Hs. destruct c as [p v|b|b|p]; cbn; try reflexivity.
  - unfold rrtc_setup. destruct (starts p); [reflexivity|]. rewrite (take_rng_seeded s Hs). rewrite Hgs. reflexivity.
  - unfold rrtc_solve. destruct (pd s) as [p|]; [|reflexivity]. destruct (vc s) as [v|]; [|reflexivity].
    destruct (starts p) as [|s0 rest]; [reflexivity|]. destruct (negb (valid v s0)); [reflexivity|].
    destruct (gtree s) as [|g0 gr]; [reflexivity|]. destruct (negb (valid v (st g0))); [reflexivity|].
    rewrite (take_rng_seeded s Hs). rewrite rrtc_loop_agree. reflexivity.
Qed.

Lemma prm_step_agree : forall s c, seeded_rng s -> step1_prm s c = step2_prm s c.
Proof.
  intros s c Hs. destruct c as [p v|b|b|p]; cbn; try reflexivity.
  destruct (pd s); [|reflexivity]. destruct (vc s) as [v|]; [|reflexivity].
  destruct (roadmap s); [|reflexivity]. rewrite (take_rng_seeded s Hs). rewrite prm_build_agree. reflexivity.
Qed.

(* the seeded generator stays in the planner across every call that returns normally *)
Definition normal (r : response S) : Prop := is_panic r = false.

Lemma tree_solve_keeps : forall loop (s s' : pstate) b r,
  seeded_rng s -> tree_solve valid starts loop s b = (s', r) -> normal r -> seeded_rng s'.
Proof.
  intros loop s s' b r Hs. unfold tree_solve.
  destruct (pd s) as [p|]; [|intros E; inversion E; subst; auto]. destruct (vc s) as [v|]; [|intros E; inversion E; subst; auto].
  destruct (starts p) as [|s0 rest]; [intros E; inversion E; subst; auto|].
  destruct (negb (valid v s0)); [intros E; inversion E; subst; auto|].
  rewrite (take_rng_seeded s Hs). destruct (loop b p v (tree s) GSeed (spos s)) as [[t' pos'] r'].
  intros E; inversion E; subst. intros Hn. unfold seeded_rng, put_pos; cbn. unfold normal in Hn. rewrite Hn. reflexivity.
Qed.

Lemma rrt_step_keeps : forall s c s' r, seeded_rng s -> step1_rrt s c = (s', r) -> normal r -> seeded_rng s'.
Proof.
  intros s c s' r Hs. destruct c as [p v|b|b|p]; cbn.
  - unfold tree_setup. destruct (starts p); intros E; inversion E; subst; intros _; exact Hs.
  - apply tree_solve_keeps; exact Hs.
  - intros E; inversion E; subst; auto.
  - intros E; inversion E; subst; auto.
Qed.

Lemma rrtstar_step_keeps : forall s c s' r, seeded_rng s -> step1_star s c = (s', r) -> normal r -> seeded_rng s'.
Proof.
  intros s c s' r Hs. destruct c as [p v|b|b|p]; cbn.
  - unfold tree_setup. destruct (starts p); intros E; inversion E; subst; intros _; exact Hs.
  - apply tree_solve_keeps; exact Hs.
  - intros E; inversion E; subst; auto.
  - intros E; inversion E; subst; auto.
Qed.

Lemma rrtc_step_keeps : forall s c s' r, seeded_rng s -> step1_rrtc s c = (s', r) -> normal r -> seeded_rng s'.
Proof.
  intros s c s' r Hs. destruct c as [p v|b|b|p]; cbn.
  - unfold rrtc_setup. destruct (starts p); [intros E; inversion E; subst; intros _; exact Hs|].
    rewrite (take_rng_seeded s Hs). destruct (gs1 p GSeed (spos s)) as [[gs|] c]; intros E; inversion E; subst; intros _; exact Hs.
  - unfold rrtc_solve. destruct (pd s) as [p|]; [|intros E; inversion E; subst; auto].
    destruct (vc s) as [v|]; [|intros E; inversion E; subst; auto].
    destruct (starts p) as [|s0 rest]; [intros E; inversion E; subst; auto|].
    destruct (negb (valid v s0)); [intros E; inversion E; subst; auto|].
    destruct (gtree s) as [|g0 gr]; [intros E; inversion E; subst; auto|].
    destruct (negb (valid v (st g0))); [intros E; inversion E; subst; auto|].
    rewrite (take_rng_seeded s Hs).
    destruct (rrtc_loop _ _ _ _ _ _ _ _ _ _ _ _ _ _ _ _ _) as [[[ts' tg'] pos'] r'].
    intros E; inversion E; subst. intros Hn. unfold seeded_rng, put_pos; cbn. unfold normal in Hn. rewrite Hn. reflexivity.
  - intros E; inversion E; subst; auto.
  - intros E; inversion E; subst; auto.
Qed.

Lemma prm_step_keeps : forall s c s' r, seeded_rng s -> step1_prm s c = (s', r) -> normal r -> seeded_rng s'.
Proof.
  intros s c s' r Hs. destruct c as [p v|b|b|p]; cbn.
  - intros E; inversion E; subst; intros _; exact Hs.
  - destruct (pd s); destruct (vc s); intros E; inversion E; subst; auto.
  - destruct (pd s); [|intros E; inversion E; subst; auto]. destruct (vc s) as [v|]; [|intros E; inversion E; subst; auto].
    destruct (roadmap s); [|intros E; inversion E; subst; auto].
    rewrite (take_rng_seeded s Hs). destruct (prm_build _ _ _ _ _ _ _ _ _ _ _) as [[rm' pos'] r'].
    intros E; inversion E; subst. intros Hn. unfold seeded_rng, put_pos; cbn. unfold normal in Hn. rewrite Hn. reflexivity.
  - intros E; inversion E; subst; intros _; exact Hs.
Qed.

(* ---- histories ---- *)
Section Hist.
Variables step1 step2 : pstate -> @call V P -> pstate * response S.
Hypothesis agree : forall s c, seeded_rng s -> step1 s c = step2 s c.
Hypothesis keeps : forall s c s' r, seeded_rng s -> step1 s c = (s', r) -> normal r -> seeded_rng s'.

Lemma run_agree : forall cs s s1 rs1,
  seeded_rng s -> run step1 s cs = (s1, rs1) -> Forall normal rs1 -> run step2 s cs = (s1, rs1).
Proof.
  induction cs as [|c cs IH]; intros s s1 rs1 Hs; cbn [run]; [auto|].
  rewrite <- (agree s c Hs). destruct (step1 s c) as [sa r] eqn:E1.
  destruct (run step1 sa cs) as [sb rsb] eqn:E2.
  intros E; inversion E; subst. intros Hn. inversion Hn; subst.
  rewrite (IH sa s1 rsb); [reflexivity| |exact E2|assumption]. eapply keeps; eauto.
Qed.
End Hist.

Theorem rrt_reproducible : forall cs s1 rs1,
  run step1_rrt (new_planner true) cs = (s1, rs1) -> Forall normal rs1 -> run step2_rrt (new_planner true) cs = (s1, rs1).
Proof. intros cs s1 rs1. apply (run_agree step1_rrt step2_rrt rrt_step_agree rrt_step_keeps). reflexivity. Qed.

Theorem rrtstar_reproducible : forall cs s1 rs1,
  run step1_star (new_planner true) cs = (s1, rs1) -> Forall normal rs1 -> run step2_star (new_planner true) cs = (s1, rs1).
Proof. intros cs s1 rs1. apply (run_agree step1_star step2_star rrtstar_step_agree rrtstar_step_keeps). reflexivity. Qed.

Theorem rrtc_reproducible : forall cs s1 rs1,
  run step1_rrtc (new_planner true) cs = (s1, rs1) -> Forall normal rs1 -> run step2_rrtc (new_planner true) cs = (s1, rs1).
Proof. intros cs s1 rs1. apply (run_agree step1_rrtc step2_rrtc rrtc_step_agree rrtc_step_keeps). reflexivity. Qed.

Theorem prm_reproducible : forall cs s1 rs1,
  run step1_prm (new_planner true) cs = (s1, rs1) -> Forall normal rs1 -> run step2_prm (new_planner true) cs = (s1, rs1).
Proof. intros cs s1 rs1. apply (run_agree step1_prm step2_prm prm_step_agree prm_step_keeps). reflexivity. Qed.

End Repro.

(* The wall clock only decides how many iterations run: a longer budget continues exactly where the
   shorter one timed out. *)
Section ClockPrefix.
Context {S V P : Type}.
Variable dist : S -> S -> F.
Variable interp : S -> S -> F -> S.
Variable lvs : F.
Variable valid : V -> S -> bool.
Variable goal : P -> S -> bool.
Variable u64_at : gen -> N -> N.
Variable usample : gen -> N -> option S * N.
Variable gsample : P -> gen -> N -> option S * N.
Variables maxd bias radius : F.

Notation rrt_loop := (rrt_loop dist interp lvs valid goal u64_at usample gsample maxd bias).
Notation rrtstar_loop := (rrtstar_loop dist interp lvs valid goal u64_at usample gsample maxd bias radius).
Notation rrtc_loop := (rrtc_loop dist interp lvs valid goal u64_at usample gsample maxd bias).
Notation prm_build := (prm_build dist interp lvs valid usample radius).

Lemma rrt_loop_prefix : forall n k p v t g pos t' pos',
  rrt_loop n p v t g pos = (t', pos', RErr ETimeout) ->
  rrt_loop (n + k) p v t g pos = rrt_loop k p v t' g pos'.
Proof.
  induction n as [|n IH]; intros k p v t g pos t' pos'; cbn [rrt_loop Nat.add].
  - intros E; inversion E; reflexivity.
  - destruct (draw u64_at usample gsample bias p g pos) as [[q|] pos1]; [|discriminate].
    destruct (extend dist interp lvs valid maxd v t q) as [t1 [| |re i qn]]; [discriminate|apply IH|].
    destruct (goal p qn); [|apply IH].
    destruct (reconstruct t1 (length t1 - 1)) as [[pp|]|]; discriminate.
Qed.

Lemma rrtstar_loop_prefix : forall n k p v t g pos t' pos',
  rrtstar_loop n p v t g pos = (t', pos', RErr ETimeout) ->
  rrtstar_loop (n + k) p v t g pos = rrtstar_loop k p v t' g pos'.
Proof.
  induction n as [|n IH]; intros k p v t g pos t' pos'; cbn [rrtstar_loop Nat.add].
  - intros E; inversion E; reflexivity.
  - destruct (draw u64_at usample gsample bias p g pos) as [[q|] pos1]; [|discriminate].
    destruct (rrtstar_iter dist interp lvs valid maxd radius v t q) as [t1 [| |qn]]; [discriminate|apply IH|].
    destruct (goal p qn); [|apply IH].
    destruct (reconstruct t1 (length t1 - 1)) as [[pp|]|]; discriminate.
Qed.

Lemma prm_build_prefix : forall n k v rm g pos rm' pos',
  prm_build n v rm g pos = (rm', pos', RUnit) ->
  prm_build (n + k) v rm g pos = prm_build k v rm' g pos'.
Proof.
  induction n as [|n IH]; intros k v rm g pos rm' pos'; cbn [prm_build Nat.add].
  - intros E; inversion E; reflexivity.
  - destruct (usample g pos) as [[q|] c]; [apply IH|discriminate].
Qed.

End ClockPrefix.
