(* C08 for PRM over whole API histories: with a total uniform sampler and non-empty start lists no call
   of PRM ever panics or fails to return - setup, set_problem_definition, construct_roadmap (the
   sampler's unwrap) and solve (index / parent-map lookups, path extraction). *)
From Coq Require Import ZArith NArith List Bool Floats Lia.
From OX Require Import Numerics.FloatBits Gen.Consts Planners.Model Proofs.Basics Proofs.TreeInv Proofs.PrmInv
  Proofs.ApiStruct Proofs.PrmTotal.
Import ListNotations.
Open Scope nat_scope.

Section PrmNoPanic.
Context {S V P : Type}.
Variable dist : S -> S -> F.
Variable interp : S -> S -> F -> S.
Variable lvs : F.
Variable valid : V -> S -> bool.
Variable goal : P -> S -> bool.
Variable starts : P -> list S.
Variable usample : gen -> N -> option S * N.
Variable radius : F.

Notation prm_step := (prm_step dist interp lvs valid goal starts usample radius).
Notation prm_build := (prm_build dist interp lvs valid usample radius).

Hypothesis Wsam : forall g pos, exists q c, usample g pos = (Some q, c).
Hypothesis Wst : forall p, starts p <> [].

Definition good (r : response S) : Prop := r <> RPanic /\ r <> RHang.

Lemma prm_build_good : forall fuel v rm g pos rm' pos' r,
  prm_build fuel v rm g pos = (rm', pos', r) -> good r.
Proof.
  induction fuel as [|f IH]; intros v rm g pos rm' pos' r; cbn [Model.prm_build].
  - intros E; inversion E; split; discriminate.
  - destruct (Wsam g pos) as (q & c & ->). apply IH.
Qed.

Lemma prm_step_good : forall (s : @pstate S V P) c s' r,
  InvR dist interp lvs valid radius s -> prm_step s c = (s', r) -> good r.
Proof.
  intros s c s' r Hinv. destruct c as [p v|b|b|p]; cbn [Model.prm_step].
  - intros E; inversion E; split; discriminate.
  - destruct (pd s) as [p|]; [|intros E; inversion E; split; discriminate].
    destruct (vc s) as [v|] eqn:Ev; [|intros E; inversion E; split; discriminate].
    intros E; inversion E; subst. unfold InvR in Hinv. rewrite Ev in Hinv.
    unfold good. apply (prm_query_total dist interp lvs valid goal starts radius); [exact Hinv|apply Wst].
  - destruct (pd s) as [p|]; [|intros E; inversion E; split; discriminate].
    destruct (vc s) as [v|]; [|intros E; inversion E; split; discriminate].
    destruct (roadmap s) as [|m rm]; [|intros E; inversion E; split; discriminate].
    destruct (take_rng s) as [g pos].
    destruct (prm_build b v [] g pos) as [[rm' pos'] r'] eqn:Eb.
    intros E; inversion E; subst. eapply prm_build_good; eauto.
  - intros E; inversion E; split; discriminate.
Qed.

Theorem prm_never_panics : forall sd cs s rs,
  run prm_step (new_planner sd) cs = (s, rs) -> Forall good rs.
Proof.
  intros sd cs.
  assert (H0 : InvR dist interp lvs valid radius (new_planner (S:=S) (V:=V) (P:=P) sd)) by reflexivity.
  revert H0. generalize (new_planner (S:=S) (V:=V) (P:=P) sd).
  induction cs as [|c cs IH]; intros s0 H0 s rs; cbn [run].
  - intros E; inversion E; constructor.
  - destruct (prm_step s0 c) as [s1 r] eqn:E1. destruct (run prm_step s1 cs) as [s2 rs2] eqn:E2.
    intros E; inversion E; subst. constructor; [eapply prm_step_good; eauto|].
    eapply IH; [|exact E2].
    destruct (prm_step_struct dist interp lvs valid goal starts usample radius _ _ _ _ H0 E1) as [H1 _]. exact H1.
Qed.

End PrmNoPanic.
