(* C17: RRT* choose-parent picks a cheapest valid candidate, rewiring re-parents exactly the
   neighbours that become strictly cheaper (everything else untouched), and RRT* shadows RRT:
   same node states at every iteration, recorded cost never above RRT's branch length. *)
From Coq Require Import ZArith NArith List Bool Floats Lia.
From OX Require Import Numerics.FloatBits Numerics.FloatOrder Gen.Consts Planners.Model Proofs.Basics Proofs.ValidInv
  Proofs.Prefix Proofs.TreeInv Proofs.Links Proofs.StarInv.
Import ListNotations.
Open Scope nat_scope.

Section StarSpec.
Context {S V P : Type}.
Variable dist : S -> S -> F.
Variable interp : S -> S -> F -> S.
Variable lvs : F.
Variable valid : V -> S -> bool.
Variable goal : P -> S -> bool.
Variable u64_at : gen -> N -> N.
Variable usample : gen -> N -> option S * N.
Variable gsample : P -> gen -> N -> option S * N.
Variables maxd bias radius : F.

Notation cost_via := (cost_via dist).
Notation check_motion := (check_motion dist interp lvs valid).
Notation rewire := (rewire dist interp lvs valid).
Notation choose_parent := (choose_parent dist interp lvs valid).
Notation neighbours := (neighbours dist radius).
Notation extend := (extend dist interp lvs valid maxd).
Notation rrtstar_iter := (rrtstar_iter dist interp lvs valid maxd radius).
Notation rrt_loop := (rrt_loop dist interp lvs valid goal u64_at usample gsample maxd bias).
Notation rrtstar_loop := (rrtstar_loop dist interp lvs valid goal u64_at usample gsample maxd bias radius).

Hypothesis Hd : dist_sane dist.

(* ---- choose parent: minimal cost among the nearest node and all neighbours with a valid motion ---- *)
Theorem choose_parent_min : forall v t qn nbs best bc b' c',
  SInv dist t -> PrimFloat.is_nan bc = false ->
  choose_parent v t qn nbs best bc = Some (b', c') ->
  FloatBits.fle c' bc = true /\
  forall j nj, In j nbs -> nth_error t j = Some nj -> check_motion v (st nj) qn = true ->
               FloatBits.fle c' (cost_via qn nj) = true.
Proof.
  intros v t qn nbs. induction nbs as [|j nbs IH]; intros best bc b' c' HI Hbc; cbn [Model.choose_parent].
  - intros E; inversion E; subst. split; [apply fle_refl; exact Hbc|intros j nj []].
  - destruct (nth_error t j) as [nj|] eqn:Ej; [|discriminate].
    assert (Hcj : PrimFloat.is_nan (cost_via qn nj) = false).
    { destruct (cost_via_ge dist Hd qn nj (si_cost dist t HI _ _ Ej)) as [_ H]. destruct (fle_not_nan _ _ H) as [_ H']; exact H'. }
    destruct (FloatBits.flt (cost_via qn nj) bc) eqn:Ef.
    + destruct (Model.check_motion dist interp lvs valid v (st nj) qn) eqn:Ec.
      * intros E. destruct (IH _ _ _ _ HI Hcj E) as [H1 H2]. split.
        { eapply fle_trans; [exact H1|apply flt_fle; exact Ef]. }
        { intros k nk [<-|Hk] Hnk Hck; [rewrite Ej in Hnk; inversion Hnk; subst; exact H1|eapply H2; eauto]. }
      * intros E. destruct (IH _ _ _ _ HI Hbc E) as [H1 H2]. split; [exact H1|].
        intros k nk [<-|Hk] Hnk Hck; [rewrite Ej in Hnk; inversion Hnk; subst; rewrite Ec in Hck; discriminate|eapply H2; eauto].
    + intros E. destruct (IH _ _ _ _ HI Hbc E) as [H1 H2]. split; [exact H1|].
      intros k nk [<-|Hk] Hnk Hck; [|eapply H2; eauto].
      rewrite Ej in Hnk; inversion Hnk; subst. eapply fle_trans; [exact H1|].
      apply flt_false_fle; assumption.
Qed.

(* ---- rewiring: exactly the neighbours that get strictly cheaper through the new node ---- *)
Definition rewired (v : V) (nw : node S) (j : nat) (nj : node S) : bool :=
  if (match par nw with Some pj => Nat.eqb pj j | None => false end) then false
  else if FloatBits.flt (cost_via (st nj) nw) (cost nj) then Model.check_motion dist interp lvs valid v (st nw) (st nj) else false.

Theorem rewire_spec : forall v nbs t newi nw t',
  nth_error t newi = Some nw -> NoDup nbs -> (forall j, In j nbs -> j <> newi) ->
  rewire v t newi nbs = Some t' ->
  forall k,
    (~ In k nbs -> nth_error t' k = nth_error t k) /\
    (In k nbs -> forall nk, nth_error t k = Some nk ->
       nth_error t' k = Some (if rewired v nw k nk then mkNode S (st nk) (Some newi) (cost_via (st nk) nw) else nk)).
Proof.
  intros v nbs. induction nbs as [|j nbs IH]; intros t newi nw t' Hn Hnd Hne; cbn [Model.rewire].
  - intros E; inversion E; subst. intros k. split; [reflexivity|intros []].
  - rewrite Hn. destruct (nth_error t j) as [nj|] eqn:Hj; [|discriminate].
    inversion Hnd as [|? ? Hnotin Hnd']; subst.
    assert (Hjn : j <> newi) by (apply Hne; left; reflexivity).
    assert (Hne' : forall k, In k nbs -> k <> newi) by (intros k Hk; apply Hne; right; exact Hk).
    unfold rewired.
    destruct (match par nw with Some pj => Nat.eqb pj j | None => false end) eqn:Epar.
    + intros E k. destruct (IH t newi nw t' Hn Hnd' Hne' E k) as [A B]. split.
      * intros Hk. apply A. intros Hin; apply Hk; right; exact Hin.
      * intros [<-|Hk] nk Hnk; [|apply B; assumption].
        rewrite A by exact Hnotin. rewrite Hnk. unfold rewired. rewrite Epar. reflexivity.
    + destruct (FloatBits.flt (cost_via (st nj) nw) (cost nj)) eqn:Ef.
      * destruct (Model.check_motion dist interp lvs valid v (st nw) (st nj)) eqn:Ec.
        { intros E k.
          assert (Hn' : nth_error (set_nth t j (mkNode S (st nj) (Some newi) (cost_via (st nj) nw))) newi = Some nw)
            by (rewrite nth_error_set_nth_other by lia; exact Hn).
          destruct (IH _ newi nw t' Hn' Hnd' Hne' E k) as [A B]. split.
          - intros Hk. rewrite A by (intros Hin; apply Hk; right; exact Hin).
            apply nth_error_set_nth_other. intros ->. apply Hk; left; reflexivity.
          - intros [<-|Hk] nk Hnk.
            + rewrite A by exact Hnotin. rewrite Hj in Hnk; inversion Hnk; subst nk.
              rewrite (nth_error_set_nth_same _ _ _ _ Hj). unfold rewired. rewrite Epar, Ef, Ec. reflexivity.
            + assert (k <> j) by (intros ->; contradiction).
              apply B; [exact Hk|]. rewrite nth_error_set_nth_other by assumption. exact Hnk. }
        { intros E k. destruct (IH t newi nw t' Hn Hnd' Hne' E k) as [A B]. split.
          - intros Hk. apply A. intros Hin; apply Hk; right; exact Hin.
          - intros [<-|Hk] nk Hnk; [|apply B; assumption].
            rewrite A by exact Hnotin. rewrite Hnk. rewrite Hj in Hnk; inversion Hnk; subst nk.
            unfold rewired. rewrite Epar, Ef, Ec. reflexivity. }
      * intros E k. destruct (IH t newi nw t' Hn Hnd' Hne' E k) as [A B]. split.
        { intros Hk. apply A. intros Hin; apply Hk; right; exact Hin. }
        { intros [<-|Hk] nk Hnk; [|apply B; assumption].
          rewrite A by exact Hnotin. rewrite Hnk. rewrite Hj in Hnk; inversion Hnk; subst nk.
          unfold rewired. rewrite Epar, Ef. reflexivity. }
Qed.

(* ---- RRT* shadows RRT ---- *)
Lemma nearest_from_states : forall q (l1 l2 : list (node S)) i bi bd,
  states l1 = states l2 -> nearest_from dist q l1 i bi bd = nearest_from dist q l2 i bi bd.
Proof.
  intros q l1. induction l1 as [|n1 l1 IH]; intros [|n2 l2] i bi bd H; cbn in H; try discriminate; [reflexivity|].
  injection H as H1 H2. cbn [nearest_from]. rewrite H1. destruct (FloatBits.flt _ _); apply IH; exact H2.
Qed.

Lemma nearest_states : forall (t1 t2 : list (node S)) q, states t1 = states t2 -> nearest dist t1 q = nearest dist t2 q.
Proof.
  intros [|n1 l1] [|n2 l2] q H; cbn in H; try discriminate; [reflexivity|].
  injection H as H1 H2. unfold nearest. rewrite H1. f_equal. apply nearest_from_states; exact H2.
Qed.

Lemma states_nth : forall (t1 t2 : list (node S)) i n1, states t1 = states t2 -> nth_error t1 i = Some n1 ->
  exists n2, nth_error t2 i = Some n2 /\ st n2 = st n1.
Proof.
  intros t1 t2 i n1 H Hn. assert (E : nth_error (states t1) i = Some (st n1)) by (unfold states; rewrite nth_error_map, Hn; reflexivity).
  rewrite H in E. unfold states in E. rewrite nth_error_map in E. destruct (nth_error t2 i) as [n2|]; cbn in E; [|discriminate].
  exists n2. split; [reflexivity|]. inversion E; reflexivity.
Qed.

(* one iteration: both add the same state or both add nothing *)
Definition same_outcome (r1 : @ext_res S) (r2 : @star_res S) : Prop :=
  match r1, r2 with
  | ExtNone, StarNone => True
  | ExtAdded _ _ q1, StarAdded q2 => q1 = q2
  | ExtPanic, StarPanic => True
  | _, _ => False
  end.

Lemma choose_parent_some : forall v t qn nbs best bc,
  (forall j, In j nbs -> exists nj, nth_error t j = Some nj) ->
  exists b' c', choose_parent v t qn nbs best bc = Some (b', c').
Proof.
  intros v t qn nbs. induction nbs as [|j nbs IH]; intros best bc H; cbn [Model.choose_parent]; [eexists _, _; reflexivity|].
  destruct (H j (or_introl eq_refl)) as [nj ->].
  assert (H' : forall k, In k nbs -> exists nk, nth_error t k = Some nk) by (intros k Hk; apply H; right; exact Hk).
  destruct (if FloatBits.flt _ _ then _ else false); apply IH; exact H'.
Qed.

Lemma rewire_some : forall v nbs t newi nw,
  nth_error t newi = Some nw -> (forall j, In j nbs -> j <> newi /\ exists nj, nth_error t j = Some nj) ->
  exists t', rewire v t newi nbs = Some t'.
Proof.
  intros v nbs. induction nbs as [|j nbs IH]; intros t newi nw Hn H; cbn [Model.rewire]; [eexists; reflexivity|].
  rewrite Hn. destruct (H j (or_introl eq_refl)) as (Hjn & nj & Hj). rewrite Hj.
  assert (H' : forall k, In k nbs -> k <> newi /\ exists nk, nth_error t k = Some nk) by (intros k Hk; apply H; right; exact Hk).
  destruct (match par nw with Some pj => Nat.eqb pj j | None => false end); [apply (IH t newi nw); assumption|].
  destruct (if FloatBits.flt _ _ then _ else false); [|apply (IH t newi nw); assumption].
  apply (IH _ newi nw).
  - rewrite nth_error_set_nth_other by lia. exact Hn.
  - intros k Hk. destruct (H' k Hk) as (A & nk & B). split; [exact A|].
    destruct (Nat.eq_dec k j) as [->|Hkj].
    + eexists. eapply nth_error_set_nth_same; eauto.
    + exists nk. rewrite nth_error_set_nth_other by exact Hkj. exact B.
Qed.

Theorem shadow_iter : forall v t1 t2 q t1' r1 t2' r2,
  states t1 = states t2 ->
  extend v t1 q = (t1', r1) -> rrtstar_iter v t2 q = (t2', r2) ->
  states t1' = states t2' /\ same_outcome r1 r2.
Proof.
  intros v t1 t2 q t1' r1 t2' r2 Hs. unfold Model.extend, Model.rrtstar_iter.
  rewrite (nearest_states t1 t2 q Hs).
  destruct (nearest dist t2 q) as [[i d]|] eqn:En.
  2:{ intros E1 E2; inversion E1; inversion E2; subst. split; [exact Hs|exact I]. }
  destruct (nearest_in dist _ _ _ _ En) as (n2 & Hn2 & _). rewrite Hn2.
  symmetry in Hs. destruct (states_nth t2 t1 i n2 Hs Hn2) as (n1 & Hn1 & Hst). symmetry in Hs. rewrite Hn1, Hst.
  destruct (steer interp maxd (st n2) q d) as [qn re].
  destruct (Model.check_motion dist interp lvs valid v (st n2) qn) eqn:Ec; cbn [negb].
  2:{ intros E1 E2; inversion E1; inversion E2; subst. split; [exact Hs|exact I]. }
  intros E1; inversion E1; subst; clear E1.
  destruct (choose_parent_some v t2 qn (neighbours t2 qn) i (cost_via qn n2)) as (best & bc & ->).
  { intros j Hj. destruct (neighbours_in dist radius _ _ _ Hj) as (nj & Hnj & _). exists nj; exact Hnj. }
  destruct (rewire_some v (neighbours t2 qn) (t2 ++ [mkNode S qn (Some best) bc]) (length t2) (mkNode S qn (Some best) bc)) as [t2r Er].
  { apply nth_error_app_last. }
  { intros j Hj. destruct (neighbours_in dist radius _ _ _ Hj) as (nj & Hnj & _).
    assert (j < length t2) by (apply nth_error_Some; rewrite Hnj; discriminate).
    split; [lia|]. exists nj. rewrite nth_error_app1 by lia. exact Hnj. }
  rewrite Er. intros E2; inversion E2; subst. split; [|reflexivity].
  rewrite (rewire_states dist interp lvs valid _ _ _ _ _ Er). unfold states. rewrite !map_app. cbn.
  unfold states in Hs. rewrite Hs. reflexivity.
Qed.

(* the whole loops: same states, same stream position, same verdict at the same iteration *)
Definition same_verdict (r1 r2 : response S) : Prop :=
  match r1, r2 with
  | RErr e1, RErr e2 => e1 = e2
  | RErr _, _ | _, RErr _ => False
  | RUnit, _ | _, RUnit => False
  | _, _ => True     (* both ended in the same iteration: goal reached (path / hang) or the same panic *)
  end.

Theorem shadow_loop : forall fuel p v t1 t2 g pos t1' pos1 r1 t2' pos2 r2,
  states t1 = states t2 ->
  rrt_loop fuel p v t1 g pos = (t1', pos1, r1) -> rrtstar_loop fuel p v t2 g pos = (t2', pos2, r2) ->
  states t1' = states t2' /\ pos1 = pos2 /\ same_verdict r1 r2.
Proof.
  induction fuel as [|f IH]; intros p v t1 t2 g pos t1' pos1 r1 t2' pos2 r2 Hs; cbn [Model.rrt_loop Model.rrtstar_loop].
  - intros E1 E2; inversion E1; inversion E2; subst. repeat split; assumption.
  - destruct (draw u64_at usample gsample bias p g pos) as [[q|] posn].
    2:{ intros E1 E2; inversion E1; inversion E2; subst. repeat split; assumption. }
    destruct (extend v t1 q) as [t1a ra] eqn:Ea. destruct (rrtstar_iter v t2 q) as [t2a rb] eqn:Eb.
    destruct (shadow_iter _ _ _ _ _ _ _ _ Hs Ea Eb) as [Hs' Ho].
    destruct ra as [| |re i q1]; destruct rb as [| |q2]; cbn in Ho; try contradiction.
    + intros E1 E2; inversion E1; inversion E2; subst. repeat split; assumption.
    + apply IH; exact Hs'.
    + subst q2. destruct (goal p q1); [|apply IH; exact Hs'].
      intros E1 E2; inversion E1; inversion E2; subst. split; [exact Hs'|]. split; [reflexivity|].
      destruct (reconstruct t1' _) as [[p1|]|]; destruct (reconstruct t2' _) as [[p2|]|]; exact I.
Qed.

(* ---- recorded RRT* cost never exceeds the length of the corresponding RRT branch ---- *)
Definition cost_le (t1 t2 : list (node S)) : Prop :=
  forall k n2 L, nth_error t2 k = Some n2 -> branch_len dist t1 k L -> FloatBits.fle (cost n2) L = true.

Definition par_in_range (t : list (node S)) : Prop :=
  forall i n p, nth_error t i = Some n -> par n = Some p -> p < length t.

Lemma branch_len_app_inv : forall t x k L, par_in_range t -> k < length t ->
  branch_len dist (t ++ [x]) k L -> branch_len dist t k L.
Proof.
  intros t x k L Hr Hk H. induction H as [i n Hn Hp|i n p np L Hn Hp Hnp Hb IH].
  - rewrite nth_error_app1 in Hn by exact Hk. eapply bl_root; eauto.
  - rewrite nth_error_app1 in Hn by exact Hk.
    assert (p < length t) by (eapply Hr; eauto). rewrite nth_error_app1 in Hnp by assumption.
    eapply bl_step; eauto.
Qed.

Lemma rewire_cost_le : forall v nbs t newi t',
  (forall i n, nth_error t i = Some n -> PrimFloat.is_nan (cost n) = false) ->
  rewire v t newi nbs = Some t' ->
  forall k nk', nth_error t' k = Some nk' -> exists nk, nth_error t k = Some nk /\ FloatBits.fle (cost nk') (cost nk) = true.
Proof.
  intros v nbs. induction nbs as [|j nbs IH]; intros t newi t' Hnn; cbn [Model.rewire].
  - intros E; inversion E; subst. intros k nk' H. exists nk'. split; [exact H|apply fle_refl; eapply Hnn; eauto].
  - destruct (nth_error t newi) as [nw|] eqn:Hn; [|discriminate].
    destruct (nth_error t j) as [nj|] eqn:Hj; [|discriminate].
    destruct (match par nw with Some pj => Nat.eqb pj j | None => false end); [apply IH; exact Hnn|].
    destruct (FloatBits.flt (cost_via (st nj) nw) (cost nj)) eqn:Ef; [|apply IH; exact Hnn].
    destruct (Model.check_motion dist interp lvs valid v (st nw) (st nj)); [|apply IH; exact Hnn].
    intros E k nk' Hk.
    assert (Hnn' : forall i n, nth_error (set_nth t j (mkNode S (st nj) (Some newi) (cost_via (st nj) nw))) i = Some n ->
                               PrimFloat.is_nan (cost n) = false).
    { intros i n Hi. destruct (Nat.eq_dec i j) as [->|Hij].
      - rewrite (nth_error_set_nth_same _ _ _ _ Hj) in Hi. inversion Hi; subst; cbn.
        destruct (flt_not_nan _ _ Ef) as [H _]; exact H.
      - rewrite nth_error_set_nth_other in Hi by exact Hij. eapply Hnn; eauto. }
    destruct (IH _ _ _ Hnn' E k nk' Hk) as (nk & Hnk & Hle).
    destruct (Nat.eq_dec k j) as [->|Hkj].
    + rewrite (nth_error_set_nth_same _ _ _ _ Hj) in Hnk. inversion Hnk; subst nk. cbn in Hle.
      exists nj. split; [exact Hj|]. eapply fle_trans; [exact Hle|apply flt_fle; exact Ef].
    + rewrite nth_error_set_nth_other in Hnk by exact Hkj. exists nk. split; assumption.
Qed.

Theorem shadow_iter_cost : forall v t1 t2 q t1' r1 t2' r2,
  SInv dist t2 -> par_in_range t1 -> states t1 = states t2 -> cost_le t1 t2 ->
  extend v t1 q = (t1', r1) -> rrtstar_iter v t2 q = (t2', r2) -> cost_le t1' t2'.
Proof.
  intros v t1 t2 q t1' r1 t2' r2 HI Hr Hs Hc. unfold Model.extend, Model.rrtstar_iter.
  rewrite (nearest_states t1 t2 q Hs).
  destruct (nearest dist t2 q) as [[i d]|] eqn:En.
  2:{ intros E1 E2; inversion E1; inversion E2; subst. exact Hc. }
  destruct (nearest_in dist _ _ _ _ En) as (n2 & Hn2 & _). rewrite Hn2.
  symmetry in Hs. destruct (states_nth t2 t1 i n2 Hs Hn2) as (n1 & Hn1 & Hst). symmetry in Hs. rewrite Hn1, Hst.
  destruct (steer interp maxd (st n2) q d) as [qn re].
  destruct (Model.check_motion dist interp lvs valid v (st n2) qn) eqn:Ec; cbn [negb].
  2:{ intros E1 E2; inversion E1; inversion E2; subst. exact Hc. }
  intros E1; injection E1 as Ea1 Eb1; subst t1' r1.
  destruct (choose_parent v t2 qn (neighbours t2 qn) i (cost_via qn n2)) as [[best bc]|] eqn:Ecp.
  2:{ intros E2; injection E2 as Ea2 Eb2; subst t2' r2. intros k n2' L Hk Hb.
      assert (Hlen : length t1 = length t2) by (unfold states in Hs; rewrite <- (map_length st t1), Hs, map_length; reflexivity).
      assert (k < length t1) by (rewrite Hlen; apply nth_error_Some; rewrite Hk; discriminate).
      eapply Hc; [exact Hk|]. eapply branch_len_app_inv; eauto. }
  assert (Hbc0 : PrimFloat.is_nan (cost_via qn n2) = false).
  { destruct (cost_via_ge dist Hd qn n2 (si_cost dist t2 HI _ _ Hn2)) as [_ H]. destruct (fle_not_nan _ _ H) as [_ H']; exact H'. }
  destruct (choose_parent_min v t2 qn _ _ _ _ _ HI Hbc0 Ecp) as [Hmin _].
  destruct (choose_parent_cost dist interp lvs valid _ _ _ _ _ _ _ _ (ex_intro _ n2 (conj Hn2 eq_refl)) Ecp) as (nb & Hnb & Ebc).
  pose proof (push_SInv dist Hd t2 qn best nb HI Hnb) as HI1. rewrite <- Ebc in HI1.
  assert (Hlen : length t1 = length t2) by (unfold states in Hs; rewrite <- (map_length st t1), Hs, map_length; reflexivity).
  destruct (rewire v _ (length t2) (neighbours t2 qn)) as [t2r|] eqn:Er; intros E2; injection E2 as Ea2 Eb2; subst t2' r2.
  - intros k nk' L Hk Hb.
    assert (Hnn : forall i0 n, nth_error (t2 ++ [mkNode S qn (Some best) bc]) i0 = Some n -> PrimFloat.is_nan (cost n) = false).
    { intros i0 n Hi0. destruct (fle_not_nan _ _ (si_cost dist _ HI1 _ _ Hi0)) as [_ H]; exact H. }
    destruct (rewire_cost_le v _ _ _ _ Hnn Er k nk' Hk) as (nk & Hnk & Hle).
    eapply fle_trans; [exact Hle|]. clear Hle Hk nk'.
    apply nth_error_snoc in Hnk. destruct Hnk as [[Hlt Hnk]|[-> ->]].
    + eapply Hc; [exact Hnk|]. eapply branch_len_app_inv; [exact Hr|rewrite Hlen; exact Hlt|exact Hb].
    + cbn [cost]. rewrite <- Hlen in Hb.
      inversion Hb as [k' n Hn' Hp'|k' n p np L0 Hn' Hp' Hnp' Hb0]; subst.
      * rewrite nth_error_app_last in Hn'. inversion Hn'; subst n. discriminate.
      * rewrite nth_error_app_last in Hn'. inversion Hn'; subst n. cbn in Hp'. inversion Hp'; subst p.
        assert (Hi1 : i < length t1) by (apply nth_error_Some; rewrite Hn1; discriminate).
        rewrite nth_error_app1 in Hnp' by exact Hi1. rewrite Hn1 in Hnp'; inversion Hnp'; subst np.
        apply (branch_len_app_inv t1 _ i L0 Hr Hi1) in Hb0. cbn [st].
        eapply fle_trans; [exact Hmin|]. unfold Model.cost_via. rewrite Hst.
        apply fadd_mono_l; [eapply (si_cost dist t2 HI); eauto|eapply Hc; eauto|apply Hd].
  - intros k nk' L Hk Hb.
    apply nth_error_snoc in Hk. destruct Hk as [[Hlt Hnk]|[-> ->]].
    + eapply Hc; [exact Hnk|]. eapply branch_len_app_inv; [exact Hr|rewrite Hlen; exact Hlt|exact Hb].
    + cbn [cost]. rewrite <- Hlen in Hb.
      inversion Hb as [k' n Hn' Hp'|k' n p np L0 Hn' Hp' Hnp' Hb0]; subst.
      * rewrite nth_error_app_last in Hn'. inversion Hn'; subst n. discriminate.
      * rewrite nth_error_app_last in Hn'. inversion Hn'; subst n. cbn in Hp'. inversion Hp'; subst p.
        assert (Hi1 : i < length t1) by (apply nth_error_Some; rewrite Hn1; discriminate).
        rewrite nth_error_app1 in Hnp' by exact Hi1. rewrite Hn1 in Hnp'; inversion Hnp'; subst np.
        apply (branch_len_app_inv t1 _ i L0 Hr Hi1) in Hb0. cbn [st].
        eapply fle_trans; [exact Hmin|]. unfold Model.cost_via. rewrite Hst.
        apply fadd_mono_l; [eapply (si_cost dist t2 HI); eauto|eapply Hc; eauto|apply Hd].
Qed.

End StarSpec.
