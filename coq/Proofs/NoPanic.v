(* C08: error reporting for API misuse, and absence of panics on well-formed inputs. *)
From Coq Require Import ZArith NArith List Bool Floats Lia.
From OX Require Import Numerics.FloatBits Gen.Consts Planners.Model Proofs.Basics Proofs.ValidInv Proofs.Prefix
  Proofs.TreeInv Proofs.Links Proofs.PathFacts Proofs.ApiValid Proofs.PrmInv Proofs.ApiStruct Proofs.StarInv Proofs.StarSpec.
Import ListNotations.
Open Scope nat_scope.

Section NoPanic.
Context {S V P : Type}.
Variable dist : S -> S -> F.
Variable interp : S -> S -> F -> S.
Variable lvs : F.
Variable valid : V -> S -> bool.
Variable goal : P -> S -> bool.
Variable starts : P -> list S.
Variable u64_at : gen -> N -> N.
Variable usample : gen -> N -> option S * N.
Variable gsample : P -> gen -> N -> option S * N.
Variables maxd bias radius : F.

Notation pstate := (@pstate S V P).
Notation rrt_step := (rrt_step dist interp lvs valid goal starts u64_at usample gsample maxd bias).
Notation rrtstar_step := (rrtstar_step dist interp lvs valid goal starts u64_at usample gsample maxd bias radius).
Notation rrtc_step := (rrtc_step dist interp lvs valid goal starts u64_at usample gsample maxd bias).
Notation prm_step := (prm_step dist interp lvs valid goal starts usample radius).
Notation extend := (extend dist interp lvs valid maxd).
Notation draw := (draw u64_at usample gsample bias).
Notation rrt_loop := (rrt_loop dist interp lvs valid goal u64_at usample gsample maxd bias).
Notation rrtstar_iter := (rrtstar_iter dist interp lvs valid maxd radius).
Notation rrtstar_loop := (rrtstar_loop dist interp lvs valid goal u64_at usample gsample maxd bias radius).
Notation rrtc_loop := (rrtc_loop dist interp lvs valid goal u64_at usample gsample maxd bias).

(* ---- misuse is reported as the documented error, in ANY planner state ---- *)
Lemma rrt_uninit : forall (s : pstate) b, pd s = None -> rrt_step s (CSolve b) = (s, RErr EUninit).
Proof. intros s b H. cbn. unfold tree_solve. rewrite H. reflexivity. Qed.
Lemma rrtstar_uninit : forall (s : pstate) b, pd s = None -> rrtstar_step s (CSolve b) = (s, RErr EUninit).
Proof. intros s b H. cbn. unfold tree_solve. rewrite H. reflexivity. Qed.
Lemma rrtc_uninit : forall (s : pstate) b, pd s = None -> rrtc_step s (CSolve b) = (s, RErr EUninit).
Proof. intros s b H. cbn. unfold rrtc_solve. rewrite H. reflexivity. Qed.
Lemma prm_uninit_solve : forall (s : pstate) b, pd s = None \/ vc s = None -> prm_step s (CSolve b) = (s, RErr EUninit).
Proof. intros s b [H|H]; cbn; rewrite H; [reflexivity|]. destruct (pd s); reflexivity. Qed.
Lemma prm_uninit_construct : forall (s : pstate) b, pd s = None \/ vc s = None -> prm_step s (CConstruct b) = (s, RErr EUninit).
Proof. intros s b [H|H]; cbn; rewrite H; [reflexivity|]. destruct (pd s); reflexivity. Qed.
Lemma prm_unsampled : forall (s : pstate) b p v, pd s = Some p -> vc s = Some v -> roadmap s = [] ->
  prm_step s (CSolve b) = (s, RErr EUnsampled).
Proof. intros s b p v Hp Hv Hr. cbn. rewrite Hp, Hv, Hr. reflexivity. Qed.

(* ---- well-formed inputs ---- *)
Definition samplers_total : Prop :=
  (forall g pos, exists q c, usample g pos = (Some q, c)) /\
  (forall p g pos, exists q c, gsample p g pos = (Some q, c)).
Definition bias_in_range : Prop :=
  (if fle zero bias then flt bias one else false) = true \/ PrimFloat.eqb bias one = true.
Definition starts_nonempty : Prop := forall p, starts p <> [].

Hypothesis Wsam : samplers_total.
Hypothesis Wbias : bias_in_range.
Hypothesis Wst : starts_nonempty.

Lemma draw_ok : forall p g pos, exists q pos', draw p g pos = (Some q, pos').
Proof.
  intros p g pos. unfold Model.draw, random_bool. destruct Wsam as [Hu Hg].
  destruct (if fle zero bias then flt bias one else false) eqn:E1.
  - cbn. destruct (N.ltb _ _).
    + destruct (Hg p g (pos + 1)%N) as (q & c & ->). eexists _, _; reflexivity.
    + destruct (Hu g (pos + 1)%N) as (q & c & ->). eexists _, _; reflexivity.
  - destruct Wbias as [H|H]; [rewrite E1 in H; discriminate|]. rewrite H. cbn.
    destruct (Hg p g pos) as (q & c & ->). eexists _, _; reflexivity.
Qed.

Lemma extend_no_panic : forall v t q t', t <> [] -> extend v t q <> (t', ExtPanic).
Proof.
  intros v t q t' Hne. unfold Model.extend.
  destruct (nearest dist t q) as [[i d]|] eqn:En.
  - destruct (nearest_in dist _ _ _ _ En) as (nn & Hnn & _). rewrite Hnn.
    destruct (steer interp maxd (st nn) q d) as [qn re]. destruct (Model.check_motion _ _ _ _ _ _ _); discriminate.
  - unfold nearest in En. destruct t; [contradiction|discriminate].
Qed.

Definition good (r : response S) : Prop := r <> RPanic /\ r <> RHang.

Lemma resp_ord_good : forall t i, OrdInv t -> i < length t -> good (resp_of_path (reconstruct t i)).
Proof.
  intros t i Ht Hi. destruct (reconstruct_ord_terminates t i Ht Hi) as [p ->]. split; discriminate.
Qed.

Lemma extends_nonempty : forall (t t' : list (node S)), extends_ t t' -> t <> [] -> t' <> [].
Proof. intros t t' H Hne. apply extends_length in H. destruct t; [contradiction|]. destruct t'; cbn in *; [lia|discriminate]. Qed.

Lemma rrt_loop_good : forall fuel p v t g pos t' pos' r,
  t <> [] -> OrdInv t -> LinkInv (link_rrt dist interp lvs valid maxd v) t ->
  rrt_loop fuel p v t g pos = (t', pos', r) -> good r.
Proof.
  induction fuel as [|f IH]; intros p v t g pos t' pos' r Hne HO HL; cbn [Model.rrt_loop].
  - intros E; inversion E; split; discriminate.
  - destruct (draw_ok p g pos) as (q & pos1 & ->).
    destruct (extend v t q) as [t1 er] eqn:Ee.
    destruct (extend_inv dist interp lvs valid maxd _ _ _ _ _ HL HO Ee) as [HL1 HO1].
    pose proof (extends_nonempty _ _ (extend_extends dist interp lvs valid maxd _ _ _ _ _ Ee) Hne) as Hne1.
    destruct er as [| |re i qn].
    + exfalso. exact (extend_no_panic _ _ _ _ Hne Ee).
    + apply IH; assumption.
    + destruct (goal p qn); [|apply IH; assumption].
      intros E; inversion E; subst. apply resp_ord_good; [exact HO1|]. destruct t'; [contradiction|cbn; lia].
Qed.

Lemma join_good : forall ts tg i j, OrdInv ts -> OrdInv tg -> i < length ts -> j < length tg ->
  good (join_paths (reconstruct ts i) (reconstruct tg j)).
Proof.
  intros ts tg i j Hs Hg Hi Hj.
  destruct (reconstruct_ord_terminates ts i Hs Hi) as [a ->].
  destruct (reconstruct_ord_terminates tg j Hg Hj) as [b ->]. split; discriminate.
Qed.

Lemma rrtc_loop_good : forall fuel p v ts tg g pos ts' tg' pos' r,
  ts <> [] -> tg <> [] -> OrdInv ts -> LinkInv (link_rrt dist interp lvs valid maxd v) ts ->
  OrdInv tg -> LinkInv (link_rrt dist interp lvs valid maxd v) tg ->
  rrtc_loop fuel p v ts tg g pos = (ts', tg', pos', r) -> good r.
Proof.
  induction fuel as [|f IH]; intros p v ts tg g pos ts' tg' pos' r Hns Hng HOs HLs HOg HLg; cbn [Model.rrtc_loop].
  - intros E; inversion E; split; discriminate.
  - destruct (draw_ok p g pos) as (q & pos1 & ->).
    destruct (Nat.leb (length ts) (length tg)).
    + destruct (extend v ts q) as [ts1 er] eqn:Ee.
      destruct (extend_inv dist interp lvs valid maxd _ _ _ _ _ HLs HOs Ee) as [HL1 HO1].
      pose proof (extends_nonempty _ _ (extend_extends dist interp lvs valid maxd _ _ _ _ _ Ee) Hns) as Hne1.
      pose proof (extend_spec dist interp lvs valid maxd _ _ _ _ _ Ee) as Hsp.
      destruct er as [| |re ia qn].
      * exfalso. exact (extend_no_panic _ _ _ _ Hns Ee).
      * apply IH; assumption.
      * destruct Hsp as (i0 & nn & Hnn & Et1 & Eia & _).
        assert (Hia : ia < length ts1) by (rewrite Et1, Eia, app_length; cbn; lia).
        destruct (goal p qn).
        { intros E; inversion E; subst. apply resp_ord_good; assumption. }
        destruct (extend v tg qn) as [tg1 er2] eqn:Ee2.
        destruct (extend_inv dist interp lvs valid maxd _ _ _ _ _ HLg HOg Ee2) as [HL2 HO2].
        pose proof (extends_nonempty _ _ (extend_extends dist interp lvs valid maxd _ _ _ _ _ Ee2) Hng) as Hne2.
        pose proof (extend_spec dist interp lvs valid maxd _ _ _ _ _ Ee2) as Hsp2.
        destruct er2 as [| |[|] ib qn2].
        { exfalso. exact (extend_no_panic _ _ _ _ Hng Ee2). }
        { apply IH; assumption. }
        { destruct Hsp2 as (j0 & nj & Hnj & Et2 & Eib & _).
          intros E; inversion E; subst r ts' tg'. apply join_good; try assumption.
          rewrite Et2, Eib, app_length; cbn; lia. }
        { apply IH; assumption. }
    + destruct (extend v tg q) as [tg1 er] eqn:Ee.
      destruct (extend_inv dist interp lvs valid maxd _ _ _ _ _ HLg HOg Ee) as [HL1 HO1].
      pose proof (extends_nonempty _ _ (extend_extends dist interp lvs valid maxd _ _ _ _ _ Ee) Hng) as Hne1.
      pose proof (extend_spec dist interp lvs valid maxd _ _ _ _ _ Ee) as Hsp.
      destruct er as [| |re ia qn].
      * exfalso. exact (extend_no_panic _ _ _ _ Hng Ee).
      * apply IH; assumption.
      * destruct Hsp as (i0 & nn & Hnn & Et1 & Eia & _).
        assert (Hia : ia < length tg1) by (rewrite Et1, Eia, app_length; cbn; lia).
        destruct (extend v ts qn) as [ts1 er2] eqn:Ee2.
        destruct (extend_inv dist interp lvs valid maxd _ _ _ _ _ HLs HOs Ee2) as [HL2 HO2].
        pose proof (extends_nonempty _ _ (extend_extends dist interp lvs valid maxd _ _ _ _ _ Ee2) Hns) as Hne2.
        pose proof (extend_spec dist interp lvs valid maxd _ _ _ _ _ Ee2) as Hsp2.
        destruct er2 as [| |[|] ib qn2].
        { exfalso. exact (extend_no_panic _ _ _ _ Hns Ee2). }
        { apply IH; assumption. }
        { destruct Hsp2 as (j0 & nj & Hnj & Et2 & Eib & _).
          intros E; inversion E; subst r ts' tg'. apply join_good; try assumption.
          rewrite Et2, Eib, app_length; cbn; lia. }
        { apply IH; assumption. }
Qed.

(* ---- API level: RRT and RRT-Connect never panic or hang on well-formed inputs ---- *)
Definition InvN (s : pstate) : Prop :=
  match pd s, vc s with
  | Some p, Some v => I_rrt dist interp lvs valid maxd v (tree s) /\ tree s <> []
  | None, None => True
  | _, _ => False
  end.

Lemma rrt_step_good : forall s c s' r, InvN s -> rrt_step s c = (s', r) -> InvN s' /\ good r.
Proof.
  intros s c s' r HN. destruct c as [p v|b|b|p]; cbn [Model.rrt_step].
  - unfold tree_setup. destruct (starts p) as [|s0 rest] eqn:Es; [exfalso; eapply Wst; eauto|].
    intros E; inversion E; subst. split; [|split; discriminate]. unfold InvN; cbn.
    split; [apply I_rrt_root|discriminate].
  - intros E. pose proof E as E0. apply (tree_solve_cases valid starts) in E. destruct E as [[-> Hnp]|E].
    + split; [exact HN|]. unfold tree_solve in E0. unfold InvN in HN.
      destruct (pd s) as [p|]; destruct (vc s) as [v|]; try contradiction; [|inversion E0; split; discriminate].
      destruct (starts p) as [|s0 rest] eqn:Es; [exfalso; eapply Wst; eauto|].
      destruct (negb (valid v s0)); [inversion E0; split; discriminate|].
      destruct (take_rng s) as [g pos]. destruct (Model.rrt_loop _ _ _ _ _ _ _ _ _ _ _ _ _ _ _ _) as [[t' pos'] r'] eqn:El.
      inversion E0; subst. destruct HN as [[HL HO] Hne]. eapply rrt_loop_good; eauto.
    + destruct E as (p & v & s0 & rest & g & pos & t' & pos' & Ep & Ev & Es & Es0 & El & Ep' & Ev' & Et' & _).
      unfold InvN in *. rewrite Ep, Ev in HN. rewrite Ep', Ev', Et'. destruct HN as [[HL HO] Hne].
      destruct (rrt_loop_inv dist interp lvs valid goal u64_at usample gsample maxd bias _ _ _ _ _ _ _ _ _ HL HO El) as [HL' HO'].
      split; [split; [split; assumption|]|eapply rrt_loop_good; eauto].
      eapply extends_nonempty; [eapply rrt_loop_extends; eauto|exact Hne].
  - intros E; inversion E; subst. split; [exact HN|split; discriminate].
  - intros E; inversion E; subst. split; [exact HN|split; discriminate].
Qed.

Theorem rrt_never_panics : forall sd cs s rs,
  run rrt_step (new_planner sd) cs = (s, rs) -> Forall good rs.
Proof.
  intros sd cs. generalize (new_planner (S:=S) (V:=V) (P:=P) sd), (I : InvN (new_planner sd)).
  induction cs as [|c cs IH]; intros s0 H0 s rs; cbn [run].
  - intros E; inversion E; constructor.
  - destruct (rrt_step s0 c) as [s1 r] eqn:E1. destruct (run rrt_step s1 cs) as [s2 rs2] eqn:E2.
    intros E; inversion E; subst. destruct (rrt_step_good _ _ _ _ H0 E1) as [H1 Hg].
    constructor; [exact Hg|]. eapply IH; eauto.
Qed.

Definition InvNC (s : pstate) : Prop :=
  match pd s, vc s with
  | Some p, Some v => I_rrt dist interp lvs valid maxd v (tree s) /\ tree s <> [] /\
                      I_rrt dist interp lvs valid maxd v (gtree s) /\ gtree s <> []
  | None, None => True
  | _, _ => False
  end.

Lemma rrtc_step_good : forall s c s' r, InvNC s -> rrtc_step s c = (s', r) -> InvNC s' /\ good r.
Proof.
  intros s c s' r HN. destruct c as [p v|b|b|p]; cbn [Model.rrtc_step].
  - unfold rrtc_setup. destruct (starts p) as [|s0 rest] eqn:Es; [exfalso; eapply Wst; eauto|].
    destruct (take_rng s) as [g pos]. destruct Wsam as [_ Hg]. destruct (Hg p g pos) as (gs & c & ->).
    intros E; inversion E; subst. split; [|split; discriminate]. unfold InvNC; cbn.
    split; [apply I_rrt_root|]. split; [discriminate|]. split; [apply I_rrt_root|discriminate].
  - intros E. pose proof E as E0. apply rrtc_solve_cases in E. destruct E as [[-> Hnp]|E].
    + split; [exact HN|]. unfold rrtc_solve in E0. unfold InvNC in HN.
      destruct (pd s) as [p|]; destruct (vc s) as [v|]; try contradiction; [|inversion E0; split; discriminate].
      destruct (starts p) as [|s0 rest] eqn:Es; [exfalso; eapply Wst; eauto|].
      destruct (negb (valid v s0)); [inversion E0; split; discriminate|].
      destruct HN as ((HLs & HOs) & Hns & (HLg & HOg) & Hng).
      destruct (gtree s) as [|g0 gr] eqn:Eg; [contradiction|].
      destruct (negb (valid v (st g0))); [inversion E0; split; discriminate|].
      destruct (take_rng s) as [g pos].
      destruct (Model.rrtc_loop _ _ _ _ _ _ _ _ _ _ _ _ _ _ _ _ _) as [[[ts' tg'] pos'] r'] eqn:El.
      inversion E0; subst. eapply rrtc_loop_good; [exact Hns|exact Hng|exact HOs|exact HLs|exact HOg|exact HLg|exact El].
    + destruct E as (p & v & s0 & rest & g0 & grest & g & pos & ts' & tg' & pos' &
                     Ep & Ev & Es & Es0 & Eg & Eg0 & El & Ep' & Ev' & Et' & Eg').
      unfold InvNC in *. rewrite Ep, Ev in HN. rewrite Ep', Ev', Et', Eg'.
      destruct HN as ((HLs & HOs) & Hns & (HLg & HOg) & Hng).
      destruct (rrtc_loop_inv dist interp lvs valid goal u64_at usample gsample maxd bias _ _ _ _ _ _ _ _ _ _ _
                  HLs HOs HLg HOg El) as (HLs' & HOs' & HLg' & HOg').
      pose proof (rrtc_loop_extends dist interp lvs valid goal u64_at usample gsample maxd bias _ _ _ _ _ _ _ _ _ _ _ El) as [Exs Exg].
      split; [|eapply rrtc_loop_good; [exact Hns|exact Hng|exact HOs|exact HLs|exact HOg|exact HLg|exact El]].
      split; [split; assumption|]. split; [eapply extends_nonempty; [exact Exs|exact Hns]|].
      split; [split; assumption|eapply extends_nonempty; [exact Exg|exact Hng]].
  - intros E; inversion E; subst. split; [exact HN|split; discriminate].
  - intros E; inversion E; subst. split; [exact HN|split; discriminate].
Qed.

Theorem rrtc_never_panics : forall sd cs s rs,
  run rrtc_step (new_planner sd) cs = (s, rs) -> Forall good rs.
Proof.
  intros sd cs. generalize (new_planner (S:=S) (V:=V) (P:=P) sd), (I : InvNC (new_planner sd)).
  induction cs as [|c cs IH]; intros s0 H0 s rs; cbn [run].
  - intros E; inversion E; constructor.
  - destruct (rrtc_step s0 c) as [s1 r] eqn:E1. destruct (run rrtc_step s1 cs) as [s2 rs2] eqn:E2.
    intros E; inversion E; subst. destruct (rrtc_step_good _ _ _ _ H0 E1) as [H1 Hg].
    constructor; [exact Hg|]. eapply IH; eauto.
Qed.

(* ---- RRT*: no panic (index / unwrap) on well-formed inputs; termination of extraction is C15 ---- *)
Notation link_star := (link_star dist interp lvs valid maxd radius).

Lemma walk_no_index_panic : forall (R : S -> S -> Prop) t, LinkInv R t -> forall fuel i acc,
  i < length t -> walk t fuel i acc <> Some None.
Proof.
  intros R t Ht fuel. induction fuel as [|f IH]; intros i acc Hi; cbn [walk]; [discriminate|].
  destruct (nth_error t i) as [n|] eqn:En; [|apply nth_error_None in En; lia].
  destruct (par n) as [p|] eqn:Ep; [|discriminate].
  apply IH. destruct (Ht i n En) as [_ H2]. destruct (H2 p Ep) as (np & Hnp & _).
  apply nth_error_Some. rewrite Hnp; discriminate.
Qed.

Lemma rrtstar_iter_no_panic : forall v t q t', t <> [] -> rrtstar_iter v t q <> (t', StarPanic).
Proof.
  intros v t q t' Hne. unfold Model.rrtstar_iter.
  destruct (nearest dist t q) as [[i d]|] eqn:En.
  2:{ unfold nearest in En. destruct t; [contradiction|discriminate]. }
  destruct (nearest_in dist _ _ _ _ En) as (nn & Hnn & _). rewrite Hnn.
  destruct (steer interp maxd (st nn) q d) as [qn re].
  destruct (negb _); [discriminate|].
  destruct (choose_parent_some dist interp lvs valid v t qn (neighbours dist radius t qn) i (cost_via dist qn nn)) as (best & bc & ->).
  { intros j Hj. destruct (neighbours_in dist radius _ _ _ Hj) as (nj & Hnj & _). exists nj; exact Hnj. }
  destruct (rewire_some dist interp lvs valid v (neighbours dist radius t qn) (t ++ [mkNode S qn (Some best) bc]) (length t)
              (mkNode S qn (Some best) bc)) as [t2 ->].
  { apply nth_error_app_last. }
  { intros j Hj. destruct (neighbours_in dist radius _ _ _ Hj) as (nj & Hnj & _).
    assert (j < length t) by (apply nth_error_Some; rewrite Hnj; discriminate).
    split; [lia|]. exists nj. rewrite nth_error_app1 by lia. exact Hnj. }
  discriminate.
Qed.

Lemma rrtstar_loop_no_panic : forall fuel p v t g pos t' pos' r,
  t <> [] -> LinkInv (link_star v) t -> rrtstar_loop fuel p v t g pos = (t', pos', r) -> r <> RPanic.
Proof.
  induction fuel as [|f IH]; intros p v t g pos t' pos' r Hne HL; cbn [Model.rrtstar_loop].
  - intros E; inversion E; discriminate.
  - destruct (draw_ok p g pos) as (q & pos1 & ->).
    destruct (rrtstar_iter v t q) as [t1 er] eqn:Ee.
    pose proof (rrtstar_iter_inv dist interp lvs valid maxd radius _ _ _ _ _ HL Ee) as HL1.
    pose proof (extends_nonempty _ _ (rrtstar_iter_extends dist interp lvs valid maxd radius _ _ _ _ _ Ee) Hne) as Hne1.
    destruct er as [| |qn].
    + exfalso. exact (rrtstar_iter_no_panic _ _ _ _ Hne Ee).
    + apply IH; assumption.
    + destruct (goal p qn); [|apply IH; assumption].
      intros E; inversion E; subst. unfold resp_of_path, reconstruct.
      assert (Hi : length t' - 1 < length t') by (destruct t'; [contradiction|cbn; lia]).
      pose proof (walk_no_index_panic _ _ HL1 (Datatypes.S (length t')) (length t' - 1) [] Hi) as Hw.
      destruct (walk t' _ _ _) as [[pp|]|]; [discriminate|contradiction|discriminate].
Qed.

Definition InvNS (s : pstate) : Prop :=
  match pd s, vc s with
  | Some p, Some v => LinkInv (link_star v) (tree s) /\ tree s <> []
  | None, None => True
  | _, _ => False
  end.

Lemma rrtstar_step_no_panic : forall s c s' r, InvNS s -> rrtstar_step s c = (s', r) -> InvNS s' /\ r <> RPanic.
Proof.
  intros s c s' r HN. destruct c as [p v|b|b|p]; cbn [Model.rrtstar_step].
  - unfold tree_setup. destruct (starts p) as [|s0 rest] eqn:Es; [exfalso; eapply Wst; eauto|].
    intros E; inversion E; subst. split; [|discriminate]. unfold InvNS; cbn. split; [apply LinkInv_root|discriminate].
  - intros E. pose proof E as E0. apply (tree_solve_cases valid starts) in E. destruct E as [[-> Hnp]|E].
    + split; [exact HN|]. unfold tree_solve in E0. unfold InvNS in HN.
      destruct (pd s) as [p|]; destruct (vc s) as [v|]; try contradiction; [|inversion E0; discriminate].
      destruct (starts p) as [|s0 rest] eqn:Es; [exfalso; eapply Wst; eauto|].
      destruct (negb (valid v s0)); [inversion E0; discriminate|].
      destruct (take_rng s) as [g pos]. destruct (Model.rrtstar_loop _ _ _ _ _ _ _ _ _ _ _ _ _ _ _ _ _) as [[t' pos'] r'] eqn:El.
      inversion E0; subst. destruct HN as [HL Hne]. eapply rrtstar_loop_no_panic; eauto.
    + destruct E as (p & v & s0 & rest & g & pos & t' & pos' & Ep & Ev & Es & Es0 & El & Ep' & Ev' & Et' & _).
      unfold InvNS in *. rewrite Ep, Ev in HN. rewrite Ep', Ev', Et'. destruct HN as [HL Hne].
      split; [split|eapply rrtstar_loop_no_panic; eauto].
      * eapply (rrtstar_loop_inv dist interp lvs valid goal u64_at usample gsample maxd bias radius); eauto.
      * eapply extends_nonempty; [eapply rrtstar_loop_extends; eauto|exact Hne].
  - intros E; inversion E; subst. split; [exact HN|discriminate].
  - intros E; inversion E; subst. split; [exact HN|discriminate].
Qed.

Theorem rrtstar_never_panics : forall sd cs s rs,
  run rrtstar_step (new_planner sd) cs = (s, rs) -> Forall (fun r => r <> RPanic) rs.
Proof.
  intros sd cs. generalize (new_planner (S:=S) (V:=V) (P:=P) sd), (I : InvNS (new_planner sd)).
  induction cs as [|c cs IH]; intros s0 H0 s rs; cbn [run].
  - intros E; inversion E; constructor.
  - destruct (rrtstar_step s0 c) as [s1 r] eqn:E1. destruct (run rrtstar_step s1 cs) as [s2 rs2] eqn:E2.
    intros E; inversion E; subst. destruct (rrtstar_step_no_panic _ _ _ _ H0 E1) as [H1 Hg].
    constructor; [exact Hg|]. eapply IH; eauto.
Qed.

End NoPanic.
