(* Basic lemmas about the building blocks of the planner model. *)
From Coq Require Import ZArith NArith List Bool Floats Lia.
From OX Require Import Numerics.FloatBits Gen.Consts Planners.Model.
Import ListNotations.

(* ---- all_from / all_range ---------------------------------------------------------- *)
Lemma all_from_spec : forall p start f,
  all_from p start f = true <-> (forall i, (start <= i < start + Npos p)%N -> f i = true).
Proof.
  induction p as [p IH | p IH | ]; intros start f; cbn [all_from].
  - split.
    + intros H i Hi.
      destruct (f start) eqn:E0; [|discriminate].
      destruct (all_from p (start + 1)%N f) eqn:E1; [|discriminate].
      rewrite IH in H. rewrite IH in E1.
      destruct (N.eq_dec i start) as [->|Hne]; [exact E0|].
      destruct (N.lt_ge_cases i (start + 1 + Npos p)%N) as [Hlt|Hge].
      * apply E1; lia.
      * apply H; lia.
    + intros H.
      rewrite (H start) by lia.
      assert (E1 : all_from p (start + 1)%N f = true) by (apply IH; intros; apply H; lia).
      rewrite E1. apply IH; intros; apply H; lia.
  - split.
    + intros H i Hi.
      destruct (all_from p start f) eqn:E1; [|discriminate].
      rewrite IH in H. rewrite IH in E1.
      destruct (N.lt_ge_cases i (start + Npos p)%N) as [Hlt|Hge].
      * apply E1; lia.
      * apply H; lia.
    + intros H.
      assert (E1 : all_from p start f = true) by (apply IH; intros; apply H; lia).
      rewrite E1. apply IH; intros; apply H; lia.
  - split.
    + intros H i Hi. assert (i = start) by lia. subst; exact H.
    + intros H; apply H; lia.
Qed.

Lemma all_range_spec : forall lo cnt f,
  all_range lo cnt f = true <-> (forall i, (lo <= i < lo + cnt)%N -> f i = true).
Proof.
  intros lo [|p] f; cbn [all_range].
  - split; [intros _ i Hi; lia | reflexivity].
  - apply all_from_spec.
Qed.

Section WithModel.
Context {S V P : Type}.
Variable dist : S -> S -> F.
Variable interp : S -> S -> F -> S.
Variable lvs : F.
Variable valid : V -> S -> bool.

Notation check_motion := (check_motion dist interp lvs valid).
Notation num_steps := (num_steps dist lvs).

(* the end state of an accepted motion is itself accepted by the checker *)
Lemma check_motion_valid_end : forall v a b, check_motion v a b = true -> valid v b = true.
Proof.
  intros v a b. unfold Model.check_motion.
  destruct (N.leb _ 1); [tauto|].
  destruct (all_range _ _ _); [tauto|discriminate].
Qed.

(* every intermediate check point of an accepted motion was accepted *)
Lemma check_motion_points : forall v a b, check_motion v a b = true ->
  forall i, (1 <= i < num_steps a b)%N ->
  valid v (interp a b (step_param i (num_steps a b))) = true.
Proof.
  intros v a b. unfold Model.check_motion. fold (num_steps a b).
  destruct (N.leb_spec (num_steps a b) 1) as [Hle|Hgt].
  - intros _ i Hi. lia.
  - destruct (all_range _ _ _) eqn:E; [|discriminate].
    intros _ i Hi. rewrite all_range_spec in E. apply E. lia.
Qed.

End WithModel.
