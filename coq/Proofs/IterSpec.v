(* C16: what one planning iteration does - nearest node (first strict minimum), one step toward
   the sample, at most one node per tree, goal bias decided by one u64 against floor(p * 2^64),
   RRT-Connect grows the smaller tree first. *)
From Coq Require Import ZArith NArith List Bool Floats Lia.
From OX Require Import Numerics.FloatBits Numerics.FloatOrder Gen.Consts Planners.Model Proofs.Basics Proofs.ValidInv
  Proofs.Prefix Proofs.TreeInv Proofs.Links.
Import ListNotations.
Open Scope nat_scope.

Section IterSpec.
Context {S V P : Type}.
Variable dist : S -> S -> F.
Variable interp : S -> S -> F -> S.
Variable lvs : F.
Variable valid : V -> S -> bool.
Variable goal : P -> S -> bool.
Variable u64_at : gen -> N -> N.
Variable usample : gen -> N -> option S * N.
Variable gsample : P -> gen -> N -> option S * N.
Variables maxd bias radius : F.

Notation extend := (extend dist interp lvs valid maxd).
Notation check_motion := (check_motion dist interp lvs valid).

(* distances are comparable (not NaN): what C09 provides for the real spaces *)
Definition dist_not_nan : Prop := forall a b, PrimFloat.is_nan (dist a b) = false.
Hypothesis Hnn : dist_not_nan.

(* bd is a first strict minimum of the distances of the nodes in pre *)
Definition first_min (pre : list (node S)) (q : S) (bi : nat) (bd : F) : Prop :=
  (exists nb, nth_error pre bi = Some nb /\ bd = dist (st nb) q) /\
  forall j nj, nth_error pre j = Some nj ->
    FloatBits.fle bd (dist (st nj) q) = true /\ (j < bi -> FloatBits.flt bd (dist (st nj) q) = true).

Lemma nearest_from_min : forall q l pre bi bd i d,
  first_min pre q bi bd ->
  nearest_from dist q l (length pre) bi bd = (i, d) ->
  first_min (pre ++ l) q i d.
Proof.
  intros q l. induction l as [|n l IH]; intros pre bi bd i d Hfm; cbn [nearest_from].
  - intros E; inversion E; subst. rewrite app_nil_r. exact Hfm.
  - replace (pre ++ n :: l) with ((pre ++ [n]) ++ l) by (rewrite <- app_assoc; reflexivity).
    replace (Datatypes.S (length pre)) with (length (pre ++ [n])) by (rewrite app_length; cbn; lia).
    destruct Hfm as ((nb & Hnb & Hbd) & Hmin).
    assert (Hbi : bi < length pre) by (apply nth_error_Some; rewrite Hnb; discriminate).
    destruct (FloatBits.flt (dist (st n) q) bd) eqn:Ef.
    + apply IH. split.
      * exists n. split; [apply nth_error_app_last|reflexivity].
      * intros j nj Hj. apply nth_error_snoc in Hj. destruct Hj as [[Hlt Hj]|[-> ->]].
        { destruct (Hmin j nj Hj) as [Hle _].
          assert (Hs : FloatBits.flt (dist (st n) q) (dist (st nj) q) = true)
            by (eapply (flt_fle_trans _ bd); [exact Ef|exact Hle]).
          split; [apply flt_fle; exact Hs|intros _; exact Hs]. }
        { split; [apply fle_refl; apply Hnn|lia]. }
    + apply IH. split.
      * exists nb. split; [|exact Hbd]. rewrite nth_error_app1 by exact Hbi. exact Hnb.
      * intros j nj Hj. apply nth_error_snoc in Hj. destruct Hj as [[Hlt Hj]|[-> ->]].
        { exact (Hmin j nj Hj). }
        { split; [|lia]. apply flt_false_fle; [apply Hnn|subst bd; apply Hnn|exact Ef]. }
Qed.

(* nearest: the chosen node is at minimal distance, and every earlier node is strictly farther *)
Theorem nearest_is_first_min : forall t q i d, nearest dist t q = Some (i, d) -> first_min t q i d.
Proof.
  intros t q i d. unfold nearest. destruct t as [|n0 l]; [discriminate|].
  intros E; inversion E as [E1]; clear E.
  apply (nearest_from_min q l [n0] 0 _ i d) in E1; [exact E1|].
  split; [exists n0; split; reflexivity|].
  intros j nj Hj. destruct j as [|[|j]]; cbn in Hj; try discriminate.
  inversion Hj; subst. split; [apply fle_refl; apply Hnn|lia].
Qed.

(* one extension step (RRT's iteration body and RRT-Connect's extend) *)
Theorem extend_step_spec : forall v t q t' r,
  extend v t q = (t', r) ->
  match r with
  | ExtPanic => t = [] /\ t' = t
  | ExtNone => t' = t /\
      exists i d nn, first_min t q i d /\ nth_error t i = Some nn /\
        check_motion v (st nn) (fst (steer interp maxd (st nn) q d)) = false
  | ExtAdded re idx qn =>
      exists i d nn, first_min t q i d /\ nth_error t i = Some nn /\
        t' = t ++ [mkNode S qn (Some i) zero] /\ idx = length t /\
        (qn, re) = steer interp maxd (st nn) q d /\ check_motion v (st nn) qn = true
  end.
Proof.
  intros v t q t' r. unfold Model.extend.
  destruct (nearest dist t q) as [[i d]|] eqn:En.
  - pose proof (nearest_is_first_min _ _ _ _ En) as Hfm.
    destruct Hfm as ((nn & Hnn' & Hd) & Hmin). rewrite Hnn'.
    destruct (steer interp maxd (st nn) q d) as [qn re] eqn:Es.
    destruct (Model.check_motion dist interp lvs valid v (st nn) qn) eqn:Ec; intros E; inversion E; subst.
    + exists i, (dist (st nn) q), nn.
      split; [split; [exists nn; split; [exact Hnn'|reflexivity]|exact Hmin]|].
      split; [exact Hnn'|]. split; [reflexivity|]. split; [reflexivity|]. split; [symmetry; exact Es|exact Ec].
    + split; [reflexivity|]. exists i, (dist (st nn) q), nn. rewrite Es. cbn.
      split; [split; [exists nn; split; [exact Hnn'|reflexivity]|exact Hmin]|]. split; assumption.
  - intros E; inversion E; subst. split; [|reflexivity]. unfold nearest in En. destruct t'; [reflexivity|discriminate].
Qed.

(* steering: the sample itself when it is within max_distance, else the point max/d along the
   interpolation toward it *)
Theorem steer_spec : forall near q d,
  steer interp maxd near q d =
  if fgt d maxd then (interp near q (maxd / d)%float, false) else (q, true).
Proof. reflexivity. Qed.

(* goal bias: one u64 compared with floor(p * 2^64); never for p = 0, always (no draw) for p = 1 *)
Theorem goal_bias_spec : forall g pos,
  random_bool u64_at g pos bias =
  if (if fle zero bias then flt bias one else false)
  then Some (N.ltb (u64_at g pos) (to_usize (bias * two64)%float), (pos + 1)%N)
  else if PrimFloat.eqb bias one then Some (true, pos) else None.
Proof. reflexivity. Qed.

End IterSpec.

Theorem goal_bias_zero_never : forall (u : gen -> N -> N) g pos,
  random_bool u g pos zero = Some (false, (pos + 1)%N).
Proof.
  intros u g pos. unfold random_bool.
  replace (if fle zero zero then flt zero one else false) with true by (vm_compute; reflexivity).
  replace (to_usize (zero * two64)%float) with 0%N by (vm_compute; reflexivity).
  destruct (u g pos); reflexivity.
Qed.

Theorem goal_bias_one_always : forall (u : gen -> N -> N) g pos,
  random_bool u g pos one = Some (true, pos).
Proof.
  intros u g pos. unfold random_bool.
  replace (if fle zero one then flt one one else false) with false by (vm_compute; reflexivity).
  replace (PrimFloat.eqb one one) with true by (vm_compute; reflexivity). reflexivity.
Qed.
