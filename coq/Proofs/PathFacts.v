(* What a returned path looks like, planner by planner: it is extracted from the final tree(s),
   starts at the root, ends at the node that satisfied the goal, and consecutive states are
   linked (C02, C03, C05). *)
From Coq Require Import ZArith NArith List Bool Floats Lia.
From OX Require Import Numerics.FloatBits Gen.Consts Planners.Model Proofs.Basics Proofs.ValidInv Proofs.Prefix Proofs.TreeInv Proofs.Links.
Import ListNotations.
Open Scope nat_scope.

Section PathFacts.
Context {S V P : Type}.
Variable dist : S -> S -> F.
Variable interp : S -> S -> F -> S.
Variable lvs : F.
Variable valid : V -> S -> bool.
Variable goal : P -> S -> bool.
Variable starts : P -> list S.
Variable u64_at : gen -> N -> N.
Variable usample : gen -> N -> option S * N.
Variable gsample : P -> gen -> N -> option S * N.
Variables maxd bias radius : F.

Notation extend := (extend dist interp lvs valid maxd).
Notation draw := (draw u64_at usample gsample bias).
Notation rrt_loop := (rrt_loop dist interp lvs valid goal u64_at usample gsample maxd bias).
Notation rrtstar_iter := (rrtstar_iter dist interp lvs valid maxd radius).
Notation rrtstar_loop := (rrtstar_loop dist interp lvs valid goal u64_at usample gsample maxd bias radius).
Notation rrtc_loop := (rrtc_loop dist interp lvs valid goal u64_at usample gsample maxd bias).
Notation link_rrt := (link_rrt dist interp lvs valid maxd).
Notation link_star := (link_star dist interp lvs valid maxd radius).

(* a path extracted from tree t at a node whose state satisfies the goal *)
Definition from_tree (t : list (node S)) (p : P) (path : list S) : Prop :=
  exists i n, reconstruct t i = Some (Some path) /\ nth_error t i = Some n /\ goal p (st n) = true.

Lemma resp_path_inv : forall (r : option (option (list S))) path, resp_of_path r = RPath path -> r = Some (Some path).
Proof. intros [[q|]|] path; cbn; try discriminate. intros H; inversion H; reflexivity. Qed.

Lemma rrt_loop_path : forall fuel p v t g pos t' pos' path,
  rrt_loop fuel p v t g pos = (t', pos', RPath path) -> from_tree t' p path.
Proof.
  induction fuel as [|f IH]; intros p v t g pos t' pos' path; cbn [Model.rrt_loop]; [discriminate|].
  destruct (draw p g pos) as [[q|] pos1]; [|discriminate].
  destruct (extend v t q) as [t1 er] eqn:Ee. pose proof (extend_spec dist interp lvs valid maxd _ _ _ _ _ Ee) as Hs.
  destruct er as [| |re i qn]; [discriminate|apply IH|].
  destruct (goal p qn) eqn:Eg; [|apply IH].
  intros E; inversion E as [[E1 E2 E3]]; subst. apply resp_path_inv in E3.
  destruct Hs as (i0 & nn & Hnn & -> & -> & _).
  exists (length (t ++ [mkNode S qn (Some i0) zero]) - 1), (mkNode S qn (Some i0) zero).
  split; [exact E3|]. split; [|exact Eg].
  rewrite app_length; cbn. replace (length t + 1 - 1) with (length t) by lia. apply nth_error_app_last.
Qed.

Lemma rrtstar_iter_last : forall v t q t' qn,
  rrtstar_iter v t q = (t', StarAdded qn) ->
  exists n, nth_error t' (length t' - 1) = Some n /\ st n = qn.
Proof.
  intros v t q t' qn. unfold Model.rrtstar_iter.
  destruct (nearest dist t q) as [[i d]|]; [|discriminate].
  destruct (nth_error t i) as [nn|]; [|discriminate].
  destruct (steer interp maxd (st nn) q d) as [qn' reached].
  destruct (negb _); [discriminate|].
  destruct (choose_parent _ _ _ _ _ _ _ _ _ _) as [[best bc]|]; [|discriminate].
  destruct (rewire _ _ _ _ _ _ _ _) as [t2|] eqn:Er; [|discriminate].
  intros E; inversion E; subst.
  apply (rewire_states dist interp lvs valid) in Er.
  assert (Hlen : length t' = length t + 1).
  { assert (H : length (states t') = length (states (t ++ [mkNode S qn (Some best) bc]))) by (rewrite Er; reflexivity).
    unfold states in H. rewrite !map_length, app_length in H. cbn in H. exact H. }
  rewrite Hlen. replace (length t + 1 - 1) with (length t) by lia.
  assert (Hn : nth_error (states t') (length t) = Some qn).
  { rewrite Er. unfold states. rewrite map_app. rewrite nth_error_app2 by (rewrite map_length; lia).
    rewrite map_length, Nat.sub_diag. reflexivity. }
  unfold states in Hn. rewrite nth_error_map in Hn.
  destruct (nth_error t' (length t)) as [n|]; cbn in Hn; [|discriminate].
  exists n. split; [reflexivity|]. inversion Hn; reflexivity.
Qed.

Lemma rrtstar_loop_path : forall fuel p v t g pos t' pos' path,
  rrtstar_loop fuel p v t g pos = (t', pos', RPath path) -> from_tree t' p path.
Proof.
  induction fuel as [|f IH]; intros p v t g pos t' pos' path; cbn [Model.rrtstar_loop]; [discriminate|].
  destruct (draw p g pos) as [[q|] pos1]; [|discriminate].
  destruct (rrtstar_iter v t q) as [t1 er] eqn:Ee.
  destruct er as [| |qn]; [discriminate|apply IH|].
  destruct (goal p qn) eqn:Eg; [|apply IH].
  intros E; inversion E as [[E1 E2 E3]]; subst. apply resp_path_inv in E3.
  destruct (rrtstar_iter_last _ _ _ _ _ Ee) as (n & Hn & Hst).
  exists (length t' - 1), n. split; [exact E3|]. split; [exact Hn|]. rewrite Hst; exact Eg.
Qed.

(* RRT-Connect: either a start-tree path to a goal state, or two branches meeting at one state *)
Definition from_two_trees (ts tg : list (node S)) (path : list S) : Prop :=
  exists ia ib a b na nb,
    reconstruct ts ia = Some (Some a) /\ reconstruct tg ib = Some (Some b) /\
    nth_error ts ia = Some na /\ nth_error tg ib = Some nb /\ st na = st nb /\
    path = a ++ tl (rev b).

Lemma join_paths_inv : forall (x y : option (option (list S))) path,
  join_paths x y = RPath path -> exists a b, x = Some (Some a) /\ y = Some (Some b) /\ path = a ++ tl (rev b).
Proof.
  intros [[a|]|] [[b|]|] path; cbn; try discriminate.
  intros H; inversion H. exists a, b. repeat split.
Qed.

Lemma rrtc_loop_path : forall fuel p v ts tg g pos ts' tg' pos' path,
  rrtc_loop fuel p v ts tg g pos = (ts', tg', pos', RPath path) ->
  from_tree ts' p path \/ from_two_trees ts' tg' path.
Proof.
  induction fuel as [|f IH]; intros p v ts tg g pos ts' tg' pos' path; cbn [Model.rrtc_loop]; [discriminate|].
  destruct (draw p g pos) as [[q|] pos1]; [|discriminate].
  destruct (Nat.leb (length ts) (length tg)).
  - destruct (extend v ts q) as [ts1 er] eqn:Ee. pose proof (extend_spec dist interp lvs valid maxd _ _ _ _ _ Ee) as Hs.
    destruct er as [| |re ia qn]; [discriminate|apply IH|].
    destruct Hs as (i0 & nn & Hnn & -> & -> & _).
    assert (Hia : nth_error (ts ++ [mkNode S qn (Some i0) zero]) (length ts) = Some (mkNode S qn (Some i0) zero))
      by apply nth_error_app_last.
    destruct (goal p qn) eqn:Eg.
    + intros E; inversion E as [[E1 E2 E3 E4]]; subst. apply resp_path_inv in E4.
      left. exists (length ts), (mkNode S qn (Some i0) zero). repeat split; assumption.
    + destruct (extend v tg qn) as [tg1 er2] eqn:Ee2. pose proof (extend_spec dist interp lvs valid maxd _ _ _ _ _ Ee2) as Hs2.
      destruct er2 as [| |[|] ib qn2]; [discriminate|apply IH| |apply IH].
      destruct Hs2 as (j0 & nj & Hnj & -> & -> & _ & Hre). specialize (Hre eq_refl). subst qn2.
      intros E; inversion E as [[E1 E2 E3 E4]]; subst. apply join_paths_inv in E4.
      destruct E4 as (a & b & Ha & Hb & ->). right.
      exists (length ts), (length tg), a, b, (mkNode S qn (Some i0) zero), (mkNode S qn (Some j0) zero).
      repeat split; try assumption. apply nth_error_app_last.
  - destruct (extend v tg q) as [tg1 er] eqn:Ee. pose proof (extend_spec dist interp lvs valid maxd _ _ _ _ _ Ee) as Hs.
    destruct er as [| |re ia qn]; [discriminate|apply IH|].
    destruct Hs as (i0 & nn & Hnn & -> & -> & _).
    destruct (extend v ts qn) as [ts1 er2] eqn:Ee2. pose proof (extend_spec dist interp lvs valid maxd _ _ _ _ _ Ee2) as Hs2.
    destruct er2 as [| |[|] ib qn2]; [discriminate|apply IH| |apply IH].
    destruct Hs2 as (j0 & nj & Hnj & -> & -> & _ & Hre). specialize (Hre eq_refl). subst qn2.
    intros E; inversion E as [[E1 E2 E3 E4]]; subst. apply join_paths_inv in E4.
    destruct E4 as (a & b & Ha & Hb & ->). right.
    exists (length ts), (length tg), a, b, (mkNode S qn (Some j0) zero), (mkNode S qn (Some i0) zero).
    repeat split; try assumption; apply nth_error_app_last.
Qed.

(* ---- consequences for the shape of the path ---- *)
Definition sym (R : S -> S -> Prop) (a b : S) : Prop := R a b \/ R b a.

Lemma from_tree_facts : forall (R : S -> S -> Prop) t p path,
  LinkInv R t -> from_tree t p path ->
  chain R path /\ (exists n0 rest, nth_error t 0 = Some n0 /\ path = st n0 :: rest) /\
  (exists l x, path = l ++ [x] /\ goal p x = true).
Proof.
  intros R t p path Ht (i & n & Hrec & Hn & Hg).
  destruct (reconstruct_chain R t i path Ht Hrec) as (Hc & Hhd & (n' & l & Hn' & Hp)).
  split; [exact Hc|]. split; [exact Hhd|].
  rewrite Hn in Hn'; inversion Hn'; subst n'. exists l, (st n). split; assumption.
Qed.

Lemma chain_join : forall (R : S -> S -> Prop) l1 x l2,
  chain R (l1 ++ [x]) -> chain R (x :: l2) -> chain R (l1 ++ x :: l2).
Proof.
  intros R l1 x l2 H1 H2. destruct l2 as [|y l2]; [exact H1|].
  inversion H2; subst. apply chain_app; assumption.
Qed.

Lemma from_two_trees_facts : forall (R : S -> S -> Prop) ts tg path,
  LinkInv R ts -> LinkInv R tg -> from_two_trees ts tg path ->
  chain (sym R) path /\
  (exists n0 rest, nth_error ts 0 = Some n0 /\ path = st n0 :: rest) /\
  (exists g0, nth_error tg 0 = Some g0 /\ exists l, path = l ++ [st g0]).
Proof.
  intros R ts tg path Hs Hg (ia & ib & a & b & na & nb & Ha & Hb & Hna & Hnb & Heq & ->).
  destruct (reconstruct_chain R ts ia a Hs Ha) as (Hca & (n0 & ra & Hn0 & Hpa) & (na' & la & Hna' & Hla)).
  destruct (reconstruct_chain R tg ib b Hg Hb) as (Hcb & (g0 & rb & Hg0 & Hpb) & (nb' & lb & Hnb' & Hlb)).
  rewrite Hna in Hna'; inversion Hna'; subst na'. rewrite Hnb in Hnb'; inversion Hnb'; subst nb'.
  assert (Hrev : rev b = st nb :: rev lb) by (rewrite Hlb, rev_app_distr; reflexivity).
  split; [|split].
  - rewrite Hrev. cbn [tl]. rewrite Hla.
    replace ((la ++ [st na]) ++ rev lb) with (la ++ st na :: rev lb) by (rewrite <- app_assoc; reflexivity).
    apply chain_join.
    + rewrite <- Hla. eapply chain_impl; [|exact Hca]. intros x y H; left; exact H.
    + rewrite Heq, <- Hrev. eapply chain_impl; [|apply chain_rev; exact Hcb]. intros x y H; right; exact H.
  - exists n0, (ra ++ tl (rev b)). split; [exact Hn0|]. rewrite Hpa. reflexivity.
  - exists g0. split; [exact Hg0|].
    rewrite Hpb. cbn [rev]. destruct (rev rb) as [|y r] eqn:Er; cbn [app tl].
    + (* b = [g0]: the joined node is the goal root itself *)
      assert (rb = []) by (destruct rb; [reflexivity|]; cbn in Er; destruct (rev rb); discriminate).
      subst rb. rewrite Hpb in Hlb. destruct lb as [|z lb]; cbn in Hlb.
      * inversion Hlb as [E0]. rewrite Hla. exists la. rewrite app_nil_r, Heq, <- E0. reflexivity.
      * destruct lb; discriminate.
    + exists (a ++ r). rewrite <- app_assoc. reflexivity.
Qed.

End PathFacts.
