(* C04: every state a planner stores lies in a region B that contains the start, all samples and is
   closed under the steering step; hence every state on a returned path lies in B. *)
From Coq Require Import ZArith NArith List Bool Floats Lia.
From OX Require Import Numerics.FloatBits Gen.Consts Planners.Model Proofs.Basics Proofs.ValidInv Proofs.Prefix
  Proofs.TreeInv Proofs.Links Proofs.PathFacts Proofs.ApiValid Proofs.PrmInv Proofs.ApiStruct.
Import ListNotations.
Open Scope nat_scope.

Section BoundsInv.
Context {S V P : Type}.
Variable dist : S -> S -> F.
Variable interp : S -> S -> F -> S.
Variable lvs : F.
Variable valid : V -> S -> bool.
Variable goal : P -> S -> bool.
Variable starts : P -> list S.
Variable u64_at : gen -> N -> N.
Variable usample : gen -> N -> option S * N.
Variable gsample : P -> gen -> N -> option S * N.
Variables maxd bias radius : F.
Variable B : S -> Prop.

Notation pstate := (@pstate S V P).
Notation extend := (extend dist interp lvs valid maxd).
Notation draw := (draw u64_at usample gsample bias).
Notation rrt_loop := (rrt_loop dist interp lvs valid goal u64_at usample gsample maxd bias).
Notation rrtstar_iter := (rrtstar_iter dist interp lvs valid maxd radius).
Notation rrtstar_loop := (rrtstar_loop dist interp lvs valid goal u64_at usample gsample maxd bias radius).
Notation rrtc_loop := (rrtc_loop dist interp lvs valid goal u64_at usample gsample maxd bias).
Notation rrt_step := (rrt_step dist interp lvs valid goal starts u64_at usample gsample maxd bias).
Notation rrtstar_step := (rrtstar_step dist interp lvs valid goal starts u64_at usample gsample maxd bias radius).
Notation rrtc_step := (rrtc_step dist interp lvs valid goal starts u64_at usample gsample maxd bias).
Notation prm_step := (prm_step dist interp lvs valid goal starts usample radius).

(* the hypotheses of the property *)
Hypothesis Hstart : forall p s0, In s0 (starts p) -> B s0.
Hypothesis Hus : forall g pos q c, usample g pos = (Some q, c) -> B q.
Hypothesis Hgs : forall p g pos q c, gsample p g pos = (Some q, c) -> B q.
(* the region is closed under the steering step (convexity of B under the space's interpolation) *)
Hypothesis Hsteer : forall a q, B a -> B q -> fgt (dist a q) maxd = true -> B (interp a q (maxd / dist a q)%float).

Definition inB (t : list (node S)) : Prop := Forall B (states t).

Lemma draw_in : forall p g pos q pos', draw p g pos = (Some q, pos') -> B q.
Proof.
  intros p g pos q pos'. unfold Model.draw.
  destruct (random_bool u64_at g pos bias) as [[b pos1]|]; [|discriminate].
  destruct b.
  - destruct (gsample p g pos1) as [r c] eqn:E. intros H; inversion H; subst. eapply Hgs; eauto.
  - destruct (usample g pos1) as [r c] eqn:E. intros H; inversion H; subst. eapply Hus; eauto.
Qed.

Lemma inB_nth : forall t i n, inB t -> nth_error t i = Some n -> B (st n).
Proof.
  intros t i n Ht Hn. unfold inB, states in Ht. rewrite Forall_forall in Ht. apply Ht. apply in_map. eapply nth_error_In; eauto.
Qed.

Lemma inB_app : forall t n, inB t -> B (st n) -> inB (t ++ [n]).
Proof. intros t n Ht Hn. unfold inB, states. rewrite map_app. apply Forall_app; split; [exact Ht|constructor; [exact Hn|constructor]]. Qed.

Lemma steer_in : forall a q d qn re, B a -> B q -> d = dist a q -> steer interp maxd a q d = (qn, re) -> B qn.
Proof.
  intros a q d qn re Ha Hq Hd. unfold steer. destruct (fgt d maxd) eqn:E; intros H; inversion H; subst; [|exact Hq].
  apply Hsteer; assumption.
Qed.

Lemma extend_inB : forall v t q t' r, inB t -> B q -> extend v t q = (t', r) -> inB t'.
Proof.
  intros v t q t' r Ht Hq. unfold Model.extend.
  destruct (nearest dist t q) as [[i d]|] eqn:En; [|intros E; inversion E; subst; exact Ht].
  destruct (nearest_in dist _ _ _ _ En) as (nn & Hnn & Hd). rewrite Hnn.
  destruct (steer interp maxd (st nn) q d) as [qn re] eqn:Es.
  destruct (Model.check_motion _ _ _ _ _ _ _); intros E; inversion E; subst; [|exact Ht].
  apply inB_app; [exact Ht|]. cbn. eapply steer_in; [eapply inB_nth; eauto|exact Hq|reflexivity|exact Es].
Qed.

Lemma rrt_loop_inB : forall fuel p v t g pos t' pos' r, inB t -> rrt_loop fuel p v t g pos = (t', pos', r) -> inB t'.
Proof.
  induction fuel as [|f IH]; intros p v t g pos t' pos' r Ht; cbn [Model.rrt_loop].
  - intros E; inversion E; subst; exact Ht.
  - destruct (draw p g pos) as [[q|] pos1] eqn:Ed; [|intros E; inversion E; subst; exact Ht].
    pose proof (draw_in _ _ _ _ _ Ed) as Hq.
    destruct (extend v t q) as [t1 er] eqn:Ee. pose proof (extend_inB _ _ _ _ _ Ht Hq Ee) as H1.
    destruct er as [| |re i qn]; [intros E; inversion E; subst; exact H1|apply IH; exact H1|].
    destruct (goal p qn); [intros E; inversion E; subst; exact H1|apply IH; exact H1].
Qed.

Lemma rrtstar_iter_inB : forall v t q t' r, inB t -> B q -> rrtstar_iter v t q = (t', r) -> inB t'.
Proof.
  intros v t q t' r Ht Hq. unfold Model.rrtstar_iter.
  destruct (nearest dist t q) as [[i d]|] eqn:En; [|intros E; inversion E; subst; exact Ht].
  destruct (nearest_in dist _ _ _ _ En) as (nn & Hnn & Hd). rewrite Hnn.
  destruct (steer interp maxd (st nn) q d) as [qn re] eqn:Es.
  destruct (negb _); [intros E; inversion E; subst; exact Ht|].
  destruct (choose_parent _ _ _ _ _ _ _ _ _ _) as [[best bc]|]; [|intros E; inversion E; subst; exact Ht].
  assert (H1 : inB (t ++ [mkNode S qn (Some best) bc])).
  { apply inB_app; [exact Ht|]. cbn. eapply steer_in; [eapply inB_nth; eauto|exact Hq|exact Hd|exact Es]. }
  destruct (rewire _ _ _ _ _ _ _ _) as [t2|] eqn:Er; intros E; inversion E; subst; [|exact H1].
  unfold inB. rewrite (rewire_states dist interp lvs valid _ _ _ _ _ Er). exact H1.
Qed.

Lemma rrtstar_loop_inB : forall fuel p v t g pos t' pos' r, inB t -> rrtstar_loop fuel p v t g pos = (t', pos', r) -> inB t'.
Proof.
  induction fuel as [|f IH]; intros p v t g pos t' pos' r Ht; cbn [Model.rrtstar_loop].
  - intros E; inversion E; subst; exact Ht.
  - destruct (draw p g pos) as [[q|] pos1] eqn:Ed; [|intros E; inversion E; subst; exact Ht].
    pose proof (draw_in _ _ _ _ _ Ed) as Hq.
    destruct (rrtstar_iter v t q) as [t1 er] eqn:Ee. pose proof (rrtstar_iter_inB _ _ _ _ _ Ht Hq Ee) as H1.
    destruct er as [| |qn]; [intros E; inversion E; subst; exact H1|apply IH; exact H1|].
    destruct (goal p qn); [intros E; inversion E; subst; exact H1|apply IH; exact H1].
Qed.

Lemma rrtc_loop_inB : forall fuel p v ts tg g pos ts' tg' pos' r,
  inB ts -> inB tg -> rrtc_loop fuel p v ts tg g pos = (ts', tg', pos', r) -> inB ts' /\ inB tg'.
Proof.
  induction fuel as [|f IH]; intros p v ts tg g pos ts' tg' pos' r Hs Hg; cbn [Model.rrtc_loop].
  - intros E; inversion E; subst; split; assumption.
  - destruct (draw p g pos) as [[q|] pos1] eqn:Ed; [|intros E; inversion E; subst; split; assumption].
    pose proof (draw_in _ _ _ _ _ Ed) as Hq.
    destruct (Nat.leb (length ts) (length tg)).
    + destruct (extend v ts q) as [ts1 er] eqn:Ee. pose proof (extend_inB _ _ _ _ _ Hs Hq Ee) as H1.
      pose proof (extend_spec dist interp lvs valid maxd _ _ _ _ _ Ee) as Hsp.
      destruct er as [| |re ia qn]; [intros E; inversion E; subst; split; assumption|apply IH; assumption|].
      destruct Hsp as (i0 & nn & Hnn & Et1 & _).
      assert (Hqn : B qn).
      { rewrite Et1 in H1. unfold inB, states in H1. rewrite map_app in H1. apply Forall_app in H1. destruct H1 as [_ H1]. inversion H1; assumption. }
      destruct (goal p qn); [intros E; inversion E; subst; split; assumption|].
      destruct (extend v tg qn) as [tg1 er2] eqn:Ee2. pose proof (extend_inB _ _ _ _ _ Hg Hqn Ee2) as H2.
      destruct er2 as [| |[|] ib qn2]; try (apply IH; assumption); intros E; inversion E; subst; split; assumption.
    + destruct (extend v tg q) as [tg1 er] eqn:Ee. pose proof (extend_inB _ _ _ _ _ Hg Hq Ee) as H1.
      pose proof (extend_spec dist interp lvs valid maxd _ _ _ _ _ Ee) as Hsp.
      destruct er as [| |re ia qn]; [intros E; inversion E; subst; split; assumption|apply IH; assumption|].
      destruct Hsp as (i0 & nn & Hnn & Et1 & _).
      assert (Hqn : B qn).
      { rewrite Et1 in H1. unfold inB, states in H1. rewrite map_app in H1. apply Forall_app in H1. destruct H1 as [_ H1]. inversion H1; assumption. }
      destruct (extend v ts qn) as [ts1 er2] eqn:Ee2. pose proof (extend_inB _ _ _ _ _ Hs Hqn Ee2) as H2.
      destruct er2 as [| |[|] ib qn2]; try (apply IH; assumption); intros E; inversion E; subst; split; assumption.
Qed.

(* ---- API level ---- *)
Definition InvB (s : pstate) : Prop := inB (tree s) /\ inB (gtree s) /\ Forall B (mstates (roadmap s)).

Definition PathIn (r : response S) : Prop := forall path, r = RPath path -> Forall B path.

Lemma inB_root : forall s0, B s0 -> inB [root_node s0].
Proof. intros s0 H. constructor; [exact H|constructor]. Qed.

Lemma reconstruct_inB : forall t i p, inB t -> reconstruct t i = Some (Some p) -> Forall B p.
Proof.
  intros t i p Ht. unfold reconstruct. apply walk_states; [|constructor].
  intros n Hn. unfold inB, states in Ht. rewrite Forall_forall in Ht. apply Ht. apply in_map. exact Hn.
Qed.

Lemma from_tree_inB : forall t p path, inB t -> from_tree goal t p path -> Forall B path.
Proof. intros t p path Ht (i & n & Hr & _). eapply reconstruct_inB; eauto. Qed.

Lemma from_two_inB : forall ts tg path, inB ts -> inB tg -> from_two_trees ts tg path -> Forall B path.
Proof.
  intros ts tg path Hs Hg (ia & ib & a & b & na & nb & Ha & Hb & _ & _ & _ & ->).
  apply Forall_app; split; [exact (reconstruct_inB ts ia a Hs Ha)|].
  assert (H : Forall B (rev b)) by (apply Forall_rev; exact (reconstruct_inB tg ib b Hg Hb)).
  destruct (rev b) as [|x l]; cbn [tl]; [apply Forall_nil|inversion H; assumption].
Qed.

Lemma tree_solve_inB : forall loop (s : pstate) b s' r,
  (forall fuel p v t g pos t' pos' r, inB t -> loop fuel p v t g pos = (t', pos', r) -> inB t') ->
  (forall fuel p v t g pos t' pos' path, loop fuel p v t g pos = (t', pos', RPath path) -> from_tree goal t' p path) ->
  InvB s -> tree_solve valid starts loop s b = (s', r) -> InvB s' /\ PathIn r.
Proof.
  intros loop s b s' r Hl Hp (Ht & Hg & Hr) E. apply tree_solve_cases in E. destruct E as [[-> Hnp]|E].
  - split; [split; [|split]; assumption|]. intros path Hpath; exfalso; eapply Hnp; eauto.
  - destruct E as (p & v & s0 & rest & g & pos & t' & pos' & _ & _ & _ & _ & El & _ & _ & Et' & Eg' & Er').
    pose proof (Hl _ _ _ _ _ _ _ _ _ Ht El) as Ht'.
    split; [split; [rewrite Et'; exact Ht'|split; [rewrite Eg'; exact Hg|rewrite Er'; exact Hr]]|].
    intros path Hpath. subst r. eapply from_tree_inB; [exact Ht'|eapply Hp; eauto].
Qed.

Lemma tree_setup_inB : forall (s : pstate) p v s' r, InvB s -> tree_setup starts s p v = (s', r) -> InvB s' /\ PathIn r.
Proof.
  intros s p v s' r (Ht & Hg & Hr). unfold tree_setup. destruct (starts p) as [|s0 rest] eqn:Es; intros E; inversion E; subst.
  - split; [split; [constructor|split; assumption]|discriminate].
  - split; [split; [apply inB_root; eapply Hstart; rewrite Es; left; reflexivity|split; assumption]|discriminate].
Qed.

Lemma rrt_step_inB : forall s c s' r, InvB s -> rrt_step s c = (s', r) -> InvB s' /\ PathIn r.
Proof.
  intros s c s' r HI. destruct c as [p v|b|b|p]; cbn [Model.rrt_step].
  - apply tree_setup_inB; exact HI.
  - apply tree_solve_inB; [|intros; eapply rrt_loop_path; eauto|exact HI]. intros; eapply rrt_loop_inB; eauto.
  - intros E; inversion E; subst. split; [exact HI|discriminate].
  - intros E; inversion E; subst. split; [exact HI|discriminate].
Qed.

Lemma rrtstar_step_inB : forall s c s' r, InvB s -> rrtstar_step s c = (s', r) -> InvB s' /\ PathIn r.
Proof.
  intros s c s' r HI. destruct c as [p v|b|b|p]; cbn [Model.rrtstar_step].
  - apply tree_setup_inB; exact HI.
  - apply tree_solve_inB; [|intros; eapply rrtstar_loop_path; eauto|exact HI]. intros; eapply rrtstar_loop_inB; eauto.
  - intros E; inversion E; subst. split; [exact HI|discriminate].
  - intros E; inversion E; subst. split; [exact HI|discriminate].
Qed.

Lemma rrtc_solve_roadmap : forall (s : pstate) b s' r,
  rrtc_solve dist interp lvs valid goal starts u64_at usample gsample maxd bias s b = (s', r) -> roadmap s' = roadmap s.
Proof.
  intros s b s' r. unfold rrtc_solve.
  destruct (pd s) as [p|]; [|intros E; inversion E; reflexivity].
  destruct (vc s) as [v|]; [|intros E; inversion E; reflexivity].
  destruct (starts p) as [|s0 rest]; [intros E; inversion E; reflexivity|].
  destruct (negb (valid v s0)); [intros E; inversion E; reflexivity|].
  destruct (gtree s) as [|g0 gr]; [intros E; inversion E; reflexivity|].
  destruct (negb (valid v (st g0))); [intros E; inversion E; reflexivity|].
  destruct (take_rng s) as [g pos].
  destruct (Model.rrtc_loop _ _ _ _ _ _ _ _ _ _ _ _ _ _ _ _ _) as [[[ts' tg'] pos'] r'].
  intros E; inversion E; reflexivity.
Qed.

Lemma rrtc_step_inB : forall s c s' r, InvB s -> rrtc_step s c = (s', r) -> InvB s' /\ PathIn r.
Proof.
  intros s c s' r (Ht & Hg & Hr). destruct c as [p v|b|b|p]; cbn [Model.rrtc_step].
  - unfold rrtc_setup. destruct (starts p) as [|s0 rest] eqn:Es.
    + intros E; inversion E; subst. split; [split; [constructor|split; [constructor|exact Hr]]|discriminate].
    + destruct (take_rng s) as [g pos]. destruct (gsample p g pos) as [[gs|] c] eqn:Egs; intros E; inversion E; subst; cbn.
      * split; [|discriminate]. split; [apply inB_root; eapply Hstart; rewrite Es; left; reflexivity|].
        split; [apply inB_root; eapply Hgs; eauto|exact Hr].
      * split; [|discriminate]. split; [apply inB_root; eapply Hstart; rewrite Es; left; reflexivity|split; [constructor|exact Hr]].
  - intros E. pose proof (rrtc_solve_roadmap _ _ _ _ E) as Hr'.
    apply rrtc_solve_cases in E. destruct E as [[-> Hnp]|E].
    + split; [split; [|split]; assumption|]. intros path Hpath; exfalso; eapply Hnp; eauto.
    + destruct E as (p & v & s0 & rest & g0 & grest & g & pos & ts' & tg' & pos' & _ & _ & _ & _ & _ & _ & El & _ & _ & Et' & Eg').
      destruct (rrtc_loop_inB _ _ _ _ _ _ _ _ _ _ _ Ht Hg El) as [Hs' Hg'].
      split.
      * split; [rewrite Et'; exact Hs'|split; [rewrite Eg'; exact Hg'|rewrite Hr'; exact Hr]].
      * intros path Hpath. subst r.
        destruct (rrtc_loop_path dist interp lvs valid goal u64_at usample gsample maxd bias _ _ _ _ _ _ _ _ _ _ _ El) as [H|H].
        { exact (from_tree_inB _ _ _ Hs' H). } { exact (from_two_inB _ _ _ Hs' Hg' H). }
  - intros E; inversion E; subst. split; [split; [|split]; assumption|discriminate].
  - intros E; inversion E; subst. split; [split; [|split]; assumption|discriminate].
Qed.

(* PRM: milestones are uniform samples *)
Lemma prm_build_inB : forall fuel v rm g pos rm' pos' r,
  Forall B (mstates rm) -> Model.prm_build dist interp lvs valid usample radius fuel v rm g pos = (rm', pos', r) ->
  Forall B (mstates rm').
Proof.
  induction fuel as [|f IH]; intros v rm g pos rm' pos' r H; cbn [Model.prm_build].
  - intros E; inversion E; subst; exact H.
  - destruct (usample g pos) as [[q|] c] eqn:Eu; [|intros E; inversion E; subst; exact H].
    apply IH. unfold Model.prm_add. destruct (valid v q); [|exact H].
    unfold mstates. rewrite map_app, mapi_mst.
    + apply Forall_app; split; [exact H|constructor; [eapply Hus; eauto|constructor]].
    + intros k m. unfold add_back_edge. destruct (existsb _ _); reflexivity.
Qed.

Lemma prm_step_inB : forall s c s' r, InvB s -> prm_step s c = (s', r) -> InvB s' /\ PathIn r.
Proof.
  intros s c s' r (Ht & Hg & Hr). destruct c as [p v|b|b|p]; cbn [Model.prm_step].
  - intros E; inversion E; subst; cbn. split; [split; [exact Ht|split; [exact Hg|constructor]]|discriminate].
  - destruct (pd s) as [p|] eqn:Ep; destruct (vc s) as [v|] eqn:Ev;
      try (intros E; inversion E; subst; split; [split; [|split]; assumption|discriminate]).
    intros E; inversion E; subst. split; [split; [|split]; assumption|].
    intros path Hp. unfold Model.prm_query in Hp.
    destruct (roadmap s') as [|m0 rm0] eqn:Erm; [discriminate|]. rewrite <- Erm in *.
    destruct (starts p) as [|s0 rest] eqn:Es; [discriminate|].
    destruct (negb (valid v s0)); [discriminate|].
    destruct (start_conns _ _ _ _ _ _ _ _ _) as [|c0 sc]; [discriminate|].
    destruct (goal_idxs _ _ _ _) as [|g0 gi]; [discriminate|].
    destruct (bfs _ _ _ _ _ _ _) as [| gidx pm | |]; try discriminate.
    destruct (prm_walk _ _ _ _ _) as [[ch|]|] eqn:Ew; try discriminate.
    inversion Hp; subst. constructor; [eapply Hstart; rewrite Es; left; reflexivity|].
    eapply prm_walk_states; [| |exact Ew]; [|constructor].
    intros m Hm. unfold mstates in Hr. rewrite Forall_forall in Hr. apply Hr. apply in_map; exact Hm.
  - destruct (pd s) as [p|]; destruct (vc s) as [v|];
      try (intros E; inversion E; subst; split; [split; [|split]; assumption|discriminate]).
    destruct (roadmap s) as [|m rm] eqn:Erm; [|intros E; inversion E; subst; split; [split; [|split]; [assumption|assumption|rewrite Erm; assumption]|discriminate]].
    destruct (take_rng s) as [g pos].
    destruct (Model.prm_build _ _ _ _ _ _ _ _ _ _ _) as [[rm' pos'] r'] eqn:Eb.
    intros E; inversion E; subst; cbn. split.
    + split; [exact Ht|split; [exact Hg|eapply prm_build_inB; [|exact Eb]; constructor]].
    + intros path Hp. exfalso. eapply prm_build_no_path; eauto.
  - intros E; inversion E; subst; cbn. split; [split; [|split]; assumption|discriminate].
Qed.

(* ---- histories ---- *)
Lemma InvB_new : forall sd, InvB (new_planner sd).
Proof. intros sd. split; [constructor|split; constructor]. Qed.

Section HistB.
Variable step : pstate -> @call V P -> pstate * response S.
Hypothesis stepB : forall s c s' r, InvB s -> step s c = (s', r) -> InvB s' /\ PathIn r.

Theorem history_inB : forall cs s0 s rs c s' r,
  InvB s0 -> run step s0 cs = (s, rs) -> step s c = (s', r) -> PathIn r.
Proof.
  induction cs as [|c0 cs IH]; intros s0 s rs c s' r H0; cbn [run].
  - intros E; inversion E; subst. intros Hs. eapply stepB; eauto.
  - destruct (step s0 c0) as [s1 r1] eqn:E1. destruct (run step s1 cs) as [s2 rs2] eqn:E2.
    intros E; inversion E; subst. eapply IH; [|exact E2]. eapply stepB; eauto.
Qed.
End HistB.

Theorem rrt_paths_in_bounds : forall sd cs s rs c s' r,
  run rrt_step (new_planner sd) cs = (s, rs) -> rrt_step s c = (s', r) -> PathIn r.
Proof. intros sd cs s rs c s' r. apply (history_inB rrt_step rrt_step_inB). apply InvB_new. Qed.
Theorem rrtstar_paths_in_bounds : forall sd cs s rs c s' r,
  run rrtstar_step (new_planner sd) cs = (s, rs) -> rrtstar_step s c = (s', r) -> PathIn r.
Proof. intros sd cs s rs c s' r. apply (history_inB rrtstar_step rrtstar_step_inB). apply InvB_new. Qed.
Theorem rrtc_paths_in_bounds : forall sd cs s rs c s' r,
  run rrtc_step (new_planner sd) cs = (s, rs) -> rrtc_step s c = (s', r) -> PathIn r.
Proof. intros sd cs s rs c s' r. apply (history_inB rrtc_step rrtc_step_inB). apply InvB_new. Qed.
Theorem prm_paths_in_bounds : forall sd cs s rs c s' r,
  run prm_step (new_planner sd) cs = (s, rs) -> prm_step s c = (s', r) -> PathIn r.
Proof. intros sd cs s rs c s' r. apply (history_inB prm_step prm_step_inB). apply InvB_new. Qed.

End BoundsInv.
