(* C18: the roadmap holds exactly the valid samples, repeated construction / problem replacement
   leave it alone, and a query that answers NoSolutionFound has really exhausted the component(s) of
   the start connections without meeting a goal milestone. *)
From Coq Require Import ZArith NArith List Bool Floats Lia.
From OX Require Import Numerics.FloatBits Gen.Consts Planners.Model Proofs.Basics Proofs.ValidInv Proofs.TreeInv Proofs.Links Proofs.PrmInv.
Import ListNotations.
Open Scope nat_scope.

Section PrmComplete.
Context {S V P : Type}.
Variable dist : S -> S -> F.
Variable interp : S -> S -> F -> S.
Variable lvs : F.
Variable valid : V -> S -> bool.
Variable goal : P -> S -> bool.
Variable starts : P -> list S.
Variable usample : gen -> N -> option S * N.
Variable radius : F.

Notation prm_add := (prm_add dist interp lvs valid radius).
Notation prm_build := (prm_build dist interp lvs valid usample radius).
Notation prm_query := (prm_query dist interp lvs valid goal starts radius).
Notation prm_step := (prm_step dist interp lvs valid goal starts usample radius).
Notation start_conns := (start_conns dist interp lvs valid radius).

(* the samples drawn by a build of [fuel] iterations (until the sampler fails) *)
Fixpoint drawn (fuel : nat) (g : gen) (pos : N) : list S :=
  match fuel with
  | O => []
  | Datatypes.S f => match usample g pos with
                     | (Some q, c) => q :: drawn f g (pos + c)%N
                     | (None, _) => []
                     end
  end.

Lemma prm_add_states : forall v rm q,
  mstates (prm_add v rm q) = mstates rm ++ (if valid v q then [q] else []).
Proof.
  intros v rm q. unfold Model.prm_add. destruct (valid v q); [|rewrite app_nil_r; reflexivity].
  unfold mstates. rewrite map_app, mapi_mst; [reflexivity|].
  intros k m. unfold add_back_edge. destruct (existsb _ _); reflexivity.
Qed.

(* the roadmap contains exactly the valid samples drawn, in order *)
Theorem prm_build_states : forall fuel v rm g pos rm' pos' r,
  prm_build fuel v rm g pos = (rm', pos', r) ->
  mstates rm' = mstates rm ++ filter (valid v) (drawn fuel g pos).
Proof.
  induction fuel as [|f IH]; intros v rm g pos rm' pos' r; cbn [Model.prm_build drawn].
  - intros E; inversion E; subst. cbn. rewrite app_nil_r. reflexivity.
  - destruct (usample g pos) as [[q|] c].
    + intros E. rewrite (IH _ _ _ _ _ _ _ E), prm_add_states, <- app_assoc. cbn [filter].
      destruct (valid v q); reflexivity.
    + intros E; inversion E; subst. cbn. rewrite app_nil_r. reflexivity.
Qed.

(* a second construct_roadmap on a non-empty roadmap, and set_problem_definition, change nothing else *)
Theorem construct_twice_identity : forall (s : @pstate S V P) b p v,
  pd s = Some p -> vc s = Some v -> roadmap s <> [] -> prm_step s (CConstruct b) = (s, RUnit).
Proof. intros s b p v Hp Hv Hr. cbn. rewrite Hp, Hv. destruct (roadmap s); [contradiction|reflexivity]. Qed.

Theorem set_pd_only_pd : forall (s : @pstate S V P) p,
  prm_step s (CSetPd p) = (mkPS (Some p) (vc s) (tree s) (gtree s) (roadmap s) (rng s) (spos s) (fpos s), RUnit).
Proof. reflexivity. Qed.

(* ---- BFS completeness ---- *)
Definition edge (rm : list (mnode S)) (a b : nat) : Prop := exists ma, nth_error rm a = Some ma /\ In b (medges ma).

Inductive connected (rm : list (mnode S)) (src : list nat) : nat -> Prop :=
| conn_src : forall a, In a src -> connected rm src a
| conn_step : forall a b, connected rm src a -> edge rm a b -> connected rm src b.

(* every visited node is still queued or has been expanded: it is no goal and all its neighbours are visited *)
Definition BfsInv (rm : list (mnode S)) (goals visited queue : list nat) : Prop :=
  forall x, In x visited ->
    In x queue \/ (mem_nat x goals = false /\ forall m, nth_error rm x = Some m -> forall e, In e (medges m) -> In e visited).

Lemma mem_nat_in : forall x l, mem_nat x l = true <-> In x l.
Proof. intros x l. unfold mem_nat. apply existsb_eqb_in. Qed.

Lemma bfs_expand_spec : forall cur es visited pm queue vis' pm' q',
  bfs_expand cur es visited pm queue = (vis', pm', q') ->
  (forall x, In x visited -> In x vis') /\ (forall x, In x queue -> In x q') /\
  (forall e, In e es -> In e vis') /\
  (forall x, In x vis' -> In x visited \/ In x q').
Proof.
  intros cur es. induction es as [|n es IH]; intros visited pm queue vis' pm' q'; cbn [bfs_expand].
  - intros E; inversion E; subst. repeat split; auto. intros e [].
  - destruct (mem_nat n visited) eqn:Em.
    + intros E. destruct (IH _ _ _ _ _ _ E) as (A & B & C & D). repeat split; auto.
      intros e [<-|He]; [apply A; apply mem_nat_in; exact Em|apply C; exact He].
    + intros E. destruct (IH _ _ _ _ _ _ E) as (A & B & C & D). repeat split.
      * intros x Hx. apply A. right; exact Hx.
      * intros x Hx. apply B. apply in_or_app; left; exact Hx.
      * intros e [<-|He]; [apply A; left; reflexivity|apply C; exact He].
      * intros x Hx. destruct (D x Hx) as [[<-|H]|H]; [right; apply B; apply in_or_app; right; left; reflexivity|left; exact H|right; exact H].
Qed.

Lemma bfs_exhausted_closed : forall fuel budget rm goals visited pm queue,
  BfsInv rm goals visited queue ->
  bfs fuel budget rm goals visited pm queue = BfsExhausted ->
  exists vis', (forall x, In x visited -> In x vis') /\ BfsInv rm goals vis' [].
Proof.
  induction fuel as [|f IH]; intros budget rm goals visited pm queue Hinv; cbn [bfs].
  - destruct queue; [intros _; exists visited; split; [auto|exact Hinv]|discriminate].
  - destruct queue as [|cur queue']; [intros _; exists visited; split; [auto|exact Hinv]|].
    destruct budget as [|b]; [discriminate|].
    destruct (mem_nat cur goals) eqn:Eg; [discriminate|].
    destruct (nth_error rm cur) as [m|] eqn:Ec; [|discriminate].
    destruct (bfs_expand cur (medges m) visited pm queue') as [[vis1 pm1] q1] eqn:Ee.
    destruct (bfs_expand_spec _ _ _ _ _ _ _ _ Ee) as (A & B & C & D).
    intros E. destruct (IH b rm goals vis1 pm1 q1) as (vis' & Hsub & Hinv'); [|exact E|].
    + intros x Hx. destruct (D x Hx) as [Hv|Hq]; [|left; exact Hq].
      destruct (Hinv x Hv) as [[<-|Hq]|[Hng Hexp]].
      * right. split; [exact Eg|]. intros m' Hm' e He. rewrite Ec in Hm'; inversion Hm'; subst. apply C; exact He.
      * left. apply B; exact Hq.
      * right. split; [exact Hng|]. intros m' Hm' e He. apply A. eapply Hexp; eauto.
    + exists vis'. split; [intros x Hx; apply Hsub, A; exact Hx|exact Hinv'].
Qed.

(* NoSolutionFound from the search itself: no goal milestone is connected to a start connection *)
Theorem bfs_complete : forall fuel budget rm goals sc pm,
  bfs fuel budget rm goals sc pm (sc ++ sc) = BfsExhausted ->
  forall g, connected rm sc g -> mem_nat g goals = false.
Proof.
  intros fuel budget rm goals sc pm E.
  destruct (bfs_exhausted_closed fuel budget rm goals sc pm (sc ++ sc)) as (vis' & Hsub & Hinv); [|exact E|].
  { intros x Hx. left. apply in_or_app; left; exact Hx. }
  assert (Hall : forall g, connected rm sc g -> In g vis').
  { intros g Hc. induction Hc as [a Ha|a b Hc IH (ma & Hma & Hb)].
    - apply Hsub; exact Ha.
    - destruct (Hinv a IH) as [[]|[_ Hexp]]. exact (Hexp ma Hma b Hb). }
  intros g Hc. destruct (Hinv g (Hall g Hc)) as [[]|[Hng _]]. exact Hng.
Qed.

(* the whole query: NoSolutionFound means there is no start connection, no goal milestone, or none of
   the goal milestones is connected to a start connection in the roadmap graph *)
Theorem prm_query_complete : forall b p v rm s0 rest,
  starts p = s0 :: rest ->
  prm_query b p v rm = RErr ENoSolution ->
  let sc := start_conns v s0 rm 0 in
  let gi := goal_idxs goal p rm 0 in
  sc = [] \/ gi = [] \/ forall g, connected rm sc g -> mem_nat g gi = false.
Proof.
  intros b p v rm s0 rest Es. unfold Model.prm_query. rewrite Es.
  destruct rm as [|m0 rm0] eqn:Erm; [discriminate|]. rewrite <- Erm in *.
  destruct (negb (valid v s0)); [discriminate|].
  destruct (start_conns v s0 rm 0) as [|c0 sc'] eqn:Esc; [intros _; left; reflexivity|].
  destruct (goal_idxs goal p rm 0) as [|g0 gi'] eqn:Egi; [intros _; right; left; reflexivity|].
  destruct (bfs _ _ _ _ _ _ _) as [| gidx pm | |] eqn:Eb; try discriminate.
  - destruct (prm_walk _ _ _ _ _) as [[ch|]|]; discriminate.
  - intros _. right; right. eapply bfs_complete; exact Eb.
Qed.

End PrmComplete.
