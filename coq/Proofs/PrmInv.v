(* PRM: the roadmap is a faithful undirected graph (C18 structure) and a returned path is a walk
   in it from a start connection to a goal milestone (C02, C03, C05 for PRM). *)
From Coq Require Import ZArith NArith List Bool Floats Lia.
From OX Require Import Numerics.FloatBits Gen.Consts Planners.Model Proofs.Basics Proofs.ValidInv Proofs.TreeInv Proofs.Links.
Import ListNotations.
Open Scope nat_scope.

Lemma NoDup_snoc : forall {A} (l : list A) x, NoDup l -> ~ In x l -> NoDup (l ++ [x]).
Proof.
  intros A l x. induction l as [|a l IH]; cbn; intros H Hn.
  - constructor; [intros []|constructor].
  - inversion H; subst. constructor.
    + intro Hin. apply in_app_or in Hin. destruct Hin as [Hin|[->|[]]]; [contradiction|].
      apply Hn; left; reflexivity.
    + apply IH; [assumption|]. intro Hx; apply Hn; right; exact Hx.
Qed.

Section Prm.
Context {S V P : Type}.
Variable dist : S -> S -> F.
Variable interp : S -> S -> F -> S.
Variable lvs : F.
Variable valid : V -> S -> bool.
Variable goal : P -> S -> bool.
Variable starts : P -> list S.
Variable usample : gen -> N -> option S * N.
Variable radius : F.

Notation check_motion := (check_motion dist interp lvs valid).
Notation prm_links := (prm_links dist interp lvs valid radius).
Notation prm_add := (prm_add dist interp lvs valid radius).
Notation prm_build := (prm_build dist interp lvs valid usample radius).
Notation start_conns := (start_conns dist interp lvs valid radius).
Notation prm_query := (prm_query dist interp lvs valid goal starts radius).

(* what is established when a link a -- b is written (a is the newer state / the start) *)
Definition plink (v : V) (a b : S) : Prop := flt (dist a b) radius = true /\ check_motion v a b = true.

(* the roadmap invariant: adjacency is in range, irreflexive, symmetric, duplicate-free, and every
   edge joins two milestones closer than the radius with a validated motion (newer -> older) *)
Definition RmInv (v : V) (rm : list (mnode S)) : Prop :=
  forall i m, nth_error rm i = Some m ->
    NoDup (medges m) /\
    forall j, In j (medges m) ->
      j <> i /\ exists mj, nth_error rm j = Some mj /\ In i (medges mj) /\
                           (if Nat.ltb j i then plink v (mst m) (mst mj) else plink v (mst mj) (mst m)).

Lemma RmInv_nil : forall v, RmInv v [].
Proof. intros v i m H. destruct i; discriminate. Qed.

(* prm_links: ascending indices of the milestones linked to q *)
Lemma prm_links_spec : forall v q l pre j,
  In j (prm_links v q l (length pre)) ->
  length pre <= j /\ exists mj, nth_error (pre ++ l) j = Some mj /\ plink v q (mst mj).
Proof.
  intros v q l. induction l as [|m l IH]; intros pre j; cbn [Model.prm_links]; [intros []|].
  replace (pre ++ m :: l) with ((pre ++ [m]) ++ l) by (rewrite <- app_assoc; reflexivity).
  assert (EL : Datatypes.S (length pre) = length (pre ++ [m])) by (rewrite app_length; cbn; lia).
  destruct (flt (dist q (mst m)) radius) eqn:Ef.
  - destruct (Model.check_motion dist interp lvs valid v q (mst m)) eqn:Ec.
    + intros [<-|Hin].
      * split; [lia|]. exists m. split; [|split; assumption].
        rewrite nth_error_app1 by (rewrite app_length; cbn; lia). apply nth_error_app_last.
      * rewrite EL in Hin. destruct (IH _ _ Hin) as (A & B). split; [rewrite app_length in A; cbn in A; lia|exact B].
    + intros Hin. rewrite EL in Hin. destruct (IH _ _ Hin) as (A & B). split; [rewrite app_length in A; cbn in A; lia|exact B].
  - intros Hin. rewrite EL in Hin. destruct (IH _ _ Hin) as (A & B). split; [rewrite app_length in A; cbn in A; lia|exact B].
Qed.

Lemma prm_links_nodup : forall v q l k, NoDup (prm_links v q l k).
Proof.
  intros v q l. induction l as [|m l IH]; intros k; cbn [Model.prm_links]; [constructor|].
  destruct (if flt (dist q (mst m)) radius then Model.check_motion dist interp lvs valid v q (mst m) else false); [|apply IH].
  constructor; [|apply IH].
  intros Hin.
  assert (H := prm_links_spec v q l (repeat m (Datatypes.S k)) k).
  rewrite repeat_length in H. destruct (H Hin) as [A _]. lia.
Qed.

Lemma nth_error_mapi : forall {A B} (f : nat -> A -> B) l k i,
  nth_error (mapi f l k) i = option_map (f (k + i)) (nth_error l i).
Proof.
  intros A B f l. induction l as [|x l IH]; intros k i; destruct i as [|i]; cbn; try reflexivity.
  - rewrite Nat.add_0_r. reflexivity.
  - rewrite IH. replace (Datatypes.S k + i) with (k + Datatypes.S i) by lia. reflexivity.
Qed.

Lemma mapi_length : forall {A B} (f : nat -> A -> B) l k, length (mapi f l k) = length l.
Proof. intros A B f l. induction l as [|x l IH]; intros k; cbn; [reflexivity|rewrite IH; reflexivity]. Qed.

Lemma existsb_eqb_in : forall i l, existsb (Nat.eqb i) l = true <-> In i l.
Proof.
  intros i l. rewrite existsb_exists. split.
  - intros (x & Hx & E). apply Nat.eqb_eq in E. subst; exact Hx.
  - intros H. exists i. split; [exact H|apply Nat.eqb_refl].
Qed.

Definition EdgesInRange (rm : list (mnode S)) : Prop :=
  forall i m j, nth_error rm i = Some m -> In j (medges m) -> j < length rm.

Lemma RmInv_range : forall v rm, RmInv v rm -> EdgesInRange rm.
Proof.
  intros v rm H i m j Hm Hj. destruct (H i m Hm) as [_ H2]. destruct (H2 j Hj) as (_ & mj & Hmj & _).
  apply nth_error_Some. rewrite Hmj; discriminate.
Qed.

Lemma prm_add_inv : forall v rm q, RmInv v rm -> RmInv v (prm_add v rm q).
Proof.
  intros v rm q H. unfold Model.prm_add. destruct (valid v q); [|exact H].
  set (n := length rm). set (links := prm_links v q rm 0).
  assert (Hlinks : forall j, In j links -> j < n /\ exists mj, nth_error rm j = Some mj /\ plink v q (mst mj)).
  { intros j Hj. destruct (prm_links_spec v q rm [] j Hj) as (_ & mj & Hmj & Hp). cbn in Hmj.
    split; [apply nth_error_Some; rewrite Hmj; discriminate|]. exists mj; split; assumption. }
  pose proof (RmInv_range v rm H) as Hrange.
  (* lookup in the new roadmap *)
  assert (Hold : forall i, i < n ->
            nth_error (mapi (add_back_edge n links) rm 0 ++ [mkM S q links]) i =
            option_map (add_back_edge n links i) (nth_error rm i)).
  { intros i Hi. rewrite nth_error_app1 by (rewrite mapi_length; exact Hi). rewrite nth_error_mapi. reflexivity. }
  assert (Hnew : nth_error (mapi (add_back_edge n links) rm 0 ++ [mkM S q links]) n = Some (mkM S q links)).
  { rewrite nth_error_app2 by (rewrite mapi_length; unfold n; lia). rewrite mapi_length. unfold n. rewrite Nat.sub_diag. reflexivity. }
  intros i m Hm.
  destruct (Nat.lt_ge_cases i n) as [Hi|Hi].
  - (* an old milestone *)
    rewrite Hold in Hm by exact Hi. destruct (nth_error rm i) as [mi|] eqn:Emi; cbn in Hm; [|discriminate].
    injection Hm as Hm. subst m. destruct (H i mi Emi) as [Hnd Hed].
    unfold add_back_edge. destruct (existsb (Nat.eqb i) links) eqn:Ex; cbn [medges mst].
    + apply existsb_eqb_in in Ex. split.
      * apply NoDup_snoc; [exact Hnd|]. intros Hin. specialize (Hrange i mi n Emi Hin). unfold n in Hrange; lia.
      * intros j Hj. apply in_app_or in Hj. destruct Hj as [Hj|[<-|[]]].
        { destruct (Hed j Hj) as (Hne & mj & Hmj & Hin & Hl). split; [exact Hne|].
          assert (Hjn : j < n) by (apply nth_error_Some; rewrite Hmj; discriminate).
          exists (add_back_edge n links j mj). rewrite Hold by exact Hjn. rewrite Hmj. split; [reflexivity|].
          unfold add_back_edge. destruct (existsb (Nat.eqb j) links); cbn [medges mst];
            (split; [try (apply in_or_app; left); exact Hin|exact Hl]). }
        { split; [lia|]. exists (mkM S q links). split; [exact Hnew|]. cbn [medges mst]. split; [exact Ex|].
          destruct (Hlinks i Ex) as (_ & mi' & Hmi' & Hp). rewrite Emi in Hmi'; injection Hmi' as <-.
          assert (E : Nat.ltb n i = false) by (apply Nat.ltb_ge; lia). rewrite E. exact Hp. }
    + split; [exact Hnd|]. intros j Hj.
      destruct (Hed j Hj) as (Hne & mj & Hmj & Hin & Hl). split; [exact Hne|].
      assert (Hjn : j < n) by (apply nth_error_Some; rewrite Hmj; discriminate).
      exists (add_back_edge n links j mj). rewrite Hold by exact Hjn. rewrite Hmj. split; [reflexivity|].
      unfold add_back_edge. destruct (existsb (Nat.eqb j) links); cbn [medges mst];
        (split; [try (apply in_or_app; left); exact Hin|exact Hl]).
  - (* the new milestone *)
    assert (i = n).
    { assert (i < length (mapi (add_back_edge n links) rm 0 ++ [mkM S q links])) by (apply nth_error_Some; rewrite Hm; discriminate).
      rewrite app_length, mapi_length in H0. cbn in H0. unfold n in *. lia. }
    subst i. rewrite Hnew in Hm. injection Hm as <-. cbn [medges mst]. split; [apply prm_links_nodup|].
    intros j Hj. destruct (Hlinks j Hj) as (Hjn & mj & Hmj & Hp). split; [lia|].
    exists (add_back_edge n links j mj). rewrite Hold by exact Hjn. rewrite Hmj. split; [reflexivity|].
    unfold add_back_edge. assert (Ex : existsb (Nat.eqb j) links = true) by (apply existsb_eqb_in; exact Hj).
    rewrite Ex. cbn [medges mst]. split; [apply in_or_app; right; left; reflexivity|].
    assert (E : Nat.ltb j n = true) by (apply Nat.ltb_lt; exact Hjn). rewrite E. exact Hp.
Qed.

Lemma prm_build_inv : forall fuel v rm g pos rm' pos' r,
  RmInv v rm -> prm_build fuel v rm g pos = (rm', pos', r) -> RmInv v rm'.
Proof.
  induction fuel as [|f IH]; intros v rm g pos rm' pos' r H; cbn [Model.prm_build].
  - intros E; inversion E; subst; exact H.
  - destruct (usample g pos) as [[q|] c].
    + apply IH. apply prm_add_inv; exact H.
    + intros E; inversion E; subst; exact H.
Qed.

End Prm.

Section PrmQuery.
Context {S V P : Type}.
Variable dist : S -> S -> F.
Variable interp : S -> S -> F -> S.
Variable lvs : F.
Variable valid : V -> S -> bool.
Variable goal : P -> S -> bool.
Variable starts : P -> list S.
Variable radius : F.

Notation plink := (plink dist interp lvs valid radius).
Notation RmInv := (RmInv dist interp lvs valid radius).
Notation start_conns := (start_conns dist interp lvs valid radius).
Notation prm_query := (prm_query dist interp lvs valid goal starts radius).

Definition psym (v : V) (a b : S) : Prop := plink v a b \/ plink v b a.

Lemma start_conns_spec : forall v s0 l pre j,
  In j (start_conns v s0 l (length pre)) ->
  exists mj, nth_error (pre ++ l) j = Some mj /\ plink v s0 (mst mj).
Proof.
  intros v s0 l. induction l as [|m l IH]; intros pre j; cbn [Model.start_conns]; [intros []|].
  replace (pre ++ m :: l) with ((pre ++ [m]) ++ l) by (rewrite <- app_assoc; reflexivity).
  assert (EL : Datatypes.S (length pre) = length (pre ++ [m])) by (rewrite app_length; cbn; lia).
  destruct (flt (dist s0 (mst m)) radius) eqn:Ef.
  - destruct (Model.check_motion dist interp lvs valid v s0 (mst m)) eqn:Ec.
    + intros [<-|Hin].
      * exists m. split; [|split; assumption].
        rewrite nth_error_app1 by (rewrite app_length; cbn; lia). apply nth_error_app_last.
      * rewrite EL in Hin. exact (IH _ _ Hin).
    + intros Hin. rewrite EL in Hin. exact (IH _ _ Hin).
  - intros Hin. rewrite EL in Hin. exact (IH _ _ Hin).
Qed.

Lemma goal_idxs_spec : forall p l pre j,
  In j (goal_idxs goal p l (length pre)) ->
  exists mj, nth_error (pre ++ l) j = Some mj /\ goal p (mst mj) = true.
Proof.
  intros p l. induction l as [|m l IH]; intros pre j; cbn [goal_idxs]; [intros []|].
  replace (pre ++ m :: l) with ((pre ++ [m]) ++ l) by (rewrite <- app_assoc; reflexivity).
  assert (EL : Datatypes.S (length pre) = length (pre ++ [m])) by (rewrite app_length; cbn; lia).
  destruct (goal p (mst m)) eqn:Eg.
  - intros [<-|Hin].
    + exists m. split; [|exact Eg].
      rewrite nth_error_app1 by (rewrite app_length; cbn; lia). apply nth_error_app_last.
    + rewrite EL in Hin. exact (IH _ _ Hin).
  - intros Hin. rewrite EL in Hin. exact (IH _ _ Hin).
Qed.

(* parent map: every binding points along a roadmap edge, roots are start connections *)
Definition PmInv (rm : list (mnode S)) (sc : list nat) (pm : list (nat * option nat)) : Prop :=
  forall k par, In (k, par) pm ->
    match par with
    | None => In k sc
    | Some p => exists mp, nth_error rm p = Some mp /\ In k (medges mp)
    end.

Lemma bfs_expand_inv : forall rm sc cur mc es visited pm queue vis' pm' q',
  nth_error rm cur = Some mc -> (forall e, In e es -> In e (medges mc)) ->
  PmInv rm sc pm -> bfs_expand cur es visited pm queue = (vis', pm', q') -> PmInv rm sc pm'.
Proof.
  intros rm sc cur mc es. induction es as [|n es IH]; intros visited pm queue vis' pm' q' Hc Hes Hpm; cbn [bfs_expand].
  - intros E; inversion E; subst; exact Hpm.
  - assert (Hes' : forall e, In e es -> In e (medges mc)) by (intros e He; apply Hes; right; exact He).
    destruct (mem_nat n visited); [apply IH; assumption|].
    apply IH; try assumption.
    intros k par [E|Hin]; [|apply Hpm; exact Hin].
    inversion E; subst. exists mc. split; [exact Hc|apply Hes; left; reflexivity].
Qed.

Lemma bfs_found_inv : forall fuel budget rm goals sc visited pm queue g pm',
  PmInv rm sc pm -> bfs fuel budget rm goals visited pm queue = BfsFound g pm' ->
  mem_nat g goals = true /\ PmInv rm sc pm'.
Proof.
  induction fuel as [|f IH]; intros budget rm goals sc visited pm queue g pm' Hpm; cbn [bfs].
  - destruct queue; discriminate.
  - destruct queue as [|cur queue']; [discriminate|].
    destruct budget as [|b]; [discriminate|].
    destruct (mem_nat cur goals) eqn:Em.
    + intros E; inversion E; subst. split; assumption.
    + destruct (nth_error rm cur) as [m|] eqn:Ec; [|discriminate].
      destruct (bfs_expand cur (medges m) visited pm queue') as [[vis' pm1] q1] eqn:Ee.
      apply IH. eapply bfs_expand_inv; [exact Ec| |exact Hpm|exact Ee]. intros e He; exact He.
Qed.

Lemma pm_get_in : forall pm k par, pm_get pm k = Some par -> In (k, par) pm.
Proof.
  intros pm k par. unfold pm_get.
  destruct (find (fun kv => Nat.eqb (fst kv) k) pm) as [[k' par']|] eqn:Ef; [|discriminate].
  intros E; inversion E; subst. apply find_some in Ef. destruct Ef as [Hin Heq].
  cbn in Heq. apply Nat.eqb_eq in Heq. subst. exact Hin.
Qed.

Lemma prm_walk_chain : forall v rm sc pm, RmInv v rm -> PmInv rm sc pm ->
  forall fuel cur acc l,
  prm_walk fuel rm pm cur acc = Some (Some l) ->
  chain (psym v) acc ->
  (forall m c rest, nth_error rm cur = Some m -> acc = c :: rest -> psym v (mst m) c) ->
  chain (psym v) l /\
  (exists root mroot rest, In root sc /\ nth_error rm root = Some mroot /\ l = mst mroot :: rest) /\
  (exists m l0, nth_error rm cur = Some m /\ l = l0 ++ mst m :: acc).
Proof.
  intros v rm sc pm Hrm Hpm fuel. induction fuel as [|f IH]; intros cur acc l; cbn [prm_walk]; [discriminate|].
  destruct (pm_get pm cur) as [par|] eqn:Eg; [|discriminate].
  destruct (nth_error rm cur) as [m|] eqn:Em; [|discriminate].
  intros Hw Hacc Hlink.
  assert (Hc : chain (psym v) (mst m :: acc)).
  { destruct acc as [|c rest]; [constructor|]. constructor; [eapply Hlink; eauto|exact Hacc]. }
  apply pm_get_in in Eg. specialize (Hpm _ _ Eg).
  destruct par as [p|].
  - destruct Hpm as (mp & Hmp & Hin).
    destruct (IH p (mst m :: acc) l Hw Hc) as (H1 & H2 & (m' & l0 & Hm' & Hl)).
    { intros m1 c rest Hm1 Hacc1. inversion Hacc1; subst. rewrite Hmp in Hm1; inversion Hm1; subst m1.
      destruct (Hrm p mp Hmp) as [_ Hed]. destruct (Hed cur Hin) as (_ & mk & Hmk & _ & Hl).
      rewrite Em in Hmk; inversion Hmk; subst mk.
      destruct (Nat.ltb cur p); [left|right]; exact Hl. }
    split; [exact H1|]. split; [exact H2|].
    exists m, (l0 ++ [mst m']). split; [reflexivity|]. rewrite Hl, <- app_assoc. reflexivity.
  - inversion Hw; subst. split; [exact Hc|]. split.
    + exists cur, m, acc. repeat split; assumption.
    + exists m, []. split; reflexivity.
Qed.

(* a path returned by the PRM query *)
Theorem prm_query_sound : forall b p v rm path,
  RmInv v rm -> prm_query b p v rm = RPath path ->
  exists s0 rest chain_,
    starts p = s0 :: rest /\ path = s0 :: chain_ /\
    chain (psym v) path /\
    (exists l x, path = l ++ [x] /\ goal p x = true).
Proof.
  intros b p v rm path Hrm. unfold Model.prm_query.
  destruct rm as [|m0 rm0] eqn:Erm; [discriminate|]. rewrite <- Erm in *.
  destruct (starts p) as [|s0 rest] eqn:Es; [discriminate|].
  destruct (valid v s0) eqn:Es0; cbn [negb]; [|discriminate].
  destruct (start_conns v s0 rm 0) as [|c0 sc'] eqn:Esc; [discriminate|].
  destruct (goal_idxs goal p rm 0) as [|g0 gi'] eqn:Egi; [discriminate|].
  set (sc := c0 :: sc') in *. set (gi := g0 :: gi') in *.
  destruct (bfs _ _ _ _ _ _ _) as [| gidx pm | |] eqn:Eb; try discriminate.
  destruct (prm_walk _ _ _ _ _) as [[ch|]|] eqn:Ew; try discriminate.
  intros H; inversion H; subst path; clear H.
  assert (Hpm0 : PmInv rm sc (rev (map (fun i => (i, @None nat)) sc))).
  { intros k par Hin. apply in_rev in Hin. apply in_map_iff in Hin. destruct Hin as (i & E & Hi).
    inversion E; subst. exact Hi. }
  destruct (bfs_found_inv _ _ _ _ _ _ _ _ _ _ Hpm0 Eb) as [Hg Hpm].
  destruct (prm_walk_chain v rm sc pm Hrm Hpm _ _ _ _ Ew) as (Hc & (root & mroot & rest0 & Hroot & Hmroot & Hl) & (mg & l0 & Hmg & Hlg)).
  { constructor. } { intros; discriminate. }
  exists s0, rest, ch. split; [reflexivity|]. split; [reflexivity|]. split.
  - rewrite Hl. constructor; [|rewrite <- Hl; exact Hc].
    rewrite <- Esc in Hroot. destruct (start_conns_spec v s0 rm [] root Hroot) as (mr & Hmr & Hp).
    cbn in Hmr. rewrite Hmroot in Hmr; inversion Hmr; subst. left; exact Hp.
  - exists (s0 :: l0), (mst mg). split; [rewrite Hlg; reflexivity|].
    unfold mem_nat in Hg. apply existsb_eqb_in in Hg. subst gi. rewrite <- Egi in Hg.
    destruct (goal_idxs_spec p rm [] gidx Hg) as (mg' & Hmg' & Hgoal). cbn in Hmg'.
    rewrite Hmg in Hmg'; inversion Hmg'; subst. exact Hgoal.
Qed.

End PrmQuery.
