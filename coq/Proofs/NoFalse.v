(* C06: the deadline state machine of RRT-Connect, and "no false success" for all four planners:
   a path is only ever answered if it is sound (starts at the start, ends in the goal region - for
   RRT-Connect: or at a goal sample -, every segment accepted by a motion check), so in a world in
   which no sound path exists every answer is an error. *)
From Coq Require Import ZArith NArith List Bool Floats.
From OX Require Import Numerics.FloatBits Gen.Consts Planners.Model Proofs.Basics Proofs.TreeInv Proofs.Repro Proofs.Final Proofs.ApiStruct.
Import ListNotations.

Section NoFalse.
Context {S V P : Type}.
Variable dist : S -> S -> F.
Variable interp : S -> S -> F -> S.
Variable lvs : F.
Variable valid : V -> S -> bool.
Variable goal : P -> S -> bool.
Variable starts : P -> list S.
Variable u64_at : gen -> N -> N.
Variable usample : gen -> N -> option S * N.
Variable gsample : P -> gen -> N -> option S * N.
Variables maxd bias radius : F.

Notation rrtc_loop := (rrtc_loop dist interp lvs valid goal u64_at usample gsample maxd bias).
Notation check_motion := (check_motion dist interp lvs valid).

Lemma resp_of_path_not_timeout : forall (r : option (option (list S))), resp_of_path r <> RErr ETimeout.
Proof. intros [[?|]|]; discriminate. Qed.

Lemma join_paths_not_timeout : forall (a b : option (option (list S))), join_paths a b <> RErr ETimeout.
Proof. intros [[?|]|] [[?|]|]; discriminate. Qed.

Lemma rrtc_loop_prefix : forall n k p v ts tg g pos ts' tg' pos',
  rrtc_loop n p v ts tg g pos = (ts', tg', pos', RErr ETimeout) ->
  rrtc_loop (n + k) p v ts tg g pos = rrtc_loop k p v ts' tg' g pos'.
Proof.
  induction n as [|n IH]; intros k p v ts tg g pos ts' tg' pos'; cbn [Model.rrtc_loop Nat.add].
  - intros E; inversion E; reflexivity.
  - destruct (draw u64_at usample gsample bias p g pos) as [[q|] pos1]; [|discriminate].
    destruct (Nat.leb (length ts) (length tg)).
    + destruct (extend dist interp lvs valid maxd v ts q) as [ts1 [| |re ia qn]]; [discriminate|apply IH|].
      destruct (goal p qn).
      { intros E. injection E as _ _ _ E. exfalso. exact (resp_of_path_not_timeout _ E). }
      destruct (extend dist interp lvs valid maxd v tg qn) as [tg1 [| |[|] ib qb]]; [discriminate|apply IH| |apply IH].
      intros E. injection E as _ _ _ E. exfalso. exact (join_paths_not_timeout _ _ E).
    + destruct (extend dist interp lvs valid maxd v tg q) as [tg1 [| |re ia qn]]; [discriminate|apply IH|].
      destruct (extend dist interp lvs valid maxd v ts qn) as [ts1 [| |[|] ib qb]]; [discriminate|apply IH| |apply IH].
      intros E. injection E as _ _ _ E. exfalso. exact (join_paths_not_timeout _ _ E).
Qed.

(* a sound answer: head = first start of the problem, last state in the goal region, every segment
   accepted by a motion check in one of the two directions *)
Definition sound_path (v : V) (p : P) (path : list S) : Prop :=
  (exists s0 rest tl_, starts p = s0 :: rest /\ path = s0 :: tl_) /\
  (exists l x, path = l ++ [x] /\ goal p x = true) /\
  chain (fun a b => check_motion v a b = true \/ check_motion v b a = true) path.

Definition no_false_success (step : @pstate S V P -> @call V P -> @pstate S V P * response S) : Prop :=
  forall seeded cs s rs c s' r,
    run step (new_planner seeded) cs = (s, rs) -> step s c = (s', r) ->
    (forall v p path, vc s = Some v -> pd s = Some p -> ~ sound_path v p path) ->
    forall path, r <> RPath path.

Theorem no_false_success_rrt : no_false_success (rrt_step dist interp lvs valid goal starts u64_at usample gsample maxd bias).
Proof.
  intros sd cs s rs c s' r Hrun Hstep Hnone path Hr.
  destruct (rrt_paths_sound dist interp lvs valid goal starts u64_at usample gsample maxd bias _ _ _ _ _ _ _ Hrun Hstep path Hr)
    as (p & v & s0 & rest & Ep & Ev & Es & (tl_ & Hhd) & Hlast & Hc).
  apply (Hnone v p path Ev Ep). split; [exists s0, rest, tl_; split; assumption|]. split; [exact Hlast|].
  eapply chain_impl; [|exact Hc]. intros a b [H _]; left; exact H.
Qed.

Theorem no_false_success_rrtstar : no_false_success (rrtstar_step dist interp lvs valid goal starts u64_at usample gsample maxd bias radius).
Proof.
  intros sd cs s rs c s' r Hrun Hstep Hnone path Hr.
  destruct (rrtstar_paths_sound dist interp lvs valid goal starts u64_at usample gsample maxd bias radius _ _ _ _ _ _ _ Hrun Hstep path Hr)
    as (p & v & s0 & rest & Ep & Ev & Es & (tl_ & Hhd) & Hlast & Hc).
  apply (Hnone v p path Ev Ep). split; [exists s0, rest, tl_; split; assumption|]. split; [exact Hlast|].
  eapply chain_impl; [|exact Hc]. intros a b [H _]; left; exact H.
Qed.

Theorem no_false_success_rrtconnect :
  goal_sampler_sound goal gsample ->
  no_false_success (rrtc_step dist interp lvs valid goal starts u64_at usample gsample maxd bias).
Proof.
  intros Hgs sd cs s rs c s' r Hrun Hstep Hnone path Hr.
  destruct (rrtc_paths_sound dist interp lvs valid goal starts u64_at usample gsample maxd bias _ _ _ _ _ _ _ Hrun Hstep path Hr)
    as (p & v & s0 & rest & Ep & Ev & Es & (tl_ & Hhd) & (l & x & Hl & Hx) & Hc).
  apply (Hnone v p path Ev Ep). split; [exists s0, rest, tl_; split; assumption|]. split.
  - exists l, x. split; [exact Hl|]. destruct Hx as [Hx|(g & pos & c0 & Hx)]; [exact Hx|eapply Hgs; eauto].
  - eapply chain_impl; [|exact Hc]. intros a b [[H _]|[H _]]; [left|right]; exact H.
Qed.

Theorem no_false_success_prm : no_false_success (prm_step dist interp lvs valid goal starts usample radius).
Proof.
  intros sd cs s rs c s' r Hrun Hstep Hnone path Hr.
  destruct (prm_paths_sound dist interp lvs valid goal starts usample radius _ _ _ _ _ _ _ Hrun Hstep path Hr)
    as (p & v & s0 & rest & Ep & Ev & Es & (tl_ & Hhd) & Hlast & Hc).
  apply (Hnone v p path Ev Ep). split; [exists s0, rest, tl_; split; assumption|]. split; [exact Hlast|].
  eapply chain_impl; [|exact Hc]. intros a b [[_ H]|[_ H]]; [left|right]; exact H.
Qed.

End NoFalse.
