(* C15 / C17 for RRT*: recorded costs are non-negative, a node's cost is at least its parent's
   cost plus the edge (parents only get cheaper), the root is never re-parented, and - the point of
   the exercise - rewiring can never close a cycle: every node keeps a finite parent chain to the
   root, including zero-length edges and equal costs.  Float-level proof (Numerics/FloatOrder.v)
   under the only assumption that distances are >= 0 and not NaN. *)
From Coq Require Import ZArith NArith List Bool Floats Lia.
From OX Require Import Numerics.FloatBits Numerics.FloatOrder Gen.Consts Planners.Model Proofs.Basics Proofs.ValidInv
  Proofs.Prefix Proofs.TreeInv Proofs.Links.
Import ListNotations.
Open Scope nat_scope.

Section StarInv.
Context {S V P : Type}.
Variable dist : S -> S -> F.
Variable interp : S -> S -> F -> S.
Variable lvs : F.
Variable valid : V -> S -> bool.
Variable goal : P -> S -> bool.
Variable u64_at : gen -> N -> N.
Variable usample : gen -> N -> option S * N.
Variable gsample : P -> gen -> N -> option S * N.
Variables maxd bias radius : F.

Notation cost_via := (cost_via dist).
Notation rewire := (rewire dist interp lvs valid).
Notation choose_parent := (choose_parent dist interp lvs valid).
Notation rrtstar_iter := (rrtstar_iter dist interp lvs valid maxd radius).
Notation rrtstar_loop := (rrtstar_loop dist interp lvs valid goal u64_at usample gsample maxd bias radius).

(* what C09 supplies: distances are non-negative and never NaN (+inf allowed) *)
Definition dist_sane : Prop := forall a b, FloatBits.fle zero (dist a b) = true.
Hypothesis Hd : dist_sane.

Inductive reach (t : list (node S)) : nat -> Prop :=
| reach_root : forall i n, nth_error t i = Some n -> par n = None -> reach t i
| reach_step : forall i n p, nth_error t i = Some n -> par n = Some p -> reach t p -> reach t i.

Record SInv (t : list (node S)) : Prop := mkSInv {
  si_cost : forall i n, nth_error t i = Some n -> FloatBits.fle zero (cost n) = true;
  si_mono : forall i n p np, nth_error t i = Some n -> par n = Some p -> nth_error t p = Some np ->
            FloatBits.fle (cost_via (st n) np) (cost n) = true;
  si_root : forall n0, nth_error t 0 = Some n0 -> par n0 = None /\ cost n0 = zero;
  si_par : forall i n p, nth_error t i = Some n -> par n = Some p -> p < length t;
  si_reach : forall i, i < length t -> reach t i
}.

Lemma SInv_root : forall s0, SInv [root_node s0].
Proof.
  intros s0. constructor.
  - intros [|[|i]] n H; cbn in H; try discriminate. inversion H; subst; cbn. vm_compute; reflexivity.
  - intros [|[|i]] n p np H; cbn in H; try discriminate. inversion H; subst; cbn. discriminate.
  - intros n0 H; cbn in H; inversion H; subst; cbn. split; reflexivity.
  - intros [|[|i]] n p H; cbn in H; try discriminate. inversion H; subst; cbn. discriminate.
  - intros i Hi. cbn in Hi. assert (i = 0) by lia. subst. eapply reach_root; cbn; reflexivity.
Qed.

Lemma cost_via_ge : forall (c : S) (via : node S), FloatBits.fle zero (cost via) = true ->
  FloatBits.fle (cost via) (cost_via c via) = true /\ FloatBits.fle zero (cost_via c via) = true.
Proof.
  intros c via H. unfold Model.cost_via. split.
  - apply fadd_nonneg_le; [exact H|apply Hd].
  - apply fadd_nonneg_nonneg; [exact H|apply Hd].
Qed.

Lemma reach_nth : forall t i, reach t i -> exists n, nth_error t i = Some n.
Proof. intros t i H; inversion H; eauto. Qed.

(* re-parenting a node that is strictly more expensive than node i cannot touch i's chain *)
Lemma reach_set_other : forall t j x,
  (forall i n, nth_error t i = Some n -> FloatBits.fle zero (cost n) = true) ->
  (forall i n p np, nth_error t i = Some n -> par n = Some p -> nth_error t p = Some np ->
                    FloatBits.fle (cost_via (st n) np) (cost n) = true) ->
  forall i, reach t i -> forall ni nj, nth_error t i = Some ni -> nth_error t j = Some nj ->
  FloatBits.flt (cost ni) (cost nj) = true -> reach (set_nth t j x) i.
Proof.
  intros t j x Hc Hm i H. induction H as [i n Hn Hp|i n p Hn Hp Hr IH]; intros ni nj Hni Hnj Hlt.
  - assert (i <> j).
    { intros ->. rewrite Hni in Hnj; inversion Hnj; subst. rewrite flt_irrefl in Hlt; discriminate. }
    eapply reach_root; [rewrite nth_error_set_nth_other by assumption; exact Hn|exact Hp].
  - assert (i <> j).
    { intros ->. rewrite Hni in Hnj; inversion Hnj; subst. rewrite flt_irrefl in Hlt; discriminate. }
    rewrite Hn in Hni; inversion Hni; subst ni.
    destruct (reach_nth _ _ Hr) as [np Hnp].
    eapply reach_step; [rewrite nth_error_set_nth_other by assumption; exact Hn|exact Hp|].
    apply (IH np nj Hnp Hnj).
    destruct (cost_via_ge (st n) np (Hc _ _ Hnp)) as [H1 _].
    eapply fle_flt_trans; [|exact Hlt]. eapply fle_trans; [exact H1|]. eapply Hm; eauto.
Qed.

Lemma reach_redirect : forall t t' j,
  (forall i, i <> j -> nth_error t' i = nth_error t i) -> reach t' j ->
  forall i, reach t i -> reach t' i.
Proof.
  intros t t' j Hsame Hj i H. induction H as [i n Hn Hp|i n p Hn Hp Hr IH].
  - destruct (Nat.eq_dec i j) as [->|Hne]; [exact Hj|].
    eapply reach_root; [rewrite Hsame by assumption; exact Hn|exact Hp].
  - destruct (Nat.eq_dec i j) as [->|Hne]; [exact Hj|].
    eapply reach_step; [rewrite Hsame by assumption; exact Hn|exact Hp|exact IH].
Qed.

Lemma reach_app : forall t x i, reach t i -> reach (t ++ [x]) i.
Proof.
  intros t x i H. induction H as [i n Hn Hp|i n p Hn Hp Hr IH].
  - eapply reach_root; [|exact Hp]. rewrite nth_error_app1; [exact Hn|]. apply nth_error_Some; rewrite Hn; discriminate.
  - eapply reach_step; [|exact Hp|exact IH]. rewrite nth_error_app1; [exact Hn|]. apply nth_error_Some; rewrite Hn; discriminate.
Qed.

(* ---- one rewiring step ---- *)
Lemma rewire_one_inv : forall t j nj newi nw,
  SInv t -> nth_error t j = Some nj -> nth_error t newi = Some nw -> j <> newi ->
  FloatBits.flt (cost_via (st nj) nw) (cost nj) = true ->
  SInv (set_nth t j (mkNode S (st nj) (Some newi) (cost_via (st nj) nw))).
Proof.
  intros t j nj newi nw HI Hj Hn Hne Hlt.
  set (c := cost_via (st nj) nw) in *.
  set (x := mkNode S (st nj) (Some newi) c).
  destruct HI as [Hc Hm Hr Hp Hre].
  assert (Hcw : FloatBits.fle zero (cost nw) = true) by (eapply Hc; eauto).
  destruct (cost_via_ge (st nj) nw Hcw) as [Hwc Hc0]. fold c in Hwc, Hc0.
  assert (Hj0 : j <> 0).
  { intros ->. destruct (Hr nj Hj) as [_ Hz]. rewrite Hz in Hlt.
    apply flt_not_fle in Hlt. rewrite Hlt in Hc0. discriminate. }
  assert (Hjlen : j < length t) by (apply nth_error_Some; rewrite Hj; discriminate).
  assert (Hlook : forall i n, nth_error (set_nth t j x) i = Some n ->
            (i = j /\ n = x) \/ (i <> j /\ nth_error t i = Some n)).
  { intros i n H. destruct (Nat.eq_dec i j) as [->|Hij].
    - left. rewrite (nth_error_set_nth_same _ _ _ _ Hj) in H. inversion H; split; reflexivity.
    - right. rewrite nth_error_set_nth_other in H by exact Hij. split; assumption. }
  constructor.
  - intros i n H. destruct (Hlook i n H) as [[-> ->]|[Hij Hi]]; [exact Hc0|eapply Hc; eauto].
  - intros i n p np Hi Hpar Hnp.
    destruct (Hlook i n Hi) as [[-> ->]|[Hij Hi']].
    + cbn in Hpar. inversion Hpar; subst p. rewrite nth_error_set_nth_other in Hnp by lia.
      rewrite Hn in Hnp; inversion Hnp; subst np. cbn. fold c. apply fle_refl.
      destruct (fle_not_nan _ _ Hc0) as [_ H]; exact H.
    + destruct (Hlook p np Hnp) as [[-> ->]|[Hpj Hnp']].
      * (* the parent of i is the re-parented node, now cheaper *)
        pose proof (Hm i n j nj Hi' Hpar Hj) as Hold. unfold Model.cost_via in *. cbn [cost st].
        eapply fle_trans; [|exact Hold].
        apply fadd_mono_l; [exact Hc0|apply flt_fle; exact Hlt|apply Hd].
      * eapply Hm; eauto.
  - intros n0 H0. rewrite nth_error_set_nth_other in H0 by lia. apply Hr; exact H0.
  - intros i n p Hi Hpar. rewrite set_nth_length.
    destruct (Hlook i n Hi) as [[-> ->]|[Hij Hi']].
    + cbn in Hpar; inversion Hpar; subst. apply nth_error_Some; rewrite Hn; discriminate.
    + eapply Hp; eauto.
  - rewrite set_nth_length. intros i Hi.
    assert (Hnew : reach (set_nth t j x) newi).
    { eapply (reach_set_other t j x Hc Hm newi); [apply Hre; apply nth_error_Some; rewrite Hn; discriminate|exact Hn|exact Hj|].
      eapply fle_flt_trans; [exact Hwc|exact Hlt]. }
    assert (Hjr : reach (set_nth t j x) j).
    { eapply reach_step; [eapply nth_error_set_nth_same; eauto|reflexivity|exact Hnew]. }
    eapply reach_redirect; [|exact Hjr|apply Hre; exact Hi].
    intros k Hk. apply nth_error_set_nth_other; exact Hk.
Qed.

Lemma rewire_SInv : forall v nbs t newi nw t',
  SInv t -> nth_error t newi = Some nw ->
  (forall j, In j nbs -> j <> newi) ->
  rewire v t newi nbs = Some t' -> SInv t'.
Proof.
  intros v nbs. induction nbs as [|j nbs IH]; intros t newi nw t' HI Hn Hnb; cbn [Model.rewire].
  - intros E; inversion E; subst; exact HI.
  - rewrite Hn. destruct (nth_error t j) as [nj|] eqn:Hj; [|discriminate].
    assert (Hjn : j <> newi) by (apply Hnb; left; reflexivity).
    assert (Hnb' : forall k, In k nbs -> k <> newi) by (intros k Hk; apply Hnb; right; exact Hk).
    destruct (match par nw with Some pj => Nat.eqb pj j | None => false end); [apply (IH t newi nw); assumption|].
    destruct (FloatBits.flt (cost_via (st nj) nw) (cost nj)) eqn:Hlt; [|apply (IH t newi nw); assumption].
    destruct (Model.check_motion dist interp lvs valid v (st nw) (st nj)); [|apply (IH t newi nw); assumption].
    apply (IH _ newi nw); [|rewrite nth_error_set_nth_other by lia; exact Hn|exact Hnb'].
    apply rewire_one_inv; assumption.
Qed.

Lemma choose_parent_cost : forall v t qn nbs best bc b' c',
  (exists nb, nth_error t best = Some nb /\ bc = cost_via qn nb) ->
  choose_parent v t qn nbs best bc = Some (b', c') ->
  exists nb, nth_error t b' = Some nb /\ c' = cost_via qn nb.
Proof.
  intros v t qn nbs. induction nbs as [|j nbs IH]; intros best bc b' c' Hb; cbn [Model.choose_parent].
  - intros E; inversion E; subst; exact Hb.
  - destruct (nth_error t j) as [nj|] eqn:Ej; [|discriminate].
    destruct (if FloatBits.flt (cost_via qn nj) bc then Model.check_motion dist interp lvs valid v (st nj) qn else false).
    + apply IH. exists nj; split; [exact Ej|reflexivity].
    + apply IH. exact Hb.
Qed.

Lemma push_SInv : forall t qn best nb,
  SInv t -> nth_error t best = Some nb -> SInv (t ++ [mkNode S qn (Some best) (cost_via qn nb)]).
Proof.
  intros t qn best nb HI Hb. destruct HI as [Hc Hm Hr Hp Hre].
  set (x := mkNode S qn (Some best) (cost_via qn nb)).
  assert (Hblen : best < length t) by (apply nth_error_Some; rewrite Hb; discriminate).
  destruct (cost_via_ge qn nb (Hc _ _ Hb)) as [_ Hx0].
  assert (Hold : forall i, i < length t -> nth_error (t ++ [x]) i = nth_error t i)
    by (intros i Hi; apply nth_error_app1; exact Hi).
  constructor.
  - intros i n H. apply nth_error_snoc in H. destruct H as [[_ H]|[_ ->]]; [eapply Hc; eauto|exact Hx0].
  - intros i n p np Hi Hpar Hnp. apply nth_error_snoc in Hi. destruct Hi as [[Hlt Hi]|[-> ->]].
    + assert (p < length t) by (eapply Hp; eauto). rewrite Hold in Hnp by assumption. eapply Hm; eauto.
    + cbn in Hpar; inversion Hpar; subst p. rewrite Hold in Hnp by exact Hblen.
      rewrite Hb in Hnp; inversion Hnp; subst np. cbn. apply fle_refl.
      destruct (fle_not_nan _ _ Hx0) as [_ H]; exact H.
  - intros n0 H0. rewrite Hold in H0 by lia. apply Hr; exact H0.
  - intros i n p Hi Hpar. rewrite app_length; cbn. apply nth_error_snoc in Hi. destruct Hi as [[Hlt Hi]|[-> ->]].
    + assert (p < length t) by (eapply Hp; eauto). lia.
    + cbn in Hpar; inversion Hpar; subst. lia.
  - rewrite app_length; cbn. intros i Hi. destruct (Nat.lt_ge_cases i (length t)) as [Hlt|Hge].
    + apply reach_app. apply Hre; exact Hlt.
    + assert (i = length t) by lia. subst i.
      eapply reach_step; [apply nth_error_app_last|reflexivity|]. apply reach_app. apply Hre; exact Hblen.
Qed.

Theorem rrtstar_iter_SInv : forall v t q t' r, SInv t -> rrtstar_iter v t q = (t', r) -> SInv t'.
Proof.
  intros v t q t' r HI. unfold Model.rrtstar_iter.
  destruct (nearest dist t q) as [[i d]|] eqn:En; [|intros E; inversion E; subst; exact HI].
  destruct (nearest_in dist _ _ _ _ En) as (nn & Hnn & _). rewrite Hnn.
  destruct (steer interp maxd (st nn) q d) as [qn reached].
  destruct (negb _); [intros E; inversion E; subst; exact HI|].
  destruct (choose_parent v t qn (neighbours dist radius t qn) i (cost_via qn nn)) as [[best bc]|] eqn:Ecp;
    [|intros E; inversion E; subst; exact HI].
  destruct (choose_parent_cost _ _ _ _ _ _ _ _ (ex_intro _ nn (conj Hnn eq_refl)) Ecp) as (nb & Hnb & ->).
  pose proof (push_SInv t qn best nb HI Hnb) as H1.
  destruct (rewire v _ (length t) (neighbours dist radius t qn)) as [t2|] eqn:Er; intros E; inversion E; subst; [|exact H1].
  eapply rewire_SInv; [exact H1|apply nth_error_app_last| |exact Er].
  intros j Hj. destruct (neighbours_in dist radius _ _ _ Hj) as (nj & Hnj & _).
  assert (j < length t) by (apply nth_error_Some; rewrite Hnj; discriminate). lia.
Qed.

Theorem rrtstar_loop_SInv : forall fuel p v t g pos t' pos' r,
  SInv t -> rrtstar_loop fuel p v t g pos = (t', pos', r) -> SInv t'.
Proof.
  induction fuel as [|f IH]; intros p v t g pos t' pos' r HI; cbn [Model.rrtstar_loop].
  - intros E; inversion E; subst; exact HI.
  - destruct (draw u64_at usample gsample bias p g pos) as [[q|] pos1]; [|intros E; inversion E; subst; exact HI].
    destruct (rrtstar_iter v t q) as [t1 er] eqn:Ee. pose proof (rrtstar_iter_SInv _ _ _ _ _ HI Ee) as H1.
    destruct er as [| |qn].
    + intros E; inversion E; subst; exact H1.
    + apply IH; exact H1.
    + destruct (goal p qn); [intros E; inversion E; subst; exact H1|apply IH; exact H1].
Qed.

(* ---- consequences ---- *)
(* extraction from any node terminates: some finite amount of fuel suffices (the implementation's
   `while let Some(index)` loop has no bound; it terminates iff such fuel exists) *)
Theorem reach_walk_terminates : forall t i, reach t i ->
  forall acc, exists fuel p, walk t fuel i acc = Some (Some p).
Proof.
  intros t i H. induction H as [i n Hn Hp|i n p Hn Hp Hr IH]; intros acc.
  - exists 1, (st n :: acc). cbn. rewrite Hn, Hp. reflexivity.
  - destruct (IH (st n :: acc)) as (f & path & Hw). exists (Datatypes.S f), path. cbn. rewrite Hn, Hp. exact Hw.
Qed.

(* the recorded cost of a node bounds the length of its branch (root-to-leaf left fold, each edge
   measured as dist child parent, the orientation in which the planner calls distance) *)
Inductive branch_len (t : list (node S)) : nat -> F -> Prop :=
| bl_root : forall i n, nth_error t i = Some n -> par n = None -> branch_len t i zero
| bl_step : forall i n p np L, nth_error t i = Some n -> par n = Some p -> nth_error t p = Some np ->
            branch_len t p L -> branch_len t i (L + dist (st n) (st np))%float.

Theorem cost_bounds_branch : forall t, SInv t -> forall i L, branch_len t i L ->
  forall n, nth_error t i = Some n -> FloatBits.fle zero L = true /\ FloatBits.fle L (cost n) = true.
Proof.
  intros t HI i L H. induction H as [i n Hn Hp|i n p np L Hn Hp Hnp Hb IH]; intros n' Hn'.
  - rewrite Hn in Hn'; inversion Hn'; subst n'. split; [vm_compute; reflexivity|]. eapply si_cost; eauto.
  - rewrite Hn in Hn'; inversion Hn'; subst n'. destruct (IH np Hnp) as [HL0 HLc]. split.
    + apply fadd_nonneg_nonneg; [exact HL0|apply Hd].
    + eapply fle_trans; [|eapply (si_mono t HI); eauto]. unfold Model.cost_via.
      apply fadd_mono_l; [exact HL0|exact HLc|apply Hd].
Qed.

End StarInv.
