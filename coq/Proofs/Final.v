(* Property-shaped corollaries (C02, C03, C05) assembled from the invariants. *)
From Coq Require Import ZArith NArith List Bool Floats Lia.
From OX Require Import Numerics.FloatBits Gen.Consts Planners.Model Proofs.Basics Proofs.ValidInv Proofs.Prefix
  Proofs.TreeInv Proofs.Links Proofs.PathFacts Proofs.ApiValid Proofs.PrmInv Proofs.ApiStruct.
Import ListNotations.
Open Scope nat_scope.

Section Final.
Context {S V P : Type}.
Variable dist : S -> S -> F.
Variable interp : S -> S -> F -> S.
Variable lvs : F.
Variable valid : V -> S -> bool.
Variable goal : P -> S -> bool.
Variable starts : P -> list S.
Variable u64_at : gen -> N -> N.
Variable usample : gen -> N -> option S * N.
Variable gsample : P -> gen -> N -> option S * N.
Variables maxd bias radius : F.

Notation rrt_step := (rrt_step dist interp lvs valid goal starts u64_at usample gsample maxd bias).
Notation rrtstar_step := (rrtstar_step dist interp lvs valid goal starts u64_at usample gsample maxd bias radius).
Notation rrtc_step := (rrtc_step dist interp lvs valid goal starts u64_at usample gsample maxd bias).
Notation prm_step := (prm_step dist interp lvs valid goal starts usample radius).
Notation check_motion := (check_motion dist interp lvs valid).

(* ---------- C02 ---------- *)
(* [p] is the problem installed by the most recent setup / set_problem_definition of history cs *)
Definition ends_ok (p : P) (path : list S) : Prop :=
  (exists s0 rest tl_, starts p = s0 :: rest /\ path = s0 :: tl_) /\
  (exists l x, path = l ++ [x] /\ goal p x = true).

Theorem c02_rrt : forall seeded cs s rs c s' r path,
  run rrt_step (new_planner seeded) cs = (s, rs) -> rrt_step s c = (s', r) -> r = RPath path ->
  exists p, fst (installed_tree cs (None, None)) = Some p /\ ends_ok p path.
Proof.
  intros sd cs s rs c s' r path Hrun Hstep Hr.
  destruct (rrt_paths_sound dist interp lvs valid goal starts u64_at usample gsample maxd bias _ _ _ _ _ _ _ Hrun Hstep path Hr)
    as (p & v & s0 & rest & Ep & Ev & Es & (tl_ & Hhd) & Hlast & _).
  pose proof (rrt_installed dist interp lvs valid goal starts u64_at usample gsample maxd bias _ _ _ _ Hrun) as Hi.
  cbn in Hi. exists p. split; [rewrite <- Hi; cbn; exact Ep|].
  split; [exists s0, rest, tl_; split; assumption|exact Hlast].
Qed.

Theorem c02_rrtstar : forall seeded cs s rs c s' r path,
  run rrtstar_step (new_planner seeded) cs = (s, rs) -> rrtstar_step s c = (s', r) -> r = RPath path ->
  exists p, fst (installed_tree cs (None, None)) = Some p /\ ends_ok p path.
Proof.
  intros sd cs s rs c s' r path Hrun Hstep Hr.
  destruct (rrtstar_paths_sound dist interp lvs valid goal starts u64_at usample gsample maxd bias radius _ _ _ _ _ _ _ Hrun Hstep path Hr)
    as (p & v & s0 & rest & Ep & Ev & Es & (tl_ & Hhd) & Hlast & _).
  pose proof (rrtstar_installed dist interp lvs valid goal starts u64_at usample gsample maxd bias radius _ _ _ _ Hrun) as Hi.
  cbn in Hi. exists p. split; [rewrite <- Hi; cbn; exact Ep|].
  split; [exists s0, rest, tl_; split; assumption|exact Hlast].
Qed.

(* RRT-Connect's path may end at the root of the goal tree, which is whatever the goal sampler
   returned: the goal predicate holds there when the sampler is sound *)
Definition goal_sampler_sound : Prop :=
  forall p g pos x c, gsample p g pos = (Some x, c) -> goal p x = true.

Theorem c02_rrtconnect : forall seeded cs s rs c s' r path,
  goal_sampler_sound ->
  run rrtc_step (new_planner seeded) cs = (s, rs) -> rrtc_step s c = (s', r) -> r = RPath path ->
  exists p, fst (installed_tree cs (None, None)) = Some p /\ ends_ok p path.
Proof.
  intros sd cs s rs c s' r path Hgs Hrun Hstep Hr.
  destruct (rrtc_paths_sound dist interp lvs valid goal starts u64_at usample gsample maxd bias _ _ _ _ _ _ _ Hrun Hstep path Hr)
    as (p & v & s0 & rest & Ep & Ev & Es & (tl_ & Hhd) & (l & x & Hl & Hx) & _).
  pose proof (rrtc_installed dist interp lvs valid goal starts u64_at usample gsample maxd bias _ _ _ _ Hrun) as Hi.
  cbn in Hi. exists p. split; [rewrite <- Hi; cbn; exact Ep|].
  split; [exists s0, rest, tl_; split; assumption|].
  exists l, x. split; [exact Hl|]. destruct Hx as [Hx|(g & pos & c0 & Hx)]; [exact Hx|eapply Hgs; eauto].
Qed.

Theorem c02_prm : forall seeded cs s rs c s' r path,
  run prm_step (new_planner seeded) cs = (s, rs) -> prm_step s c = (s', r) -> r = RPath path ->
  exists p, fst (installed_prm cs (None, None)) = Some p /\ ends_ok p path.
Proof.
  intros sd cs s rs c s' r path Hrun Hstep Hr.
  destruct (prm_paths_sound dist interp lvs valid goal starts usample radius _ _ _ _ _ _ _ Hrun Hstep path Hr)
    as (p & v & s0 & rest & Ep & Ev & Es & (tl_ & Hhd) & Hlast & _).
  pose proof (prm_installed dist interp lvs valid goal starts usample radius _ _ _ _ Hrun) as Hi.
  cbn in Hi. exists p. split; [rewrite <- Hi; cbn; exact Ep|].
  split; [exists s0, rest, tl_; split; assumption|exact Hlast].
Qed.

(* ---------- C03 ---------- *)
(* every pair of consecutive path states was accepted by check_motion, in one direction *)
Definition checked (v : V) (a b : S) : Prop := check_motion v a b = true \/ check_motion v b a = true.

Definition segments_checked (step : @pstate S V P -> @call V P -> @pstate S V P * response S) : Prop :=
  forall seeded cs s rs c s' r path,
    run step (new_planner seeded) cs = (s, rs) -> step s c = (s', r) -> r = RPath path ->
    exists v, vc s = Some v /\ chain (checked v) path.

Theorem c03_rrt : segments_checked rrt_step.
Proof.
  intros sd cs s rs c s' r path Hrun Hstep Hr.
  destruct (rrt_paths_sound dist interp lvs valid goal starts u64_at usample gsample maxd bias _ _ _ _ _ _ _ Hrun Hstep path Hr)
    as (p & v & s0 & rest & Ep & Ev & Es & _ & _ & Hc).
  exists v. split; [exact Ev|]. eapply chain_impl; [|exact Hc]. intros a b [H _]. left; exact H.
Qed.

Theorem c03_rrtstar : segments_checked rrtstar_step.
Proof.
  intros sd cs s rs c s' r path Hrun Hstep Hr.
  destruct (rrtstar_paths_sound dist interp lvs valid goal starts u64_at usample gsample maxd bias radius _ _ _ _ _ _ _ Hrun Hstep path Hr)
    as (p & v & s0 & rest & Ep & Ev & Es & _ & _ & Hc).
  exists v. split; [exact Ev|]. eapply chain_impl; [|exact Hc]. intros a b [H _]. left; exact H.
Qed.

Theorem c03_rrtconnect : segments_checked rrtc_step.
Proof.
  intros sd cs s rs c s' r path Hrun Hstep Hr.
  destruct (rrtc_paths_sound dist interp lvs valid goal starts u64_at usample gsample maxd bias _ _ _ _ _ _ _ Hrun Hstep path Hr)
    as (p & v & s0 & rest & Ep & Ev & Es & _ & _ & Hc).
  exists v. split; [exact Ev|]. eapply chain_impl; [|exact Hc].
  intros a b [[H _]|[H _]]; [left|right]; exact H.
Qed.

Theorem c03_prm : segments_checked prm_step.
Proof.
  intros sd cs s rs c s' r path Hrun Hstep Hr.
  destruct (prm_paths_sound dist interp lvs valid goal starts usample radius _ _ _ _ _ _ _ Hrun Hstep path Hr)
    as (p & v & s0 & rest & Ep & Ev & Es & _ & _ & Hc).
  exists v. split; [exact Ev|]. eapply chain_impl; [|exact Hc].
  intros a b [[_ H]|[_ H]]; [left|right]; exact H.
Qed.

(* what "accepted by check_motion" means: with n = ceil(dist/(lvs*factor)) as usize, the checker
   accepted the n-1 interior points at parameters i/n and the end state itself *)
Theorem c03_check_motion_unfold : forall v a b, check_motion v a b = true ->
  let n := num_steps dist lvs a b in
  valid v b = true /\
  forall i, (1 <= i < n)%N -> valid v (interp a b (step_param i n)) = true.
Proof.
  intros v a b H. split.
  - eapply check_motion_valid_end; eauto.
  - eapply check_motion_points; eauto.
Qed.

(* ---------- C05 ---------- *)
(* exact facts about the length of each link, straight from the branch conditions *)
Definition short_ (a b : S) : Prop := fgt (dist a b) maxd = false.
Definition steered_ (a b : S) : Prop := exists q, fgt (dist a q) maxd = true /\ b = interp a q (maxd / dist a q)%float.
Definition within_ (a b : S) : Prop := flt (dist a b) radius = true.

Definition step_rrt (a b : S) : Prop := short_ a b \/ steered_ a b.
Definition step_star (a b : S) : Prop := short_ a b \/ steered_ a b \/ within_ b a \/ within_ a b.
Definition step_prm (a b : S) : Prop := within_ a b.
Definition either (R : S -> S -> Prop) (a b : S) : Prop := R a b \/ R b a.

Theorem c05_rrt : forall seeded cs s rs c s' r path,
  run rrt_step (new_planner seeded) cs = (s, rs) -> rrt_step s c = (s', r) -> r = RPath path ->
  chain step_rrt path.
Proof.
  intros sd cs s rs c s' r path Hrun Hstep Hr.
  destruct (rrt_paths_sound dist interp lvs valid goal starts u64_at usample gsample maxd bias _ _ _ _ _ _ _ Hrun Hstep path Hr)
    as (p & v & s0 & rest & Ep & Ev & Es & _ & _ & Hc).
  eapply chain_impl; [|exact Hc]. intros a b [_ H]. exact H.
Qed.

Theorem c05_rrtstar : forall seeded cs s rs c s' r path,
  run rrtstar_step (new_planner seeded) cs = (s, rs) -> rrtstar_step s c = (s', r) -> r = RPath path ->
  chain step_star path.
Proof.
  intros sd cs s rs c s' r path Hrun Hstep Hr.
  destruct (rrtstar_paths_sound dist interp lvs valid goal starts u64_at usample gsample maxd bias radius _ _ _ _ _ _ _ Hrun Hstep path Hr)
    as (p & v & s0 & rest & Ep & Ev & Es & _ & _ & Hc).
  eapply chain_impl; [|exact Hc]. intros a b [_ H]. exact H.
Qed.

Theorem c05_rrtconnect : forall seeded cs s rs c s' r path,
  run rrtc_step (new_planner seeded) cs = (s, rs) -> rrtc_step s c = (s', r) -> r = RPath path ->
  chain (either step_rrt) path.
Proof.
  intros sd cs s rs c s' r path Hrun Hstep Hr.
  destruct (rrtc_paths_sound dist interp lvs valid goal starts u64_at usample gsample maxd bias _ _ _ _ _ _ _ Hrun Hstep path Hr)
    as (p & v & s0 & rest & Ep & Ev & Es & _ & _ & Hc).
  eapply chain_impl; [|exact Hc]. intros a b [[_ H]|[_ H]]; [left|right]; exact H.
Qed.

Theorem c05_prm : forall seeded cs s rs c s' r path,
  run prm_step (new_planner seeded) cs = (s, rs) -> prm_step s c = (s', r) -> r = RPath path ->
  chain (either step_prm) path.
Proof.
  intros sd cs s rs c s' r path Hrun Hstep Hr.
  destruct (prm_paths_sound dist interp lvs valid goal starts usample radius _ _ _ _ _ _ _ Hrun Hstep path Hr)
    as (p & v & s0 & rest & Ep & Ev & Es & _ & _ & Hc).
  eapply chain_impl; [|exact Hc]. intros a b [[H _]|[H _]]; [left|right]; exact H.
Qed.

(* with the space law "steering by max/d lands no farther than max(1+eps)" every link obeys the bound *)
Definition steer_law (bound : F) : Prop :=
  forall a q, fgt (dist a q) maxd = true -> fgt (dist a (interp a q (maxd / dist a q)%float)) bound = false.
Definition not_longer (bound : F) (a b : S) : Prop := fgt (dist a b) bound = false.

Theorem c05_rrt_bound : forall bound, steer_law bound -> (forall a b, short_ a b -> not_longer bound a b) ->
  forall seeded cs s rs c s' r path,
  run rrt_step (new_planner seeded) cs = (s, rs) -> rrt_step s c = (s', r) -> r = RPath path ->
  chain (not_longer bound) path.
Proof.
  intros bound Hlaw Hshort sd cs s rs c s' r path Hrun Hstep Hr.
  eapply chain_impl; [|eapply c05_rrt; eauto].
  intros a b [H|(q & Hq & ->)]; [apply Hshort; exact H|apply Hlaw; exact Hq].
Qed.

End Final.
