(* What each planner establishes about a parent -> child link when it writes it, and that the
   main loops preserve the structural invariants of TreeInv.v. *)
From Coq Require Import ZArith NArith List Bool Floats Lia.
From OX Require Import Numerics.FloatBits Gen.Consts Planners.Model Proofs.Basics Proofs.ValidInv Proofs.Prefix Proofs.TreeInv.
Import ListNotations.
Open Scope nat_scope.

Section Links.
Context {S V P : Type}.
Variable dist : S -> S -> F.
Variable interp : S -> S -> F -> S.
Variable lvs : F.
Variable valid : V -> S -> bool.
Variable goal : P -> S -> bool.
Variable starts : P -> list S.
Variable u64_at : gen -> N -> N.
Variable usample : gen -> N -> option S * N.
Variable gsample : P -> gen -> N -> option S * N.
Variables maxd bias radius : F.

Notation check_motion := (check_motion dist interp lvs valid).
Notation extend := (extend dist interp lvs valid maxd).
Notation draw := (draw u64_at usample gsample bias).
Notation rrt_loop := (rrt_loop dist interp lvs valid goal u64_at usample gsample maxd bias).
Notation rrtstar_iter := (rrtstar_iter dist interp lvs valid maxd radius).
Notation rrtstar_loop := (rrtstar_loop dist interp lvs valid goal u64_at usample gsample maxd bias radius).
Notation rrtc_loop := (rrtc_loop dist interp lvs valid goal u64_at usample gsample maxd bias).
Notation rewire := (rewire dist interp lvs valid).
Notation choose_parent := (choose_parent dist interp lvs valid).
Notation neighbours := (neighbours dist radius).

(* ---- the facts recorded about a link a (parent) -> b (child) ---- *)
Definition short (a b : S) : Prop := fgt (dist a b) maxd = false.         (* not (d > max_distance) *)
Definition steered (a b : S) : Prop :=
  exists q, fgt (dist a q) maxd = true /\ b = interp a q (maxd / dist a q)%float.
Definition within (a b : S) : Prop := flt (dist a b) radius = true.       (* d < radius *)

Definition link_rrt (v : V) (a b : S) : Prop :=
  check_motion v a b = true /\ (short a b \/ steered a b).
Definition link_star (v : V) (a b : S) : Prop :=
  check_motion v a b = true /\ (short a b \/ steered a b \/ within b a \/ within a b).

Lemma link_rrt_star : forall v a b, link_rrt v a b -> link_star v a b.
Proof. intros v a b [H [H1|H1]]; split; auto. Qed.

(* ---- nearest ---- *)
Lemma nearest_from_in : forall q l pre bi bd nb i d,
  nth_error pre bi = Some nb -> bd = dist (st nb) q ->
  nearest_from dist q l (length pre) bi bd = (i, d) ->
  exists nn, nth_error (pre ++ l) i = Some nn /\ d = dist (st nn) q.
Proof.
  intros q l. induction l as [|n l IH]; intros pre bi bd nb i d Hb Hd; cbn [nearest_from].
  - intros E; inversion E; subst. exists nb. rewrite app_nil_r. split; [exact Hb|reflexivity].
  - replace (pre ++ n :: l) with ((pre ++ [n]) ++ l) by (rewrite <- app_assoc; reflexivity).
    replace (Datatypes.S (length pre)) with (length (pre ++ [n])) by (rewrite app_length; cbn; lia).
    destruct (flt (dist (st n) q) bd).
    + apply IH with (nb := n); [|reflexivity]. apply nth_error_app_last.
    + apply IH with (nb := nb); [|exact Hd]. rewrite nth_error_app1; [exact Hb|].
      apply nth_error_Some. rewrite Hb; discriminate.
Qed.

Lemma nearest_in : forall t q i d, nearest dist t q = Some (i, d) ->
  exists nn, nth_error t i = Some nn /\ d = dist (st nn) q.
Proof.
  intros t q i d. unfold nearest. destruct t as [|n0 l]; [discriminate|].
  intros E; inversion E as [E1]; clear E.
  apply (nearest_from_in q l [n0] 0 _ n0 i d) in E1; [exact E1|reflexivity|reflexivity].
Qed.

(* ---- extend ---- *)
Lemma extend_spec : forall v t q t' r,
  extend v t q = (t', r) ->
  match r with
  | ExtAdded re idx qn =>
      exists i nn, nth_error t i = Some nn /\ t' = t ++ [mkNode S qn (Some i) zero] /\
                   idx = length t /\ link_rrt v (st nn) qn /\ (re = true -> qn = q)
  | _ => t' = t
  end.
Proof.
  intros v t q t' r. unfold Model.extend.
  destruct (nearest dist t q) as [[i d]|] eqn:En; [|intros E; inversion E; reflexivity].
  destruct (nearest_in _ _ _ _ En) as (nn & Hnn & Hd). rewrite Hnn.
  unfold steer. destruct (fgt d maxd) eqn:Eg.
  - destruct (Model.check_motion dist interp lvs valid v (st nn) _) eqn:Ec; intros E; inversion E; subst; [|reflexivity].
    exists i, nn. repeat split; try assumption; try discriminate.
    right. exists q. split; [exact Eg|reflexivity].
  - destruct (Model.check_motion dist interp lvs valid v (st nn) q) eqn:Ec; intros E; inversion E; subst; [|reflexivity].
    exists i, nn. repeat split; try assumption; try reflexivity.
    left. exact Eg.
Qed.

Lemma extend_inv : forall v t q t' r,
  LinkInv (link_rrt v) t -> OrdInv t -> extend v t q = (t', r) ->
  LinkInv (link_rrt v) t' /\ OrdInv t'.
Proof.
  intros v t q t' r HL HO E. apply extend_spec in E. destruct r as [| |re idx qn]; cbn in E; try (subst; split; assumption).
  destruct E as (i & nn & Hnn & -> & _ & Hl & _). split.
  - eapply LinkInv_push; eauto.
  - eapply OrdInv_push; eauto.
Qed.

Lemma rrt_loop_inv : forall fuel p v t g pos t' pos' r,
  LinkInv (link_rrt v) t -> OrdInv t -> rrt_loop fuel p v t g pos = (t', pos', r) ->
  LinkInv (link_rrt v) t' /\ OrdInv t'.
Proof.
  induction fuel as [|f IH]; intros p v t g pos t' pos' r HL HO; cbn [Model.rrt_loop].
  - intros E; inversion E; subst; split; assumption.
  - destruct (draw p g pos) as [[q|] pos1]; [|intros E; inversion E; subst; split; assumption].
    destruct (extend v t q) as [t1 er] eqn:Ee.
    destruct (extend_inv _ _ _ _ _ HL HO Ee) as [HL1 HO1].
    destruct er as [| |re i qn].
    + intros E; inversion E; subst; split; assumption.
    + apply IH; assumption.
    + destruct (goal p qn); [intros E; inversion E; subst; split; assumption|apply IH; assumption].
Qed.

Lemma rrtc_loop_inv : forall fuel p v ts tg g pos ts' tg' pos' r,
  LinkInv (link_rrt v) ts -> OrdInv ts -> LinkInv (link_rrt v) tg -> OrdInv tg ->
  rrtc_loop fuel p v ts tg g pos = (ts', tg', pos', r) ->
  LinkInv (link_rrt v) ts' /\ OrdInv ts' /\ LinkInv (link_rrt v) tg' /\ OrdInv tg'.
Proof.
  induction fuel as [|f IH]; intros p v ts tg g pos ts' tg' pos' r HLs HOs HLg HOg; cbn [Model.rrtc_loop].
  - intros E; inversion E; subst; (split; [|split; [|split]]; assumption).
  - destruct (draw p g pos) as [[q|] pos1]; [|intros E; inversion E; subst; (split; [|split; [|split]]; assumption)].
    destruct (Nat.leb (length ts) (length tg)).
    + destruct (extend v ts q) as [ts1 er] eqn:Ee.
      destruct (extend_inv _ _ _ _ _ HLs HOs Ee) as [HL1 HO1].
      destruct er as [| |re ia qn].
      * intros E; inversion E; subst; (split; [|split; [|split]]; assumption).
      * apply IH; assumption.
      * destruct (goal p qn); [intros E; inversion E; subst; (split; [|split; [|split]]; assumption)|].
        destruct (extend v tg qn) as [tg1 er2] eqn:Ee2.
        destruct (extend_inv _ _ _ _ _ HLg HOg Ee2) as [HL2 HO2].
        destruct er2 as [| |[|] ib qn2]; try (apply IH; assumption);
          intros E; inversion E; subst; (split; [|split; [|split]]; assumption).
    + destruct (extend v tg q) as [tg1 er] eqn:Ee.
      destruct (extend_inv _ _ _ _ _ HLg HOg Ee) as [HL1 HO1].
      destruct er as [| |re ia qn].
      * intros E; inversion E; subst; (split; [|split; [|split]]; assumption).
      * apply IH; assumption.
      * destruct (extend v ts qn) as [ts1 er2] eqn:Ee2.
        destruct (extend_inv _ _ _ _ _ HLs HOs Ee2) as [HL2 HO2].
        destruct er2 as [| |[|] ib qn2]; try (apply IH; assumption);
          intros E; inversion E; subst; (split; [|split; [|split]]; assumption).
Qed.

(* ---- RRT* ---- *)
Lemma neighbours_from_in : forall q l pre j,
  In j (neighbours_from dist radius q l (length pre)) ->
  exists nj, nth_error (pre ++ l) j = Some nj /\ within q (st nj) /\ length pre <= j.
Proof.
  intros q l. induction l as [|n l IH]; intros pre j; cbn [neighbours_from]; [intros []|].
  replace (pre ++ n :: l) with ((pre ++ [n]) ++ l) by (rewrite <- app_assoc; reflexivity).
  assert (EL : Datatypes.S (length pre) = length (pre ++ [n])) by (rewrite app_length; cbn; lia).
  destruct (flt (dist q (st n)) radius) eqn:Ef.
  - intros [<-|Hin].
    + exists n. split; [|split; [exact Ef|lia]].
      rewrite nth_error_app1 by (rewrite app_length; cbn; lia). apply nth_error_app_last.
    + rewrite EL in Hin. destruct (IH _ _ Hin) as (nj & A & B & C). exists nj. repeat split; try assumption.
      rewrite app_length in C; cbn in C; lia.
  - intros Hin. rewrite EL in Hin. destruct (IH _ _ Hin) as (nj & A & B & C). exists nj. repeat split; try assumption.
    rewrite app_length in C; cbn in C; lia.
Qed.

Lemma neighbours_in : forall t q j, In j (neighbours t q) ->
  exists nj, nth_error t j = Some nj /\ within q (st nj).
Proof.
  intros t q j H. unfold Model.neighbours in H.
  destruct (neighbours_from_in q t [] j H) as (nj & A & B & _). exists nj; split; assumption.
Qed.

Lemma choose_parent_spec : forall v t qn nbs best bc b' c',
  choose_parent v t qn nbs best bc = Some (b', c') ->
  b' = best \/ (In b' nbs /\ exists nj, nth_error t b' = Some nj /\ check_motion v (st nj) qn = true).
Proof.
  intros v t qn nbs. induction nbs as [|j nbs IH]; intros best bc b' c'; cbn [Model.choose_parent].
  - intros E; inversion E; left; reflexivity.
  - destruct (nth_error t j) as [nj|] eqn:Ej; [|discriminate].
    destruct (flt (cost_via dist qn nj) bc) eqn:Ef.
    + destruct (Model.check_motion dist interp lvs valid v (st nj) qn) eqn:Ec.
      * intros E. apply IH in E. destruct E as [->|[Hin H]].
        { right. split; [left; reflexivity|]. exists nj; split; assumption. }
        { right. split; [right; exact Hin|exact H]. }
      * intros E. apply IH in E. destruct E as [->|[Hin H]]; [left; reflexivity|right; split; [right; exact Hin|exact H]].
    + intros E. apply IH in E. destruct E as [->|[Hin H]]; [left; reflexivity|right; split; [right; exact Hin|exact H]].
Qed.

Lemma nth_error_set_nth_same : forall {A} (l : list A) j x y,
  nth_error l j = Some y -> nth_error (set_nth l j x) j = Some x.
Proof. induction l as [|a l IH]; intros [|j] x y; cbn; try discriminate; [reflexivity|apply IH]. Qed.

Lemma nth_error_set_nth_other : forall {A} (l : list A) j k x,
  k <> j -> nth_error (set_nth l j x) k = nth_error l k.
Proof.
  induction l as [|a l IH]; intros [|j] [|k] x H; cbn; try reflexivity; try contradiction.
  apply IH. lia.
Qed.

Lemma set_nth_length : forall {A} (l : list A) j x, length (set_nth l j x) = length l.
Proof. induction l as [|a l IH]; intros [|j] x; cbn; try reflexivity. rewrite IH; reflexivity. Qed.

(* re-parenting node j to node newi (R holds for the new link) keeps the invariant *)
Lemma LinkInv_reparent : forall (R : S -> S -> Prop) t j nj newi nw c,
  LinkInv R t -> nth_error t j = Some nj -> nth_error t newi = Some nw -> j <> newi ->
  R (st nw) (st nj) ->
  LinkInv R (set_nth t j (mkNode S (st nj) (Some newi) c)).
Proof.
  intros R t j nj newi nw c Ht Hj Hn Hne HR k n Hk.
  destruct (Nat.eq_dec k j) as [->|Hkj].
  - rewrite (nth_error_set_nth_same _ _ _ _ Hj) in Hk. inversion Hk; subst; cbn.
    split; [discriminate|]. intros p Hp; inversion Hp; subst.
    exists nw. split; [|exact HR]. rewrite nth_error_set_nth_other by lia. exact Hn.
  - rewrite nth_error_set_nth_other in Hk by exact Hkj.
    destruct (Ht k n Hk) as [H1 H2]. split; [exact H1|].
    intros p Hp. destruct (H2 p Hp) as (np & Hnp & HRp).
    destruct (Nat.eq_dec p j) as [->|Hpj].
    + rewrite Hj in Hnp; inversion Hnp; subst.
      eexists. split; [eapply nth_error_set_nth_same; eauto|]. cbn. exact HRp.
    + exists np. split; [|exact HRp]. rewrite nth_error_set_nth_other by exact Hpj. exact Hnp.
Qed.

Lemma rewire_inv : forall v nbs t newi nw t',
  LinkInv (link_star v) t -> nth_error t newi = Some nw ->
  (forall j, In j nbs -> j <> newi /\ exists nj, nth_error t j = Some nj /\ within (st nw) (st nj)) ->
  rewire v t newi nbs = Some t' -> LinkInv (link_star v) t'.
Proof.
  intros v nbs. induction nbs as [|j nbs IH]; intros t newi nw t' Ht Hn Hnb; cbn [Model.rewire].
  - intros E; inversion E; subst; exact Ht.
  - rewrite Hn. destruct (Hnb j (or_introl eq_refl)) as (Hjn & nj & Hj & Hw). rewrite Hj.
    assert (Hnb' : forall k, In k nbs -> k <> newi /\ exists nk, nth_error t k = Some nk /\ within (st nw) (st nk))
      by (intros k Hk; apply Hnb; right; exact Hk).
    destruct (match par nw with Some pj => Nat.eqb pj j | None => false end); [apply (IH t newi nw); assumption|].
    destruct (flt (cost_via dist (st nj) nw) (cost nj)); [|apply (IH t newi nw); assumption].
    destruct (Model.check_motion dist interp lvs valid v (st nw) (st nj)) eqn:Ec; [|apply (IH t newi nw); assumption].
    apply (IH _ newi nw).
    + eapply LinkInv_reparent; eauto. split; [exact Ec|]. right; right; right. exact Hw.
    + rewrite nth_error_set_nth_other by lia. exact Hn.
    + intros k Hk. destruct (Hnb' k Hk) as (Hkn & nk & Hnk & Hwk). split; [exact Hkn|].
      destruct (Nat.eq_dec k j) as [->|Hkj].
      * eexists. split; [eapply nth_error_set_nth_same; eauto|]. cbn. rewrite Hj in Hnk; inversion Hnk; subst. exact Hwk.
      * exists nk. split; [|exact Hwk]. rewrite nth_error_set_nth_other by exact Hkj. exact Hnk.
Qed.

Lemma rrtstar_iter_inv : forall v t q t' r,
  LinkInv (link_star v) t -> rrtstar_iter v t q = (t', r) -> LinkInv (link_star v) t'.
Proof.
  intros v t q t' r Ht. unfold Model.rrtstar_iter.
  destruct (nearest dist t q) as [[i d]|] eqn:En; [|intros E; inversion E; subst; exact Ht].
  destruct (nearest_in _ _ _ _ En) as (nn & Hnn & Hd). rewrite Hnn.
  destruct (steer interp maxd (st nn) q d) as [qn reached] eqn:Es.
  destruct (Model.check_motion dist interp lvs valid v (st nn) qn) eqn:Ec; cbn [negb];
    [|intros E; inversion E; subst; exact Ht].
  assert (Hnear : short (st nn) qn \/ steered (st nn) qn).
  { unfold steer in Es. destruct (fgt d maxd) eqn:Eg; inversion Es; subst.
    - right. exists q. split; [exact Eg|reflexivity].
    - left. exact Eg. }
  destruct (choose_parent v t qn (neighbours t qn) i (cost_via dist qn nn)) as [[best bc]|] eqn:Ecp;
    [|intros E; inversion E; subst; exact Ht].
  assert (Hbest : exists nb, nth_error t best = Some nb /\ link_star v (st nb) qn).
  { apply choose_parent_spec in Ecp. destruct Ecp as [->|[Hin (nj & Hj & Hc)]].
    - exists nn. split; [exact Hnn|]. split; [exact Ec|]. destruct Hnear; auto.
    - exists nj. split; [exact Hj|]. split; [exact Hc|].
      destruct (neighbours_in _ _ _ Hin) as (nj' & Hj' & Hw). rewrite Hj in Hj'; inversion Hj'; subst.
      right; right; left. exact Hw. }
  destruct Hbest as (nb & Hnb & Hlb).
  assert (H1 : LinkInv (link_star v) (t ++ [mkNode S qn (Some best) bc])) by (eapply LinkInv_push; eauto).
  destruct (rewire v _ (length t) (neighbours t qn)) as [t2|] eqn:Er; intros E; inversion E; subst; [|exact H1].
  eapply rewire_inv; [exact H1|apply nth_error_app_last| |exact Er].
  intros j Hj. destruct (neighbours_in _ _ _ Hj) as (nj & Hnj & Hw).
  assert (j < length t) by (apply nth_error_Some; rewrite Hnj; discriminate).
  split; [lia|]. exists nj. split; [rewrite nth_error_app1 by lia; exact Hnj|exact Hw].
Qed.

Lemma rrtstar_loop_inv : forall fuel p v t g pos t' pos' r,
  LinkInv (link_star v) t -> rrtstar_loop fuel p v t g pos = (t', pos', r) -> LinkInv (link_star v) t'.
Proof.
  induction fuel as [|f IH]; intros p v t g pos t' pos' r HL; cbn [Model.rrtstar_loop].
  - intros E; inversion E; subst; assumption.
  - destruct (draw p g pos) as [[q|] pos1]; [|intros E; inversion E; subst; assumption].
    destruct (rrtstar_iter v t q) as [t1 er] eqn:Ee.
    pose proof (rrtstar_iter_inv _ _ _ _ _ HL Ee) as HL1.
    destruct er as [| |qn].
    + intros E; inversion E; subst; assumption.
    + apply IH; assumption.
    + destruct (goal p qn); [intros E; inversion E; subst; assumption|apply IH; assumption].
Qed.

End Links.
