(* Structural invariant of the search trees and what it gives for extracted paths
   (C02, C03, C05, C15): every non-root node has a parent inside the tree and the link
   parent -> child satisfies a relation R established when the link was written. *)
From Coq Require Import ZArith NArith List Bool Floats Lia.
From OX Require Import Numerics.FloatBits Gen.Consts Planners.Model Proofs.Basics Proofs.ValidInv Proofs.Prefix.
Import ListNotations.
Open Scope nat_scope.

Section Chain.
Context {S : Type}.
Variable R : S -> S -> Prop.

Inductive chain : list S -> Prop :=
| chain_nil : chain []
| chain_one : forall a, chain [a]
| chain_cons : forall a b l, R a b -> chain (b :: l) -> chain (a :: b :: l).

Lemma chain_tl : forall a l, chain (a :: l) -> chain l.
Proof. intros a l H; inversion H; subst; [constructor|assumption]. Qed.

Lemma chain_app : forall l1 l2 a b, chain (l1 ++ [a]) -> chain (b :: l2) -> R a b -> chain (l1 ++ a :: b :: l2).
Proof.
  induction l1 as [|x l1 IH]; intros l2 a b H1 H2 Hab; cbn in *.
  - constructor; assumption.
  - destruct l1 as [|y l1]; cbn in *.
    + inversion H1; subst. constructor; [assumption|]. constructor; assumption.
    + inversion H1; subst. constructor; [assumption|]. apply IH; assumption.
Qed.
End Chain.

Lemma chain_impl : forall {S} (R1 R2 : S -> S -> Prop) l,
  (forall a b, R1 a b -> R2 a b) -> chain R1 l -> chain R2 l.
Proof. intros S R1 R2 l H Hc; induction Hc; constructor; auto. Qed.

Lemma chain_rev : forall {S} (R : S -> S -> Prop) l, chain R l -> chain (fun a b => R b a) (rev l).
Proof.
  intros S R l H. induction H as [|a|a b l Hab Hc IH]; cbn; try constructor.
  cbn in IH. rewrite <- app_assoc. cbn.
  apply (chain_app (fun x y => R y x) (rev l) [] b a); [exact IH|constructor|exact Hab].
Qed.

Section TreeInv.
Context {S : Type}.
Variable R : S -> S -> Prop.     (* parent-state -> child-state *)

(* every node but node 0 has a parent, parents are in range and linked by R *)
Definition LinkInv (t : list (node S)) : Prop :=
  forall i n, nth_error t i = Some n ->
    (par n = None -> i = 0) /\
    (forall p, par n = Some p -> exists np, nth_error t p = Some np /\ R (st np) (st n)).

(* ordered trees (RRT, RRT-Connect): parents are older than their children *)
Definition OrdInv (t : list (node S)) : Prop :=
  forall i n p, nth_error t i = Some n -> par n = Some p -> p < i.

Lemma LinkInv_root : forall s0, LinkInv [root_node s0].
Proof.
  intros s0 i n H. destruct i as [|i]; cbn in H.
  - inversion H; subst; cbn. split; [reflexivity|discriminate].
  - destruct i; discriminate.
Qed.

Lemma OrdInv_root : forall s0, OrdInv [root_node s0].
Proof.
  intros s0 i n p H. destruct i as [|[|i]]; cbn in H; try discriminate.
  inversion H; subst; cbn. discriminate.
Qed.

Lemma LinkInv_nil : LinkInv [].
Proof. intros i n H. destruct i; discriminate. Qed.
Lemma OrdInv_nil : OrdInv [].
Proof. intros i n p H. destruct i; discriminate. Qed.

Lemma nth_error_app_last : forall {A} (l : list A) x, nth_error (l ++ [x]) (length l) = Some x.
Proof. intros A l x. rewrite nth_error_app2 by lia. rewrite Nat.sub_diag. reflexivity. Qed.

Lemma nth_error_snoc : forall {A} (l : list A) x i y,
  nth_error (l ++ [x]) i = Some y -> (i < length l /\ nth_error l i = Some y) \/ (i = length l /\ y = x).
Proof.
  intros A l x i y H. destruct (Nat.lt_ge_cases i (length l)) as [Hlt|Hge].
  - left. rewrite nth_error_app1 in H by exact Hlt. split; assumption.
  - right. rewrite nth_error_app2 in H by exact Hge.
    destruct (i - length l) as [|k] eqn:E; cbn in H.
    + inversion H; split; [lia|reflexivity].
    + destruct k; discriminate.
Qed.

(* pushing a node whose parent is in the tree and R-linked *)
Lemma LinkInv_push : forall t q i nn c,
  LinkInv t -> nth_error t i = Some nn -> R (st nn) q -> LinkInv (t ++ [mkNode S q (Some i) c]).
Proof.
  intros t q i nn c Ht Hi HR k n Hk.
  apply nth_error_snoc in Hk. destruct Hk as [[Hlt Hk]|[-> ->]].
  - destruct (Ht k n Hk) as [H1 H2]. split; [exact H1|].
    intros p Hp. destruct (H2 p Hp) as (np & Hnp & HRp). exists np. split; [|exact HRp].
    rewrite nth_error_app1; [exact Hnp|]. apply nth_error_Some. rewrite Hnp; discriminate.
  - cbn. split; [discriminate|]. intros p Hp; inversion Hp; subst. exists nn. split; [|exact HR].
    rewrite nth_error_app1; [exact Hi|]. apply nth_error_Some. rewrite Hi; discriminate.
Qed.

Lemma OrdInv_push : forall t q i nn c,
  OrdInv t -> nth_error t i = Some nn -> OrdInv (t ++ [mkNode S q (Some i) c]).
Proof.
  intros t q i nn c Ht Hi k n p Hk Hp.
  apply nth_error_snoc in Hk. destruct Hk as [[Hlt Hk]|[-> ->]].
  - eapply Ht; eauto.
  - cbn in Hp; inversion Hp; subst. apply nth_error_Some. rewrite Hi; discriminate.
Qed.

(* ---- path extraction ---- *)
Lemma walk_chain : forall t, LinkInv t -> forall fuel i acc p,
  walk t fuel i acc = Some (Some p) ->
  chain R acc ->
  (forall n c rest, nth_error t i = Some n -> acc = c :: rest -> R (st n) c) ->
  chain R p /\
  (exists n0 rest, nth_error t 0 = Some n0 /\ p = st n0 :: rest) /\
  (exists n l, nth_error t i = Some n /\ p = l ++ st n :: acc).
Proof.
  intros t Ht fuel. induction fuel as [|f IH]; intros i acc p; cbn [walk]; [discriminate|].
  destruct (nth_error t i) as [n|] eqn:En; [|discriminate].
  intros Hw Hacc Hlink.
  assert (Hc : chain R (st n :: acc)).
  { destruct acc as [|c rest]; [constructor|]. constructor; [eapply Hlink; eauto|exact Hacc]. }
  destruct (Ht i n En) as [Hroot Hpar].
  destruct (par n) as [pi|] eqn:Ep.
  - destruct (Hpar pi eq_refl) as (np & Hnp & HRp).
    destruct (IH pi (st n :: acc) p Hw Hc) as (H1 & H2 & (n' & l & Hn' & Hp)).
    { intros n1 c rest Hn1 Hacc1. inversion Hacc1; subst. rewrite Hnp in Hn1; inversion Hn1; subst. exact HRp. }
    split; [exact H1|]. split; [exact H2|].
    exists n, (l ++ [st n']). split; [reflexivity|]. rewrite Hp, <- app_assoc. reflexivity.
  - inversion Hw; subst. split; [exact Hc|]. split.
    + assert (i = 0) by (apply Hroot; reflexivity). subst. exists n, acc. split; [exact En|reflexivity].
    + exists n, []. split; reflexivity.
Qed.

Lemma reconstruct_chain : forall t i p,
  LinkInv t -> reconstruct t i = Some (Some p) ->
  chain R p /\
  (exists n0 rest, nth_error t 0 = Some n0 /\ p = st n0 :: rest) /\
  (exists n l, nth_error t i = Some n /\ p = l ++ [st n]).
Proof.
  intros t i p Ht H. unfold reconstruct in H.
  eapply walk_chain in H; [exact H|exact Ht|constructor|intros; discriminate].
Qed.

(* ordered trees: extraction terminates *)
Lemma walk_ord_terminates : forall t, OrdInv t -> forall fuel i acc,
  i < fuel -> i < length t -> exists p, walk t fuel i acc = Some (Some p).
Proof.
  intros t Ht fuel. induction fuel as [|f IH]; intros i acc Hf Hi; [lia|]. cbn [walk].
  destruct (nth_error t i) as [n|] eqn:En.
  2:{ apply nth_error_None in En. lia. }
  destruct (par n) as [pi|] eqn:Ep; [|eexists; reflexivity].
  assert (pi < i) by (eapply Ht; eauto). apply IH; lia.
Qed.

Lemma reconstruct_ord_terminates : forall t i, OrdInv t -> i < length t ->
  exists p, reconstruct t i = Some (Some p).
Proof. intros t i Ht Hi. unfold reconstruct. apply walk_ord_terminates; [exact Ht|lia|exact Hi]. Qed.

End TreeInv.

Lemma LinkInv_impl : forall {S} (R1 R2 : S -> S -> Prop) t,
  (forall a b, R1 a b -> R2 a b) -> LinkInv R1 t -> LinkInv R2 t.
Proof.
  intros S R1 R2 t H Ht i n Hn. destruct (Ht i n Hn) as [A B]. split; [exact A|].
  intros p Hp. destruct (B p Hp) as (np & Hnp & HR). exists np; split; [exact Hnp|apply H; exact HR].
Qed.
