(* C08 / C15: RRT* never answers with a hang (a path extraction that cannot terminate), in any API
   history, for any sampler behaviour (including failing samplers) and any budget - under the only
   assumption that distances are >= 0 and not NaN (C09).  Rewiring cannot close a parent cycle
   (StarInv), and the extraction fuel |tree|+1 then always suffices (StarFuel). *)
From Coq Require Import ZArith NArith List Bool Floats Lia.
From OX Require Import Numerics.FloatBits Gen.Consts Planners.Model Proofs.Basics Proofs.TreeInv Proofs.StarInv
  Proofs.TreeFinal Proofs.StarFuel.
Import ListNotations.
Open Scope nat_scope.

Section StarNoHang.
Context {S V P : Type}.
Variable dist : S -> S -> F.
Variable interp : S -> S -> F -> S.
Variable lvs : F.
Variable valid : V -> S -> bool.
Variable goal : P -> S -> bool.
Variable starts : P -> list S.
Variable u64_at : gen -> N -> N.
Variable usample : gen -> N -> option S * N.
Variable gsample : P -> gen -> N -> option S * N.
Variables maxd bias radius : F.

Notation rrtstar_step := (rrtstar_step dist interp lvs valid goal starts u64_at usample gsample maxd bias radius).
Notation rrtstar_loop := (rrtstar_loop dist interp lvs valid goal u64_at usample gsample maxd bias radius).
Notation rrtstar_iter := (rrtstar_iter dist interp lvs valid maxd radius).

Hypothesis Hd : forall a b, FloatBits.fle zero (dist a b) = true.

Lemma rrtstar_loop_no_hang : forall fuel p v t g pos t' pos' r,
  SInv dist t -> rrtstar_loop fuel p v t g pos = (t', pos', r) -> r <> RHang.
Proof.
  induction fuel as [|f IH]; intros p v t g pos t' pos' r HI; cbn [Model.rrtstar_loop].
  - intros E; inversion E; discriminate.
  - destruct (draw u64_at usample gsample bias p g pos) as [[q|] pos1]; [|intros E; inversion E; discriminate].
    destruct (rrtstar_iter v t q) as [t1 er] eqn:Ee.
    pose proof (rrtstar_iter_SInv dist interp lvs valid maxd radius Hd _ _ _ _ _ HI Ee) as H1.
    destruct er as [| |qn].
    + intros E; inversion E; discriminate.
    + apply IH; exact H1.
    + destruct (goal p qn); [|apply IH; exact H1].
      intros E; inversion E; subst.
      destruct t' as [|n0 tl_]; [cbn; discriminate|].
      assert (Hi : length (n0 :: tl_) - 1 < length (n0 :: tl_)) by (cbn; lia).
      destruct (reconstruct_SInv_terminates dist (n0 :: tl_) _ H1 Hi) as [pp Hpp].
      rewrite Hpp. discriminate.
Qed.

Lemma rrtstar_step_no_hang : forall (s : @pstate S V P) c s' r,
  SInv dist (tree s) -> rrtstar_step s c = (s', r) -> r <> RHang.
Proof.
  intros s c s' r HI. destruct c as [p v|b|b|p]; cbn [Model.rrtstar_step].
  - unfold tree_setup. destruct (starts p); intros E; inversion E; discriminate.
  - unfold tree_solve. destruct (pd s) as [p|]; [|intros E; inversion E; discriminate].
    destruct (vc s) as [v|]; [|intros E; inversion E; discriminate].
    destruct (starts p) as [|s0 rest]; [intros E; inversion E; discriminate|].
    destruct (negb (valid v s0)); [intros E; inversion E; discriminate|].
    destruct (take_rng s) as [g pos].
    destruct (rrtstar_loop b p v (tree s) g pos) as [[t' pos'] r'] eqn:El.
    intros E; inversion E; subst. eapply rrtstar_loop_no_hang; eauto.
  - intros E; inversion E; discriminate.
  - intros E; inversion E; discriminate.
Qed.

Theorem rrtstar_never_hangs : forall sd cs s rs,
  run rrtstar_step (new_planner sd) cs = (s, rs) -> Forall (fun r => r <> RHang) rs.
Proof.
  intros sd cs. generalize (new_planner (S:=S) (V:=V) (P:=P) sd), (SInv_nil dist : SInv dist (tree (new_planner (S:=S) (V:=V) (P:=P) sd))).
  induction cs as [|c cs IH]; intros s0 H0 s rs; cbn [run].
  - intros E; inversion E; constructor.
  - destruct (rrtstar_step s0 c) as [s1 r] eqn:E1. destruct (run rrtstar_step s1 cs) as [s2 rs2] eqn:E2.
    intros E; inversion E; subst. constructor; [eapply rrtstar_step_no_hang; eauto|].
    eapply IH; [|exact E2].
    eapply (rrtstar_step_SInv dist interp lvs valid goal starts u64_at usample gsample maxd bias radius Hd); eauto.
Qed.

End StarNoHang.
