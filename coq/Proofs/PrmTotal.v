(* PRM queries never panic and never fail to return (C08 / C06 for PRM): the search loop's structural
   fuel always suffices, every index it uses is in range, and the parent map it builds is well-founded,
   so path extraction terminates within |roadmap| steps. *)
From Coq Require Import ZArith NArith List Bool Floats Lia.
From OX Require Import Numerics.FloatBits Gen.Consts Planners.Model Proofs.Basics Proofs.ValidInv Proofs.TreeInv Proofs.Links
  Proofs.PrmInv Proofs.PrmComplete.
Import ListNotations.
Open Scope nat_scope.

Lemma NoDup_app_r : forall {A} (l1 l2 : list A), NoDup (l1 ++ l2) -> NoDup l2.
Proof. intros A l1. induction l1 as [|a l1 IH]; intros l2 H; [exact H|]. cbn in H. inversion H; subst. apply IH; assumption. Qed.

Section PrmTotal.
Context {S : Type}.
Variable rm : list (mnode S).

Definition in_range (l : list nat) : Prop := forall x, In x l -> x < length rm.
Definition keys (pm : list (nat * option nat)) : list nat := map fst pm.

(* every binding's parent is bound further down the list (it was visited earlier) *)
Fixpoint WfPm (pm : list (nat * option nat)) : Prop :=
  match pm with
  | [] => True
  | (_, None) :: t => WfPm t
  | (_, Some p) :: t => In p (keys t) /\ WfPm t
  end.

Hypothesis Hedges : forall i m j, nth_error rm i = Some m -> In j (medges m) -> j < length rm.

Lemma nodup_range_length : forall l, NoDup l -> in_range l -> length l <= length rm.
Proof.
  intros l Hnd Hr. rewrite <- (seq_length (length rm) 0). apply NoDup_incl_length; [exact Hnd|].
  intros x Hx. apply in_seq. specialize (Hr x Hx). lia.
Qed.

Record BInv (visited : list nat) (pm : list (nat * option nat)) (queue : list nat) : Prop := {
  bi_q : in_range queue;
  bi_v : in_range visited;
  bi_nd : NoDup visited;
  bi_keys : forall k, In k (keys pm) <-> In k visited;
  bi_ndk : NoDup (keys pm);
  bi_wf : WfPm pm;
  bi_qv : forall x, In x queue -> In x visited
}.

Lemma bfs_expand_BInv : forall cur es visited pm queue vis' pm' q',
  In cur visited -> (forall e, In e es -> e < length rm) ->
  BInv visited pm queue -> bfs_expand cur es visited pm queue = (vis', pm', q') ->
  BInv vis' pm' q' /\ length q' + length visited = length queue + length vis'.
Proof.
  intros cur es. induction es as [|n es IH]; intros visited pm queue vis' pm' q' Hcur Hes HI; cbn [bfs_expand].
  - intros E; inversion E; subst. split; [exact HI|lia].
  - assert (Hes' : forall e, In e es -> e < length rm) by (intros e He; apply Hes; right; exact He).
    destruct (mem_nat n visited) eqn:Em; [apply IH; assumption|].
    assert (Hn : ~ In n visited) by (intros H; apply mem_nat_in in H; rewrite H in Em; discriminate).
    intros E. destruct HI as [Hq Hv Hnd Hk Hndk Hwf Hqv].
    destruct (IH (n :: visited) ((n, Some cur) :: pm) (queue ++ [n]) vis' pm' q') as [HI' Hlen]; [right; exact Hcur|exact Hes'| |exact E|].
    + constructor.
      * intros x Hx. apply in_app_or in Hx. destruct Hx as [Hx|[<-|[]]]; [apply Hq; exact Hx|apply Hes; left; reflexivity].
      * intros x [<-|Hx]; [apply Hes; left; reflexivity|apply Hv; exact Hx].
      * constructor; assumption.
      * intros k. cbn. rewrite Hk. tauto.
      * cbn. constructor; [rewrite Hk; exact Hn|exact Hndk].
      * cbn. split; [apply Hk; exact Hcur|exact Hwf].
      * intros x Hx. apply in_app_or in Hx. destruct Hx as [Hx|[<-|[]]]; [right; apply Hqv; exact Hx|left; reflexivity].
    + split; [exact HI'|]. rewrite app_length in Hlen. cbn in Hlen. lia.
Qed.

(* the search never runs out of structural fuel and never indexes out of range *)
Lemma bfs_no_panic : forall fuel budget goals visited pm queue,
  BInv visited pm queue -> length queue + (length rm - length visited) < fuel ->
  bfs fuel budget rm goals visited pm queue <> BfsPanic.
Proof.
  induction fuel as [|f IH]; intros budget goals visited pm queue HI Hf; [lia|]. cbn [bfs].
  destruct queue as [|cur queue']; [discriminate|].
  destruct budget as [|b]; [discriminate|].
  destruct (mem_nat cur goals); [discriminate|].
  assert (Hcv : In cur visited) by (apply (bi_qv _ _ _ HI); left; reflexivity).
  assert (Hcr : cur < length rm) by (apply (bi_v _ _ _ HI); exact Hcv).
  destruct (nth_error rm cur) as [m|] eqn:Ec; [|apply nth_error_None in Ec; lia].
  destruct (bfs_expand cur (medges m) visited pm queue') as [[vis1 pm1] q1] eqn:Ee.
  assert (HI0 : BInv visited pm queue').
  { destruct HI as [Hq Hv Hnd Hk Hndk Hwf Hqv]. constructor; try assumption.
    - intros x Hx; apply Hq; right; exact Hx.
    - intros x Hx; apply Hqv; right; exact Hx. }
  destruct (bfs_expand_BInv _ _ _ _ _ _ _ _ Hcv (fun e He => Hedges cur m e Ec He) HI0 Ee) as [HI1 Hlen].
  apply IH; [exact HI1|].
  pose proof (nodup_range_length _ (bi_nd _ _ _ HI1) (bi_v _ _ _ HI1)) as H1.
  pose proof (nodup_range_length _ (bi_nd _ _ _ HI) (bi_v _ _ _ HI)) as H2.
  cbn in Hf. lia.
Qed.

Lemma bfs_found_BInv : forall fuel budget goals visited pm queue g pm',
  BInv visited pm queue -> bfs fuel budget rm goals visited pm queue = BfsFound g pm' ->
  exists vis' q', BInv vis' pm' q' /\ In g vis'.
Proof.
  induction fuel as [|f IH]; intros budget goals visited pm queue g pm' HI; cbn [bfs].
  - destruct queue; discriminate.
  - destruct queue as [|cur queue']; [discriminate|].
    destruct budget as [|b]; [discriminate|].
    assert (Hcv : In cur visited) by (apply (bi_qv _ _ _ HI); left; reflexivity).
    destruct (mem_nat cur goals).
    + intros E; inversion E; subst. exists visited, (g :: queue'). split; [exact HI|exact Hcv].
    + destruct (nth_error rm cur) as [m|] eqn:Ec; [|discriminate].
      destruct (bfs_expand cur (medges m) visited pm queue') as [[vis1 pm1] q1] eqn:Ee.
      assert (HI0 : BInv visited pm queue').
      { destruct HI as [Hq Hv Hnd Hk Hndk Hwf Hqv]. constructor; try assumption.
        - intros x Hx; apply Hq; right; exact Hx.
        - intros x Hx; apply Hqv; right; exact Hx. }
      destruct (bfs_expand_BInv _ _ _ _ _ _ _ _ Hcv (fun e He => Hedges cur m e Ec He) HI0 Ee) as [HI1 _].
      apply IH; exact HI1.
Qed.

(* ---- path extraction along a well-founded parent map ---- *)
Lemma pm_get_split : forall l1 k par l2, ~ In k (keys l1) -> pm_get (l1 ++ (k, par) :: l2) k = Some par.
Proof.
  intros l1 k par l2 Hn. unfold pm_get. induction l1 as [|[k1 p1] l1 IH]; cbn.
  - rewrite Nat.eqb_refl. reflexivity.
  - destruct (Nat.eqb_spec k1 k) as [->|Hne]; [exfalso; apply Hn; left; reflexivity|].
    apply IH. intros H; apply Hn; right; exact H.
Qed.

Lemma in_keys_split : forall pm k, In k (keys pm) -> NoDup (keys pm) ->
  exists l1 par l2, pm = l1 ++ (k, par) :: l2 /\ ~ In k (keys l1).
Proof.
  induction pm as [|[k1 p1] pm IH]; intros k Hin Hnd; [destruct Hin|].
  cbn in Hin, Hnd. inversion Hnd as [|? ? Hn1 Hnd']; subst.
  destruct (Nat.eq_dec k1 k) as [->|Hne].
  - exists [], p1, pm. split; [reflexivity|intros []].
  - destruct Hin as [H|Hin]; [contradiction|].
    destruct (IH k Hin Hnd') as (l1 & par & l2 & -> & Hn). exists ((k1, p1) :: l1), par, l2. split; [reflexivity|].
    intros [H|H]; [contradiction|apply Hn; exact H].
Qed.

Lemma WfPm_app : forall l1 l2, WfPm (l1 ++ l2) -> WfPm l2.
Proof. induction l1 as [|[k [p|]] l1 IH]; intros l2 H; cbn in H; [exact H|apply IH; tauto|apply IH; exact H]. Qed.

Lemma prm_walk_total : forall pm, NoDup (keys pm) -> WfPm pm -> in_range (keys pm) ->
  forall n l1 l2 k, pm = l1 ++ l2 -> length l2 <= n -> In k (keys l2) ->
  forall fuel acc, n <= fuel -> exists p, prm_walk fuel rm pm k acc = Some (Some p).
Proof.
  intros pm Hnd Hwf Hr n. induction n as [|n IH]; intros l1 l2 k Epm Hlen Hk fuel acc Hf.
  - destruct l2; [destruct Hk|cbn in Hlen; lia].
  - destruct fuel as [|f]; [lia|]. cbn [prm_walk].
    assert (Hnd2 : NoDup (keys l2)).
    { unfold keys in *. rewrite Epm, map_app in Hnd. apply NoDup_app_r in Hnd. exact Hnd. }
    destruct (in_keys_split l2 k Hk Hnd2) as (m1 & par & m2 & El2 & Hnk).
    assert (Hget : pm_get pm k = Some par).
    { rewrite Epm, El2, app_assoc. apply pm_get_split. unfold keys. rewrite map_app. intros H. apply in_app_or in H.
      destruct H as [H|H]; [|apply Hnk; exact H].
      unfold keys in Hnd. rewrite Epm, El2, !map_app in Hnd. cbn in Hnd. rewrite app_assoc in Hnd.
      apply NoDup_remove_2 in Hnd. apply Hnd. apply in_or_app. left. apply in_or_app. left; exact H. }
    rewrite Hget.
    assert (Hkr : k < length rm) by (apply Hr; unfold keys; rewrite Epm, map_app; apply in_or_app; right; exact Hk).
    destruct (nth_error rm k) as [m|] eqn:Em; [|apply nth_error_None in Em; lia].
    destruct par as [p|]; [|eexists; reflexivity].
    assert (Hwf2 : WfPm ((k, Some p) :: m2)).
    { rewrite Epm, El2, app_assoc in Hwf. apply WfPm_app in Hwf. exact Hwf. }
    cbn in Hwf2. destruct Hwf2 as [Hp _].
    apply (IH ((l1 ++ m1) ++ [(k, Some p)]) m2 p).
    + rewrite Epm, El2, <- !app_assoc. reflexivity.
    + rewrite El2, app_length in Hlen. cbn in Hlen. lia.
    + exact Hp.
    + lia.
Qed.

End PrmTotal.

Section PrmQueryTotal.
Context {S V P : Type}.
Variable dist : S -> S -> F.
Variable interp : S -> S -> F -> S.
Variable lvs : F.
Variable valid : V -> S -> bool.
Variable goal : P -> S -> bool.
Variable starts : P -> list S.
Variable radius : F.

Notation start_conns := (start_conns dist interp lvs valid radius).
Notation prm_query := (prm_query dist interp lvs valid goal starts radius).

Lemma start_conns_ge : forall v s0 l k j, In j (start_conns v s0 l k) -> k <= j /\ j < k + length l.
Proof.
  intros v s0 l. induction l as [|m l IH]; intros k j; cbn [Model.start_conns]; [intros []|].
  destruct (if flt (dist s0 (mst m)) radius then Model.check_motion dist interp lvs valid v s0 (mst m) else false).
  - intros [<-|H]; [cbn; lia|]. apply IH in H. cbn. lia.
  - intros H. apply IH in H. cbn. lia.
Qed.

Lemma start_conns_nodup : forall v s0 l k, NoDup (start_conns v s0 l k).
Proof.
  intros v s0 l. induction l as [|m l IH]; intros k; cbn [Model.start_conns]; [constructor|].
  destruct (if flt (dist s0 (mst m)) radius then Model.check_motion dist interp lvs valid v s0 (mst m) else false); [|apply IH].
  constructor; [|apply IH]. intros H. apply start_conns_ge in H. lia.
Qed.

Lemma WfPm_all_none : forall l : list nat, WfPm (map (fun i => (i, @None nat)) l).
Proof. induction l; cbn; auto. Qed.

Lemma WfPm_rev_none : forall l : list nat, WfPm (rev (map (fun i => (i, @None nat)) l)).
Proof. intros l. rewrite <- map_rev. apply WfPm_all_none. Qed.

(* a PRM query always returns: with a path or an error, never a panic, never a hang *)
Theorem prm_query_total : forall b p v rm,
  RmInv dist interp lvs valid radius v rm -> starts p <> [] ->
  prm_query b p v rm <> RPanic /\ prm_query b p v rm <> RHang.
Proof.
  intros b p v rm Hrm Hst. unfold Model.prm_query.
  destruct rm as [|m0 rm0] eqn:Erm; [split; discriminate|]. rewrite <- Erm in *.
  destruct (starts p) as [|s0 rest]; [contradiction|].
  destruct (negb (valid v s0)); [split; discriminate|].
  destruct (start_conns v s0 rm 0) as [|c0 sc'] eqn:Esc; [split; discriminate|].
  destruct (goal_idxs goal p rm 0) as [|g0 gi']; [split; discriminate|].
  set (sc := c0 :: sc') in *.
  assert (Hedges : forall i m j, nth_error rm i = Some m -> In j (medges m) -> j < length rm)
    by (exact (RmInv_range dist interp lvs valid radius v rm Hrm)).
  assert (Hscr : in_range rm sc).
  { intros x Hx. rewrite <- Esc in Hx. apply start_conns_ge in Hx. lia. }
  assert (Hscnd : NoDup sc) by (rewrite <- Esc; apply start_conns_nodup).
  set (pm0 := rev (map (fun i => (i, @None nat)) sc)).
  assert (Hkeys0 : keys pm0 = rev sc).
  { unfold keys, pm0. rewrite map_rev, map_map. cbn. rewrite map_id. reflexivity. }
  assert (HI : BInv rm sc pm0 (sc ++ sc)).
  { constructor.
    - intros x Hx. apply in_app_or in Hx. destruct Hx; apply Hscr; assumption.
    - exact Hscr.
    - exact Hscnd.
    - intros k. rewrite Hkeys0. rewrite <- in_rev. tauto.
    - rewrite Hkeys0. apply NoDup_rev. exact Hscnd.
    - apply WfPm_rev_none.
    - intros x Hx. apply in_app_or in Hx. destruct Hx; assumption. }
  destruct (bfs _ _ _ _ _ _ _) as [| gidx pm | |] eqn:Eb; try (split; discriminate).
  - destruct (bfs_found_BInv rm Hedges _ _ _ _ _ _ _ _ HI Eb) as (vis' & q' & HI' & Hg).
    assert (Hgk : In gidx (keys pm)) by (apply (bi_keys rm _ _ _ HI'); exact Hg).
    assert (Hkr : in_range rm (keys pm)).
    { intros x Hx. apply (bi_v rm _ _ _ HI'). apply (bi_keys rm _ _ _ HI'). exact Hx. }
    destruct (prm_walk_total rm pm (bi_ndk rm _ _ _ HI') (bi_wf rm _ _ _ HI') Hkr (length pm) [] pm gidx eq_refl (le_n _) Hgk
                (Datatypes.S (length rm)) []) as [path ->].
    { pose proof (nodup_range_length rm _ (bi_ndk rm _ _ _ HI') Hkr) as H. unfold keys in H. rewrite map_length in H. lia. }
    split; discriminate.
  - exfalso. revert Eb. apply (bfs_no_panic rm Hedges); [exact HI|].
    rewrite app_length. pose proof (nodup_range_length rm sc Hscnd Hscr). lia.
Qed.

End PrmQueryTotal.
