(* Planner loops only ever append states: the state sequence of a tree is extended, never
   rewritten (RRT* rewiring changes parents and costs only). *)
From Coq Require Import ZArith NArith List Bool Floats Lia.
From OX Require Import Numerics.FloatBits Gen.Consts Planners.Model Proofs.Basics Proofs.ValidInv.
Import ListNotations.

Section Prefix.
Context {S V P : Type}.
Variable dist : S -> S -> F.
Variable interp : S -> S -> F -> S.
Variable lvs : F.
Variable valid : V -> S -> bool.
Variable goal : P -> S -> bool.
Variable starts : P -> list S.
Variable u64_at : gen -> N -> N.
Variable usample : gen -> N -> option S * N.
Variable gsample : P -> gen -> N -> option S * N.
Variables maxd bias radius : F.

Notation extend := (extend dist interp lvs valid maxd).
Notation draw := (draw u64_at usample gsample bias).
Notation rrt_loop := (rrt_loop dist interp lvs valid goal u64_at usample gsample maxd bias).
Notation rrtstar_iter := (rrtstar_iter dist interp lvs valid maxd radius).
Notation rrtstar_loop := (rrtstar_loop dist interp lvs valid goal u64_at usample gsample maxd bias radius).
Notation rrtc_loop := (rrtc_loop dist interp lvs valid goal u64_at usample gsample maxd bias).
Notation rewire := (rewire dist interp lvs valid).

Definition extends_ (t t' : list (node S)) : Prop := exists l, states t' = states t ++ l.

Lemma extends_refl : forall t, extends_ t t.
Proof. intros t; exists []; rewrite app_nil_r; reflexivity. Qed.

Lemma extends_trans : forall a b c, extends_ a b -> extends_ b c -> extends_ a c.
Proof.
  intros a b c [l1 H1] [l2 H2]. exists (l1 ++ l2). rewrite H2, H1, app_assoc. reflexivity.
Qed.

Lemma extends_app : forall t n, extends_ t (t ++ [n]).
Proof. intros t n. exists [st n]. unfold states. rewrite map_app. reflexivity. Qed.

Lemma extends_hd : forall t t' n, extends_ (n :: t) t' -> exists n' r, t' = n' :: r /\ st n' = st n.
Proof.
  intros t t' n [l H]. destruct t' as [|n' r]; cbn in H; [discriminate|].
  injection H as H1 H2. exists n', r. split; [reflexivity|exact H1].
Qed.

Lemma extends_length : forall t t', extends_ t t' -> (length t <= length t')%nat.
Proof.
  intros t t' [l H]. assert (E : length (states t') = length (states t ++ l)) by (rewrite H; reflexivity).
  unfold states in E. rewrite app_length, !map_length in E. lia.
Qed.

Lemma extend_extends : forall v t q t' r, extend v t q = (t', r) -> extends_ t t'.
Proof.
  intros v t q t' r. unfold Model.extend.
  destruct (nearest dist t q) as [[i d]|]; [|intros E; inversion E; apply extends_refl].
  destruct (nth_error t i) as [nn|]; [|intros E; inversion E; apply extends_refl].
  destruct (steer interp maxd (st nn) q d) as [qn reached].
  destruct (Model.check_motion _ _ _ _ _ _ _); intros E; inversion E; [apply extends_app|apply extends_refl].
Qed.

Lemma rrt_loop_extends : forall fuel p v t g pos t' pos' r,
  rrt_loop fuel p v t g pos = (t', pos', r) -> extends_ t t'.
Proof.
  induction fuel as [|f IH]; intros p v t g pos t' pos' r; cbn [Model.rrt_loop].
  - intros E; inversion E; apply extends_refl.
  - destruct (draw p g pos) as [[q|] pos1]; [|intros E; inversion E; apply extends_refl].
    destruct (extend v t q) as [t1 er] eqn:Ee. apply extend_extends in Ee.
    destruct er as [| |re i qn].
    + intros E; inversion E; subst; exact Ee.
    + intros E. eapply extends_trans; [exact Ee|eapply IH; exact E].
    + destruct (goal p qn).
      * intros E; inversion E; subst; exact Ee.
      * intros E. eapply extends_trans; [exact Ee|eapply IH; exact E].
Qed.

Lemma rrtstar_iter_extends : forall v t q t' r, rrtstar_iter v t q = (t', r) -> extends_ t t'.
Proof.
  intros v t q t' r. unfold Model.rrtstar_iter.
  destruct (nearest dist t q) as [[i d]|]; [|intros E; inversion E; apply extends_refl].
  destruct (nth_error t i) as [nn|]; [|intros E; inversion E; apply extends_refl].
  destruct (steer interp maxd (st nn) q d) as [qn reached].
  destruct (negb _); [intros E; inversion E; apply extends_refl|].
  destruct (choose_parent _ _ _ _ _ _ _ _ _ _) as [[best bc]|]; [|intros E; inversion E; apply extends_refl].
  destruct (rewire v _ _ _) as [t2|] eqn:Er; intros E; inversion E; subst.
  - apply (rewire_states dist interp lvs valid) in Er.
    destruct (extends_app t (mkNode S qn (Some best) bc)) as [l Hl].
    exists l. rewrite Er. exact Hl.
  - apply extends_app.
Qed.

Lemma rrtstar_loop_extends : forall fuel p v t g pos t' pos' r,
  rrtstar_loop fuel p v t g pos = (t', pos', r) -> extends_ t t'.
Proof.
  induction fuel as [|f IH]; intros p v t g pos t' pos' r; cbn [Model.rrtstar_loop].
  - intros E; inversion E; apply extends_refl.
  - destruct (draw p g pos) as [[q|] pos1]; [|intros E; inversion E; apply extends_refl].
    destruct (rrtstar_iter v t q) as [t1 er] eqn:Ee. apply rrtstar_iter_extends in Ee.
    destruct er as [| |qn].
    + intros E; inversion E; subst; exact Ee.
    + intros E. eapply extends_trans; [exact Ee|eapply IH; exact E].
    + destruct (goal p qn).
      * intros E; inversion E; subst; exact Ee.
      * intros E. eapply extends_trans; [exact Ee|eapply IH; exact E].
Qed.

Lemma rrtc_loop_extends : forall fuel p v ts tg g pos ts' tg' pos' r,
  rrtc_loop fuel p v ts tg g pos = (ts', tg', pos', r) -> extends_ ts ts' /\ extends_ tg tg'.
Proof.
  induction fuel as [|f IH]; intros p v ts tg g pos ts' tg' pos' r; cbn [Model.rrtc_loop].
  - intros E; inversion E; split; apply extends_refl.
  - destruct (draw p g pos) as [[q|] pos1]; [|intros E; inversion E; split; apply extends_refl].
    destruct (Nat.leb (length ts) (length tg)).
    + destruct (extend v ts q) as [ts1 er] eqn:Ee. apply extend_extends in Ee.
      destruct er as [| |re ia qn].
      * intros E; inversion E; subst; split; [exact Ee|apply extends_refl].
      * intros E. apply IH in E. destruct E; split; [eapply extends_trans; eauto|assumption].
      * destruct (goal p qn); [intros E; inversion E; subst; split; [exact Ee|apply extends_refl]|].
        destruct (extend v tg qn) as [tg1 er2] eqn:Ee2. apply extend_extends in Ee2.
        destruct er2 as [| |[|] ib qn2].
        { intros E; inversion E; subst; split; assumption. }
        { intros E. apply IH in E. destruct E; split; eapply extends_trans; eauto. }
        { intros E; inversion E; subst; split; assumption. }
        { intros E. apply IH in E. destruct E; split; eapply extends_trans; eauto. }
    + destruct (extend v tg q) as [tg1 er] eqn:Ee. apply extend_extends in Ee.
      destruct er as [| |re ia qn].
      * intros E; inversion E; subst; split; [apply extends_refl|exact Ee].
      * intros E. apply IH in E. destruct E; split; [assumption|eapply extends_trans; eauto].
      * destruct (extend v ts qn) as [ts1 er2] eqn:Ee2. apply extend_extends in Ee2.
        destruct er2 as [| |[|] ib qn2].
        { intros E; inversion E; subst; split; assumption. }
        { intros E. apply IH in E. destruct E; split; eapply extends_trans; eauto. }
        { intros E; inversion E; subst; split; assumption. }
        { intros E. apply IH in E. destruct E; split; eapply extends_trans; eauto. }
Qed.

End Prefix.
