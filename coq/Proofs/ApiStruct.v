(* Structural soundness of returned paths over API histories (C02, C03, C05):
   the first state is the start of the installed problem, the last satisfies its goal,
   consecutive states are joined by a link that was motion-checked when it was written. *)
From Coq Require Import ZArith NArith List Bool Floats Lia.
From OX Require Import Numerics.FloatBits Gen.Consts Planners.Model Proofs.Basics Proofs.ValidInv Proofs.Prefix
  Proofs.TreeInv Proofs.Links Proofs.PathFacts Proofs.ApiValid Proofs.PrmInv.
Import ListNotations.
Open Scope nat_scope.

Section ApiStruct.
Context {S V P : Type}.
Variable dist : S -> S -> F.
Variable interp : S -> S -> F -> S.
Variable lvs : F.
Variable valid : V -> S -> bool.
Variable goal : P -> S -> bool.
Variable starts : P -> list S.
Variable u64_at : gen -> N -> N.
Variable usample : gen -> N -> option S * N.
Variable gsample : P -> gen -> N -> option S * N.
Variables maxd bias radius : F.

Notation pstate := (@pstate S V P).
Notation rrt_step := (rrt_step dist interp lvs valid goal starts u64_at usample gsample maxd bias).
Notation rrtstar_step := (rrtstar_step dist interp lvs valid goal starts u64_at usample gsample maxd bias radius).
Notation rrtc_step := (rrtc_step dist interp lvs valid goal starts u64_at usample gsample maxd bias).
Notation rrt_loop := (rrt_loop dist interp lvs valid goal u64_at usample gsample maxd bias).
Notation rrtstar_loop := (rrtstar_loop dist interp lvs valid goal u64_at usample gsample maxd bias radius).
Notation rrtc_loop := (rrtc_loop dist interp lvs valid goal u64_at usample gsample maxd bias).
Notation link_rrt := (link_rrt dist interp lvs valid maxd).
Notation link_star := (link_star dist interp lvs valid maxd radius).
Notation root_ok := (root_ok starts).

(* ---- case analysis of solve ---- *)
Lemma tree_solve_cases :
  forall (loop : nat -> P -> V -> list (node S) -> gen -> N -> list (node S) * N * response S)
         (s : pstate) b s' r,
  tree_solve valid starts loop s b = (s', r) ->
  (s' = s /\ (forall path, r <> RPath path)) \/
  (exists p v s0 rest g pos t' pos',
      pd s = Some p /\ vc s = Some v /\ starts p = s0 :: rest /\ valid v s0 = true /\
      loop b p v (tree s) g pos = (t', pos', r) /\
      pd s' = Some p /\ vc s' = Some v /\ tree s' = t' /\ gtree s' = gtree s /\ roadmap s' = roadmap s).
Proof.
  intros loop s b s' r. unfold tree_solve.
  destruct (pd s) as [p|] eqn:Ep; [|intros E; inversion E; left; split; [reflexivity|discriminate]].
  destruct (vc s) as [v|] eqn:Ev; [|intros E; inversion E; left; split; [reflexivity|discriminate]].
  destruct (starts p) as [|s0 rest] eqn:Es; [intros E; inversion E; left; split; [reflexivity|discriminate]|].
  destruct (valid v s0) eqn:Es0; cbn [negb]; [|intros E; inversion E; left; split; [reflexivity|discriminate]].
  destruct (take_rng s) as [g pos].
  destruct (loop b p v (tree s) g pos) as [[t' pos'] r'] eqn:El.
  intros E; inversion E; subst; clear E. right.
  exists p, v, s0, rest, g, pos, t', pos'. cbn. repeat split; assumption.
Qed.

(* ---- invariants ---- *)
(* I v t: the planner-specific tree invariant (implies LinkInv (R v) t) *)
Definition InvS (I : V -> list (node S) -> Prop) (s : pstate) : Prop :=
  match vc s with
  | Some v => I v (tree s)
  | None => tree s = []
  end.

(* what is claimed about a path returned from state s *)
Definition SoundPath (R : V -> S -> S -> Prop) (s : pstate) (path : list S) : Prop :=
  exists p v s0 rest,
    pd s = Some p /\ vc s = Some v /\ starts p = s0 :: rest /\
    (exists tl_, path = s0 :: tl_) /\
    (exists l x, path = l ++ [x] /\ goal p x = true) /\
    chain (R v) path.

Definition PathSound (R : V -> S -> S -> Prop) (s : pstate) (r : response S) : Prop :=
  forall path, r = RPath path -> SoundPath R s path.

Definition I_rrt (v : V) (t : list (node S)) : Prop := LinkInv (link_rrt v) t /\ OrdInv t.
Definition I_star (v : V) (t : list (node S)) : Prop := LinkInv (link_star v) t.

Lemma tree_setup_struct : forall (I : V -> list (node S) -> Prop) (s : pstate) p v s' r,
  (forall v, I v []) -> (forall v s0, I v [root_node s0]) ->
  tree_setup starts s p v = (s', r) -> InvS I s' /\ gtree s' = gtree s /\ (forall path, r <> RPath path).
Proof.
  intros I s p v s' r Hnil Hroot. unfold tree_setup, InvS.
  destruct (starts p) as [|s0 rest]; intros E; inversion E; subst; cbn.
  - split; [apply Hnil|]. split; [reflexivity|discriminate].
  - split; [apply Hroot|]. split; [reflexivity|discriminate].
Qed.

(* generic: RRT and RRT* *)
Lemma tree_solve_struct :
  forall (R : V -> S -> S -> Prop) (I : V -> list (node S) -> Prop)
         (loop : nat -> P -> V -> list (node S) -> gen -> N -> list (node S) * N * response S),
  (forall v t, I v t -> LinkInv (R v) t) ->
  (forall fuel p v t g pos t' pos' r, I v t -> loop fuel p v t g pos = (t', pos', r) -> I v t') ->
  (forall fuel p v t g pos t' pos' path, loop fuel p v t g pos = (t', pos', RPath path) -> from_tree goal t' p path) ->
  (forall fuel p v t g pos t' pos' r, loop fuel p v t g pos = (t', pos', r) -> extends_ t t') ->
  forall (s : pstate) b s' r,
  InvT valid starts s -> InvS I s -> tree_solve valid starts loop s b = (s', r) ->
  InvS I s' /\ PathSound R s r.
Proof.
  intros R I loop HIL Hinv Hpath Hext s b s' r HT HS E.
  apply tree_solve_cases in E. destruct E as [[-> Hnp]|E].
  - split; [exact HS|]. intros path Hp. exfalso; eapply Hnp; eauto.
  - destruct E as (p & v & s0 & rest & g & pos & t' & pos' & Ep & Ev & Es & Es0 & El & Ep' & Ev' & Et' & Eg' & Er').
    unfold InvS in *. rewrite Ev in HS. rewrite Ev', Et'.
    pose proof (Hinv _ _ _ _ _ _ _ _ _ HS El) as HI'.
    split; [exact HI'|].
    intros path Hp. subst r. pose proof (Hpath _ _ _ _ _ _ _ _ _ El) as Hft.
    destruct (from_tree_facts goal (R v) t' p path (HIL _ _ HI') Hft) as (Hc & (n0 & rest0 & Hn0 & Hp0) & Hlast).
    exists p, v, s0, rest.
    split; [exact Ep|]. split; [exact Ev|]. split; [exact Es|]. split; [|split; [exact Hlast|exact Hc]].
    (* the root is the start *)
    unfold InvT in HT. rewrite Ep, Ev in HT. destruct HT as (Hroot & _ & _).
    apply Hext in El. destruct (tree s) as [|n t0] eqn:Et.
    + cbn in Hroot. rewrite Es in Hroot; discriminate.
    + destruct (extends_hd _ _ _ El) as (n' & r0 & Etx & Hst). rewrite Etx in Hn0. cbn in Hn0.
      injection Hn0 as Hn0. cbn in Hroot. destruct Hroot as [rest' Hr]. rewrite Es in Hr.
      injection Hr as Hr1 Hr2.
      exists rest0. rewrite Hp0, <- Hn0, Hst, Hr1. reflexivity.
Qed.

Lemma I_rrt_nil : forall v, I_rrt v [].
Proof. intros v; split; [apply LinkInv_nil|apply OrdInv_nil]. Qed.
Lemma I_rrt_root : forall v s0, I_rrt v [root_node s0].
Proof. intros v s0; split; [apply LinkInv_root|apply OrdInv_root]. Qed.

Lemma rrt_step_struct : forall s c s' r,
  InvT valid starts s -> InvS I_rrt s -> rrt_step s c = (s', r) -> InvS I_rrt s' /\ PathSound link_rrt s r.
Proof.
  intros s c s' r HT HS. destruct c as [p v|b|b|p]; cbn [Model.rrt_step].
  - intros E. destruct (tree_setup_struct I_rrt _ _ _ _ _ I_rrt_nil I_rrt_root E) as (A & _ & D).
    split; [exact A|]. intros path Hp; exfalso; eapply D; eauto.
  - apply tree_solve_struct; try assumption.
    + intros v t [H _]; exact H.
    + intros fuel p v t g pos t' pos' r0 [H1 H2] El.
      destruct (rrt_loop_inv dist interp lvs valid goal u64_at usample gsample maxd bias _ _ _ _ _ _ _ _ _ H1 H2 El).
      split; assumption.
    + intros. eapply rrt_loop_path; eauto.
    + intros. eapply rrt_loop_extends; eauto.
  - intros E; inversion E; subst. split; [exact HS|discriminate].
  - intros E; inversion E; subst. split; [exact HS|discriminate].
Qed.

Lemma rrtstar_step_struct : forall s c s' r,
  InvT valid starts s -> InvS I_star s -> rrtstar_step s c = (s', r) -> InvS I_star s' /\ PathSound link_star s r.
Proof.
  intros s c s' r HT HS. destruct c as [p v|b|b|p]; cbn [Model.rrtstar_step].
  - intros E. destruct (tree_setup_struct I_star _ _ _ _ _ (fun v => LinkInv_nil _) (fun v s0 => LinkInv_root _ s0) E) as (A & _ & D).
    split; [exact A|]. intros path Hp; exfalso; eapply D; eauto.
  - apply tree_solve_struct; try assumption.
    + intros v t H; exact H.
    + intros fuel p v t g pos t' pos' r0 H1 El.
      eapply (rrtstar_loop_inv dist interp lvs valid goal u64_at usample gsample maxd bias radius); eauto.
    + intros. eapply rrtstar_loop_path; eauto.
    + intros. eapply rrtstar_loop_extends; eauto.
  - intros E; inversion E; subst. split; [exact HS|discriminate].
  - intros E; inversion E; subst. split; [exact HS|discriminate].
Qed.

(* ---- histories ---- *)
Section Hist2.
Variable step : pstate -> @call V P -> pstate * response S.
Variables Inv1 Inv2 : pstate -> Prop.
Variable Q : pstate -> response S -> Prop.
Hypothesis step1 : forall s c s' r, Inv1 s -> step s c = (s', r) -> Inv1 s'.
Hypothesis step2 : forall s c s' r, Inv1 s -> Inv2 s -> step s c = (s', r) -> Inv2 s' /\ Q s r.

Lemma run_inv2 : forall cs s s' rs, Inv1 s -> Inv2 s -> run step s cs = (s', rs) -> Inv1 s' /\ Inv2 s'.
Proof.
  induction cs as [|c cs IH]; intros s s' rs H1 H2; cbn [run].
  - intros E; inversion E; subst; split; assumption.
  - destruct (step s c) as [s1 r] eqn:E1. destruct (run step s1 cs) as [s2 rs2] eqn:E2.
    intros E; inversion E; subst. eapply IH; [| |exact E2].
    + eapply step1; eauto.
    + eapply step2; eauto.
Qed.

Lemma history_Q : forall cs s0 s rs c s' r,
  Inv1 s0 -> Inv2 s0 -> run step s0 cs = (s, rs) -> step s c = (s', r) -> Q s r.
Proof.
  intros cs s0 s rs c s' r H1 H2 Hrun Hstep.
  destruct (run_inv2 _ _ _ _ H1 H2 Hrun) as [A B]. eapply step2; eauto.
Qed.
End Hist2.

Theorem rrt_paths_sound : forall sd cs s rs c s' r,
  run rrt_step (new_planner sd) cs = (s, rs) -> rrt_step s c = (s', r) -> PathSound link_rrt s r.
Proof.
  intros sd cs s rs c s' r.
  apply (history_Q rrt_step (InvT0 valid starts) (InvS I_rrt) (PathSound link_rrt)).
  - intros s1 c1 s2 r1 H1 H2. eapply rrt_step_inv; eauto.
  - intros s1 c1 s2 r1 [H1 H1'] H2 H3. eapply rrt_step_struct; eauto.
  - split; [apply InvT_new|reflexivity].
  - reflexivity.
Qed.

Theorem rrtstar_paths_sound : forall sd cs s rs c s' r,
  run rrtstar_step (new_planner sd) cs = (s, rs) -> rrtstar_step s c = (s', r) -> PathSound link_star s r.
Proof.
  intros sd cs s rs c s' r.
  apply (history_Q rrtstar_step (InvT0 valid starts) (InvS I_star) (PathSound link_star)).
  - intros s1 c1 s2 r1 H1 H2. eapply rrtstar_step_inv; eauto.
  - intros s1 c1 s2 r1 [H1 H1'] H2 H3. eapply rrtstar_step_struct; eauto.
  - split; [apply InvT_new|reflexivity].
  - reflexivity.
Qed.

(* ---- RRT-Connect ---- *)
Definition groot_ok (p : P) (tg : list (node S)) : Prop :=
  match tg with
  | [] => True
  | g0 :: _ => exists g pos c, gsample p g pos = (Some (st g0), c)
  end.

Definition InvC (s : pstate) : Prop :=
  match pd s, vc s with
  | Some p, Some v => I_rrt v (tree s) /\ I_rrt v (gtree s) /\ groot_ok p (gtree s)
  | None, None => tree s = [] /\ gtree s = []
  | _, _ => False
  end.

(* a returned RRT-Connect path ends in a goal state: a state that satisfies the goal predicate,
   or the state the goal sampler returned for the goal-tree root *)
Definition SoundPathC (s : pstate) (path : list S) : Prop :=
  exists p v s0 rest,
    pd s = Some p /\ vc s = Some v /\ starts p = s0 :: rest /\
    (exists tl_, path = s0 :: tl_) /\
    (exists l x, path = l ++ [x] /\
        (goal p x = true \/ exists g pos c, gsample p g pos = (Some x, c))) /\
    chain (sym (link_rrt v)) path.

Definition PathSoundC (s : pstate) (r : response S) : Prop :=
  forall path, r = RPath path -> SoundPathC s path.

Lemma rrtc_solve_cases : forall (s : pstate) b s' r,
  rrtc_solve dist interp lvs valid goal starts u64_at usample gsample maxd bias s b = (s', r) ->
  (s' = s /\ (forall path, r <> RPath path)) \/
  (exists p v s0 rest g0 grest g pos ts' tg' pos',
      pd s = Some p /\ vc s = Some v /\ starts p = s0 :: rest /\ valid v s0 = true /\
      gtree s = g0 :: grest /\ valid v (st g0) = true /\
      rrtc_loop b p v (tree s) (gtree s) g pos = (ts', tg', pos', r) /\
      pd s' = Some p /\ vc s' = Some v /\ tree s' = ts' /\ gtree s' = tg').
Proof.
  intros s b s' r. unfold rrtc_solve.
  destruct (pd s) as [p|] eqn:Ep; [|intros E; inversion E; left; split; [reflexivity|discriminate]].
  destruct (vc s) as [v|] eqn:Ev; [|intros E; inversion E; left; split; [reflexivity|discriminate]].
  destruct (starts p) as [|s0 rest] eqn:Es; [intros E; inversion E; left; split; [reflexivity|discriminate]|].
  destruct (valid v s0) eqn:Es0; cbn [negb]; [|intros E; inversion E; left; split; [reflexivity|discriminate]].
  destruct (gtree s) as [|g0 grest] eqn:Eg; [intros E; inversion E; left; split; [reflexivity|discriminate]|].
  destruct (valid v (st g0)) eqn:Eg0; cbn [negb]; [|intros E; inversion E; left; split; [reflexivity|discriminate]].
  destruct (take_rng s) as [g pos].
  destruct (Model.rrtc_loop _ _ _ _ _ _ _ _ _ _ _ _ _ _ _ _ _) as [[[ts' tg'] pos'] r'] eqn:El.
  intros E; inversion E; subst; clear E. right.
  exists p, v, s0, rest, g0, grest, g, pos, ts', tg', pos'. cbn. repeat split; assumption.
Qed.

Lemma rrtc_step_struct : forall s c s' r,
  InvT valid starts s -> InvC s -> rrtc_step s c = (s', r) -> InvC s' /\ PathSoundC s r.
Proof.
  intros s c s' r HT HC. destruct c as [p v|b|b|p]; cbn [Model.rrtc_step].
  - unfold rrtc_setup. destruct (starts p) as [|s0 rest] eqn:Es.
    + intros E; inversion E; subst. split; [|discriminate]. unfold InvC; cbn.
      split; [apply I_rrt_nil|]. split; [apply I_rrt_nil|exact I].
    + destruct (take_rng s) as [g pos]. destruct (gsample p g pos) as [res c] eqn:Egs.
      destruct res as [gs|]; intros E; inversion E; subst; (split; [|discriminate]); unfold InvC; cbn.
      * split; [apply I_rrt_root|]. split; [apply I_rrt_root|]. exists g, pos, c. exact Egs.
      * split; [apply I_rrt_root|]. split; [apply I_rrt_nil|exact I].
  - intros E. apply rrtc_solve_cases in E. destruct E as [[-> Hnp]|E].
    + split; [exact HC|]. intros path Hp. exfalso; eapply Hnp; eauto.
    + destruct E as (p & v & s0 & rest & g0 & grest & g & pos & ts' & tg' & pos' &
                     Ep & Ev & Es & Es0 & Eg & Eg0 & El & Ep' & Ev' & Et' & Eg').
      unfold InvC in *. rewrite Ep, Ev in HC. rewrite Ep', Ev', Et', Eg'.
      destruct HC as ((HLs & HOs) & (HLg & HOg) & Hgr).
      destruct (rrtc_loop_inv dist interp lvs valid goal u64_at usample gsample maxd bias _ _ _ _ _ _ _ _ _ _ _
                  HLs HOs HLg HOg El) as (HLs' & HOs' & HLg' & HOg').
      pose proof (rrtc_loop_extends dist interp lvs valid goal u64_at usample gsample maxd bias _ _ _ _ _ _ _ _ _ _ _ El) as [Exs Exg].
      rewrite Eg in Exg. destruct (extends_hd _ _ _ Exg) as (g0' & gr' & Etg & Hstg).
      assert (Hgr' : groot_ok p tg').
      { rewrite Etg. cbn. rewrite Hstg. rewrite Eg in Hgr. exact Hgr. }
      split; [split; [split; assumption|split; [split; assumption|exact Hgr']]|].
      intros path Hp. subst r.
      (* root of the start tree is the start *)
      unfold InvT in HT. rewrite Ep, Ev in HT. destruct HT as (Hroot & _ & _).
      destruct (tree s) as [|n t0] eqn:Et; [cbn in Hroot; rewrite Es in Hroot; discriminate|].
      destruct (extends_hd _ _ _ Exs) as (n' & r0 & Ets & Hst).
      cbn in Hroot. destruct Hroot as [rest' Hr]. rewrite Es in Hr. injection Hr as Hr1 Hr2.
      exists p, v, s0, rest. split; [exact Ep|]. split; [exact Ev|]. split; [exact Es|].
      destruct (rrtc_loop_path dist interp lvs valid goal u64_at usample gsample maxd bias _ _ _ _ _ _ _ _ _ _ _ El) as [Hft|Htt].
      * destruct (from_tree_facts goal (link_rrt v) ts' p path HLs' Hft) as (Hc & (n0 & rest0 & Hn0 & Hp0) & (l & x & Hl & Hx)).
        split; [|split].
        { rewrite Ets in Hn0; cbn in Hn0; injection Hn0 as Hn0. exists rest0. rewrite Hp0, <- Hn0, Hst, Hr1. reflexivity. }
        { exists l, x. split; [exact Hl|left; exact Hx]. }
        { eapply chain_impl; [|exact Hc]. intros a b0 H; left; exact H. }
      * destruct (from_two_trees_facts (link_rrt v) ts' tg' path HLs' HLg' Htt) as (Hc & (n0 & rest0 & Hn0 & Hp0) & (gg & Hgg & (l & Hl))).
        split; [|split; [|exact Hc]].
        { rewrite Ets in Hn0; cbn in Hn0; injection Hn0 as Hn0. exists rest0. rewrite Hp0, <- Hn0, Hst, Hr1. reflexivity. }
        { exists l, (st gg). split; [exact Hl|]. right.
          rewrite Etg in Hgg; cbn in Hgg; injection Hgg as Hgg. subst gg.
          rewrite Etg in Hgr'. cbn in Hgr'. exact Hgr'. }
  - intros E; inversion E; subst. split; [exact HC|discriminate].
  - intros E; inversion E; subst. split; [exact HC|discriminate].
Qed.

Theorem rrtc_paths_sound : forall sd cs s rs c s' r,
  run rrtc_step (new_planner sd) cs = (s, rs) -> rrtc_step s c = (s', r) -> PathSoundC s r.
Proof.
  intros sd cs s rs c s' r.
  apply (history_Q rrtc_step (InvT valid starts) InvC PathSoundC).
  - intros s1 c1 s2 r1 H1 H2. eapply rrtc_step_inv; eauto.
  - intros s1 c1 s2 r1 H1 H2 H3. eapply rrtc_step_struct; eauto.
  - apply InvT_new.
  - split; reflexivity.
Qed.

(* ---- PRM ---- *)
Notation prm_step := (prm_step dist interp lvs valid goal starts usample radius).
Notation RmInv := (RmInv dist interp lvs valid radius).
Notation psym := (psym dist interp lvs valid radius).

Definition InvR (s : pstate) : Prop :=
  match vc s with
  | Some v => RmInv v (roadmap s)
  | None => roadmap s = []
  end.

Definition SoundPathP (s : pstate) (path : list S) : Prop :=
  exists p v s0 rest,
    pd s = Some p /\ vc s = Some v /\ starts p = s0 :: rest /\
    (exists tl_, path = s0 :: tl_) /\
    (exists l x, path = l ++ [x] /\ goal p x = true) /\
    chain (psym v) path.

Definition PathSoundP (s : pstate) (r : response S) : Prop :=
  forall path, r = RPath path -> SoundPathP s path.

Lemma prm_build_no_path : forall fuel v rm g pos rm' pos' r path,
  Model.prm_build dist interp lvs valid usample radius fuel v rm g pos = (rm', pos', r) -> r <> RPath path.
Proof.
  induction fuel as [|f IH]; intros v rm g pos rm' pos' r path; cbn [Model.prm_build].
  - intros E; inversion E; discriminate.
  - destruct (usample g pos) as [[q|] c]; [apply IH|intros E; inversion E; discriminate].
Qed.

Lemma prm_step_struct : forall s c s' r, InvR s -> prm_step s c = (s', r) -> InvR s' /\ PathSoundP s r.
Proof.
  intros s c s' r Hinv. unfold InvR, PathSoundP in *. destruct c as [p v|b|b|p]; cbn [Model.prm_step].
  - intros E; inversion E; subst; cbn. split; [apply RmInv_nil|discriminate].
  - destruct (pd s) as [p|] eqn:Ep; destruct (vc s) as [v|] eqn:Ev;
      try (intros E; inversion E; subst; rewrite Ev; split; [assumption|discriminate]).
    intros E; inversion E; subst. rewrite Ev. split; [assumption|].
    intros path Hp. destruct (prm_query_sound dist interp lvs valid goal starts radius _ _ _ _ _ Hinv Hp)
      as (s0 & rest & ch & Es & Epath & Hc & Hlast).
    exists p, v, s0, rest. split; [exact Ep|]. split; [exact Ev|]. split; [exact Es|].
    split; [exists ch; exact Epath|]. split; assumption.
  - destruct (pd s) as [p|]; destruct (vc s) as [v|] eqn:Ev;
      try (intros E; inversion E; subst; rewrite Ev; split; [assumption|discriminate]).
    destruct (roadmap s) as [|m rm] eqn:Erm.
    + destruct (take_rng s) as [g pos].
      destruct (Model.prm_build _ _ _ _ _ _ _ _ _ _ _) as [[rm' pos'] r'] eqn:Eb.
      intros E; inversion E; subst; cbn. rewrite Ev. split.
      * eapply prm_build_inv; [|exact Eb]. apply RmInv_nil.
      * intros path Hp. exfalso. eapply prm_build_no_path; eauto.
    + intros E; inversion E; subst. rewrite Ev, Erm. split; [assumption|discriminate].
  - intros E; inversion E; subst; cbn. split; [assumption|discriminate].
Qed.

Theorem prm_paths_sound : forall sd cs s rs c s' r,
  run prm_step (new_planner sd) cs = (s, rs) -> prm_step s c = (s', r) -> PathSoundP s r.
Proof.
  intros sd cs s rs c s' r.
  apply (history_Q prm_step (fun _ => True) InvR PathSoundP).
  - intros; exact I.
  - intros s1 c1 s2 r1 _ H2 H3. eapply prm_step_struct; eauto.
  - exact I.
  - reflexivity.
Qed.

(* the roadmap invariant holds in every reachable state *)
Theorem prm_roadmap_inv : forall sd cs s rs,
  run prm_step (new_planner sd) cs = (s, rs) -> InvR s.
Proof.
  intros sd cs s rs H.
  destruct (run_inv2 prm_step (fun _ => True) InvR PathSoundP) with (cs := cs) (s := new_planner (S:=S) (V:=V) (P:=P) sd) (s' := s) (rs := rs) as [_ B]; auto.
  - intros s1 c1 s2 r1 _ H2 H3. eapply prm_step_struct; eauto.
  - reflexivity.
Qed.

(* ---- which problem / checker is installed ---- *)
Fixpoint installed_tree (cs : list (@call V P)) (cur : option P * option V) : option P * option V :=
  match cs with
  | [] => cur
  | CSetup p v :: cs' => installed_tree cs' (Some p, Some v)
  | _ :: cs' => installed_tree cs' cur
  end.

Fixpoint installed_prm (cs : list (@call V P)) (cur : option P * option V) : option P * option V :=
  match cs with
  | [] => cur
  | CSetup p v :: cs' => installed_prm cs' (Some p, Some v)
  | CSetPd p :: cs' => installed_prm cs' (Some p, snd cur)
  | _ :: cs' => installed_prm cs' cur
  end.

Lemma tree_solve_pdvc : forall loop (s : pstate) b s' r,
  tree_solve valid starts loop s b = (s', r) -> pd s' = pd s /\ vc s' = vc s.
Proof.
  intros loop s b s' r E. apply tree_solve_cases in E. destruct E as [[-> _]|E]; [split; reflexivity|].
  destruct E as (p & v & s0 & rest & g & pos & t' & pos' & Ep & Ev & _ & _ & _ & Ep' & Ev' & _).
  rewrite Ep, Ev, Ep', Ev'. split; reflexivity.
Qed.

Lemma rrt_installed : forall cs s s' rs,
  run rrt_step s cs = (s', rs) -> (pd s', vc s') = installed_tree cs (pd s, vc s).
Proof.
  induction cs as [|c cs IH]; intros s s' rs; cbn [run installed_tree].
  - intros E; inversion E; reflexivity.
  - destruct (rrt_step s c) as [s1 r] eqn:E1. destruct (run rrt_step s1 cs) as [s2 rs2] eqn:E2.
    intros E; inversion E; subst. rewrite (IH _ _ _ E2). destruct c as [p v|b|b|p]; cbn in E1.
    + unfold tree_setup in E1. destruct (starts p); inversion E1; reflexivity.
    + apply tree_solve_pdvc in E1. destruct E1 as [-> ->]. reflexivity.
    + inversion E1; reflexivity.
    + inversion E1; reflexivity.
Qed.

Lemma rrtstar_installed : forall cs s s' rs,
  run rrtstar_step s cs = (s', rs) -> (pd s', vc s') = installed_tree cs (pd s, vc s).
Proof.
  induction cs as [|c cs IH]; intros s s' rs; cbn [run installed_tree].
  - intros E; inversion E; reflexivity.
  - destruct (rrtstar_step s c) as [s1 r] eqn:E1. destruct (run rrtstar_step s1 cs) as [s2 rs2] eqn:E2.
    intros E; inversion E; subst. rewrite (IH _ _ _ E2). destruct c as [p v|b|b|p]; cbn in E1.
    + unfold tree_setup in E1. destruct (starts p); inversion E1; reflexivity.
    + apply tree_solve_pdvc in E1. destruct E1 as [-> ->]. reflexivity.
    + inversion E1; reflexivity.
    + inversion E1; reflexivity.
Qed.

Lemma rrtc_installed : forall cs s s' rs,
  run rrtc_step s cs = (s', rs) -> (pd s', vc s') = installed_tree cs (pd s, vc s).
Proof.
  induction cs as [|c cs IH]; intros s s' rs; cbn [run installed_tree].
  - intros E; inversion E; reflexivity.
  - destruct (rrtc_step s c) as [s1 r] eqn:E1. destruct (run rrtc_step s1 cs) as [s2 rs2] eqn:E2.
    intros E; inversion E; subst. rewrite (IH _ _ _ E2). destruct c as [p v|b|b|p]; cbn in E1.
    + unfold rrtc_setup in E1. destruct (starts p); [inversion E1; reflexivity|].
      destruct (take_rng s) as [g pos]. destruct (gsample p g pos) as [[gs|] c]; inversion E1; reflexivity.
    + apply rrtc_solve_cases in E1. destruct E1 as [[-> _]|E1]; [reflexivity|].
      destruct E1 as (p & v & s0 & rest & g0 & grest & g & pos & ts' & tg' & pos' & Ep & Ev & _ & _ & _ & _ & _ & Ep' & Ev' & _).
      rewrite Ep, Ev, Ep', Ev'. reflexivity.
    + inversion E1; reflexivity.
    + inversion E1; reflexivity.
Qed.

Lemma prm_installed : forall cs s s' rs,
  run prm_step s cs = (s', rs) -> (pd s', vc s') = installed_prm cs (pd s, vc s).
Proof.
  induction cs as [|c cs IH]; intros s s' rs; cbn [run installed_prm].
  - intros E; inversion E; reflexivity.
  - destruct (prm_step s c) as [s1 r] eqn:E1. destruct (run prm_step s1 cs) as [s2 rs2] eqn:E2.
    intros E; inversion E; subst. rewrite (IH _ _ _ E2). destruct c as [p v|b|b|p]; cbn in E1.
    + inversion E1; reflexivity.
    + assert (H : pd s1 = pd s /\ vc s1 = vc s).
      { destruct (pd s) eqn:Ep, (vc s) eqn:Ev; inversion E1; subst; rewrite ?Ep, ?Ev; split; reflexivity. }
      destruct H as [-> ->]. reflexivity.
    + assert (H : pd s1 = pd s /\ vc s1 = vc s).
      { destruct (pd s) eqn:Ep, (vc s) eqn:Ev; try (inversion E1; subst; rewrite ?Ep, ?Ev; split; reflexivity).
        destruct (roadmap s); [|inversion E1; subst; rewrite ?Ep, ?Ev; split; reflexivity].
        destruct (take_rng s) as [g pos]. destruct (Model.prm_build _ _ _ _ _ _ _ _ _ _ _) as [[rm' pos'] r'].
        inversion E1; subst; cbn. rewrite ?Ep, ?Ev. split; reflexivity. }
      destruct H as [-> ->]. reflexivity.
    + inversion E1; reflexivity.
Qed.

End ApiStruct.
