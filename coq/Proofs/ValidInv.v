(* C01 core: every state a planner stores was accepted by the validity checker, hence every
   state on a returned path is accepted.  Generic in the space, world, samplers, parameters. *)
From Coq Require Import ZArith NArith List Bool Floats Lia.
From OX Require Import Numerics.FloatBits Gen.Consts Planners.Model Proofs.Basics.
Import ListNotations.

Section ValidInv.
Context {S V P : Type}.
Variable dist : S -> S -> F.
Variable interp : S -> S -> F -> S.
Variable lvs : F.
Variable valid : V -> S -> bool.
Variable goal : P -> S -> bool.
Variable starts : P -> list S.
Variable u64_at : gen -> N -> N.
Variable usample : gen -> N -> option S * N.
Variable gsample : P -> gen -> N -> option S * N.
Variables maxd bias radius : F.

Notation check_motion := (check_motion dist interp lvs valid).
Notation extend := (extend dist interp lvs valid maxd).
Notation draw := (draw u64_at usample gsample bias).
Notation rrt_loop := (rrt_loop dist interp lvs valid goal u64_at usample gsample maxd bias).
Notation rrtstar_iter := (rrtstar_iter dist interp lvs valid maxd radius).
Notation rrtstar_loop := (rrtstar_loop dist interp lvs valid goal u64_at usample gsample maxd bias radius).
Notation rrtc_loop := (rrtc_loop dist interp lvs valid goal u64_at usample gsample maxd bias).
Notation rewire := (rewire dist interp lvs valid).
Notation prm_add := (prm_add dist interp lvs valid radius).
Notation prm_build := (prm_build dist interp lvs valid usample radius).
Notation prm_query := (prm_query dist interp lvs valid goal starts radius).

Definition states (t : list (node S)) : list S := map st t.
Definition ok (v : V) (x : S) : Prop := valid v x = true.
Definition nodes_valid (v : V) (t : list (node S)) : Prop := Forall (ok v) (states t).

Lemma nodes_valid_app : forall v t n, nodes_valid v t -> ok v (st n) -> nodes_valid v (t ++ [n]).
Proof.
  intros v t n Ht Hn. unfold nodes_valid, states in *. rewrite map_app.
  apply Forall_app; split; [exact Ht|]. constructor; [exact Hn|constructor].
Qed.

Lemma nodes_valid_nth : forall v t i n, nodes_valid v t -> nth_error t i = Some n -> ok v (st n).
Proof.
  intros v t i n Ht Hn. unfold nodes_valid, states in Ht.
  rewrite Forall_forall in Ht. apply Ht. apply in_map. eapply nth_error_In; eauto.
Qed.

(* ---- extension ---- *)
Lemma extend_valid : forall v t q t' r,
  nodes_valid v t -> extend v t q = (t', r) ->
  nodes_valid v t' /\ (forall re i qn, r = ExtAdded re i qn -> ok v qn).
Proof.
  intros v t q t' r Ht. unfold Model.extend.
  destruct (nearest dist t q) as [[i d]|]; [|intros E; inversion E; subst; split; [exact Ht|discriminate]].
  destruct (nth_error t i) as [nn|] eqn:En; [|intros E; inversion E; subst; split; [exact Ht|discriminate]].
  destruct (steer interp maxd (st nn) q d) as [qn reached].
  destruct (Model.check_motion dist interp lvs valid v (st nn) qn) eqn:Ec; intros E; inversion E; subst.
  - apply check_motion_valid_end in Ec. split.
    + apply nodes_valid_app; [exact Ht|exact Ec].
    + intros re i0 qn0 H; inversion H; subst; exact Ec.
  - split; [exact Ht|discriminate].
Qed.

(* ---- path extraction returns only node states ---- *)
Lemma walk_states : forall (Q : S -> Prop) t fuel i acc p,
  (forall n, In n t -> Q (st n)) -> Forall Q acc ->
  walk t fuel i acc = Some (Some p) -> Forall Q p.
Proof.
  intros Q t fuel. induction fuel as [|f IH]; intros i acc p Ht Hacc; cbn [walk]; [discriminate|].
  destruct (nth_error t i) as [n|] eqn:En; [|discriminate].
  assert (Hn : Q (st n)) by (apply Ht; eapply nth_error_In; eauto).
  destruct (par n) as [pi|].
  - apply IH; [exact Ht|constructor; assumption].
  - intros E; inversion E; subst. constructor; assumption.
Qed.

Lemma reconstruct_valid : forall v t i p,
  nodes_valid v t -> reconstruct t i = Some (Some p) -> Forall (ok v) p.
Proof.
  intros v t i p Ht. unfold reconstruct. apply walk_states; [|constructor].
  intros n Hn. unfold nodes_valid, states in Ht. rewrite Forall_forall in Ht.
  apply Ht. apply in_map. exact Hn.
Qed.

Lemma resp_of_path_valid : forall v t i p,
  nodes_valid v t -> resp_of_path (reconstruct t i) = RPath p -> Forall (ok v) p.
Proof.
  intros v t i p Ht. destruct (reconstruct t i) as [[q|]|] eqn:E; cbn; try discriminate.
  intros H; inversion H; subst. eapply reconstruct_valid; eauto.
Qed.

(* ---- RRT ---- *)
Lemma rrt_loop_valid : forall fuel p v t g pos t' pos' r,
  nodes_valid v t -> rrt_loop fuel p v t g pos = (t', pos', r) ->
  nodes_valid v t' /\ (forall path, r = RPath path -> Forall (ok v) path).
Proof.
  induction fuel as [|f IH]; intros p v t g pos t' pos' r Ht; cbn [Model.rrt_loop].
  - intros E; inversion E; subst. split; [exact Ht|discriminate].
  - destruct (draw p g pos) as [[q|] pos1].
    2:{ intros E; inversion E; subst. split; [exact Ht|discriminate]. }
    destruct (extend v t q) as [t1 er] eqn:Ee.
    destruct (extend_valid _ _ _ _ _ Ht Ee) as [Ht1 Hq].
    destruct er as [| |re i qn].
    + intros E; inversion E; subst. split; [exact Ht1|discriminate].
    + apply IH; exact Ht1.
    + destruct (goal p qn).
      * intros E; inversion E; subst. split; [exact Ht1|].
        intros path Hp. eapply resp_of_path_valid; eauto.
      * apply IH; exact Ht1.
Qed.

(* ---- RRT*: rewiring never changes a stored state ---- *)
Lemma set_nth_states : forall (t : list (node S)) j nj pn c,
  nth_error t j = Some nj ->
  states (set_nth t j (mkNode S (st nj) pn c)) = states t.
Proof.
  induction t as [|x t IH]; intros j nj pn c; destruct j as [|j]; cbn; try discriminate.
  - intros E; inversion E; subst. reflexivity.
  - intros E. unfold states in IH. rewrite (IH j nj pn c E). reflexivity.
Qed.

Lemma rewire_states : forall v nbs t newi t', rewire v t newi nbs = Some t' -> states t' = states t.
Proof.
  intros v nbs. induction nbs as [|j nbs IH]; intros t newi t'; cbn [Model.rewire].
  - intros E; inversion E; reflexivity.
  - destruct (nth_error t newi) as [nw|]; [|discriminate].
    destruct (nth_error t j) as [nj|] eqn:Ej; [|discriminate].
    destruct (match par nw with Some pj => Nat.eqb pj j | None => false end); [apply IH|].
    match goal with |- context [if ?c then _ else _] => destruct c end.
    + intros E. apply IH in E. rewrite E. apply set_nth_states. exact Ej.
    + apply IH.
Qed.

Lemma rrtstar_iter_valid : forall v t q t' r,
  nodes_valid v t -> rrtstar_iter v t q = (t', r) ->
  nodes_valid v t' /\ (forall qn, r = StarAdded qn -> ok v qn).
Proof.
  intros v t q t' r Ht. unfold Model.rrtstar_iter.
  destruct (nearest dist t q) as [[i d]|]; [|intros E; inversion E; subst; split; [exact Ht|discriminate]].
  destruct (nth_error t i) as [nn|]; [|intros E; inversion E; subst; split; [exact Ht|discriminate]].
  destruct (steer interp maxd (st nn) q d) as [qn reached].
  destruct (Model.check_motion dist interp lvs valid v (st nn) qn) eqn:Ec; cbn [negb].
  2:{ intros E; inversion E; subst; split; [exact Ht|discriminate]. }
  apply check_motion_valid_end in Ec.
  destruct (choose_parent _ _ _ _ _ _ _ _ _ _) as [[best bc]|].
  2:{ intros E; inversion E; subst; split; [exact Ht|discriminate]. }
  assert (H1 : nodes_valid v (t ++ [mkNode S qn (Some best) bc])) by (apply nodes_valid_app; assumption).
  destruct (rewire v _ _ _) as [t2|] eqn:Er.
  - intros E; inversion E; subst. split.
    + unfold nodes_valid. rewrite (rewire_states _ _ _ _ _ Er). exact H1.
    + intros qn0 H; inversion H; subst; exact Ec.
  - intros E; inversion E; subst. split; [exact H1|discriminate].
Qed.

Lemma rrtstar_loop_valid : forall fuel p v t g pos t' pos' r,
  nodes_valid v t -> rrtstar_loop fuel p v t g pos = (t', pos', r) ->
  nodes_valid v t' /\ (forall path, r = RPath path -> Forall (ok v) path).
Proof.
  induction fuel as [|f IH]; intros p v t g pos t' pos' r Ht; cbn [Model.rrtstar_loop].
  - intros E; inversion E; subst. split; [exact Ht|discriminate].
  - destruct (draw p g pos) as [[q|] pos1].
    2:{ intros E; inversion E; subst. split; [exact Ht|discriminate]. }
    destruct (rrtstar_iter v t q) as [t1 er] eqn:Ee.
    destruct (rrtstar_iter_valid _ _ _ _ _ Ht Ee) as [Ht1 Hq].
    destruct er as [| |qn].
    + intros E; inversion E; subst. split; [exact Ht1|discriminate].
    + apply IH; exact Ht1.
    + destruct (goal p qn).
      * intros E; inversion E; subst. split; [exact Ht1|].
        intros path Hp. eapply resp_of_path_valid; eauto.
      * apply IH; exact Ht1.
Qed.

(* ---- RRT-Connect ---- *)
Lemma join_paths_valid : forall v ts tg i j path,
  nodes_valid v ts -> nodes_valid v tg ->
  join_paths (reconstruct ts i) (reconstruct tg j) = RPath path -> Forall (ok v) path.
Proof.
  intros v ts tg i j path Hs Hg.
  destruct (reconstruct ts i) as [[a|]|] eqn:Ea; destruct (reconstruct tg j) as [[b|]|] eqn:Eb;
    cbn; try discriminate.
  intros H; inversion H; subst.
  apply Forall_app; split; [exact (reconstruct_valid v ts i a Hs Ea)|].
  assert (Hb : Forall (ok v) (rev b)) by (apply Forall_rev; exact (reconstruct_valid v tg j b Hg Eb)).
  destruct (rev b) as [|x l]; cbn [tl]; [apply Forall_nil|]. inversion Hb; assumption.
Qed.

Lemma rrtc_loop_valid : forall fuel p v ts tg g pos ts' tg' pos' r,
  nodes_valid v ts -> nodes_valid v tg ->
  rrtc_loop fuel p v ts tg g pos = (ts', tg', pos', r) ->
  nodes_valid v ts' /\ nodes_valid v tg' /\ (forall path, r = RPath path -> Forall (ok v) path).
Proof.
  induction fuel as [|f IH]; intros p v ts tg g pos ts' tg' pos' r Hs Hg; cbn [Model.rrtc_loop].
  - intros E; inversion E; subst. repeat split; try assumption; discriminate.
  - destruct (draw p g pos) as [[q|] pos1].
    2:{ intros E; inversion E; subst. repeat split; try assumption; discriminate. }
    destruct (Nat.leb (length ts) (length tg)).
    + destruct (extend v ts q) as [ts1 er] eqn:Ee.
      destruct (extend_valid _ _ _ _ _ Hs Ee) as [Hs1 Hq].
      destruct er as [| |re ia qn].
      * intros E; inversion E; subst. repeat split; try assumption; discriminate.
      * apply IH; assumption.
      * destruct (goal p qn).
        { intros E; inversion E; subst. repeat split; try assumption.
          intros path Hp. eapply resp_of_path_valid; eauto. }
        destruct (extend v tg qn) as [tg1 er2] eqn:Ee2.
        destruct (extend_valid _ _ _ _ _ Hg Ee2) as [Hg1 Hq2].
        destruct er2 as [| |re2 ib qn2].
        { intros E; inversion E; subst. repeat split; try assumption; discriminate. }
        { apply IH; assumption. }
        destruct re2.
        { intros E; inversion E; subst. repeat split; try assumption.
          intros path Hp. eapply join_paths_valid; [| |exact Hp]; assumption. }
        { apply IH; assumption. }
    + destruct (extend v tg q) as [tg1 er] eqn:Ee.
      destruct (extend_valid _ _ _ _ _ Hg Ee) as [Hg1 Hq].
      destruct er as [| |re ia qn].
      * intros E; inversion E; subst. repeat split; try assumption; discriminate.
      * apply IH; assumption.
      * destruct (extend v ts qn) as [ts1 er2] eqn:Ee2.
        destruct (extend_valid _ _ _ _ _ Hs Ee2) as [Hs1 Hq2].
        destruct er2 as [| |re2 ib qn2].
        { intros E; inversion E; subst. repeat split; try assumption; discriminate. }
        { apply IH; assumption. }
        destruct re2.
        { intros E; inversion E; subst. repeat split; try assumption.
          intros path Hp. eapply join_paths_valid; [| |exact Hp]; assumption. }
        { apply IH; assumption. }
Qed.

(* ---- PRM ---- *)
Definition mstates (rm : list (mnode S)) : list S := map mst rm.
Definition rm_valid (v : V) (rm : list (mnode S)) : Prop := Forall (ok v) (mstates rm).

Lemma mapi_mst : forall (f : nat -> mnode S -> mnode S) rm i,
  (forall k m, mst (f k m) = mst m) -> map mst (mapi f rm i) = map mst rm.
Proof.
  intros f rm. induction rm as [|m rm IH]; intros i Hf; cbn; [reflexivity|].
  rewrite Hf, IH by exact Hf. reflexivity.
Qed.

Lemma prm_add_valid : forall v rm q, rm_valid v rm -> rm_valid v (prm_add v rm q).
Proof.
  intros v rm q H. unfold Model.prm_add. destruct (valid v q) eqn:Eq; [|exact H].
  unfold rm_valid, mstates in *. rewrite map_app, mapi_mst.
  - apply Forall_app; split; [exact H|]. constructor; [exact Eq|constructor].
  - intros k m. unfold add_back_edge. destruct (existsb _ _); reflexivity.
Qed.

Lemma prm_build_valid : forall fuel v rm g pos rm' pos' r,
  rm_valid v rm -> prm_build fuel v rm g pos = (rm', pos', r) -> rm_valid v rm'.
Proof.
  induction fuel as [|f IH]; intros v rm g pos rm' pos' r H; cbn [Model.prm_build].
  - intros E; inversion E; subst; exact H.
  - destruct (usample g pos) as [[q|] c].
    + apply IH. apply prm_add_valid; exact H.
    + intros E; inversion E; subst; exact H.
Qed.

Lemma prm_walk_states : forall (Q : S -> Prop) rm pm fuel cur acc p,
  (forall m, In m rm -> Q (mst m)) -> Forall Q acc ->
  prm_walk fuel rm pm cur acc = Some (Some p) -> Forall Q p.
Proof.
  intros Q rm pm fuel. induction fuel as [|f IH]; intros cur acc p Hrm Hacc; cbn [prm_walk]; [discriminate|].
  destruct (pm_get pm cur) as [pa|]; [|discriminate].
  destruct (nth_error rm cur) as [m|] eqn:Em; [|discriminate].
  assert (Hm : Q (mst m)) by (apply Hrm; eapply nth_error_In; eauto).
  destruct pa as [pi|].
  - apply IH; [exact Hrm|constructor; assumption].
  - intros E; inversion E; subst. constructor; assumption.
Qed.

Lemma prm_query_valid : forall b p v rm path,
  rm_valid v rm -> prm_query b p v rm = RPath path -> Forall (ok v) path.
Proof.
  intros b p v rm path Hrm. unfold Model.prm_query.
  destruct rm as [|m0 rm0] eqn:Erm; [discriminate|]. rewrite <- Erm in *.
  destruct (starts p) as [|s0 rest]; [discriminate|].
  destruct (valid v s0) eqn:Es0; cbn [negb]; [|discriminate].
  destruct (start_conns _ _ _ _ _ _ _ _ _) as [|c0 sc]; [discriminate|].
  destruct (goal_idxs _ _ _ _) as [|g0 gi]; [discriminate|].
  destruct (bfs _ _ _ _ _ _ _) as [| gidx pm | |]; try discriminate.
  destruct (prm_walk _ _ _ _ _) as [[chain|]|] eqn:Ew; try discriminate.
  intros H; inversion H; subst. constructor; [exact Es0|].
  eapply prm_walk_states; [| |exact Ew]; [|constructor].
  intros m Hm. unfold rm_valid, mstates in Hrm. rewrite Forall_forall in Hrm.
  apply Hrm. apply in_map; exact Hm.
Qed.

End ValidInv.
