(* C15: the fuel |tree|+1 that the model gives path extraction always suffices on an acyclic tree:
   a parent chain that reaches a root visits pairwise distinct indices (pigeonhole), so [reconstruct]
   never reports a hang where [reach] holds - in particular in every reachable RRT* state. *)
From Coq Require Import ZArith NArith List Bool Floats Lia.
From OX Require Import Numerics.FloatBits Gen.Consts Planners.Model Proofs.Basics Proofs.TreeInv Proofs.StarInv.
Import ListNotations.
Open Scope nat_scope.

Section StarFuel.
Context {S : Type}.

(* number of parent links from node i to a root *)
Inductive dep (t : list (node S)) : nat -> nat -> Prop :=
| dep_root : forall i n, nth_error t i = Some n -> par n = None -> dep t i 0
| dep_step : forall i n p d, nth_error t i = Some n -> par n = Some p -> dep t p d -> dep t i (Datatypes.S d).

Lemma dep_fun : forall t i d1, dep t i d1 -> forall d2, dep t i d2 -> d1 = d2.
Proof.
  intros t i d1 H. induction H as [i n Hn Hp|i n p d Hn Hp Hd IH]; intros d2 H2.
  - destruct H2 as [i n' Hn' Hp'|i n' p' d' Hn' Hp' Hd']; [reflexivity|].
    rewrite Hn in Hn'. injection Hn' as <-. rewrite Hp in Hp'. discriminate.
  - destruct H2 as [i n' Hn' Hp'|i n' p' d' Hn' Hp' Hd'].
    + rewrite Hn in Hn'. injection Hn' as <-. rewrite Hp in Hp'. discriminate.
    + rewrite Hn in Hn'. injection Hn' as <-. rewrite Hp in Hp'. injection Hp' as <-.
      f_equal. apply IH. exact Hd'.
Qed.

Lemma reach_dep : forall t i, reach t i -> exists d, dep t i d.
Proof.
  intros t i H. induction H as [i n Hn Hp|i n p Hn Hp Hr [d IH]].
  - exists 0. eapply dep_root; eauto.
  - exists (Datatypes.S d). eapply dep_step; eauto.
Qed.

Lemma dep_chain : forall t i d, dep t i d ->
  exists l, length l = Datatypes.S d /\ NoDup l /\
            forall j, In j l -> j < length t /\ exists dj, dep t j dj /\ dj <= d.
Proof.
  intros t i d H. induction H as [i n Hn Hp|i n p d Hn Hp Hd (l & Hl & Hnd & Hall)].
  - exists [i]. split; [reflexivity|]. split; [constructor; [intros []|constructor]|].
    intros j [<-|[]]. split; [apply nth_error_Some; rewrite Hn; discriminate|].
    exists 0. split; [eapply dep_root; eauto|lia].
  - exists (i :: l). split; [cbn; rewrite Hl; reflexivity|]. split.
    + constructor; [|exact Hnd]. intros Hin. destruct (Hall i Hin) as (_ & dj & Hdj & Hle).
      assert (Hi : dep t i (Datatypes.S d)) by (eapply dep_step; eauto).
      pose proof (dep_fun _ _ _ Hi _ Hdj). lia.
    + intros j [<-|Hj].
      * split; [apply nth_error_Some; rewrite Hn; discriminate|].
        exists (Datatypes.S d). split; [eapply dep_step; eauto|lia].
      * destruct (Hall j Hj) as (Hlt & dj & Hdj & Hle). split; [exact Hlt|]. exists dj. split; [exact Hdj|lia].
Qed.

Lemma dep_bound : forall t i d, dep t i d -> Datatypes.S d <= length t.
Proof.
  intros t i d H. destruct (dep_chain _ _ _ H) as (l & Hl & Hnd & Hall).
  rewrite <- Hl, <- (seq_length (length t) 0). apply NoDup_incl_length; [exact Hnd|].
  intros j Hj. apply in_seq. destruct (Hall j Hj) as [Hlt _]. lia.
Qed.

Lemma dep_walk : forall t i d, dep t i d -> forall fuel acc, d < fuel -> exists p, walk t fuel i acc = Some (Some p).
Proof.
  intros t i d H. induction H as [i n Hn Hp|i n p d Hn Hp Hd IH]; intros fuel acc Hf.
  - destruct fuel as [|f]; [lia|]. cbn [walk]. rewrite Hn, Hp. eexists; reflexivity.
  - destruct fuel as [|f]; [lia|]. cbn [walk]. rewrite Hn, Hp. apply IH. lia.
Qed.

(* extraction with the model's fuel never runs out where the parent chain reaches a root *)
Theorem reconstruct_reach_terminates : forall (t : list (node S)) i, reach t i ->
  exists p, reconstruct t i = Some (Some p).
Proof.
  intros t i H. destruct (reach_dep _ _ H) as [d Hd]. unfold reconstruct.
  apply (dep_walk _ _ _ Hd). pose proof (dep_bound _ _ _ Hd). lia.
Qed.

Corollary reconstruct_SInv_terminates : forall (dist : S -> S -> F) (t : list (node S)) i,
  SInv dist t -> i < length t -> exists p, reconstruct t i = Some (Some p).
Proof. intros dist t i H Hi. apply reconstruct_reach_terminates. exact (si_reach _ _ H i Hi). Qed.

End StarFuel.
