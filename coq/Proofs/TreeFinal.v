(* C15 / C17 at the level of API histories: the tree invariants hold in every reachable state. *)
From Coq Require Import ZArith NArith List Bool Floats Lia.
From OX Require Import Numerics.FloatBits Numerics.FloatOrder Gen.Consts Planners.Model Proofs.Basics Proofs.ValidInv Proofs.Prefix
  Proofs.TreeInv Proofs.Links Proofs.PathFacts Proofs.ApiValid Proofs.PrmInv Proofs.ApiStruct Proofs.StarInv.
Import ListNotations.
Open Scope nat_scope.

Section TreeFinal.
Context {S V P : Type}.
Variable dist : S -> S -> F.
Variable interp : S -> S -> F -> S.
Variable lvs : F.
Variable valid : V -> S -> bool.
Variable goal : P -> S -> bool.
Variable starts : P -> list S.
Variable u64_at : gen -> N -> N.
Variable usample : gen -> N -> option S * N.
Variable gsample : P -> gen -> N -> option S * N.
Variables maxd bias radius : F.

Notation pstate := (@pstate S V P).
Notation rrt_step := (rrt_step dist interp lvs valid goal starts u64_at usample gsample maxd bias).
Notation rrtstar_step := (rrtstar_step dist interp lvs valid goal starts u64_at usample gsample maxd bias radius).
Notation rrtc_step := (rrtc_step dist interp lvs valid goal starts u64_at usample gsample maxd bias).
Notation link_rrt := (link_rrt dist interp lvs valid maxd).
Notation link_star := (link_star dist interp lvs valid maxd radius).
Notation I_rrt := (I_rrt dist interp lvs valid maxd).
Notation I_star := (I_star dist interp lvs valid maxd radius).

(* well-formedness of one tree w.r.t. checker v *)
Definition tree_wf (R : V -> S -> S -> Prop) (v : V) (t : list (node S)) : Prop :=
  LinkInv (R v) t /\ nodes_valid valid v (tl t).

Theorem rrt_reachable_inv : forall sd cs s rs,
  run rrt_step (new_planner sd) cs = (s, rs) ->
  InvT valid starts s /\ InvS I_rrt s.
Proof.
  intros sd cs s rs H.
  destruct (run_inv2 rrt_step (InvT0 valid starts) (InvS I_rrt) (PathSound goal starts link_rrt)) with (cs := cs)
    (s := new_planner (S:=S) (V:=V) (P:=P) sd) (s' := s) (rs := rs) as [[A _] B]; auto.
  - intros s1 c1 s2 r1 H1 H2. eapply rrt_step_inv; eauto.
  - intros s1 c1 s2 r1 [H1 H1'] H2 H3. eapply rrt_step_struct; eauto.
  - split; [apply InvT_new|reflexivity].
  - reflexivity.
Qed.

Theorem rrtstar_reachable_inv : forall sd cs s rs,
  run rrtstar_step (new_planner sd) cs = (s, rs) ->
  InvT valid starts s /\ InvS I_star s.
Proof.
  intros sd cs s rs H.
  destruct (run_inv2 rrtstar_step (InvT0 valid starts) (InvS I_star) (PathSound goal starts link_star)) with (cs := cs)
    (s := new_planner (S:=S) (V:=V) (P:=P) sd) (s' := s) (rs := rs) as [[A _] B]; auto.
  - intros s1 c1 s2 r1 H1 H2. eapply rrtstar_step_inv; eauto.
  - intros s1 c1 s2 r1 [H1 H1'] H2 H3. eapply rrtstar_step_struct; eauto.
  - split; [apply InvT_new|reflexivity].
  - reflexivity.
Qed.

Theorem rrtc_reachable_inv : forall sd cs s rs,
  run rrtc_step (new_planner sd) cs = (s, rs) ->
  InvT valid starts s /\ InvC dist interp lvs valid gsample maxd s.
Proof.
  intros sd cs s rs H.
  destruct (run_inv2 rrtc_step (InvT valid starts) (InvC dist interp lvs valid gsample maxd)
              (PathSoundC dist interp lvs valid goal starts gsample maxd)) with (cs := cs)
    (s := new_planner (S:=S) (V:=V) (P:=P) sd) (s' := s) (rs := rs) as [A B]; auto.
  - intros s1 c1 s2 r1 H1 H2. eapply rrtc_step_inv; eauto.
  - intros s1 c1 s2 r1 H1 H2 H3. eapply rrtc_step_struct; eauto.
  - apply InvT_new.
  - split; reflexivity.
Qed.

(* ---- RRT*: cost / acyclicity invariant over histories (needs sane distances) ---- *)
Hypothesis Hd : dist_sane dist.

Lemma SInv_nil : SInv dist (@nil (node S)).
Proof.
  constructor.
  - intros i n H; destruct i; discriminate.
  - intros i n p np H; destruct i; discriminate.
  - intros n0 H; discriminate.
  - intros i n p H; destruct i; discriminate.
  - intros i Hi; cbn in Hi; lia.
Qed.

Lemma rrtstar_step_SInv : forall (s : pstate) c s' r,
  SInv dist (tree s) -> rrtstar_step s c = (s', r) -> SInv dist (tree s').
Proof.
  intros s c s' r HI. destruct c as [p v|b|b|p]; cbn [Model.rrtstar_step].
  - unfold tree_setup. destruct (starts p); intros E; inversion E; subst; cbn; [apply SInv_nil|apply SInv_root; exact Hd].
  - intros E. apply (tree_solve_cases valid starts) in E. destruct E as [[-> _]|E]; [exact HI|].
    destruct E as (p & v & s0 & rest & g & pos & t' & pos' & _ & _ & _ & _ & El & _ & _ & Et' & _).
    rewrite Et'. eapply rrtstar_loop_SInv; eauto.
  - intros E; inversion E; subst; exact HI.
  - intros E; inversion E; subst; exact HI.
Qed.

Theorem rrtstar_reachable_SInv : forall sd cs s rs,
  run rrtstar_step (new_planner sd) cs = (s, rs) -> SInv dist (tree s).
Proof.
  intros sd cs. generalize (new_planner (S:=S) (V:=V) (P:=P) sd), (SInv_nil : SInv dist (tree (new_planner (S:=S) (V:=V) (P:=P) sd))).
  induction cs as [|c cs IH]; intros s0 H0 s rs; cbn [run].
  - intros E; inversion E; subst; exact H0.
  - destruct (rrtstar_step s0 c) as [s1 r] eqn:E1. destruct (run rrtstar_step s1 cs) as [s2 rs2] eqn:E2.
    intros E; inversion E; subst. eapply IH; [|exact E2]. eapply rrtstar_step_SInv; eauto.
Qed.

End TreeFinal.
