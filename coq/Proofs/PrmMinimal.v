(* PRM: hop-minimality of the query.  The chain returned by the breadth-first search of PRM::solve has
   no more milestones than any directed walk of the roadmap graph from a start connection to a goal
   milestone.  (The statement is exactly the requested one; no adjustment was necessary.  It is tight:
   e.g. a start connection that is itself a goal milestone gives |path| = 2 = S |[a]|.)

   Proof: the classic level invariant of BFS, with a ghost depth function [d : nat -> nat] that is
   updated whenever a node is discovered.  The double seeding of the queue (sc ++ sc) is harmless:
   a node is only declared "expanded" once it is neither the node being scanned nor in the queue. *)
From Coq Require Import ZArith NArith List Bool Floats Lia.
From OX Require Import Numerics.FloatBits Gen.Consts Planners.Model Proofs.Basics Proofs.ValidInv Proofs.TreeInv Proofs.Links
  Proofs.PrmInv Proofs.PrmComplete.
Import ListNotations.
Open Scope nat_scope.

(* ---------------------------------------------------------------------------------- *)
Section BfsLevels.
Context {S : Type}.
Variable rm : list (mnode S).
Variable goals sc : list nat.

(* ghost depth update *)
Definition upd (d : nat -> nat) (n v : nat) : nat -> nat := fun x => if Nat.eqb x n then v else d x.

Lemma upd_same : forall d n v, upd d n v n = v.
Proof. intros d n v. unfold upd. rewrite Nat.eqb_refl. reflexivity. Qed.

Lemma upd_other : forall d n v x, x <> n -> upd d n v x = d x.
Proof. intros d n v x H. unfold upd. destruct (Nat.eqb_spec x n) as [E|_]; [contradiction|reflexivity]. Qed.

Lemma fresh_neq : forall (visited : list nat) n x, ~ In n visited -> In x visited -> x <> n.
Proof. intros visited n x Hn Hx E. subst. contradiction. Qed.

(* x has been popped, was no goal, and all its out-neighbours are discovered at depth <= d x + 1 *)
Definition expanded (d : nat -> nat) (visited : list nat) (x : nat) : Prop :=
  mem_nat x goals = false /\
  forall m, nth_error rm x = Some m -> forall e, In e (medges m) -> In e visited /\ d e <= Datatypes.S (d x).

(* the queue holds depth-k nodes followed by depth-(k+1) nodes *)
Definition lvl (d : nat -> nat) (k : nat) (queue : list nat) : Prop :=
  exists q1 q2, queue = q1 ++ q2 /\ (forall x, In x q1 -> d x = k) /\ (forall x, In x q2 -> d x = Datatypes.S k).

(* the parent map agrees with the ghost depth *)
Definition PmD (d : nat -> nat) (visited : list nat) (pm : list (nat * option nat)) : Prop :=
  forall x par, pm_get pm x = Some par ->
    In x visited /\
    match par with
    | None => d x = 0
    | Some p => In p visited /\ d x = Datatypes.S (d p)
    end.

(* [cur] = the node being scanned by bfs_expand, if any *)
Record J (cur : option nat) (k : nat) (d : nat -> nat) (visited : list nat) (pm : list (nat * option nat))
         (queue : list nat) : Prop := {
  j_sc : forall x, In x sc -> In x visited /\ d x = 0;
  j_exp : forall x, In x visited -> Some x = cur \/ In x queue \/ expanded d visited x;
  j_lvl : lvl d k queue;
  j_le : forall x, In x visited -> d x <= Datatypes.S k;
  j_pm : PmD d visited pm;
  j_qv : forall x, In x queue -> In x visited
}.

(* ---- initial state ---- *)
Lemma J_init : J None 0 (fun _ => 0) sc (rev (map (fun i => (i, @None nat)) sc)) (sc ++ sc).
Proof.
  constructor.
  - intros x Hx. split; [exact Hx|reflexivity].
  - intros x Hx. right; left. apply in_or_app; left; exact Hx.
  - exists (sc ++ sc), []. split; [rewrite app_nil_r; reflexivity|]. split; [intros x _; reflexivity|intros x []].
  - intros x _. lia.
  - intros x par Hg. apply pm_get_in in Hg. apply in_rev in Hg. apply in_map_iff in Hg.
    destruct Hg as (i & E & Hi). inversion E; subst. split; [exact Hi|reflexivity].
  - intros x Hx. apply in_app_or in Hx. destruct Hx as [Hx|Hx]; exact Hx.
Qed.

(* ---- popping the head ---- *)
Lemma J_pop : forall k d visited pm cur queue',
  J None k d visited pm (cur :: queue') ->
  exists k', d cur = k' /\ J (Some cur) k' d visited pm queue'.
Proof.
  intros k d visited pm cur queue' [Hsc Hexp Hlvl Hle Hpm Hqv].
  assert (Hexp' : forall x, In x visited -> Some x = Some cur \/ In x queue' \/ expanded d visited x).
  { intros x Hx. destruct (Hexp x Hx) as [E|[[E|Hq]|He]].
    - discriminate.
    - left. rewrite E. reflexivity.
    - right; left; exact Hq.
    - right; right; exact He. }
  assert (Hqv' : forall x, In x queue' -> In x visited) by (intros x Hx; apply Hqv; right; exact Hx).
  destruct Hlvl as (q1 & q2 & Eq & H1 & H2).
  destruct q1 as [|c q1'].
  - cbn in Eq. subst q2. exists (Datatypes.S k). split; [apply H2; left; reflexivity|].
    constructor; try assumption.
    + exists queue', []. split; [rewrite app_nil_r; reflexivity|].
      split; [intros x Hx; apply H2; right; exact Hx|intros x []].
    + intros x Hx. specialize (Hle x Hx). lia.
  - cbn in Eq. injection Eq as Ec Eq. subst c queue'. exists k. split; [apply H1; left; reflexivity|].
    constructor; try assumption.
    exists q1', q2. split; [reflexivity|]. split; [intros x Hx; apply H1; right; exact Hx|exact H2].
Qed.

(* ---- discovering one fresh neighbour ---- *)
Lemma expanded_upd : forall d visited n v x,
  ~ In n visited -> In x visited -> expanded d visited x -> expanded (upd d n v) (n :: visited) x.
Proof.
  intros d visited n v x Hn Hx [Hg He]. split; [exact Hg|].
  intros m Hm e Hin. destruct (He m Hm e Hin) as [Hev Hde].
  split; [right; exact Hev|].
  rewrite (upd_other d n v e (fresh_neq _ _ _ Hn Hev)), (upd_other d n v x (fresh_neq _ _ _ Hn Hx)). exact Hde.
Qed.

Lemma pm_get_cons : forall k par pm x,
  pm_get ((k, par) :: pm) x = if Nat.eqb k x then Some par else pm_get pm x.
Proof. intros k par pm x. unfold pm_get. cbn [find fst snd]. destruct (Nat.eqb k x); reflexivity. Qed.

Lemma J_discover : forall cur k d visited pm queue n,
  In cur visited -> d cur = k -> ~ In n visited ->
  J (Some cur) k d visited pm queue ->
  J (Some cur) k (upd d n (Datatypes.S k)) (n :: visited) ((n, Some cur) :: pm) (queue ++ [n]).
Proof.
  intros cur k d visited pm queue n Hcur Hdc Hn [Hsc Hexp Hlvl Hle Hpm Hqv].
  assert (Hoth : forall x, In x visited -> upd d n (Datatypes.S k) x = d x).
  { intros x Hx. apply upd_other. exact (fresh_neq _ _ _ Hn Hx). }
  constructor.
  - intros x Hx. destruct (Hsc x Hx) as [Hv H0]. split; [right; exact Hv|]. rewrite (Hoth x Hv). exact H0.
  - intros x [E|Hx].
    + right; left. apply in_or_app; right; left; exact E.
    + destruct (Hexp x Hx) as [E|[Hq|He]].
      * left; exact E.
      * right; left. apply in_or_app; left; exact Hq.
      * right; right. apply expanded_upd; assumption.
  - destruct Hlvl as (q1 & q2 & Eq & H1 & H2). exists q1, (q2 ++ [n]).
    split; [rewrite Eq, <- app_assoc; reflexivity|]. split.
    + intros x Hx. rewrite Hoth; [apply H1; exact Hx|]. apply Hqv. rewrite Eq. apply in_or_app; left; exact Hx.
    + intros x Hx. apply in_app_or in Hx. destruct Hx as [Hx|[E|[]]].
      * rewrite Hoth; [apply H2; exact Hx|]. apply Hqv. rewrite Eq. apply in_or_app; right; exact Hx.
      * subst x. apply upd_same.
  - intros x [E|Hx].
    + subst x. rewrite upd_same. lia.
    + rewrite (Hoth x Hx). apply Hle; exact Hx.
  - intros x par. rewrite pm_get_cons. cbn [fst]. destruct (Nat.eqb_spec n x) as [E|Hne].
    + intros Ep. inversion Ep; subst. split; [left; reflexivity|]. split; [right; exact Hcur|].
      rewrite upd_same, (Hoth cur Hcur). reflexivity.
    + intros Hg. destruct (Hpm x par Hg) as [Hx Hp]. split; [right; exact Hx|].
      rewrite (Hoth x Hx). destruct par as [p|]; [|exact Hp].
      destruct Hp as [Hpv Hd]. split; [right; exact Hpv|]. rewrite (Hoth p Hpv). exact Hd.
  - intros x Hx. apply in_app_or in Hx. destruct Hx as [Hx|[E|[]]]; [right; apply Hqv; exact Hx|left; exact E].
Qed.

(* ---- scanning the neighbours of the popped node ---- *)
Lemma bfs_expand_J : forall cur k es d visited pm queue vis' pm' q',
  In cur visited -> d cur = k ->
  J (Some cur) k d visited pm queue ->
  bfs_expand cur es visited pm queue = (vis', pm', q') ->
  exists d', J (Some cur) k d' vis' pm' q' /\
             (forall x, In x visited -> In x vis' /\ d' x = d x) /\
             (forall e, In e es -> In e vis' /\ d' e <= Datatypes.S k).
Proof.
  intros cur k es. induction es as [|n es IH]; intros d visited pm queue vis' pm' q' Hcur Hdc HJ; cbn [bfs_expand].
  - intros E; inversion E; subst. exists d. split; [exact HJ|]. split.
    + intros x Hx. split; [exact Hx|reflexivity].
    + intros e [].
  - destruct (mem_nat n visited) eqn:Em.
    + intros E. destruct (IH _ _ _ _ _ _ _ Hcur Hdc HJ E) as (d' & HJ' & Hkeep & Hes).
      exists d'. split; [exact HJ'|]. split; [exact Hkeep|].
      intros e [<-|He]; [|apply Hes; exact He].
      apply mem_nat_in in Em. destruct (Hkeep n Em) as [Hv Hd]. split; [exact Hv|].
      rewrite Hd. apply (j_le _ _ _ _ _ _ HJ). exact Em.
    + assert (Hn : ~ In n visited) by (intros H; apply mem_nat_in in H; rewrite H in Em; discriminate).
      intros E.
      pose proof (J_discover cur k d visited pm queue n Hcur Hdc Hn HJ) as HJ1.
      assert (Hcur1 : In cur (n :: visited)) by (right; exact Hcur).
      assert (Hdc1 : upd d n (Datatypes.S k) cur = k).
      { rewrite upd_other; [exact Hdc|]. exact (fresh_neq _ _ _ Hn Hcur). }
      destruct (IH _ _ _ _ _ _ _ Hcur1 Hdc1 HJ1 E) as (d' & HJ' & Hkeep & Hes).
      exists d'. split; [exact HJ'|]. split.
      * intros x Hx. destruct (Hkeep x (or_intror Hx)) as [Hv Hd]. split; [exact Hv|].
        rewrite Hd. apply upd_other. exact (fresh_neq _ _ _ Hn Hx).
      * intros e [<-|He]; [|apply Hes; exact He].
        destruct (Hkeep n (or_introl eq_refl)) as [Hv Hd]. split; [exact Hv|].
        rewrite Hd, upd_same. lia.
Qed.

(* ---- one full iteration: pop a non-goal, scan it ---- *)
Lemma J_close : forall cur k d visited pm queue m,
  In cur visited -> d cur = k -> mem_nat cur goals = false -> nth_error rm cur = Some m ->
  (forall e, In e (medges m) -> In e visited /\ d e <= Datatypes.S k) ->
  J (Some cur) k d visited pm queue -> J None k d visited pm queue.
Proof.
  intros cur k d visited pm queue m Hcur Hdc Hg Hm Hes [Hsc Hexp Hlvl Hle Hpm Hqv].
  constructor; try assumption.
  intros x Hx. destruct (Hexp x Hx) as [E|[Hq|He]].
  - inversion E; subst x. right; right. split; [exact Hg|].
    intros m' Hm' e He. rewrite Hm in Hm'. inversion Hm'; subst m'. rewrite Hdc. apply Hes; exact He.
  - right; left; exact Hq.
  - right; right; exact He.
Qed.

Lemma bfs_found_J : forall fuel budget k d visited pm queue g pm',
  J None k d visited pm queue ->
  bfs fuel budget rm goals visited pm queue = BfsFound g pm' ->
  exists k' d' vis' q', J None k' d' vis' pm' (g :: q') /\ mem_nat g goals = true.
Proof.
  induction fuel as [|f IH]; intros budget k d visited pm queue g pm' HJ; cbn [bfs].
  - destruct queue; discriminate.
  - destruct queue as [|cur queue']; [discriminate|].
    destruct budget as [|b]; [discriminate|].
    destruct (mem_nat cur goals) eqn:Eg.
    + intros E; inversion E; subst. exists k, d, visited, queue'. split; [exact HJ|exact Eg].
    + destruct (nth_error rm cur) as [m|] eqn:Ec; [|discriminate].
      destruct (bfs_expand cur (medges m) visited pm queue') as [[vis1 pm1] q1] eqn:Ee.
      assert (Hcur : In cur visited) by (apply (j_qv _ _ _ _ _ _ HJ); left; reflexivity).
      destruct (J_pop _ _ _ _ _ _ HJ) as (k' & Hdc & HJ0).
      destruct (bfs_expand_J _ _ _ _ _ _ _ _ _ _ Hcur Hdc HJ0 Ee) as (d' & HJ1 & Hkeep & Hes).
      destruct (Hkeep cur Hcur) as [Hcur' Hdc'].
      assert (Hdc1 : d' cur = k') by (rewrite Hdc'; exact Hdc).
      pose proof (J_close cur k' d' vis1 pm1 q1 m Hcur' Hdc1 Eg Ec Hes HJ1) as HJ2.
      apply IH with (1 := HJ2).
Qed.

(* ---- consequences of the invariant when a goal is popped ---- *)
Lemma below_expanded : forall c k d visited pm queue,
  J (Some c) k d visited pm queue -> d c = k ->
  forall x, In x visited -> d x < k -> expanded d visited x.
Proof.
  intros c k d visited pm queue [Hsc Hexp Hlvl Hle Hpm Hqv] Hdc x Hx Hlt.
  destruct (Hexp x Hx) as [E|[Hq|He]].
  - inversion E; subst x. lia.
  - destruct Hlvl as (q1 & q2 & Eq & H1 & H2). rewrite Eq in Hq. apply in_app_or in Hq.
    destruct Hq as [Hq|Hq]; [specialize (H1 x Hq)|specialize (H2 x Hq)]; lia.
  - exact He.
Qed.

Lemma last_default : forall (l : list nat) b x y, last (b :: l) x = last (b :: l) y.
Proof.
  induction l as [|c l IH]; intros b x y; [reflexivity|].
  change (last (c :: l) x = last (c :: l) y). apply IH.
Qed.

Definition gedge (a b : nat) : Prop := exists ma, nth_error rm a = Some ma /\ In b (medges ma).

Fixpoint gwalk0 (l : list nat) : Prop :=
  match l with
  | a :: ((b :: _) as l') => gedge a b /\ gwalk0 l'
  | _ => True
  end.

(* every node of a walk that stays strictly below level K is visited at depth <= its position *)
Lemma walk_below : forall K d visited,
  (forall x, In x visited -> d x < K -> expanded d visited x) ->
  forall l a, hd_error l = Some a -> gwalk0 l -> In a visited -> d a + length l <= K ->
  In (last l a) visited /\ d (last l a) + 1 <= d a + length l.
Proof.
  intros K d visited Hbelow. induction l as [|a0 l IH]; intros a Hhd Hw Ha Hlen; [discriminate|].
  cbn in Hhd. injection Hhd as E. subst a0.
  destruct l as [|b l'].
  - cbn. split; [exact Ha|lia].
  - cbn [gwalk0] in Hw. destruct Hw as [(ma & Hma & Hb) Hw].
    cbn [length] in Hlen.
    assert (Hlt : d a < K) by lia.
    destruct (Hbelow a Ha Hlt) as [_ He]. destruct (He ma Hma b Hb) as [Hbv Hdb].
    assert (Hlen' : d b + length (b :: l') <= K) by (cbn [length]; lia).
    destruct (IH b eq_refl Hw Hbv Hlen') as [Hv Hd].
    change (last (a :: b :: l') a) with (last (b :: l') a). rewrite (last_default l' b a b).
    split; [exact Hv|]. cbn [length] in Hd |- *. lia.
Qed.

(* the goal popped by the search is at least as shallow as the end of any walk from sc to a goal *)
Lemma found_minimal : forall k d visited pm g queue',
  J None k d visited pm (g :: queue') ->
  forall l a, hd_error l = Some a -> In a sc -> mem_nat (last l a) goals = true -> gwalk0 l ->
  d g + 1 <= length l.
Proof.
  intros k d visited pm g queue' HJ l a Hhd Ha Hgoal Hw.
  destruct (J_pop _ _ _ _ _ _ HJ) as (K & Hdg & HJ0).
  pose proof (below_expanded _ _ _ _ _ _ HJ0 Hdg) as Hbelow.
  destruct (j_sc _ _ _ _ _ _ HJ a Ha) as [Hav Hda].
  destruct (Nat.le_gt_cases (length l) K) as [Hle|Hgt]; [|lia].
  exfalso.
  assert (Hlen : d a + length l <= K) by lia.
  destruct (walk_below K d visited Hbelow l a Hhd Hw Hav Hlen) as [Hv Hd].
  assert (Hlt : d (last l a) < K) by lia.
  destruct (Hbelow _ Hv Hlt) as [Hng _]. rewrite Hng in Hgoal. discriminate.
Qed.

(* ---- path extraction follows exactly d+1 parent-map bindings ---- *)
Lemma prm_walk_length : forall d visited pm, PmD d visited pm ->
  forall fuel cur acc l, prm_walk fuel rm pm cur acc = Some (Some l) ->
  length l = d cur + 1 + length acc.
Proof.
  intros d visited pm Hpm. induction fuel as [|f IH]; intros cur acc l; cbn [prm_walk]; [discriminate|].
  destruct (pm_get pm cur) as [par|] eqn:Eg; [|discriminate].
  destruct (nth_error rm cur) as [m|]; [|discriminate].
  destruct (Hpm cur par Eg) as [_ Hp].
  destruct par as [p|].
  - intros Hw. rewrite (IH _ _ _ Hw). destruct Hp as [_ Hd]. cbn [length]. lia.
  - intros E; inversion E; subst. cbn [length]. lia.
Qed.

(* BFS + extraction: the chain is no longer than any walk from sc to a goal index *)
Lemma bfs_chain_minimal : forall fuel budget g pm wfuel chain,
  bfs fuel budget rm goals sc (rev (map (fun i => (i, @None nat)) sc)) (sc ++ sc) = BfsFound g pm ->
  prm_walk wfuel rm pm g [] = Some (Some chain) ->
  forall l a, hd_error l = Some a -> In a sc -> mem_nat (last l a) goals = true -> gwalk0 l ->
  length chain <= length l.
Proof.
  intros fuel budget g pm wfuel chain Eb Ew l a Hhd Ha Hgoal Hw.
  destruct (bfs_found_J _ _ _ _ _ _ _ _ _ J_init Eb) as (k' & d' & vis' & q' & HJ & _).
  rewrite (prm_walk_length d' vis' pm (j_pm _ _ _ _ _ _ HJ) _ _ _ _ Ew). cbn [length].
  pose proof (found_minimal _ _ _ _ _ _ HJ l a Hhd Ha Hgoal Hw). lia.
Qed.

End BfsLevels.

(* ---------------------------------------------------------------------------------- *)
Section PrmMinimal.
Context {S V P : Type}.
Variable dist : S -> S -> F.
Variable interp : S -> S -> F -> S.
Variable lvs : F.
Variable valid : V -> S -> bool.
Variable goal : P -> S -> bool.
Variable starts : P -> list S.
Variable usample : gen -> N -> option S * N.
Variable radius : F.

Notation prm_query := (prm_query dist interp lvs valid goal starts radius).
Notation start_conns := (start_conns dist interp lvs valid radius).

(* a directed walk in the roadmap graph: consecutive indices are joined by an edge *)
Fixpoint gwalk (rm : list (mnode S)) (l : list nat) : Prop :=
  match l with
  | a :: ((b :: _) as l') => edge rm a b /\ gwalk rm l'
  | _ => True
  end.

Lemma gwalk_gwalk0 : forall rm l, gwalk rm l -> gwalk0 rm l.
Proof.
  intros rm. induction l as [|a l IH]; [intros _; exact I|].
  destruct l as [|b l']; [intros _; exact I|].
  intros [He Hw]. split; [exact He|apply IH; exact Hw].
Qed.

Theorem prm_query_minimal : forall b p v rm s0 rest path,
  starts p = s0 :: rest ->
  prm_query b p v rm = RPath path ->
  forall (l : list nat) a g,
    hd_error l = Some a -> In a (start_conns v s0 rm 0) ->
    last l a = g -> mem_nat g (goal_idxs goal p rm 0) = true ->
    gwalk rm l ->
    length path <= Datatypes.S (length l).
Proof.
  intros b p v rm s0 rest path Es. unfold Model.prm_query. rewrite Es.
  destruct rm as [|m0 rm0] eqn:Erm; [discriminate|]. rewrite <- Erm in *.
  destruct (negb (valid v s0)); [discriminate|].
  destruct (start_conns v s0 rm 0) as [|c0 sc'] eqn:Esc; [discriminate|].
  destruct (goal_idxs goal p rm 0) as [|g0 gi'] eqn:Egi; [discriminate|].
  destruct (bfs _ _ _ _ _ _ _) as [| gidx pm | |] eqn:Eb; try discriminate.
  destruct (prm_walk _ _ _ _ _) as [[ch|]|] eqn:Ew; try discriminate.
  intros H; inversion H; subst path; clear H.
  intros l a g Hhd Ha Hlast Hgoal Hw. subst g.
  cbn [length]. apply le_n_S.
  eapply bfs_chain_minimal; [exact Eb|exact Ew|exact Hhd|exact Ha|exact Hgoal|].
  apply gwalk_gwalk0; exact Hw.
Qed.

End PrmMinimal.

Print Assumptions prm_query_minimal.
