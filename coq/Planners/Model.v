(* Executable, oracle-parametric model of oxmpl's four planners and of their API
   (oxmpl/src/geometric/planners/{rrt,rrt_star,rrt_connect,prm}.rs at the repaired tree).
   Function by function, same evaluation order; every Option / index / unwrap is an
   explicit outcome.  MODEL ONLY: no proofs in this file. *)
From Coq Require Import ZArith NArith List Bool Floats.
From OX Require Import Numerics.FloatBits Gen.Consts.
Import ListNotations.

(* ---------------------------------------------------------------------------------- *)
(* Bounded universal quantifier over an interval of N, structural on [positive],
   ascending and short-circuiting (so that it can be run for small and stated for
   astronomically large step counts alike). *)
Fixpoint all_from (p : positive) (start : N) (f : N -> bool) : bool :=
  match p with
  | xH => f start
  | xO p' => if all_from p' start f then all_from p' (start + Npos p')%N f else false
  | xI p' => if f start then
               (if all_from p' (start + 1)%N f then all_from p' (start + 1 + Npos p')%N f else false)
             else false
  end.

(* f holds on [lo, lo+cnt) *)
Definition all_range (lo cnt : N) (f : N -> bool) : bool :=
  match cnt with N0 => true | Npos p => all_from p lo f end.

(* ---------------------------------------------------------------------------------- *)
Inductive perr := ETimeout | ENoSolution | EUninit | EInvalidStart | EUnsampled.

Inductive response {S : Type} :=
| RPath (p : list S)
| RErr (e : perr)
| RUnit                 (* setup / set_problem_definition / construct_roadmap Ok(()) *)
| RPanic                (* an unwrap / index / rand panic *)
| RHang.                (* a loop of the implementation that would not terminate *)
Arguments response : clear implicits.

Inductive gen := GSeed | GForeign.     (* the planner's seeded StdRng | any OS-/thread-seeded generator *)

Record node {S : Type} := mkNode { st : S; par : option nat; cost : F }.
Arguments node : clear implicits.
Record mnode {S : Type} := mkM { mst : S; medges : list nat }.
Arguments mnode : clear implicits.

Section Model.
Context {S V P : Type}.

(* --- the space --- *)
Variable dist : S -> S -> F.
Variable interp : S -> S -> F -> S.
Variable lvs : F.                          (* get_longest_valid_segment_length() *)
(* --- the world --- *)
Variable valid : V -> S -> bool.           (* user validity checker *)
Variable goal : P -> S -> bool.            (* goal predicate of a problem definition *)
Variable starts : P -> list S.             (* start_states *)
(* --- randomness: generator x position in its u64 stream --- *)
Variable u64_at : gen -> N -> N.                      (* the u64 random_bool draws *)
Variable usample : gen -> N -> option S * N.          (* sample_uniform: result (None = Err), #u64 consumed *)
Variable gsample : P -> gen -> N -> option S * N.     (* sample_goal *)
(* --- planner parameters --- *)
Variable maxd : F.        (* max_distance *)
Variable bias : F.        (* goal_bias *)
Variable radius : F.      (* search_radius (RRT* ) / connection_radius (PRM) *)

Notation node := (node S).
Notation mnode := (mnode S).
Notation response := (response S).

(* ---------------------------------------------------------------------------------- *)
(* check_motion (identical in the four planners) *)
Definition num_steps (a b : S) : N :=
  to_usize (fceil (dist a b / (lvs * motion_factor))%float).

Definition step_param (i n : N) : F := (of_usize i / of_usize n)%float.

Definition check_motion (v : V) (a b : S) : bool :=
  let n := num_steps a b in
  if (n <=? 1)%N then valid v b
  else if all_range 1 (n - 1) (fun i => valid v (interp a b (step_param i n)))
       then valid v b else false.

(* ---------------------------------------------------------------------------------- *)
(* nearest neighbour: first strict minimum, as the `if dist < min_dist` loop *)
Fixpoint nearest_from (q : S) (l : list node) (i bi : nat) (bd : F) : nat * F :=
  match l with
  | [] => (bi, bd)
  | n :: l' => let d := dist (st n) q in
               if flt d bd then nearest_from q l' (Datatypes.S i) i d
               else nearest_from q l' (Datatypes.S i) bi bd
  end.

Definition nearest (t : list node) (q : S) : option (nat * F) :=
  match t with
  | [] => None
  | n0 :: l => Some (nearest_from q l 1 0 (dist (st n0) q))
  end.

(* steer: (q_new, reached) *)
Definition steer (near q : S) (d : F) : S * bool :=
  if fgt d maxd then (interp near q (maxd / d)%float, false) else (q, true).

(* reconstruct_path: walk parent links; fuel = number of nodes + 1; None = never terminates *)
Fixpoint walk (t : list node) (fuel : nat) (i : nat) (acc : list S) : option (option (list S)) :=
  (* Some None = index panic; None = out of fuel (cycle) *)
  match fuel with
  | O => None
  | Datatypes.S f =>
      match nth_error t i with
      | None => Some None
      | Some n => match par n with
                  | None => Some (Some (st n :: acc))
                  | Some p => walk t f p (st n :: acc)
                  end
      end
  end.

(* root ... node i *)
Definition reconstruct (t : list node) (i : nat) : option (option (list S)) :=
  walk t (Datatypes.S (length t)) i [].

Definition resp_of_path (r : option (option (list S))) : response :=
  match r with
  | None => RHang
  | Some None => RPanic
  | Some (Some p) => RPath p
  end.

(* ---------------------------------------------------------------------------------- *)
(* one sample: random_bool(goal_bias) then the chosen sampler, `.unwrap()`ed.
   Cursor = (generator, position).  Result: None = panic, with the cursor reached. *)
Definition two64 : F := fbits 4895412794951729152.   (* 2^64 *)

Definition random_bool (g : gen) (pos : N) (p : F) : option (bool * N) :=
  if (if fle zero p then flt p one else false) then
    let p_int := to_usize (p * two64)%float in
    Some (N.ltb (u64_at g pos) p_int, (pos + 1)%N)
  else if PrimFloat.eqb p one then Some (true, pos)
  else None.

Definition draw (p : P) (g : gen) (pos : N) : option S * N :=
  match random_bool g pos bias with
  | None => (None, pos)
  | Some (b, pos1) =>
      let '(res, c) := if b then gsample p g pos1 else usample g pos1 in
      (res, (pos1 + c)%N)
  end.

(* ---------------------------------------------------------------------------------- *)
(* extension step shared by RRT and RRT-Connect::extend:
   returns the new tree and, if a node was added, (reached, its index, its state) *)
Inductive ext_res := ExtPanic | ExtNone | ExtAdded (reached : bool) (idx : nat) (q : S).

Definition extend (v : V) (t : list node) (q : S) : list node * ext_res :=
  match nearest t q with
  | None => (t, ExtPanic)                              (* tree[0] on an empty tree *)
  | Some (i, d) =>
      match nth_error t i with
      | None => (t, ExtPanic)
      | Some nn =>
          let '(qn, reached) := steer (st nn) q d in
          if check_motion v (st nn) qn
          then (t ++ [mkNode S qn (Some i) zero], ExtAdded reached (length t) qn)
          else (t, ExtNone)
      end
  end.

(* ---------------------------------------------------------------------------------- *)
(* RRT main loop; fuel = number of loop-top deadline checks that pass *)
Fixpoint rrt_loop (fuel : nat) (p : P) (v : V) (t : list node) (g : gen) (pos : N)
  : list node * N * response :=
  match fuel with
  | O => (t, pos, RErr ETimeout)
  | Datatypes.S f =>
      match draw p g pos with
      | (None, pos') => (t, pos', RPanic)
      | (Some q, pos') =>
          match extend v t q with
          | (t', ExtPanic) => (t', pos', RPanic)
          | (t', ExtNone) => rrt_loop f p v t' g pos'
          | (t', ExtAdded _ _ qn) =>
              if goal p qn then (t', pos', resp_of_path (reconstruct t' (length t' - 1)))
              else rrt_loop f p v t' g pos'
          end
      end
  end.

(* ---------------------------------------------------------------------------------- *)
(* RRT* *)
Fixpoint neighbours_from (q : S) (l : list node) (i : nat) : list nat :=
  match l with
  | [] => []
  | n :: l' => if flt (dist q (st n)) radius then i :: neighbours_from q l' (Datatypes.S i)
               else neighbours_from q l' (Datatypes.S i)
  end.
Definition neighbours (t : list node) (q : S) : list nat := neighbours_from q t 0.

(* cost(current, via) = via.cost + distance(current.state, via.state) *)
Definition cost_via (cur : S) (via : node) : F := (cost via + dist cur (st via))%float.

Fixpoint choose_parent (v : V) (t : list node) (qn : S) (nbs : list nat) (best : nat) (bc : F)
  : option (nat * F) :=     (* None = index panic *)
  match nbs with
  | [] => Some (best, bc)
  | j :: nbs' =>
      match nth_error t j with
      | None => None
      | Some nj =>
          let c := cost_via qn nj in
          if (if flt c bc then check_motion v (st nj) qn else false)
          then choose_parent v t qn nbs' j c
          else choose_parent v t qn nbs' best bc
      end
  end.

Fixpoint set_nth {A} (l : list A) (i : nat) (x : A) : list A :=
  match l, i with
  | [], _ => []
  | _ :: l', O => x :: l'
  | y :: l', Datatypes.S i' => y :: set_nth l' i' x
  end.

Fixpoint rewire (v : V) (t : list node) (newi : nat) (nbs : list nat) : option (list node) :=
  match nbs with
  | [] => Some t
  | j :: nbs' =>
      match nth_error t newi, nth_error t j with
      | Some nw, Some nj =>
          if (match par nw with Some pj => Nat.eqb pj j | None => false end)
          then rewire v t newi nbs'
          else
            let c := cost_via (st nj) nw in
            if (if flt c (cost nj) then check_motion v (st nw) (st nj) else false)
            then rewire v (set_nth t j (mkNode S (st nj) (Some newi) c)) newi nbs'
            else rewire v t newi nbs'
      | _, _ => None
      end
  end.

Inductive star_res := StarPanic | StarNone | StarAdded (q : S).

Definition rrtstar_iter (v : V) (t : list node) (q : S) : list node * star_res :=
  match nearest t q with
  | None => (t, StarPanic)
  | Some (i, d) =>
      match nth_error t i with
      | None => (t, StarPanic)
      | Some nn =>
          let '(qn, _) := steer (st nn) q d in
          if negb (check_motion v (st nn) qn) then (t, StarNone)
          else
            let nbs := neighbours t qn in
            match choose_parent v t qn nbs i (cost_via qn nn) with
            | None => (t, StarPanic)
            | Some (best, bc) =>
                let t1 := t ++ [mkNode S qn (Some best) bc] in
                match rewire v t1 (length t) nbs with
                | None => (t1, StarPanic)
                | Some t2 => (t2, StarAdded qn)
                end
            end
      end
  end.

Fixpoint rrtstar_loop (fuel : nat) (p : P) (v : V) (t : list node) (g : gen) (pos : N)
  : list node * N * response :=
  match fuel with
  | O => (t, pos, RErr ETimeout)
  | Datatypes.S f =>
      match draw p g pos with
      | (None, pos') => (t, pos', RPanic)
      | (Some q, pos') =>
          match rrtstar_iter v t q with
          | (t', StarPanic) => (t', pos', RPanic)
          | (t', StarNone) => rrtstar_loop f p v t' g pos'
          | (t', StarAdded qn) =>
              if goal p qn then (t', pos', resp_of_path (reconstruct t' (length t' - 1)))
              else rrtstar_loop f p v t' g pos'
          end
      end
  end.

(* ---------------------------------------------------------------------------------- *)
(* RRT-Connect *)
Definition join_paths (ps pg : option (option (list S))) : response :=
  match ps, pg with
  | None, _ | _, None => RHang
  | Some None, _ | _, Some None => RPanic
  | Some (Some a), Some (Some b) => RPath (a ++ tl (rev b))
  end.

Fixpoint rrtc_loop (fuel : nat) (p : P) (v : V) (ts tg : list node) (g : gen) (pos : N)
  : list node * list node * N * response :=
  match fuel with
  | O => (ts, tg, pos, RErr ETimeout)
  | Datatypes.S f =>
      let grow_start := Nat.leb (length ts) (length tg) in
      match draw p g pos with
      | (None, pos') => (ts, tg, pos', RPanic)
      | (Some q, pos') =>
          if grow_start then
            match extend v ts q with
            | (ts', ExtPanic) => (ts', tg, pos', RPanic)
            | (ts', ExtNone) => rrtc_loop f p v ts' tg g pos'
            | (ts', ExtAdded _ ia qn) =>
                if goal p qn then (ts', tg, pos', resp_of_path (reconstruct ts' ia))
                else
                  match extend v tg qn with
                  | (tg', ExtPanic) => (ts', tg', pos', RPanic)
                  | (tg', ExtAdded true ib _) =>
                      (ts', tg', pos', join_paths (reconstruct ts' ia) (reconstruct tg' ib))
                  | (tg', _) => rrtc_loop f p v ts' tg' g pos'
                  end
            end
          else
            match extend v tg q with
            | (tg', ExtPanic) => (ts, tg', pos', RPanic)
            | (tg', ExtNone) => rrtc_loop f p v ts tg' g pos'
            | (tg', ExtAdded _ ia qn) =>
                match extend v ts qn with
                | (ts', ExtPanic) => (ts', tg', pos', RPanic)
                | (ts', ExtAdded true ib _) =>
                    (ts', tg', pos', join_paths (reconstruct ts' ib) (reconstruct tg' ia))
                | (ts', _) => rrtc_loop f p v ts' tg' g pos'
                end
            end
      end
  end.

(* ---------------------------------------------------------------------------------- *)
(* PRM *)
Fixpoint prm_links (v : V) (q : S) (l : list mnode) (i : nat) : list nat :=
  match l with
  | [] => []
  | m :: l' =>
      if (if flt (dist q (mst m)) radius then check_motion v q (mst m) else false)
      then i :: prm_links v q l' (Datatypes.S i)
      else prm_links v q l' (Datatypes.S i)
  end.

Definition add_back_edge (newi : nat) (links : list nat) (i : nat) (m : mnode) : mnode :=
  if existsb (Nat.eqb i) links then mkM S (mst m) (medges m ++ [newi]) else m.

Fixpoint mapi {A B} (f : nat -> A -> B) (l : list A) (i : nat) : list B :=
  match l with [] => [] | x :: l' => f i x :: mapi f l' (Datatypes.S i) end.

Definition prm_add (v : V) (rm : list mnode) (q : S) : list mnode :=
  if valid v q then
    let links := prm_links v q rm 0 in
    mapi (add_back_edge (length rm) links) rm 0 ++ [mkM S q links]
  else rm.

Fixpoint prm_build (fuel : nat) (v : V) (rm : list mnode) (g : gen) (pos : N)
  : list mnode * N * response :=
  match fuel with
  | O => (rm, pos, RUnit)
  | Datatypes.S f =>
      match usample g pos with
      | (None, c) => (rm, (pos + c)%N, RPanic)
      | (Some q, c) => prm_build f v (prm_add v rm q) g (pos + c)%N
      end
  end.

Fixpoint start_conns (v : V) (s0 : S) (l : list mnode) (i : nat) : list nat :=
  match l with
  | [] => []
  | m :: l' =>
      if (if flt (dist s0 (mst m)) radius then check_motion v s0 (mst m) else false)
      then i :: start_conns v s0 l' (Datatypes.S i)
      else start_conns v s0 l' (Datatypes.S i)
  end.

Fixpoint goal_idxs (p : P) (l : list mnode) (i : nat) : list nat :=
  match l with
  | [] => []
  | m :: l' => if goal p (mst m) then i :: goal_idxs p l' (Datatypes.S i)
               else goal_idxs p l' (Datatypes.S i)
  end.

Definition mem_nat (x : nat) (l : list nat) : bool := existsb (Nat.eqb x) l.

(* parent map as an association list, newest binding first (HashMap::insert overwrites) *)
Definition pm_get (pm : list (nat * option nat)) (k : nat) : option (option nat) :=
  match find (fun kv => Nat.eqb (fst kv) k) pm with
  | Some kv => Some (snd kv)
  | None => None
  end.

(* scan the neighbours of the popped node *)
Fixpoint bfs_expand (cur : nat) (es : list nat) (visited : list nat) (pm : list (nat * option nat))
         (queue : list nat) : list nat * list (nat * option nat) * list nat :=
  match es with
  | [] => (visited, pm, queue)
  | n :: es' =>
      if mem_nat n visited then bfs_expand cur es' visited pm queue
      else bfs_expand cur es' (n :: visited) ((n, Some cur) :: pm) (queue ++ [n])
  end.

Inductive bfs_res := BfsTimeout | BfsFound (g : nat) (pm : list (nat * option nat)) | BfsExhausted | BfsPanic.

(* [budget]: number of pops whose deadline check passes; [fuel]: structural bound (every node is
   enqueued at most once after the double seeding, so |queue0| + |roadmap| + 1 pops suffice) *)
Fixpoint bfs (fuel : nat) (budget : nat) (rm : list mnode) (goals : list nat)
         (visited : list nat) (pm : list (nat * option nat)) (queue : list nat) : bfs_res :=
  match queue with
  | [] => BfsExhausted
  | cur :: queue' =>
      match fuel with
      | O => BfsPanic   (* unreachable: structural bound *)
      | Datatypes.S f =>
          match budget with
          | O => BfsTimeout
          | Datatypes.S b =>
              if mem_nat cur goals then BfsFound cur pm
              else match nth_error rm cur with
                   | None => BfsPanic
                   | Some m =>
                       let '(vis', pm', q') := bfs_expand cur (medges m) visited pm queue' in
                       bfs f b rm goals vis' pm' q'
                   end
          end
      end
  end.

Fixpoint prm_walk (fuel : nat) (rm : list mnode) (pm : list (nat * option nat)) (cur : nat) (acc : list S)
  : option (option (list S)) :=
  match fuel with
  | O => None
  | Datatypes.S f =>
      match pm_get pm cur with
      | None => Some None                      (* parent_map[&current] panics *)
      | Some par =>
          match nth_error rm cur with
          | None => Some None
          | Some m =>
              match par with
              | None => Some (Some (mst m :: acc))
              | Some p => prm_walk f rm pm p (mst m :: acc)
              end
          end
      end
  end.

Definition prm_query (budget : nat) (p : P) (v : V) (rm : list mnode) : response :=
  match rm with
  | [] => RErr EUnsampled
  | _ =>
      match starts p with
      | [] => RPanic
      | s0 :: _ =>
          if negb (valid v s0) then RErr EInvalidStart
          else
            let sc := start_conns v s0 rm 0 in
            let gi := goal_idxs p rm 0 in
            match sc, gi with
            | [], _ | _, [] => RErr ENoSolution
            | _, _ =>
                let pm0 := rev (map (fun i => (i, @None nat)) sc) in
                match bfs (length sc + length sc + length rm + 1) budget rm gi sc pm0 (sc ++ sc) with
                | BfsTimeout => RErr ETimeout
                | BfsExhausted => RErr ENoSolution
                | BfsPanic => RPanic
                | BfsFound gidx pm =>
                    match prm_walk (Datatypes.S (length rm)) rm pm gidx [] with
                    | None => RHang
                    | Some None => RPanic
                    | Some (Some chain) => RPath (s0 :: chain)
                    end
                end
            end
      end
  end.

(* ---------------------------------------------------------------------------------- *)
(* The planner object and its API *)
Record pstate := mkPS {
  pd : option P;
  vc : option V;
  tree : list node;          (* RRT / RRT* tree, RRT-Connect start tree *)
  gtree : list node;         (* RRT-Connect goal tree *)
  roadmap : list mnode;
  rng : option gen;          (* the generator object the planner holds *)
  spos : N;                  (* position of the seeded generator *)
  fpos : N                   (* u64s drawn so far from OS-/thread-seeded generators *)
}.

Definition new_planner (seeded : bool) : pstate :=
  mkPS None None [] [] [] (if seeded then Some GSeed else None) 0 0.

Inductive call :=
| CSetup (p : P) (v : V)
| CSolve (budget : nat)
| CConstruct (budget : nat)
| CSetPd (p : P).

(* rng.take().unwrap_or_else(from_os_rng) *)
Definition take_rng (s : pstate) : gen * N :=
  match rng s with
  | Some GSeed => (GSeed, spos s)
  | _ => (GForeign, fpos s)
  end.

Definition put_pos (s : pstate) (g : gen) (pos : N) (keep : bool) (t tg : list node) (rm : list mnode) : pstate :=
  mkPS (pd s) (vc s) t tg rm (if keep then Some g else None)
       (match g with GSeed => pos | GForeign => spos s end)
       (match g with GSeed => fpos s | GForeign => pos end).

Definition is_panic (r : response) : bool := match r with RPanic => true | RHang => true | _ => false end.

Definition root_node (s0 : S) : node := mkNode S s0 None zero.

(* --- RRT --- *)
Definition tree_setup (s : pstate) (p : P) (v : V) : pstate * response :=
  match starts p with
  | [] => (mkPS (Some p) (Some v) [] (gtree s) (roadmap s) (rng s) (spos s) (fpos s), RPanic)
  | s0 :: _ => (mkPS (Some p) (Some v) [root_node s0] (gtree s) (roadmap s) (rng s) (spos s) (fpos s), RUnit)
  end.

Definition tree_solve (loop : nat -> P -> V -> list node -> gen -> N -> list node * N * response)
           (s : pstate) (budget : nat) : pstate * response :=
  match pd s with
  | None => (s, RErr EUninit)
  | Some p =>
      match vc s with
      | None => (s, RErr EUninit)
      | Some v =>
          match starts p with
          | [] => (s, RPanic)
          | s0 :: _ =>
              if negb (valid v s0) then (s, RErr EInvalidStart)
              else
                let '(g, pos) := take_rng s in
                let '(t', pos', r) := loop budget p v (tree s) g pos in
                (put_pos s g pos' (negb (is_panic r)) t' (gtree s) (roadmap s), r)
          end
      end
  end.

Definition rrt_step (s : pstate) (c : call) : pstate * response :=
  match c with
  | CSetup p v => tree_setup s p v
  | CSolve b => tree_solve rrt_loop s b
  | _ => (s, RUnit)
  end.

Definition rrtstar_step (s : pstate) (c : call) : pstate * response :=
  match c with
  | CSetup p v => tree_setup s p v
  | CSolve b => tree_solve rrtstar_loop s b
  | _ => (s, RUnit)
  end.

(* --- RRT-Connect --- *)
Definition rrtc_setup (s : pstate) (p : P) (v : V) : pstate * response :=
  match starts p with
  | [] => (mkPS (Some p) (Some v) [] [] (roadmap s) (rng s) (spos s) (fpos s), RPanic)
  | s0 :: _ =>
      (* goal-tree root: from the planner's generator when it has one, else rand::rng() *)
      let '(g, pos) := take_rng s in
      let '(res, c) := gsample p g pos in
      let s1 := mkPS (Some p) (Some v) [root_node s0] [] (roadmap s) (rng s)
                     (match g with GSeed => (pos + c)%N | GForeign => spos s end)
                     (match g with GSeed => fpos s | GForeign => (pos + c)%N end) in
      match res with
      | None => (s1, RPanic)
      | Some gs => (mkPS (pd s1) (vc s1) (tree s1) [root_node gs] (roadmap s1) (rng s1) (spos s1) (fpos s1), RUnit)
      end
  end.

Definition rrtc_solve (s : pstate) (budget : nat) : pstate * response :=
  match pd s with
  | None => (s, RErr EUninit)
  | Some p =>
      match vc s with
      | None => (s, RErr EUninit)
      | Some v =>
          match starts p with
          | [] => (s, RPanic)
          | s0 :: _ =>
              if negb (valid v s0) then (s, RErr EInvalidStart)
              else match gtree s with
                   | [] => (s, RPanic)                        (* goal_tree[0] *)
                   | g0 :: _ =>
                       if negb (valid v (st g0)) then (s, RErr ENoSolution)
                       else
                         let '(g, pos) := take_rng s in
                         let '(ts', tg', pos', r) := rrtc_loop budget p v (tree s) (gtree s) g pos in
                         (put_pos s g pos' (negb (is_panic r)) ts' tg' (roadmap s), r)
                   end
          end
      end
  end.

Definition rrtc_step (s : pstate) (c : call) : pstate * response :=
  match c with
  | CSetup p v => rrtc_setup s p v
  | CSolve b => rrtc_solve s b
  | _ => (s, RUnit)
  end.

(* --- PRM --- *)
Definition prm_step (s : pstate) (c : call) : pstate * response :=
  match c with
  | CSetup p v => (mkPS (Some p) (Some v) (tree s) (gtree s) [] (rng s) (spos s) (fpos s), RUnit)
  | CSetPd p => (mkPS (Some p) (vc s) (tree s) (gtree s) (roadmap s) (rng s) (spos s) (fpos s), RUnit)
  | CConstruct b =>
      match pd s, vc s with
      | Some _, Some v =>
          match roadmap s with
          | _ :: _ => (s, RUnit)
          | [] =>
              let '(g, pos) := take_rng s in
              let '(rm', pos', r) := prm_build b v [] g pos in
              (put_pos s g pos' (negb (is_panic r)) (tree s) (gtree s) rm', r)
          end
      | _, _ => (s, RErr EUninit)
      end
  | CSolve b =>
      match pd s, vc s with
      | Some p, Some v => (s, prm_query b p v (roadmap s))
      | _, _ => (s, RErr EUninit)
      end
  end.

(* --- histories --- *)
Fixpoint run (step : pstate -> call -> pstate * response) (s : pstate) (cs : list call)
  : pstate * list response :=
  match cs with
  | [] => (s, [])
  | c :: cs' => let '(s1, r) := step s c in
                let '(s2, rs) := run step s1 cs' in (s2, r :: rs)
  end.

End Model.
