(* Decoder for the flat integer encoding in which the harness hands cases to Coq
   (primitive-array literals parse ~15x faster than lists of N/Z numerals).
   Glue of the correspondence check; not part of the model. *)
From Coq Require Import ZArith NArith List Bool Uint63 PArray.
From OX Require Import Planners.Exec.
Import ListNotations.
Open Scope Z_scope.

Fixpoint arr_to_list (fuel : nat) (a : array int) (i : int) (acc : list Z) : list Z :=
  match fuel with
  | O => acc
  | S f => let j := Uint63.sub i 1 in arr_to_list f a j (Uint63.to_Z (PArray.get a j) :: acc)
  end.

Definition list_of_array (a : array int) : list Z :=
  let n := PArray.length a in
  arr_to_list (Z.to_nat (Uint63.to_Z n)) a n [].

Definition parser (A : Type) := list Z -> option (A * list Z).

Definition pz : parser Z := fun l => match l with x :: l' => Some (x, l') | [] => None end.
Definition pn : parser N := fun l => match l with x :: l' => Some (Z.to_N x, l') | [] => None end.
Definition pb : parser bool := fun l => match l with x :: l' => Some (negb (x =? 0), l') | [] => None end.
(* a 64-bit value as two 32-bit halves *)
Definition p64 : parser Z :=
  fun l => match l with hi :: lo :: l' => Some (hi * 4294967296 + lo, l') | _ => None end.

Definition bind {A B} (p : parser A) (f : A -> parser B) : parser B :=
  fun l => match p l with Some (x, l') => f x l' | None => None end.
Definition ret {A} (x : A) : parser A := fun l => Some (x, l).
Notation "x <- p ;; q" := (bind p (fun x => q)) (at level 61, p at next level, right associativity).

Fixpoint rep {A} (n : nat) (p : parser A) : parser (list A) :=
  match n with
  | O => ret []
  | S n' => x <- p ;; xs <- rep n' p ;; ret (x :: xs)
  end.

Definition counted {A} (p : parser A) : parser (list A) :=
  n <- pz ;; rep (Z.to_nat n) p.

Definition popt : parser (option N) :=
  has <- pb ;; v <- pn ;; ret (if has then Some v else None).

Definition p_dist : parser (N * N * Z) := a <- pn ;; b <- pn ;; z <- p64 ;; ret (a, b, z).
Definition p_interp : parser (N * N * Z * N) := a <- pn ;; b <- pn ;; t <- p64 ;; c <- pn ;; ret (a, b, t, c).
Definition p_flag : parser (N * N * bool) := a <- pn ;; b <- pn ;; x <- pb ;; ret (a, b, x).
Definition p_starts : parser (N * list N) := p <- pn ;; l <- counted pn ;; ret (p, l).
Definition p_u64 : parser (N * N * N) := g <- pn ;; pos <- pn ;; v <- p64 ;; ret (g, pos, Z.to_N v).
Definition p_us : parser (N * N * option N * N) :=
  g <- pn ;; pos <- pn ;; r <- popt ;; c <- pn ;; ret (g, pos, r, c).
Definition p_gs : parser (N * N * N * option N * N) :=
  p <- pn ;; g <- pn ;; pos <- pn ;; r <- popt ;; c <- pn ;; ret (p, g, pos, r, c).
Definition p_call : parser xcall :=
  tag <- pz ;; x <- pn ;; y <- pn ;;
  ret (match tag with
       | 0 => XSetup x y
       | 1 => XSolve x
       | 2 => XConstruct x
       | _ => XSetPd x
       end).
Definition p_tnode : parser (N * option N * Z) := s <- pn ;; p <- popt ;; c <- p64 ;; ret (s, p, c).
Definition p_mnode : parser (N * list N) := s <- pn ;; e <- counted pn ;; ret (s, e).
Definition p_resp : parser xresp :=
  tag <- pz ;;
  match tag with
  | 0 => l <- counted pn ;; ret (XPath l)
  | 1 => e <- pn ;; ret (XErr e)
  | 2 => ret XUnit
  | 3 => ret XPanic
  | _ => ret XHang
  end.
Definition p_expect : parser (xresp * xsnap) :=
  r <- p_resp ;; t <- counted p_tnode ;; g <- counted p_tnode ;; m <- counted p_mnode ;;
  ret (r, mkSnap t g m).

Definition p_case : parser xcase :=
  planner <- pn ;; seeded <- pb ;;
  maxd <- p64 ;; bias <- p64 ;; radius <- p64 ;; lvs <- p64 ;;
  d <- counted p_dist ;; i <- counted p_interp ;; v <- counted p_flag ;; g <- counted p_flag ;;
  st <- counted p_starts ;; u <- counted p_u64 ;; us <- counted p_us ;; gs <- counted p_gs ;;
  sc <- counted p_call ;; ex <- counted p_expect ;;
  ret (mkCase planner seeded maxd bias radius lvs d i v g st u us gs sc ex).

Definition decode (a : array int) : option xcase :=
  match p_case (list_of_array a) with
  | Some (c, []) => Some c
  | _ => None
  end.

(* 999999 = the encoding itself could not be decoded (harness / decoder out of step) *)
Definition check_array (a : array int) : list N :=
  match decode a with
  | Some c => check_case c
  | None => [999999%N]
  end.
