(* Executable instantiation of the planner model for the correspondence check:
   states, checkers and problems are interned ids (N; 0 is a poison value that no
   implementation state ever gets), oracles are finite tables logged from the real run. *)
From Coq Require Import ZArith NArith List Bool Floats FMapPositive.
From OX Require Import Numerics.FloatBits Planners.Model.
Import ListNotations.

Module PM := PositiveMap.

Definition key1 (a : N) : positive := N.succ_pos a.
Definition key2 (a b : N) : positive := N.succ_pos (a * 4294967296 + b).
Definition keyz (z : Z) : positive := Z.to_pos (z + 1).

Fixpoint build {A} (l : list (positive * A)) (m : PM.t A) : PM.t A :=
  match l with [] => m | (k, x) :: l' => build l' (PM.add k x m) end.

Record tables := mkTables {
  t_dist : PM.t Z;                      (* key2 a b -> bits *)
  t_interp : PM.t (PM.t N);             (* key2 a b -> keyz tbits -> c *)
  t_valid : PM.t bool;                  (* key2 v s *)
  t_goal : PM.t bool;                   (* key2 p s *)
  t_starts : PM.t (list N);             (* key1 p *)
  t_u64 : PM.t N;                       (* key2 gen pos *)
  t_us : PM.t (option N * N);           (* key2 gen pos *)
  t_gs : PM.t (PM.t (option N * N))     (* key1 p -> key2 gen pos *)
}.

Definition gen_code (g : gen) : N := match g with GSeed => 0 | GForeign => 1 end.

Definition nan_bits : Z := 9221120237041090560.

Definition x_dist (T : tables) (a b : N) : F :=
  match PM.find (key2 a b) (t_dist T) with Some z => fbits z | None => nan end.
Definition x_interp (T : tables) (a b : N) (t : F) : N :=
  match PM.find (key2 a b) (t_interp T) with
  | Some m => match PM.find (keyz (bits_of t)) m with Some c => c | None => 0%N end
  | None => 0%N
  end.
Definition x_valid (T : tables) (v s : N) : bool :=
  match PM.find (key2 v s) (t_valid T) with Some b => b | None => false end.
Definition x_goal (T : tables) (p s : N) : bool :=
  match PM.find (key2 p s) (t_goal T) with Some b => b | None => false end.
Definition x_starts (T : tables) (p : N) : list N :=
  match PM.find (key1 p) (t_starts T) with Some l => l | None => [] end.
Definition x_u64 (T : tables) (g : gen) (pos : N) : N :=
  match PM.find (key2 (gen_code g) pos) (t_u64 T) with Some u => u | None => 0%N end.
Definition x_us (T : tables) (g : gen) (pos : N) : option N * N :=
  match PM.find (key2 (gen_code g) pos) (t_us T) with Some r => r | None => (None, 0%N) end.
Definition x_gs (T : tables) (p : N) (g : gen) (pos : N) : option N * N :=
  match PM.find (key1 p) (t_gs T) with
  | Some m => match PM.find (key2 (gen_code g) pos) m with Some r => r | None => (None, 0%N) end
  | None => (None, 0%N)
  end.

(* ---- case description, as written by the harness --------------------------------- *)
Inductive xcall := XSetup (p v : N) | XSolve (budget : N) | XConstruct (budget : N) | XSetPd (p : N).

Inductive xresp := XPath (l : list N) | XErr (e : N) | XUnit | XPanic | XHang.

Record xsnap := mkSnap {
  x_tree : list (N * option N * Z);
  x_gtree : list (N * option N * Z);
  x_rm : list (N * list N)
}.

Record xcase := mkCase {
  c_planner : N;                 (* 0 RRT, 1 RRT*, 2 RRT-Connect, 3 PRM *)
  c_seeded : bool;
  c_maxd : Z; c_bias : Z; c_radius : Z; c_lvs : Z;     (* f64 bit patterns *)
  c_dist : list (N * N * Z);
  c_interp : list (N * N * Z * N);
  c_valid : list (N * N * bool);
  c_goal : list (N * N * bool);
  c_starts : list (N * list N);
  c_u64 : list (N * N * N);                       (* gen, pos, value *)
  c_us : list (N * N * option N * N);             (* gen, pos, result, consumed *)
  c_gs : list (N * N * N * option N * N);         (* p, gen, pos, result, consumed *)
  c_script : list xcall;
  c_expect : list (xresp * xsnap)
}.

Definition group_interp (l : list (N * N * Z * N)) : PM.t (PM.t N) :=
  fold_left (fun m '(a, b, t, c) =>
               let k := key2 a b in
               let inner := match PM.find k m with Some i => i | None => PM.empty N end in
               PM.add k (PM.add (keyz t) c inner) m) l (PM.empty _).

Definition group_gs (l : list (N * N * N * option N * N)) : PM.t (PM.t (option N * N)) :=
  fold_left (fun m '(p, g, pos, r, c) =>
               let k := key1 p in
               let inner := match PM.find k m with Some i => i | None => PM.empty _ end in
               PM.add k (PM.add (key2 g pos) (r, c) inner) m) l (PM.empty _).

Definition tables_of (c : xcase) : tables :=
  mkTables
    (build (map (fun '(a, b, z) => (key2 a b, z)) (c_dist c)) (PM.empty _))
    (group_interp (c_interp c))
    (build (map (fun '(v, s, b) => (key2 v s, b)) (c_valid c)) (PM.empty _))
    (build (map (fun '(p, s, b) => (key2 p s, b)) (c_goal c)) (PM.empty _))
    (build (map (fun '(p, l) => (key1 p, l)) (c_starts c)) (PM.empty _))
    (build (map (fun '(g, pos, u) => (key2 g pos, u)) (c_u64 c)) (PM.empty _))
    (build (map (fun '(g, pos, r, n) => (key2 g pos, (r, n))) (c_us c)) (PM.empty _))
    (group_gs (c_gs c)).

Definition call_of (c : xcall) : @call N N :=
  match c with
  | XSetup p v => CSetup p v
  | XSolve b => CSolve (N.to_nat b)
  | XConstruct b => CConstruct (N.to_nat b)
  | XSetPd p => CSetPd p
  end.

Definition err_code (e : perr) : N :=
  match e with ETimeout => 0 | ENoSolution => 1 | EUninit => 2 | EInvalidStart => 3 | EUnsampled => 4 end%N.

Definition resp_out (r : response N) : xresp :=
  match r with
  | RPath p => XPath p
  | RErr e => XErr (err_code e)
  | RUnit => XUnit
  | RPanic => XPanic
  | RHang => XHang
  end.

Definition tree_out (t : list (node N)) : list (N * option N * Z) :=
  map (fun n => (st n, option_map N.of_nat (par n), bits_of (cost n))) t.
Definition rm_out (rm : list (mnode N)) : list (N * list N) :=
  map (fun m => (mst m, map N.of_nat (medges m))) rm.

Definition snap_out (s : @pstate N N N) : xsnap :=
  mkSnap (tree_out (tree s)) (tree_out (gtree s)) (rm_out (roadmap s)).

Section Run.
Variable c : xcase.
Let T := tables_of c.

Definition x_step : @pstate N N N -> @call N N -> @pstate N N N * response N :=
  let d := x_dist T in let ip := x_interp T in let l := fbits (c_lvs c) in
  let va := x_valid T in let go := x_goal T in let ss := x_starts T in
  let u := x_u64 T in let us := x_us T in let gs := x_gs T in
  let md := fbits (c_maxd c) in let bi := fbits (c_bias c) in let ra := fbits (c_radius c) in
  match c_planner c with
  | 0%N => rrt_step d ip l va go ss u us gs md bi
  | 1%N => rrtstar_step d ip l va go ss u us gs md bi ra
  | 2%N => rrtc_step d ip l va go ss u us gs md bi
  | _ => prm_step d ip l va go ss us ra
  end.

Fixpoint x_run (s : @pstate N N N) (cs : list xcall) : list (xresp * xsnap) :=
  match cs with
  | [] => []
  | cl :: cs' => let '(s1, r) := x_step s (call_of cl) in
                 (resp_out r, snap_out s1) :: x_run s1 cs'
  end.

Definition x_results : list (xresp * xsnap) := x_run (new_planner (c_seeded c)) (c_script c).
End Run.

(* ---- comparison ------------------------------------------------------------------ *)
Definition eq_optN (a b : option N) : bool :=
  match a, b with Some x, Some y => N.eqb x y | None, None => true | _, _ => false end.

Fixpoint eq_list {A} (eqA : A -> A -> bool) (l1 l2 : list A) : bool :=
  match l1, l2 with
  | [], [] => true
  | x :: l1', y :: l2' => if eqA x y then eq_list eqA l1' l2' else false
  | _, _ => false
  end.

Definition eq_resp (a b : xresp) : bool :=
  match a, b with
  | XPath p, XPath q => eq_list N.eqb p q
  | XErr e, XErr f => N.eqb e f
  | XUnit, XUnit | XPanic, XPanic | XHang, XHang => true
  | _, _ => false
  end.

Definition eq_tnode (a b : N * option N * Z) : bool :=
  let '(s1, p1, c1) := a in let '(s2, p2, c2) := b in
  N.eqb s1 s2 && eq_optN p1 p2 && Z.eqb c1 c2.
Definition eq_mnode (a b : N * list N) : bool :=
  N.eqb (fst a) (fst b) && eq_list N.eqb (snd a) (snd b).

(* difference codes: 10*call_index + field (1 response, 2 tree, 3 goal tree, 4 roadmap); 5 = length *)
Fixpoint diffs (i : N) (got want : list (xresp * xsnap)) : list N :=
  match got, want with
  | [], [] => []
  | (r1, s1) :: g', (r2, s2) :: w' =>
      (if eq_resp r1 r2 then [] else [10 * i + 1]%N) ++
      (if eq_list eq_tnode (x_tree s1) (x_tree s2) then [] else [10 * i + 2]%N) ++
      (if eq_list eq_tnode (x_gtree s1) (x_gtree s2) then [] else [10 * i + 3]%N) ++
      (if eq_list eq_mnode (x_rm s1) (x_rm s2) then [] else [10 * i + 4]%N) ++
      diffs (i + 1) g' w'
  | _, _ => [10 * i + 5]%N
  end.

Definition check_case (c : xcase) : list N := diffs 0 (x_results c) (c_expect c).
