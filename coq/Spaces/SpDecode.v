(* Decoder + evaluator for the space-level correspondence cases written by harness/src/spaces.rs.
   Glue, not model. *)
From Coq Require Import ZArith NArith List Bool Floats Uint63 PArray.
From OX Require Import Numerics.FloatBits Gen.Consts Spaces.SpacesF Planners.Exec Planners.Decode.
Import ListNotations.
Open Scope Z_scope.

Definition pf : parser F := z <- p64 ;; ret (fbits z).
Definition poptf : parser (option F) := has <- pb ;; v <- pf ;; ret (if has then Some v else None).
Definition pbounds : parser (option (list (F * F))) :=
  has <- pb ;; l <- counted (lo <- pf ;; hi <- pf ;; ret (lo, hi)) ;; ret (if has then Some l else None).

(* space description as written by the harness: constructor arguments (+ optional fraction) *)
Inductive spd :=
| DRv (dim : N) (b : option (list (F * F))) (fr : option F)
| DSo2 (b : option (F * F)) (fr : option F)
| DSo3 (b : option (F * F * F * F * F)) (fr : option F)
| DCs (l : list (spd * F))
| DSe2 (w : F) (b : option (list (F * F)))
| DSe3 (w : F) (b : option (list (F * F))).

Fixpoint p_spd (fuel : nat) : parser spd :=
  match fuel with
  | O => fun _ => None
  | S f =>
      tag <- pz ;;
      match tag with
      | 0 => dim <- pn ;; b <- pbounds ;; fr <- poptf ;; ret (DRv dim b fr)
      | 1 => has <- pb ;; lo <- pf ;; hi <- pf ;; fr <- poptf ;; ret (DSo2 (if has then Some (lo, hi) else None) fr)
      | 2 => has <- pb ;; cx <- pf ;; cy <- pf ;; cz <- pf ;; cw <- pf ;; m <- pf ;; fr <- poptf ;;
             ret (DSo3 (if has then Some (cx, cy, cz, cw, m) else None) fr)
      | 3 => l <- counted (s <- p_spd f ;; w <- pf ;; ret (s, w)) ;; ret (DCs l)
      | 4 => w <- pf ;; b <- pbounds ;; ret (DSe2 w b)
      | _ => w <- pf ;; b <- pbounds ;; ret (DSe3 w b)
      end
  end.

Fixpoint p_st (fuel : nat) : parser st :=
  match fuel with
  | O => fun _ => None
  | S f =>
      tag <- pz ;;
      match tag with
      | 0 => l <- counted pf ;; ret (VRV l)
      | 1 => v <- pf ;; ret (VSO2 v)
      | 2 => x <- pf ;; y <- pf ;; z <- pf ;; w <- pf ;; ret (VSO3 x y z w)
      | _ => l <- counted (p_st f) ;; ret (VC l)
      end
  end.

Definition res_map {A B} (f : A -> B) (r : res A) : res B :=
  match r with Ok x => Ok (f x) | Panic => Panic | Err e => Err e end.

Definition with_frac (fr : option F) (s : res space) : res space :=
  match s, fr with
  | Ok (RV d b _), Some f => Ok (RV d b (set_fraction f))
  | Ok (SO2 lo hi _), Some f => Ok (SO2 lo hi (set_fraction f))
  | Ok (SO3 a b c d m _), Some f => Ok (SO3 a b c d m (set_fraction f))
  | other, _ => other
  end.

(* the space the constructor returns *)
Fixpoint construct (d : spd) : res space :=
  match d with
  | DRv dim b fr => with_frac fr (rv_new dim b)
  | DSo2 b fr => with_frac fr (so2_new b)
  | DSo3 b fr => with_frac fr (so3_new b)
  | DCs l =>
      res_map CS
        ((fix go (l : list (spd * F)) : res (list (space * F)) :=
            match l with
            | [] => Ok []
            | (s, w) :: l' =>
                match construct s with
                | Ok sp => match go l' with Ok r => Ok ((sp, w) :: r) | Panic => Panic | Err e => Err e end
                | Panic => Panic
                | Err e => Err e
                end
            end) l)
  | DSe2 w b => se2_new w b
  | DSe3 w b => se3_new w b
  end.

(* ---- libm oracle table ---- *)
Definition libm_tab := list (Z * Z * Z).     (* fn (0 acos, 1 sin), argument bits, result bits *)
Definition lookup (tab : libm_tab) (fn : Z) (x : F) : F :=
  let k := bits_of x in
  match find (fun '(f, a, _) => (f =? fn) && (a =? k)) tab with
  | Some (_, _, r) => fbits r
  | None => nan          (* a call the implementation did not make at this argument: shows as a difference *)
  end.

(* ---- expected results ---- *)
Definition p_resF : parser (res F) :=
  tag <- pz ;; match tag with 0 => x <- pf ;; ret (Ok x) | 1 => ret Panic | _ => e <- pn ;; ret (Err e) end.
Definition p_resSt : parser (res st) :=
  tag <- pz ;; match tag with 0 => x <- p_st 8 ;; ret (Ok x) | 1 => ret Panic | _ => e <- pn ;; ret (Err e) end.
Definition p_resB : parser (res bool) :=
  tag <- pz ;; match tag with 0 => x <- pb ;; ret (Ok x) | 1 => ret Panic | _ => e <- pn ;; ret (Err e) end.

Fixpoint eq_st (a b : st) {struct a} : bool :=
  match a, b with
  | VRV x, VRV y => eq_list feqb_bits x y
  | VSO2 x, VSO2 y => feqb_bits x y
  | VSO3 a1 a2 a3 a4, VSO3 b1 b2 b3 b4 => feqb_bits a1 b1 && feqb_bits a2 b2 && feqb_bits a3 b3 && feqb_bits a4 b4
  | VC x, VC y =>
      (fix go (x y : list st) : bool :=
         match x, y with
         | [], [] => true
         | p :: x', q :: y' => eq_st p q && go x' y'
         | _, _ => false
         end) x y
  | _, _ => false
  end.

Definition eq_res {A} (eqA : A -> A -> bool) (a b : res A) : bool :=
  match a, b with
  | Ok x, Ok y => eqA x y
  | Panic, Panic => true
  | Err e, Err f => N.eqb e f
  | _, _ => false
  end.

Definition eq_bounds (a b : list (F * F)) : bool :=
  eq_list (fun p q => feqb_bits (fst p) (fst q) && feqb_bits (snd p) (snd q)) a b.

(* result codes: [] = equal; 1 = result differs; 2 = u64 consumption differs; 7 = undecodable;
   8 = the model could not construct the space the implementation constructed *)
Definition run_case (l : list Z) : list N :=
  match (op <- pz ;; tab <- counted (f <- pz ;; a <- p64 ;; r <- p64 ;; ret (f, a, r)) ;; ret (op, tab)) l with
  | None => [7%N]
  | Some ((op, tab), rest) =>
      let acosF := lookup tab 0 in
      let sinF := lookup tab 1 in
      let differs (b : bool) : list N := if b then [] else [1%N] in
      match op with
      | 0 => match (d <- p_spd 8 ;; a <- p_st 8 ;; b <- p_st 8 ;; e <- p_resF ;; ret (d, a, b, e)) rest with
             | Some ((d, a, b, e), []) =>
                 match construct d with
                 | Ok sp => differs (eq_res feqb_bits (distance acosF sp a b) e)
                 | _ => [8%N]
                 end
             | _ => [7%N]
             end
      | 1 => match (d <- p_spd 8 ;; a <- p_st 8 ;; b <- p_st 8 ;; t <- pf ;; o <- p_st 8 ;; e <- p_resSt ;; ret (d, a, b, t, o, e)) rest with
             | Some ((d, a, b, t, o, e), []) =>
                 match construct d with
                 | Ok sp => differs (eq_res eq_st (interpolate acosF sinF sp a b t o) e)
                 | _ => [8%N]
                 end
             | _ => [7%N]
             end
      | 2 => match (d <- p_spd 8 ;; a <- p_st 8 ;; e <- p_resSt ;; ret (d, a, e)) rest with
             | Some ((d, a, e), []) =>
                 match construct d with
                 | Ok sp => differs (eq_res eq_st (enforce acosF sinF sp a) e)
                 | _ => [8%N]
                 end
             | _ => [7%N]
             end
      | 3 => match (d <- p_spd 8 ;; a <- p_st 8 ;; e <- p_resB ;; ret (d, a, e)) rest with
             | Some ((d, a, e), []) =>
                 match construct d with
                 | Ok sp => differs (eq_res Bool.eqb (satisfies acosF sp a) e)
                 | _ => [8%N]
                 end
             | _ => [7%N]
             end
      | 4 => match (d <- p_spd 8 ;; e <- p_resF ;; ret (d, e)) rest with
             | Some ((d, e), []) =>
                 match construct d with
                 | Ok sp => differs (eq_res feqb_bits (Ok (lvs sp)) e)
                 | _ => [8%N]
                 end
             | _ => [7%N]
             end
      | 5 => match (d <- p_spd 8 ;; us <- counted (z <- p64 ;; ret (Z.to_N z)) ;; e <- p_resSt ;; used <- pn ;; ret (d, us, e, used)) rest with
             | Some ((d, us, e, used), []) =>
                 match construct d with
                 | Ok sp =>
                     match sample acosF 200 sp us with
                     | (Some r, rest') =>
                         differs (eq_res eq_st r e) ++
                         (if (N.of_nat (List.length us) - N.of_nat (List.length rest') =? used)%N then [] else [2%N])
                     | (None, _) => [1%N]
                     end
                 | _ => [8%N]
                 end
             | _ => [7%N]
             end
      | 6 => match (d <- p_spd 8 ;; tag <- pz ;; ret (d, tag)) rest with
             | Some ((d, tag), rest2) =>
                 match tag, construct d with
                 | 2, Err e => match pn rest2 with Some (e', []) => differs (N.eqb e e') | _ => [7%N] end
                 | 0, Ok sp =>
                     match pz rest2 with
                     | Some (0, r3) =>
                         match (dim <- pn ;; b <- counted (lo <- pf ;; hi <- pf ;; ret (lo, hi)) ;; ret (dim, b)) r3, sp with
                         | Some ((dim, b), []), RV dim' b' _ => differs ((dim =? dim')%N && eq_bounds b b')
                         | _, _ => [1%N]
                         end
                     | Some (1, r3) =>
                         match (lo <- pf ;; hi <- pf ;; ret (lo, hi)) r3, sp with
                         | Some ((lo, hi), []), SO2 lo' hi' _ => differs (feqb_bits lo lo' && feqb_bits hi hi')
                         | _, _ => [1%N]
                         end
                     | Some (2, r3) =>
                         match (cx <- pf ;; cy <- pf ;; cz <- pf ;; cw <- pf ;; m <- pf ;; ret (cx, cy, cz, cw, m)) r3, sp with
                         | Some ((cx, cy, cz, cw, m), []), SO3 a b c d m' _ =>
                             differs (feqb_bits cx a && feqb_bits cy b && feqb_bits cz c && feqb_bits cw d && feqb_bits m m')
                         | _, _ => [1%N]
                         end
                     | Some (_, []) => match sp with CS _ => [] | _ => [1%N] end
                     | _ => [7%N]
                     end
                 | _, _ => [1%N]
                 end
             | None => [7%N]
             end
      | 7 => match (v <- pf ;; e <- pf ;; ret (v, e)) rest with
             | Some ((v, e), []) => differs (feqb_bits (so2_norm v) e)
             | _ => [7%N]
             end
      | _ => match (q <- p_st 2 ;; tag <- pz ;; ret (q, tag)) rest with
             | Some ((VSO3 x y z w, tag), rest2) =>
                 match tag, so3_normalise x y z w with
                 | 0, Ok (a, b, c, d) => match p_st 2 rest2 with
                                         | Some (e, []) => differs (eq_st (VSO3 a b c d) e)
                                         | _ => [7%N]
                                         end
                 | 2, Err _ => []
                 | _, _ => [1%N]
                 end
             | _ => [7%N]
             end
      end
  end.

Definition check_space_array (a : array int) : list N := run_case (list_of_array a).
