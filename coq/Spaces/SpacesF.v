(* Executable IEEE-754 model of oxmpl's six state spaces (oxmpl/src/base/spaces/*.rs,
   states/{so2,so3}_state.rs at the repaired tree): line-by-line transcription, same operation
   order, on Coq's primitive binary64 floats.  libm's acos / sin (SO(3) only) are oracle
   functions.  MODEL ONLY: no proofs in this file. *)
From Coq Require Import ZArith NArith List Bool Floats.
From OX Require Import Numerics.FloatBits Gen.Consts.
Import ListNotations.
Open Scope float_scope.

Definition PI_f : F := fbits 4614256656552045848.        (* std::f64::consts::PI *)
Definition TWO_PI_f : F := 2 * PI_f.                      (* 2.0 * PI *)
Definition EPS_f : F := fbits 4372995238176751616.        (* f64::EPSILON = 2^-52 *)
Definition one_e9 : F := so3_small_eps.                   (* the 1e-9 of so3_state_space.rs *)

Inductive res (A : Type) := Ok (a : A) | Panic | Err (e : N).
Arguments Ok {A} a. Arguments Panic {A}. Arguments Err {A} e.

(* error codes *)
Definition E_DIM : N := 1.        (* StateSpaceError::DimensionMismatch *)
Definition E_BOUND : N := 2.      (* InvalidBound *)
Definition E_ZERODIM : N := 3.    (* ZeroDimensionUnbounded *)
Definition E_ANG : N := 4.        (* InvalidAngularDistance *)
Definition E_UNBOUNDED : N := 5.  (* StateSamplingError::UnboundedDimension *)
Definition E_ZEROVOL : N := 6.    (* ZeroVolume *)
Definition E_ZEROMAG : N := 7.    (* StateError::ZeroMagnitude *)

Inductive st := VRV (l : list F) | VSO2 (v : F) | VSO3 (x y z w : F) | VC (l : list st).

Inductive space :=
| RV (dim : N) (bounds : list (F * F)) (frac : F)
| SO2 (lo hi frac : F)
| SO3 (cx cy cz cw maxa frac : F)
| CS (subs : list (space * F)).

(* Iterator::sum::<f64>() folds from -0.0 *)
Definition fsum (l : list F) : F := fold_left (fun a b => a + b) l neg_zero.

Definition set_fraction (f : F) : F :=
  if (if fgt f zero then fle f one else false) then f else if fle f zero then zero else one.

(* ---------------- R^n ---------------- *)
Definition rv_dist (dim : N) (a b : list F) : res F :=
  if negb (N.of_nat (length a) =? dim)%N || negb (N.of_nat (length b) =? dim)%N then Panic
  else Ok (sqrt (fsum (map (fun '(x, y) => fsq (x - y)) (combine a b)))).

Definition rv_interp (dim : N) (a b : list F) (t : F) (out_len : N) : res (list F) :=
  if negb (N.of_nat (length a) =? dim)%N || negb (N.of_nat (length b) =? dim)%N || negb (out_len =? dim)%N then Panic
  else Ok (map (fun '(x, y) => x + (y - x) * t) (combine a b)).

Fixpoint rv_enforce_aux (bs : list (F * F)) (a : list F) : res (list F) :=
  match a with
  | [] => Ok []
  | x :: a' =>
      match bs with
      | [] => Ok a                      (* i >= bounds.len(): left alone *)
      | (lo, hi) :: bs' =>
          match fclamp x lo hi with
          | None => Panic
          | Some y => match rv_enforce_aux bs' a' with Ok r => Ok (y :: r) | Panic => Panic | Err e => Err e end
          end
      end
  end.
Definition rv_enforce (dim : N) (bs : list (F * F)) (a : list F) : res (list F) :=
  if negb (N.of_nat (length a) =? dim)%N then Panic else rv_enforce_aux bs a.

Fixpoint rv_satisfies_aux (n : nat) (bs : list (F * F)) (a : list F) : res bool :=
  match n with
  | O => Ok true
  | Datatypes.S n' =>
      match bs, a with
      | (lo, hi) :: bs', x :: a' =>
          if (if fgt (x - EPS_f) hi then true else flt (x + EPS_f) lo) then Ok false
          else rv_satisfies_aux n' bs' a'
      | _, _ => Panic                   (* bounds[i] / values[i] out of range *)
      end
  end.
Definition rv_satisfies (dim : N) (bs : list (F * F)) (a : list F) : res bool :=
  if negb (N.of_nat (length a) =? dim)%N then Panic else rv_satisfies_aux (N.to_nat dim) bs a.

Definition rv_extent (bs : list (F * F)) : F :=
  if existsb (fun '(lo, hi) => negb (fis_finite lo) || negb (fis_finite hi)) bs then one
  else sqrt (fsum (map (fun '(lo, hi) => fsq (hi - lo)) bs)).

(* rand 0.9.1 random_range(lo..hi) for f64 from one u64 *)
Definition u01_12 (u : N) : F :=       (* (u >> 12) into the mantissa of [1,2), minus 1 *)
  fbits (Z.of_N (N.shiftr u 12) + 4607182418800017408) - 1.
Definition rand_range (u : N) (lo hi : F) : res F :=
  if negb (flt lo hi) then Panic                         (* assert!(!range.is_empty()) *)
  else let scale := hi - lo in
       if negb (fis_finite lo) || negb (fis_finite hi) || negb (fis_finite scale) then Panic   (* .unwrap() of Err(NonFinite) *)
       else Ok (u01_12 u * scale + lo).

Fixpoint rv_sample_aux (n : nat) (i : N) (bs : list (F * F)) (us : list N) : res (list F) * list N :=
  match n with
  | O => (Ok [], us)
  | Datatypes.S n' =>
      match bs with
      | [] => (Panic, us)
      | (lo, hi) :: bs' =>
          if negb (fis_finite lo) || negb (fis_finite hi) then (Err E_UNBOUNDED, us)
          else if fge lo hi then (Err E_ZEROVOL, us)
          else match us with
               | [] => (Panic, us)     (* stream exhausted: not produced by the harness *)
               | u :: us' =>
                   match rand_range u lo hi with
                   | Ok x => match rv_sample_aux n' (i + 1)%N bs' us' with
                             | (Ok r, rest) => (Ok (x :: r), rest)
                             | other => other
                             end
                   | Panic => (Panic, us)      (* the range is rejected before anything is drawn *)
                   | Err e => (Err e, us)
                   end
               end
      end
  end.

Definition rv_new (dim : N) (bounds : option (list (F * F))) : res space :=
  match bounds with
  | Some bs =>
      if negb (N.of_nat (length bs) =? dim)%N then Err E_DIM
      else if existsb (fun '(lo, hi) => fge lo hi || fis_nan lo || fis_nan hi) bs then Err E_BOUND
      else Ok (RV dim bs default_fraction)
  | None =>
      if (dim =? 0)%N then Err E_ZERODIM
      else Ok (RV dim (repeat (neg_infinity, infinity) (N.to_nat dim)) default_fraction)
  end.

(* ---------------- SO(2) ---------------- *)
Definition so2_norm (v : F) : F := frem_euclid (v + PI_f) TWO_PI_f - PI_f.   (* SO2State::new / normalise *)

Definition so2_dist (a b : F) : F := abs (frem_euclid ((a - b) + PI_f) TWO_PI_f - PI_f).

Definition so2_interp (a b t : F) : F :=
  let d := so2_norm b - so2_norm a in
  let d := if fgt d PI_f then d - TWO_PI_f else if flt d (- PI_f) then d + TWO_PI_f else d in
  so2_norm (a + d * t).

Definition so2_satisfies (lo hi v : F) : bool :=
  let x := so2_norm v in if fge x lo then fle x hi else false.

Definition so2_enforce (lo hi v : F) : F :=
  let s := so2_norm v in
  if so2_satisfies lo hi s then s
  else if flt (so2_dist lo s) (so2_dist hi s) then lo else hi.

Definition so2_new (bounds : option (F * F)) : res space :=
  let '(lo, hi) := match bounds with Some b => b | None => (- PI_f, PI_f) end in
  if fge lo hi then Err E_BOUND
  else let clo := fmax lo (- PI_f) in let chi := fmin hi PI_f in
       if fge clo chi then Err E_BOUND else Ok (SO2 clo chi default_fraction).

(* ---------------- SO(3) ---------------- *)
Section SO3.
Variable acosF sinF : F -> F.

Definition q_dot (ax ay az aw bx by_ bz bw : F) : F := ax * bx + ay * by_ + az * bz + aw * bw.

Definition so3_dist (ax ay az aw bx by_ bz bw : F) : F :=
  2 * acosF (fmin (abs (q_dot ax ay az aw bx by_ bz bw)) 1).

Definition so3_interp (ax ay az aw bx by_ bz bw t : F) : F * F * F * F :=
  let dot := q_dot ax ay az aw bx by_ bz bw in
  let sign := if flt dot zero then (-1) else 1 in
  let dot := dot * sign in
  if fgt dot dot_threshold then
    let x := ax + t * (bx * sign - ax) in
    let y := ay + t * (by_ * sign - ay) in
    let z := az + t * (bz * sign - az) in
    let w := aw + t * (bw * sign - aw) in
    let norm := sqrt (fsq x + fsq y + fsq z + fsq w) in
    (x / norm, y / norm, z / norm, w / norm)
  else
    let theta := acosF dot in
    let sin_theta := sinF theta in
    let s0 := sinF ((1 - t) * theta) / sin_theta in
    let s1 := sinF (t * theta) / sin_theta * sign in
    (ax * s0 + bx * s1, ay * s0 + by_ * s1, az * s0 + bz * s1, aw * s0 + bw * s1).

Definition so3_normalise (x y z w : F) : res (F * F * F * F) :=
  let norm := sqrt (fsq x + fsq y + fsq z + fsq w) in
  if flt norm zero_norm_eps then Err E_ZEROMAG else Ok (x / norm, y / norm, z / norm, w / norm).

Definition so3_satisfies (cx cy cz cw maxa x y z w : F) : bool :=
  fle (so3_dist cx cy cz cw x y z w) maxa.

Definition so3_enforce (cx cy cz cw maxa x y z w : F) : F * F * F * F :=
  let '(x, y, z, w) := match so3_normalise x y z w with Ok q => q | _ => (zero, zero, zero, one) end in
  if so3_satisfies cx cy cz cw maxa x y z w then (x, y, z, w)
  else
    let d := so3_dist cx cy cz cw x y z w in
    if flt d one_e9 then (x, y, z, w)
    else so3_interp cx cy cz cw x y z w (maxa / d).

Definition so3_new (bounds : option (F * F * F * F * F)) : res space :=
  match bounds with
  | Some (cx, cy, cz, cw, maxa) =>
      if flt maxa zero then Err E_ANG else Ok (SO3 cx cy cz cw (fmin maxa PI_f) default_fraction)
  | None => Ok (SO3 zero zero zero one PI_f default_fraction)
  end.

(* rejection sampling; fuel bounds the number of rounds (None = out of fuel) *)
Fixpoint so3_sample (fuel : nat) (cx cy cz cw maxa : F) (us : list N) : option (res (F * F * F * F)) * list N :=
  match fuel with
  | O => (None, us)
  | Datatypes.S f =>
      match us with
      | u1 :: u2 :: u3 :: u4 :: us' =>
          match rand_range u1 (-1) 1, rand_range u2 (-1) 1, rand_range u3 (-1) 1, rand_range u4 (-1) 1 with
          | Ok x, Ok y, Ok z, Ok w =>
              let n2 := x * x + y * y + z * z + w * w in
              if (if fgt n2 one_e9 then flt n2 one else false) then
                let n := sqrt n2 in
                let '(qx, qy, qz, qw) := (x / n, y / n, z / n, w / n) in
                if fle (so3_dist cx cy cz cw qx qy qz qw) maxa then (Some (Ok (qx, qy, qz, qw)), us')
                else so3_sample f cx cy cz cw maxa us'
              else so3_sample f cx cy cz cw maxa us'
          | _, _, _, _ => (Some Panic, us')
          end
      | _ => (None, us)
      end
  end.

(* ---------------- generic dispatch over the space tree ---------------- *)
Fixpoint distance (sp : space) (a b : st) {struct sp} : res F :=
  match sp, a, b with
  | RV dim _ _, VRV x, VRV y => rv_dist dim x y
  | SO2 _ _ _, VSO2 x, VSO2 y => Ok (so2_dist x y)
  | SO3 _ _ _ _ _ _, VSO3 ax ay az aw, VSO3 bx by_ bz bw => Ok (so3_dist ax ay az aw bx by_ bz bw)
  | CS subs, VC xs, VC ys =>
      (fix go (subs : list (space * F)) (xs ys : list st) (acc : F) {struct subs} : res F :=
         match subs with
         | [] => Ok (sqrt acc)
         | (s, w) :: subs' =>
             match xs, ys with
             | x :: xs', y :: ys' =>
                 match distance s x y with
                 | Ok d => go subs' xs' ys' (acc + fsq (d * w))
                 | other => other
                 end
             | _, _ => Panic                (* components[i] out of range *)
             end
         end) subs xs ys zero
  | _, _, _ => Panic                         (* downcast unwrap *)
  end.

Fixpoint interpolate (sp : space) (a b : st) (t : F) (out : st) {struct sp} : res st :=
  match sp, a, b, out with
  | RV dim _ _, VRV x, VRV y, VRV o =>
      match rv_interp dim x y t (N.of_nat (length o)) with Ok r => Ok (VRV r) | Panic => Panic | Err e => Err e end
  | SO2 _ _ _, VSO2 x, VSO2 y, VSO2 _ => Ok (VSO2 (so2_interp x y t))
  | SO3 _ _ _ _ _ _, VSO3 ax ay az aw, VSO3 bx by_ bz bw, VSO3 _ _ _ _ =>
      let '(x, y, z, w) := so3_interp ax ay az aw bx by_ bz bw t in Ok (VSO3 x y z w)
  | CS subs, VC xs, VC ys, VC os =>
      match (fix go (subs : list (space * F)) (xs ys os : list st) {struct subs} : res (list st) :=
         match subs with
         | [] => Ok os       (* components beyond the subspaces are left untouched *)
         | (s, _) :: subs' =>
             match xs, ys, os with
             | x :: xs', y :: ys', o :: os' =>
                 match interpolate s x y t o with
                 | Ok r => match go subs' xs' ys' os' with Ok rs => Ok (r :: rs) | other => other end
                 | Panic => Panic
                 | Err e => Err e
                 end
             | _, _, _ => Panic
             end
         end) subs xs ys os with
      | Ok l => Ok (VC l) | Panic => Panic | Err e => Err e
      end
  | _, _, _, _ => Panic
  end.

Fixpoint satisfies (sp : space) (a : st) {struct sp} : res bool :=
  match sp, a with
  | RV dim bs _, VRV x => rv_satisfies dim bs x
  | SO2 lo hi _, VSO2 x => Ok (so2_satisfies lo hi x)
  | SO3 cx cy cz cw maxa _, VSO3 x y z w => Ok (so3_satisfies cx cy cz cw maxa x y z w)
  | CS subs, VC xs =>
      (fix go (subs : list (space * F)) (xs : list st) {struct subs} : res bool :=
         match subs with
         | [] => Ok true
         | (s, _) :: subs' =>
             match xs with
             | x :: xs' =>
                 match satisfies s x with
                 | Ok true => go subs' xs'
                 | other => other
                 end
             | [] => Panic
             end
         end) subs xs
  | _, _ => Panic
  end.

Fixpoint enforce (sp : space) (a : st) {struct sp} : res st :=
  match sp, a with
  | RV dim bs _, VRV x => match rv_enforce dim bs x with Ok r => Ok (VRV r) | Panic => Panic | Err e => Err e end
  | SO2 lo hi _, VSO2 x => Ok (VSO2 (so2_enforce lo hi x))
  | SO3 cx cy cz cw maxa _, VSO3 x y z w =>
      let '(a1, a2, a3, a4) := so3_enforce cx cy cz cw maxa x y z w in Ok (VSO3 a1 a2 a3 a4)
  | CS subs, VC xs =>
      match (fix go (subs : list (space * F)) (xs : list st) {struct subs} : res (list st) :=
         match subs with
         | [] => Ok xs
         | (s, _) :: subs' =>
             match xs with
             | x :: xs' =>
                 match enforce s x with
                 | Ok r => match go subs' xs' with Ok rs => Ok (r :: rs) | other => other end
                 | Panic => Panic
                 | Err e => Err e
                 end
             | [] => Panic
             end
         end) subs xs with
      | Ok l => Ok (VC l) | Panic => Panic | Err e => Err e
      end
  | _, _ => Panic
  end.

Fixpoint lvs (sp : space) : F :=
  match sp with
  | RV _ bs frac => rv_extent bs * frac
  | SO2 _ _ frac => PI_f * frac
  | SO3 _ _ _ _ _ frac => (so3_extent_factor * PI_f) * frac
  | CS subs =>
      sqrt ((fix go (subs : list (space * F)) (acc : F) {struct subs} : F :=
               match subs with
               | [] => acc
               | (s, w) :: subs' => go subs' (acc + fsq (lvs s * w))
               end) subs zero)
  end.

(* sample_uniform from a stream of u64s: result (None = the rejection loop ran out of fuel) and the rest *)
Fixpoint sample (fuel : nat) (sp : space) (us : list N) {struct sp} : option (res st) * list N :=
  match sp with
  | RV dim bs _ =>
      match rv_sample_aux (N.to_nat dim) 0 bs us with
      | (Ok l, rest) => (Some (Ok (VRV l)), rest)
      | (Panic, rest) => (Some Panic, rest)
      | (Err e, rest) => (Some (Err e), rest)
      end
  | SO2 lo hi _ =>
      match us with
      | u :: us' => match rand_range u lo hi with
                    | Ok x => (Some (Ok (VSO2 x)), us')
                    | Panic => (Some Panic, us)
                    | Err e => (Some (Err e), us)
                    end
      | [] => (None, us)
      end
  | SO3 cx cy cz cw maxa _ =>
      if flt maxa one_e9 then (Some (Ok (VSO3 cx cy cz cw)), us)
      else match so3_sample fuel cx cy cz cw maxa us with
           | (Some (Ok (x, y, z, w)), rest) => (Some (Ok (VSO3 x y z w)), rest)
           | (Some Panic, rest) => (Some Panic, rest)
           | (Some (Err e), rest) => (Some (Err e), rest)
           | (None, rest) => (None, rest)
           end
  | CS subs =>
      match (fix go (subs : list (space * F)) (us : list N) {struct subs} : option (res (list st)) * list N :=
         match subs with
         | [] => (Some (Ok []), us)
         | (s, _) :: subs' =>
             match sample fuel s us with
             | (Some (Ok x), rest) =>
                 match go subs' rest with
                 | (Some (Ok xs), rest') => (Some (Ok (x :: xs)), rest')
                 | other => other
                 end
             | (Some Panic, rest) => (Some Panic, rest)
             | (Some (Err e), rest) => (Some (Err e), rest)
             | (None, rest) => (None, rest)
             end
         end) subs us with
      | (Some (Ok l), rest) => (Some (Ok (VC l)), rest)
      | (Some Panic, rest) => (Some Panic, rest)
      | (Some (Err e), rest) => (Some (Err e), rest)
      | (None, rest) => (None, rest)
      end
  end.

End SO3.

(* SE(2) / SE(3) are compounds with weights (1, w) *)
Definition se2_new (w : F) (bounds : option (list (F * F))) : res space :=
  match bounds with
  | Some bs =>
      match bs with
      | [b0; b1; b2] =>
          match rv_new 2 (Some [b0; b1]) with
          | Ok r2 => match so2_new (Some b2) with Ok s2 => Ok (CS [(r2, one); (s2, w)]) | Panic => Panic | Err e => Err e end
          | Panic => Panic | Err e => Err e
          end
      | _ => Err E_DIM
      end
  | None =>
      match rv_new 2 None, so2_new None with
      | Ok r2, Ok s2 => Ok (CS [(r2, one); (s2, w)])
      | Err e, _ | _, Err e => Err e
      | _, _ => Panic
      end
  end.

Definition se3_new (w : F) (bounds : option (list (F * F))) : res space :=
  match bounds with
  | Some bs =>
      match bs with
      | [b0; b1; b2] =>
          match rv_new 3 (Some [b0; b1; b2]) with
          | Ok r3 => Ok (CS [(r3, one); (SO3 zero zero zero one PI_f default_fraction, w)])
          | Panic => Panic | Err e => Err e
          end
      | _ => Err E_DIM
      end
  | None =>
      match rv_new 3 None with
      | Ok r3 => Ok (CS [(r3, one); (SO3 zero zero zero one PI_f default_fraction, w)])
      | Panic => Panic | Err e => Err e
      end
  end.
