(* Real-number model of oxmpl's state spaces (distance and interpolation), on which the
   metric / geodesic theorems of C09, C10, C13 (and the space laws used by C03-C05) are
   stated.  Definitions only. *)
From Coq Require Import Reals List.
Import ListNotations.
Open Scope R_scope.

(* ---------------- R^n ---------------- *)
Fixpoint sumsq (a b : list R) : R :=
  match a, b with
  | x :: a', y :: b' => (x - y) * (x - y) + sumsq a' b'
  | _, _ => 0
  end.
Definition rv_dist (a b : list R) : R := sqrt (sumsq a b).

Fixpoint rv_interp (a b : list R) (t : R) : list R :=
  match a, b with
  | x :: a', y :: b' => (x + (y - x) * t) :: rv_interp a' b' t
  | _, _ => []
  end.

(* box bounds: componentwise lo <= x <= hi *)
Fixpoint rv_in_box (bs : list (R * R)) (a : list R) : Prop :=
  match bs, a with
  | (lo, hi) :: bs', x :: a' => lo <= x <= hi /\ rv_in_box bs' a'
  | [], [] => True
  | _, _ => False
  end.

(* ---------------- SO(2) ---------------- *)
(* floor *)
Definition Rfloor (x : R) : Z := (up x - 1)%Z.
(* (x + PI).rem_euclid(2 PI) - PI : the representative of x in [-PI, PI) *)
Definition wrap (x : R) : R := x - 2 * PI * IZR (Rfloor ((x + PI) / (2 * PI))).

Definition so2_dist (a b : R) : R := Rabs (wrap (a - b)).

Definition so2_diff (a b : R) : R :=
  let d := wrap b - wrap a in
  if Rlt_dec PI d then d - 2 * PI else if Rlt_dec d (- PI) then d + 2 * PI else d.

Definition so2_interp (a b t : R) : R := wrap (a + so2_diff a b * t).

(* bounds (lo, hi) with -PI <= lo < hi <= PI : the check normalises first *)
Definition so2_in (lo hi x : R) : Prop := lo <= wrap x <= hi.

(* ---------------- SO(3) ---------------- *)
Record quat := mkQ { qx : R; qy : R; qz : R; qw : R }.
Definition qdot (p q : quat) : R := qx p * qx q + qy p * qy q + qz p * qz q + qw p * qw q.
Definition qunit (p : quat) : Prop := qdot p p = 1.
Definition qneg (p : quat) : quat := mkQ (- qx p) (- qy p) (- qz p) (- qw p).
Definition qscale (s : R) (p : quat) : quat := mkQ (s * qx p) (s * qy p) (s * qz p) (s * qw p).
Definition qadd (p q : quat) : quat := mkQ (qx p + qx q) (qy p + qy q) (qz p + qz q) (qw p + qw q).

Definition so3_dist (p q : quat) : R := 2 * acos (Rmin (Rabs (qdot p q)) 1).

(* SLERP branch of interpolate (dot <= DOT_THRESHOLD after the sign flip) *)
Definition so3_sign (p q : quat) : R := if Rlt_dec (qdot p q) 0 then -1 else 1.
Definition so3_slerp (p q : quat) (t : R) : quat :=
  let sg := so3_sign p q in
  let th := acos (qdot p q * sg) in
  let s0 := sin ((1 - t) * th) / sin th in
  let s1 := sin (t * th) / sin th * sg in
  qadd (qscale s0 p) (qscale s1 q).

(* normalised-LERP branch (dot > DOT_THRESHOLD) *)
Definition so3_nlerp (p q : quat) (t : R) : quat :=
  let sg := so3_sign p q in
  let l := qadd p (qscale t (qadd (qscale sg q) (qneg p))) in
  qscale (/ sqrt (qdot l l)) l.

(* ---------------- compound: weighted l2 of component distances ---------------- *)
Fixpoint wsumsq (w d : list R) : R :=
  match w, d with
  | wi :: w', di :: d' => (di * wi) * (di * wi) + wsumsq w' d'
  | _, _ => 0
  end.
Definition cmp_dist (w d : list R) : R := sqrt (wsumsq w d).
