(* Metric / geodesic laws for the R^n model and the compound (weighted l2) distance. *)
From Coq Require Import Reals List Lra Lia Psatz.
From OX Require Import Spaces.SpacesR.
Import ListNotations.
Open Scope R_scope.

(* ------------------------------------------------------------------ *)
(* generic helpers                                                     *)
(* ------------------------------------------------------------------ *)

Lemma sq_nonneg : forall x, 0 <= x * x.
Proof. intro x. pose proof (Rle_0_sqr x) as H. unfold Rsqr in H. exact H. Qed.

Lemma sqrt_sq_scale : forall t S, 0 <= t -> sqrt (t * t * S) = t * sqrt S.
Proof.
  intros t S Ht.
  rewrite sqrt_mult_alt by apply sq_nonneg.
  rewrite sqrt_square by exact Ht.
  reflexivity.
Qed.

(* Cauchy-Schwarz in the plane, square-root form *)
Lemma cs2 : forall x y u v s r,
  0 <= s -> 0 <= r -> s * s = x * x + u * u -> r * r = y * y + v * v ->
  x * y + u * v <= s * r.
Proof.
  intros x y u v s r Hs Hr Hss Hrr.
  destruct (Rle_or_lt (x * y + u * v) (s * r)) as [Hle | Hlt]; [exact Hle | exfalso].
  assert (Hsr : 0 <= s * r) by (apply Rmult_le_pos; assumption).
  assert (Hsq : (s * r) * (s * r) < (x * y + u * v) * (x * y + u * v)).
  { apply Rmult_le_0_lt_compat; lra. }
  assert (Heq : (s * r) * (s * r) = (x * x + u * u) * (y * y + v * v)).
  { rewrite <- Hss, <- Hrr. ring. }
  pose proof (sq_nonneg (x * v - u * y)) as Hd.
  assert (Hid : (x * x + u * u) * (y * y + v * v)
                = (x * y + u * v) * (x * y + u * v) + (x * v - u * y) * (x * v - u * y)) by ring.
  lra.
Qed.

(* one Minkowski step: the induction step of every triangle inequality below *)
Lemma mink_step : forall A B C x y,
  0 <= A -> 0 <= B -> 0 <= C ->
  sqrt C <= sqrt A + sqrt B ->
  sqrt ((x + y) * (x + y) + C) <= sqrt (x * x + A) + sqrt (y * y + B).
Proof.
  intros A B C x y HA HB HC Hc.
  set (u := sqrt A). set (v := sqrt B).
  assert (Hu : 0 <= u) by apply sqrt_pos.
  assert (Hv : 0 <= v) by apply sqrt_pos.
  assert (Huu : u * u = A) by (apply sqrt_sqrt; exact HA).
  assert (Hvv : v * v = B) by (apply sqrt_sqrt; exact HB).
  assert (HCle : C <= (u + v) * (u + v)).
  { rewrite <- (sqrt_sqrt C HC).
    pose proof (sqrt_pos C) as Hc0.
    apply Rmult_le_compat; try assumption; fold u v in Hc; exact Hc. }
  pose proof (sq_nonneg x) as Hxx. pose proof (sq_nonneg y) as Hyy.
  set (s := sqrt (x * x + A)). set (r := sqrt (y * y + B)).
  assert (Hs : 0 <= s) by apply sqrt_pos.
  assert (Hr : 0 <= r) by apply sqrt_pos.
  assert (Hss : s * s = x * x + u * u).
  { unfold s. rewrite sqrt_sqrt by lra. lra. }
  assert (Hrr : r * r = y * y + v * v).
  { unfold r. rewrite sqrt_sqrt by lra. lra. }
  pose proof (cs2 x y u v s r Hs Hr Hss Hrr) as Hcs.
  assert (Hle : (x + y) * (x + y) + C <= (s + r) * (s + r)).
  { assert (E1 : (s + r) * (s + r) = s * s + r * r + 2 * (s * r)) by ring.
    assert (E2 : (x + y) * (x + y) = x * x + y * y + 2 * (x * y)) by ring.
    assert (E3 : (u + v) * (u + v) = u * u + v * v + 2 * (u * v)) by ring.
    lra. }
  rewrite <- (sqrt_square (s + r)) by lra.
  apply sqrt_le_1_alt. exact Hle.
Qed.

(* ------------------------------------------------------------------ *)
(* R^n                                                                 *)
(* ------------------------------------------------------------------ *)

Lemma sumsq_nonneg : forall a b, 0 <= sumsq a b.
Proof.
  induction a as [| x a IH]; intros b; simpl.
  - lra.
  - destruct b as [| y b]; [lra |].
    pose proof (sq_nonneg (x - y)) as H. pose proof (IH b) as H'. lra.
Qed.

Theorem rv_dist_nonneg : forall a b, 0 <= rv_dist a b.
Proof. intros a b. unfold rv_dist. apply sqrt_pos. Qed.

Lemma sumsq_refl : forall a, sumsq a a = 0.
Proof.
  induction a as [| x a IH]; simpl; [reflexivity |].
  rewrite IH. ring.
Qed.

Theorem rv_dist_refl : forall a, rv_dist a a = 0.
Proof. intro a. unfold rv_dist. rewrite sumsq_refl. apply sqrt_0. Qed.

Lemma sumsq_sym : forall a b, sumsq a b = sumsq b a.
Proof.
  induction a as [| x a IH]; intros b; destruct b as [| y b]; simpl; try reflexivity.
  rewrite (IH b). ring.
Qed.

Theorem rv_dist_sym : forall a b, rv_dist a b = rv_dist b a.
Proof. intros a b. unfold rv_dist. rewrite sumsq_sym. reflexivity. Qed.

Lemma sumsq_zero_eq : forall a b, length a = length b -> sumsq a b = 0 -> a = b.
Proof.
  induction a as [| x a IH]; intros b Hlen Hz; destruct b as [| y b]; simpl in *;
    try discriminate; [reflexivity |].
  injection Hlen as Hlen.
  pose proof (sq_nonneg (x - y)) as H1. pose proof (sumsq_nonneg a b) as H2.
  assert (Hxy : (x - y) * (x - y) = 0) by lra.
  assert (Hs : sumsq a b = 0) by lra.
  assert (Exy : x = y).
  { apply Rmult_integral in Hxy. destruct Hxy as [Hxy | Hxy]; lra. }
  rewrite Exy. f_equal. apply IH; assumption.
Qed.

Theorem rv_dist_zero_eq : forall a b, length a = length b -> rv_dist a b = 0 -> a = b.
Proof.
  intros a b Hlen Hd. unfold rv_dist in Hd.
  apply sumsq_zero_eq; [exact Hlen |].
  apply sqrt_eq_0; [apply sumsq_nonneg | exact Hd].
Qed.

Theorem rv_dist_triangle : forall a b c, length a = length b -> length b = length c ->
  rv_dist a c <= rv_dist a b + rv_dist b c.
Proof.
  unfold rv_dist.
  induction a as [| x a IH]; intros b c Hab Hbc.
  - simpl. rewrite sqrt_0.
    pose proof (sqrt_pos (sumsq b c)) as H. lra.
  - destruct b as [| y b]; [simpl in Hab; discriminate |].
    destruct c as [| z c]; [simpl in Hbc; discriminate |].
    simpl in Hab, Hbc. injection Hab as Hab. injection Hbc as Hbc.
    simpl.
    replace ((x - z) * (x - z)) with (((x - y) + (y - z)) * ((x - y) + (y - z))) by ring.
    apply mink_step; try apply sumsq_nonneg.
    apply IH; assumption.
Qed.

Theorem rv_interp_0 : forall a b, length a = length b -> rv_interp a b 0 = a.
Proof.
  induction a as [| x a IH]; intros b Hlen; destruct b as [| y b]; simpl in *;
    try discriminate; [reflexivity |].
  injection Hlen as Hlen. rewrite (IH b Hlen). f_equal. ring.
Qed.

Theorem rv_interp_1 : forall a b, length a = length b -> rv_interp a b 1 = b.
Proof.
  induction a as [| x a IH]; intros b Hlen; destruct b as [| y b]; simpl in *;
    try discriminate; [reflexivity |].
  injection Hlen as Hlen. rewrite (IH b Hlen). f_equal. ring.
Qed.

Theorem rv_interp_length : forall a b t, length a = length b ->
  length (rv_interp a b t) = length a.
Proof.
  induction a as [| x a IH]; intros b t Hlen; destruct b as [| y b]; simpl in *;
    try discriminate; [reflexivity |].
  injection Hlen as Hlen. rewrite (IH b t Hlen). reflexivity.
Qed.

Lemma sumsq_interp_interp : forall a b s t,
  sumsq (rv_interp a b s) (rv_interp a b t) = (t - s) * (t - s) * sumsq a b.
Proof.
  induction a as [| x a IH]; intros b s t; destruct b as [| y b]; simpl; try ring.
  rewrite (IH b s t). ring.
Qed.

Lemma sumsq_interp_from : forall a b t,
  sumsq a (rv_interp a b t) = t * t * sumsq a b.
Proof.
  induction a as [| x a IH]; intros b t; destruct b as [| y b]; simpl; try ring.
  rewrite (IH b t). ring.
Qed.

Lemma sumsq_interp_to : forall a b t,
  sumsq (rv_interp a b t) b = (1 - t) * (1 - t) * sumsq a b.
Proof.
  induction a as [| x a IH]; intros b t; destruct b as [| y b]; simpl; try ring.
  rewrite (IH b t). ring.
Qed.

Theorem rv_interp_dist_from : forall a b t, length a = length b -> 0 <= t ->
  rv_dist a (rv_interp a b t) = t * rv_dist a b.
Proof.
  intros a b t _ Ht. unfold rv_dist.
  rewrite sumsq_interp_from. apply sqrt_sq_scale. exact Ht.
Qed.

Theorem rv_interp_dist_to : forall a b t, length a = length b -> t <= 1 ->
  rv_dist (rv_interp a b t) b = (1 - t) * rv_dist a b.
Proof.
  intros a b t _ Ht. unfold rv_dist.
  rewrite sumsq_interp_to. apply sqrt_sq_scale. lra.
Qed.

Theorem rv_interp_reverse : forall a b t, length a = length b ->
  rv_interp b a (1 - t) = rv_interp a b t.
Proof.
  induction a as [| x a IH]; intros b t Hlen; destruct b as [| y b]; simpl in *;
    try discriminate; [reflexivity |].
  injection Hlen as Hlen. rewrite (IH b t Hlen). f_equal. ring.
Qed.

Theorem rv_box_convex : forall bs a b t, rv_in_box bs a -> rv_in_box bs b -> 0 <= t <= 1 ->
  rv_in_box bs (rv_interp a b t).
Proof.
  induction bs as [| [lo hi] bs IH]; intros a b t Ha Hb Ht.
  - destruct a as [| x a]; simpl in Ha; [| contradiction].
    simpl. exact I.
  - destruct a as [| x a]; simpl in Ha; [contradiction |].
    destruct b as [| y b]; simpl in Hb; [contradiction |].
    destruct Ha as [[Hx1 Hx2] Ha]. destruct Hb as [[Hy1 Hy2] Hb].
    destruct Ht as [Ht0 Ht1].
    simpl. split.
    + assert (E : x + (y - x) * t = (1 - t) * x + t * y) by ring.
      rewrite E.
      assert (H1t : 0 <= 1 - t) by lra.
      pose proof (Rmult_le_compat_l (1 - t) lo x H1t Hx1) as P1.
      pose proof (Rmult_le_compat_l (1 - t) x hi H1t Hx2) as P2.
      pose proof (Rmult_le_compat_l t lo y Ht0 Hy1) as P3.
      pose proof (Rmult_le_compat_l t y hi Ht0 Hy2) as P4.
      assert (E1 : (1 - t) * lo + t * lo = lo) by ring.
      assert (E2 : (1 - t) * hi + t * hi = hi) by ring.
      split; lra.
    + apply IH; [exact Ha | exact Hb | split; assumption].
Qed.

Theorem rv_points_spacing : forall a b s t, length a = length b -> s <= t ->
  rv_dist (rv_interp a b s) (rv_interp a b t) = (t - s) * rv_dist a b.
Proof.
  intros a b s t _ Hst. unfold rv_dist.
  rewrite sumsq_interp_interp. apply sqrt_sq_scale. lra.
Qed.

(* ------------------------------------------------------------------ *)
(* compound                                                            *)
(* ------------------------------------------------------------------ *)

Lemma wsumsq_nonneg : forall w d, 0 <= wsumsq w d.
Proof.
  induction w as [| wi w IH]; intros d; simpl.
  - lra.
  - destruct d as [| di d]; [lra |].
    pose proof (sq_nonneg (di * wi)) as H. pose proof (IH d) as H'. lra.
Qed.

Theorem cmp_dist_nonneg : forall w d, 0 <= cmp_dist w d.
Proof. intros w d. unfold cmp_dist. apply sqrt_pos. Qed.

Lemma wsumsq_zero : forall w d, Forall (fun x => x = 0) d -> wsumsq w d = 0.
Proof.
  induction w as [| wi w IH]; intros d Hd; simpl; [reflexivity |].
  destruct d as [| di d]; [reflexivity |].
  inversion Hd as [| ? ? Hdi Hd']; subst.
  rewrite (IH d Hd'). ring.
Qed.

Theorem cmp_dist_zero : forall w d, Forall (fun x => x = 0) d -> cmp_dist w d = 0.
Proof. intros w d Hd. unfold cmp_dist. rewrite wsumsq_zero by exact Hd. apply sqrt_0. Qed.

Theorem cmp_dist_triangle : forall w x y z,
  length w = length x -> length x = length y -> length y = length z ->
  Forall (fun wi => 0 <= wi) w ->
  Forall (fun v => 0 <= v) x -> Forall (fun v => 0 <= v) y -> Forall (fun v => 0 <= v) z ->
  Forall2 (fun zi xy => zi <= fst xy + snd xy) z (combine x y) ->
  cmp_dist w z <= cmp_dist w x + cmp_dist w y.
Proof.
  unfold cmp_dist.
  induction w as [| wi w IH]; intros x y z Hwx Hxy Hyz Hw Hx Hy Hz Hle.
  - simpl. rewrite sqrt_0. lra.
  - destruct x as [| xi x]; [simpl in Hwx; discriminate |].
    destruct y as [| yi y]; [simpl in Hxy; discriminate |].
    destruct z as [| zi z]; [simpl in Hyz; discriminate |].
    simpl in Hwx, Hxy, Hyz.
    injection Hwx as Hwx. injection Hxy as Hxy. injection Hyz as Hyz.
    inversion Hw as [| ? ? Hwi Hw']; subst.
    inversion Hx as [| ? ? Hxi Hx']; subst.
    inversion Hy as [| ? ? Hyi Hy']; subst.
    inversion Hz as [| ? ? Hzi Hz']; subst.
    simpl in Hle.
    inversion Hle as [| ? ? ? ? Hle1 Hle']; subst.
    simpl in Hle1.
    simpl.
    pose proof (IH x y z Hwx Hxy Hyz Hw' Hx' Hy' Hz' Hle') as HI.
    apply Rle_trans with
      (sqrt ((xi * wi + yi * wi) * (xi * wi + yi * wi) + wsumsq w z)).
    + apply sqrt_le_1_alt.
      apply Rplus_le_compat_r.
      assert (H0 : 0 <= zi * wi) by (apply Rmult_le_pos; assumption).
      assert (H1 : zi * wi <= xi * wi + yi * wi).
      { replace (xi * wi + yi * wi) with ((xi + yi) * wi) by ring.
        apply Rmult_le_compat_r; assumption. }
      apply Rmult_le_compat; assumption.
    + apply mink_step; try apply wsumsq_nonneg. exact HI.
Qed.

Lemma wsumsq_scale : forall w d t,
  wsumsq w (map (fun x => t * x) d) = t * t * wsumsq w d.
Proof.
  induction w as [| wi w IH]; intros d t; simpl; [ring |].
  destruct d as [| di d]; simpl; [ring |].
  rewrite (IH d t). ring.
Qed.

Theorem cmp_dist_scale : forall w d t, 0 <= t ->
  cmp_dist w (map (fun x => t * x) d) = t * cmp_dist w d.
Proof.
  intros w d t Ht. unfold cmp_dist.
  rewrite wsumsq_scale. apply sqrt_sq_scale. exact Ht.
Qed.

Lemma wsumsq_mono : forall w x y,
  Forall (fun v => 0 <= v) x -> Forall2 (fun xi yi => xi <= yi) x y ->
  wsumsq w x <= wsumsq w y.
Proof.
  induction w as [| wi w IH]; intros x y Hx Hxy; simpl; [lra |].
  destruct x as [| xi x].
  - inversion Hxy; subst. lra.
  - inversion Hxy as [| ? yi ? y' Hxi Hxy']; subst.
    inversion Hx as [| ? ? Hxi0 Hx']; subst.
    pose proof (IH x y' Hx' Hxy') as HI.
    assert (Hsq : xi * xi <= yi * yi) by (apply Rmult_le_compat; assumption).
    pose proof (sq_nonneg wi) as Hww.
    pose proof (Rmult_le_compat_r (wi * wi) (xi * xi) (yi * yi) Hww Hsq) as P.
    assert (E1 : xi * wi * (xi * wi) = xi * xi * (wi * wi)) by ring.
    assert (E2 : yi * wi * (yi * wi) = yi * yi * (wi * wi)) by ring.
    lra.
Qed.

Theorem cmp_dist_mono : forall w x y, length w = length x -> length x = length y ->
  Forall (fun v => 0 <= v) x -> Forall2 (fun xi yi => xi <= yi) x y ->
  cmp_dist w x <= cmp_dist w y.
Proof.
  intros w x y _ _ Hx Hxy. unfold cmp_dist.
  apply sqrt_le_1_alt. apply wsumsq_mono; assumption.
Qed.

Print Assumptions rv_dist_triangle.
Print Assumptions cmp_dist_triangle.
