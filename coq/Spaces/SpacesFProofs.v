(* Exact float-level facts about the executable state-space model of Spaces/SpacesF.v. *)
From Coq Require Import ZArith NArith List Bool Reals Floats Lra Lia.
From Flocq Require Import Core IEEE754.BinarySingleNaN IEEE754.PrimFloat.
From Flocq Require Import Plus_error.
From OX Require Import Numerics.FloatBits Numerics.FloatOrder Gen.Consts Spaces.SpacesF.
Import ListNotations.

(* reuse Flocq's own instances so that the terms produced by add_equiv, sub_equiv, ... match
   syntactically the ones of the lemmas below *)
#[local] Existing Instance Flocq.IEEE754.PrimFloat.Hprec.
#[local] Existing Instance Flocq.IEEE754.PrimFloat.Hmax.

(* ------------------------------------------------------------------ *)
(* 1. clamp                                                            *)
(* ------------------------------------------------------------------ *)

Lemma fle_flt_false : forall a b, fle a b = true -> flt b a = false.
Proof.
intros a b H. destruct (flt b a) eqn:E; [|reflexivity].
apply flt_not_fle in E. congruence.
Qed.

Lemma fclamp_in_range :
  forall x lo hi y, fis_nan x = false -> fclamp x lo hi = Some y ->
  fle lo y = true /\ fle y hi = true.
Proof.
intros x lo hi y Nx. unfold fclamp.
destruct (fle lo hi) eqn:Hlh; [|discriminate].
destruct (fle_not_nan _ _ Hlh) as [Nlo Nhi].
destruct (flt x lo) eqn:H1.
- intros [= <-]. split; [now apply fle_refl | assumption].
- change (fgt x hi) with (flt hi x). destruct (flt hi x) eqn:H2.
  + intros [= <-]. split; [assumption | now apply fle_refl].
  + intros [= <-]. split; apply flt_false_fle; assumption.
Qed.

Lemma fclamp_idem :
  forall x lo hi y, fclamp x lo hi = Some y -> fclamp y lo hi = Some y.
Proof.
intros x lo hi y. unfold fclamp. change (fgt x hi) with (flt hi x). change (fgt y hi) with (flt hi y).
destruct (fle lo hi) eqn:Hlh; [|discriminate].
assert (Hhl : flt hi lo = false) by now apply fle_flt_false.
destruct (flt x lo) eqn:H1.
- intros [= <-]. now rewrite flt_irrefl, Hhl.
- destruct (flt hi x) eqn:H2.
  + intros [= <-]. now rewrite Hhl, flt_irrefl.
  + intros [= <-]. now rewrite H1, H2.
Qed.

Lemma fclamp_fixed :
  forall x lo hi, fle lo x = true -> fle x hi = true -> fclamp x lo hi = Some x.
Proof.
intros x lo hi H1 H2. unfold fclamp. change (fgt x hi) with (flt hi x).
rewrite (fle_trans _ _ _ H1 H2).
now rewrite (fle_flt_false _ _ H1), (fle_flt_false _ _ H2).
Qed.

Lemma fclamp_none_iff :
  forall x lo hi, fclamp x lo hi = None <-> fle lo hi = false.
Proof.
intros x lo hi. unfold fclamp. destruct (fle lo hi); split; congruence.
Qed.

(* ------------------------------------------------------------------ *)
(* 2. symmetry of squared differences                                  *)
(* ------------------------------------------------------------------ *)

Lemma SF_round_aux_opp :
  forall s m e l,
  SpecFloat.binary_round_aux prec emax (negb s) m e l =
  SFopp (SpecFloat.binary_round_aux prec emax s m e l).
Proof.
intros s m e l. unfold SpecFloat.binary_round_aux.
destruct (shr_fexp prec emax m e l) as [mrs' e'].
destruct (shr_fexp prec emax _ e' loc_Exact) as [mrs'' e''].
destruct (shr_m mrs''); try reflexivity.
now destruct (Zle_bool e'' (emax - prec)).
Qed.

Lemma SF_round_opp :
  forall s m e,
  SpecFloat.binary_round prec emax (negb s) m e =
  SFopp (SpecFloat.binary_round prec emax s m e).
Proof.
intros s m e. unfold SpecFloat.binary_round.
destruct (shl_align m e _) as [mz ez].
apply SF_round_aux_opp.
Qed.

Lemma SF_normalize_opp :
  forall z e, z <> 0%Z ->
  SpecFloat.binary_normalize prec emax (- z) e false =
  SFopp (SpecFloat.binary_normalize prec emax z e false).
Proof.
intros [|p|p] e Hz; [easy| |]; simpl.
- apply (SF_round_opp false).
- generalize (SF_round_opp false p e). simpl negb. intros ->.
  now destruct (SpecFloat.binary_round prec emax false p e) as [[|]|[|]| |[|] m' e'].
Qed.

Definition SF_is_zero (x : spec_float) : bool :=
  match x with S754_zero _ => true | _ => false end.

Lemma SFsub_swap :
  forall a b,
  SFsub prec emax b a = SFopp (SFsub prec emax a b) \/
  (SF_is_zero (SFsub prec emax a b) = true /\ SF_is_zero (SFsub prec emax b a) = true).
Proof.
intros [sa|sa| |sa ma ea] [sb|sb| |sb mb eb];
  try (left; reflexivity);
  try (now destruct sa, sb; simpl; auto).
unfold SFsub. rewrite (Z.min_comm eb ea).
set (ez := Z.min ea eb).
set (A := cond_Zopp sa (Z.pos (fst (shl_align ma ea ez)))).
set (B := cond_Zopp sb (Z.pos (fst (shl_align mb eb ez)))).
destruct (Z.eq_dec (A - B) 0) as [E|E].
- right. replace (B - A)%Z with 0%Z by lia. rewrite E. now split.
- left. replace (B - A)%Z with (- (A - B))%Z by lia.
  now apply SF_normalize_opp.
Qed.

Lemma SFmul_opp_opp :
  forall z, SFmul prec emax (SFopp z) (SFopp z) = SFmul prec emax z z.
Proof.
intros [s|s| |s m e]; simpl; try reflexivity; now destruct s.
Qed.

Lemma SFmul_zero_zero :
  forall z z', SF_is_zero z = true -> SF_is_zero z' = true ->
  SFmul prec emax z z = SFmul prec emax z' z'.
Proof.
intros [s|s| |s m e] [s'|s'| |s' m' e']; try discriminate.
intros _ _. simpl. now destruct s, s'.
Qed.

Lemma fsq_sub_sym : forall x y : F, fsq (x - y)%float = fsq (y - x)%float.
Proof.
intros x y. unfold fsq. apply Prim2SF_inj.
rewrite !mul_spec, !sub_spec. unfold SF64mul, SF64sub.
destruct (SFsub_swap (Prim2SF x) (Prim2SF y)) as [H|[H1 H2]].
- rewrite H. symmetry. apply SFmul_opp_opp.
- now apply SFmul_zero_zero.
Qed.

Lemma map_combine_sym :
  forall (A B : Type) (f : A * A -> B),
  (forall x y, f (x, y) = f (y, x)) ->
  forall a b, map f (combine a b) = map f (combine b a).
Proof.
intros A B f Hf. induction a as [|x a IH]; intros [|y b]; simpl; try reflexivity.
now rewrite Hf, IH.
Qed.

Lemma rv_dist_sym : forall dim a b, rv_dist dim a b = rv_dist dim b a.
Proof.
intros dim a b. unfold rv_dist.
rewrite (orb_comm (negb (N.of_nat (length a) =? dim)%N)).
destruct (_ || _); [reflexivity|].
do 3 f_equal.
apply (map_combine_sym F F (fun '(x, y) => fsq (x - y)%float)).
intros x y. apply fsq_sub_sym.
Qed.

(* ------------------------------------------------------------------ *)
(* 3. enforce / satisfies on R^n                                       *)
(* ------------------------------------------------------------------ *)

Notation bf := (binary_float prec emax).
Notation fexp64 := (FLT_exp (SpecFloat.emin prec emax) prec).
Notation rnd := (round radix2 fexp64 ZnearestE).
Notation M := (bpow radix2 emax).
Notation Bo := (Bord prec emax).

Lemma B2R_sign_false_ge_0 :
  forall e : bf, Bsign e = false -> (0 <= B2R e)%R.
Proof.
intros [s|s| |s m e H]; simpl; intros Hs; try lra.
subst s. now apply F2R_ge_0.
Qed.

Lemma B2SF_inf : forall (x : bf) s, B2SF x = S754_infinity s -> x = B754_infinity s.
Proof.
intros [s'|s'| |s' m e H] s; simpl; try discriminate. now intros [= ->].
Qed.

Lemma finite_not_nan : forall x : bf, is_finite x = true -> is_nan x = false.
Proof. now intros [s|s| |s m e H]. Qed.

Lemma rnd_B2R : forall x : bf, rnd (B2R x) = B2R x.
Proof.
intros x. apply round_generic; auto with typeclass_instances.
apply generic_format_B2R.
Qed.

Lemma Bminus_nonneg_le :
  forall y e : bf, is_nan y = false -> is_finite e = true -> Bsign e = false ->
  Bleb (Bminus mode_NE y e) y = true.
Proof.
intros y e Ny Fe Se.
generalize (B2R_sign_false_ge_0 e Se). intros Pe.
destruct (is_finite y) eqn:Fy.
- generalize (Bminus_correct prec emax _ _ mode_NE y e Fy Fe).
  simpl round_mode. case Rlt_bool_spec; intros Hov.
  + intros (H1 & H2 & _).
    apply Bleb_true_iff. repeat split; try assumption.
    { now apply finite_not_nan. }
    rewrite (Bord_finite _ _ _ H2), (Bord_finite _ _ _ Fy), H1.
    apply Rle_trans with (rnd (B2R y)); [|rewrite rnd_B2R; lra].
    apply (round_le radix2 fexp64 ZnearestE). lra.
  + intros (H1 & H2). rewrite Se in H2. simpl in H2.
    unfold binary_overflow in H1. simpl overflow_to_inf in H1. cbv iota in H1.
    rewrite H2 in H1. apply B2SF_inf in H1. rewrite H1.
    apply Bleb_true_iff. repeat split; try assumption.
    rewrite (Bord_finite _ _ _ Fy). unfold Bord.
    generalize (B2R_bounds _ _ y). lra.
- assert (E : Bminus mode_NE y e = y).
  { destruct y as [s|s| |s m ex H]; try discriminate.
    now destruct e as [s'|s'| |s' m' e' H']. }
  rewrite E. apply Bleb_true_iff. repeat split; try assumption. lra.
Qed.

Lemma Bplus_nonneg_ge :
  forall y e : bf, is_nan y = false -> is_finite e = true -> Bsign e = false ->
  Bleb y (Bplus mode_NE y e) = true.
Proof.
intros y e Ny Fe Se.
generalize (B2R_sign_false_ge_0 e Se). intros Pe.
destruct (is_finite y) eqn:Fy.
- generalize (Bplus_correct prec emax _ _ mode_NE y e Fy Fe).
  simpl round_mode. case Rlt_bool_spec; intros Hov.
  + intros (H1 & H2 & _).
    apply Bleb_true_iff. repeat split; try assumption.
    { now apply finite_not_nan. }
    rewrite (Bord_finite _ _ _ H2), (Bord_finite _ _ _ Fy), H1.
    apply Rle_trans with (rnd (B2R y)); [rewrite rnd_B2R; lra|].
    apply (round_le radix2 fexp64 ZnearestE). lra.
  + intros (H1 & H2). rewrite Se in H2.
    unfold binary_overflow in H1. simpl overflow_to_inf in H1. cbv iota in H1.
    rewrite H2 in H1. apply B2SF_inf in H1. rewrite H1.
    apply Bleb_true_iff. repeat split; try assumption.
    rewrite (Bord_finite _ _ _ Fy). unfold Bord.
    generalize (B2R_bounds _ _ y). lra.
- assert (E : Bplus mode_NE y e = y).
  { destruct y as [s|s| |s m ex H]; try discriminate.
    now destruct e as [s'|s'| |s' m' e' H']. }
  rewrite E. apply Bleb_true_iff. repeat split; try assumption. lra.
Qed.

Lemma fsub_nonneg_le :
  forall y e, fis_nan y = false -> PrimFloat.is_finite e = true -> get_sign e = false ->
  fle (y - e)%float y = true.
Proof.
intros y e. unfold fis_nan, fle.
rewrite is_nan_equiv, is_finite_equiv, get_sign_equiv, leb_equiv, sub_equiv.
apply Bminus_nonneg_le.
Qed.

Lemma fadd_nonneg_ge :
  forall y e, fis_nan y = false -> PrimFloat.is_finite e = true -> get_sign e = false ->
  fle y (y + e)%float = true.
Proof.
intros y e. unfold fis_nan, fle.
rewrite is_nan_equiv, is_finite_equiv, get_sign_equiv, leb_equiv, add_equiv.
apply Bplus_nonneg_ge.
Qed.

Lemma fsub_pos_le : forall y, fis_nan y = false -> fle (y - EPS_f)%float y = true.
Proof. intros y Ny. now apply fsub_nonneg_le. Qed.

Lemma fadd_pos_ge : forall y, fis_nan y = false -> fle y (y + EPS_f)%float = true.
Proof. intros y Ny. now apply fadd_nonneg_ge. Qed.

Lemma rv_enforce_aux_length :
  forall bs a a', rv_enforce_aux bs a = Ok a' -> length a' = length a.
Proof.
induction bs as [|[lo hi] bs IH]; intros [|x a] a'; simpl; try (now intros [= <-]).
destruct (fclamp x lo hi) as [y|]; [|discriminate].
destruct (rv_enforce_aux bs a) as [r| |] eqn:E; try discriminate.
intros [= <-]. simpl. now rewrite (IH _ _ E).
Qed.

Lemma rv_enforce_aux_idem :
  forall bs a a', rv_enforce_aux bs a = Ok a' -> rv_enforce_aux bs a' = Ok a'.
Proof.
induction bs as [|[lo hi] bs IH]; intros [|x a] a'; simpl; try (now intros [= <-]).
destruct (fclamp x lo hi) as [y|] eqn:C; [|discriminate].
destruct (rv_enforce_aux bs a) as [r| |] eqn:E; try discriminate.
intros [= <-]. simpl. now rewrite (fclamp_idem _ _ _ _ C), (IH _ _ E).
Qed.

Lemma rv_satisfies_aux_enforce :
  forall bs a a',
  Forall (fun '(lo, hi) => fle lo hi = true) bs ->
  Forall (fun x => fis_nan x = false) a ->
  length a = length bs ->
  rv_enforce_aux bs a = Ok a' ->
  rv_satisfies_aux (length bs) bs a' = Ok true.
Proof.
induction bs as [|[lo hi] bs IH]; intros [|x a] a' Hbs Ha Hl; simpl in *; try discriminate.
- reflexivity.
- destruct (fclamp x lo hi) as [y|] eqn:C; [|discriminate].
  destruct (rv_enforce_aux bs a) as [r| |] eqn:E; try discriminate.
  intros [= <-].
  inversion_clear Hbs as [|? ? Hb Hbs']. inversion_clear Ha as [|? ? Hx Ha'].
  destruct (fclamp_in_range _ _ _ _ Hx C) as [L1 L2].
  destruct (fle_not_nan _ _ L1) as [_ Ny].
  change (fgt (y - EPS_f)%float hi) with (flt hi (y - EPS_f)%float).
  rewrite (fle_flt_false _ _ (fle_trans _ _ _ (fsub_pos_le y Ny) L2)).
  rewrite (fle_flt_false _ _ (fle_trans _ _ _ L1 (fadd_pos_ge y Ny))).
  apply (IH a r); auto.
Qed.

Lemma rv_satisfies_enforce :
  forall dim bs a a',
  Forall (fun '(lo, hi) => fle lo hi = true) bs ->
  Forall (fun x => fis_nan x = false) a ->
  N.of_nat (length bs) = dim ->
  rv_enforce dim bs a = Ok a' ->
  rv_satisfies dim bs a' = Ok true.
Proof.
intros dim bs a a' Hbs Ha Hd. unfold rv_enforce, rv_satisfies.
destruct (N.of_nat (length a) =? dim)%N eqn:El; [|discriminate]. simpl.
intros He. rewrite (rv_enforce_aux_length _ _ _ He), El. simpl.
apply N.eqb_eq in El.
assert (length a = length bs) by lia.
replace (N.to_nat dim) with (length bs) by lia.
now apply (rv_satisfies_aux_enforce bs a a').
Qed.

(* idempotence needs no side condition at all *)
Lemma rv_enforce_idem_gen :
  forall dim bs a a', rv_enforce dim bs a = Ok a' -> rv_enforce dim bs a' = Ok a'.
Proof.
intros dim bs a a'. unfold rv_enforce.
destruct (N.of_nat (length a) =? dim)%N eqn:El; [|discriminate]. simpl.
intros He. rewrite (rv_enforce_aux_length _ _ _ He), El. simpl.
now apply rv_enforce_aux_idem with a.
Qed.

Lemma rv_enforce_idem :
  forall dim bs a a',
  Forall (fun '(lo, hi) => fle lo hi = true) bs ->
  Forall (fun x => fis_nan x = false) a ->
  N.of_nat (length bs) = dim ->
  rv_enforce dim bs a = Ok a' ->
  rv_enforce dim bs a' = Ok a'.
Proof. intros dim bs a a' _ _ _. apply rv_enforce_idem_gen. Qed.

(* ------------------------------------------------------------------ *)
(* 4. uniform sampling stays inside the bounds                         *)
(* ------------------------------------------------------------------ *)

Lemma bounded_12 :
  forall p, (2^52 <= Zpos p < 2^53)%Z -> bounded prec emax p (-52) = true.
Proof.
intros p Hp. unfold bounded, canonical_mantissa.
change (digits2_pos p) with (Digits.digits2_pos p).
rewrite Zpos_digits2_pos.
rewrite (Zdigits_unique radix2 (Zpos p) 53); [reflexivity|].
exact Hp.
Qed.

Lemma sf_of_bits_12 :
  forall m, (0 <= m < 2^52)%Z ->
  sf_of_bits (m + 4607182418800017408) = S754_finite false (Z.to_pos (m + 2^52)) (-52).
Proof.
intros m Hm. unfold sf_of_bits.
assert (E1 : Z.testbit (m + 4607182418800017408) 63 = false).
{ apply Z.bits_above_log2; [lia|]. apply Z.log2_lt_pow2; lia. }
assert (E2 : Z.shiftr (m + 4607182418800017408) 52 = 1023%Z).
{ rewrite Z.shiftr_div_pow2 by lia.
  replace (m + 4607182418800017408)%Z with (1023 * 2^52 + m)%Z by lia.
  rewrite Z.div_add_l by lia. rewrite Z.div_small by lia. reflexivity. }
assert (E3 : Z.land (m + 4607182418800017408) (2^52 - 1) = m).
{ change (2^52 - 1)%Z with (Z.ones 52). rewrite Z.land_ones by lia.
  replace (m + 4607182418800017408)%Z with (m + 1023 * 2^52)%Z by lia.
  rewrite Z.mod_add by lia. apply Z.mod_small; lia. }
rewrite E1, E2, E3.
change (Z.land 1023 2047) with 1023%Z. cbv iota beta.
change (1023 =? 2047)%Z with false. change (1023 =? 0)%Z with false. cbv iota.
destruct (m + 2^52)%Z as [|p|p] eqn:E; try lia.
reflexivity.
Qed.

Lemma IZR_2_52 : IZR (2^52) = bpow radix2 52.
Proof. change (2^52)%Z with (Zpower radix2 52). now apply IZR_Zpower. Qed.

Lemma bpow_52_m52 : (bpow radix2 52 * bpow radix2 (-52) = 1)%R.
Proof. rewrite <- bpow_plus. reflexivity. Qed.

Lemma fbits_12 :
  forall m, (0 <= m < 2^52)%Z ->
  exists b : bf,
  fbits (m + 4607182418800017408) = B2Prim b /\ is_finite b = true /\
  B2R b = (1 + IZR m * bpow radix2 (-52))%R.
Proof.
intros m Hm.
assert (Hb : bounded prec emax (Z.to_pos (m + 2^52)) (-52) = true).
{ apply bounded_12. rewrite Z2Pos.id; lia. }
exists (B754_finite false (Z.to_pos (m + 2^52)) (-52) Hb).
split; [|split].
- unfold fbits, B2Prim. rewrite sf_of_bits_12 by exact Hm. cbn [B2SF]. reflexivity.
- reflexivity.
- unfold B2R, F2R. simpl Fnum. simpl Fexp. cbv iota beta.
  change (Z.pow_pos 2 52) with (2^52)%Z.
  rewrite Z2Pos.id by lia.
  rewrite plus_IZR, IZR_2_52. rewrite Rmult_plus_distr_r, bpow_52_m52. ring.
Qed.

Lemma Prim2B_one : Prim2B 1%float = Bone.
Proof.
rewrite <- (Prim2B_B2Prim Bone). apply f_equal. exact one_equiv.
Qed.

Lemma generic_m52 :
  forall m, (0 <= m < 2^52)%Z ->
  generic_format radix2 fexp64 (IZR m * bpow radix2 (-52)).
Proof.
intros m Hm. apply generic_format_FLT.
apply FLT_spec with (Float radix2 m (-52)).
- reflexivity.
- simpl Fnum. change (Zpower radix2 prec) with (2^53)%Z. lia.
- simpl. unfold SpecFloat.emin. unfold emax, prec. lia.
Qed.

Lemma IZR_m52_bounds :
  forall m, (0 <= m < 2^52)%Z ->
  (0 <= IZR m * bpow radix2 (-52) <= 1 - bpow radix2 (-52))%R.
Proof.
intros m Hm.
generalize (bpow_gt_0 radix2 (-52)). intros Hp.
assert (H0 : (0 <= IZR m)%R) by (apply IZR_le; lia).
assert (H1 : (IZR m <= bpow radix2 52 - 1)%R).
{ rewrite <- IZR_2_52, <- minus_IZR. apply IZR_le. lia. }
split.
- apply Rmult_le_pos; lra.
- replace (1 - bpow radix2 (-52))%R with ((bpow radix2 52 - 1) * bpow radix2 (-52))%R.
  + apply Rmult_le_compat_r; lra.
  + rewrite Rmult_minus_distr_r, bpow_52_m52. ring.
Qed.

Lemma u01_12_spec :
  forall u, (u < 2^64)%N ->
  exists m, (0 <= m < 2^52)%Z /\
  is_finite (Prim2B (u01_12 u)) = true /\
  B2R (Prim2B (u01_12 u)) = (IZR m * bpow radix2 (-52))%R.
Proof.
intros u Hu.
set (m := Z.of_N (N.shiftr u 12)).
assert (Hm : (0 <= m < 2^52)%Z).
{ unfold m. rewrite N.shiftr_div_pow2.
  assert (H : (u / 2^12 < 2^52)%N).
  { apply N.div_lt_upper_bound; [discriminate|]. exact Hu. }
  split; [apply N2Z.is_nonneg|].
  change (2^52)%Z with (Z.of_N (2^52)). apply N2Z.inj_lt. exact H. }
exists m. split; [exact Hm|].
destruct (fbits_12 m Hm) as (b & Eb & Fb & Rb).
unfold u01_12. fold m. rewrite Eb, sub_equiv, Prim2B_B2Prim, Prim2B_one.
generalize (Bminus_correct prec emax _ _ mode_NE b Bone Fb (is_finite_Bone _ _ _ _)).
rewrite Rb, Bone_correct. simpl round_mode.
replace (1 + IZR m * bpow radix2 (-52) - 1)%R with (IZR m * bpow radix2 (-52))%R by ring.
change (fexp prec emax) with fexp64.
rewrite (round_generic radix2 fexp64 ZnearestE _ (generic_m52 m Hm)).
rewrite Rlt_bool_true.
- intros (H1 & H2 & _). now split.
- destruct (IZR_m52_bounds m Hm) as [B1 B2].
  rewrite Rabs_pos_eq by assumption.
  apply Rle_lt_trans with (1 := B2).
  apply Rlt_le_trans with 1%R. { generalize (bpow_gt_0 radix2 (-52)); lra. }
  change 1%R with (bpow radix2 0). apply bpow_le. easy.
Qed.

Lemma fis_finite_B : forall a, fis_finite a = is_finite (Prim2B a).
Proof.
intros a. unfold fis_finite. rewrite is_nan_equiv, is_infinity_equiv.
now destruct (Prim2B a).
Qed.

Lemma ford_finite :
  forall a, is_finite (Prim2B a) = true -> ford a = B2R (Prim2B a).
Proof. intros a. apply Bord_finite. Qed.

Lemma fnan_finite : forall a, is_finite (Prim2B a) = true -> fnan a = false.
Proof.
intros a H. unfold fnan. rewrite is_nan_equiv. now apply finite_not_nan.
Qed.

Lemma Prim2B_zero : Prim2B zero = B754_zero false.
Proof. exact Prim2B_fzero. Qed.

Lemma u01_12_range :
  forall u, (u < 2^64)%N ->
  fle zero (u01_12 u) = true /\ flt (u01_12 u) one = true.
Proof.
intros u Hu. destruct (u01_12_spec u Hu) as (m & Hm & Fv & Rv).
destruct (IZR_m52_bounds m Hm) as [B1 B2].
assert (F1 : is_finite (Prim2B one) = true).
{ change one with 1%float. rewrite Prim2B_one. apply is_finite_Bone. }
assert (F0 : is_finite (Prim2B zero) = true) by now rewrite Prim2B_zero.
split.
- apply fle_iff. repeat split; try now apply fnan_finite.
  rewrite !ford_finite, Rv, Prim2B_zero by assumption. exact B1.
- apply flt_iff. repeat split; try now apply fnan_finite.
  rewrite !ford_finite, Rv by assumption.
  change one with 1%float. rewrite Prim2B_one, Bone_correct.
  generalize (bpow_gt_0 radix2 (-52)); lra.
Qed.

(* the exact arithmetic fact behind rand_range: with v <= 1 - 2^-52, the rounded product
   v * fl(h - l) never exceeds the exact difference h - l *)
Lemma rnd_scale_le :
  forall l h v : R,
  generic_format radix2 fexp64 l -> generic_format radix2 fexp64 h ->
  (l < h)%R -> (0 <= v <= 1 - bpow radix2 (-52))%R ->
  (rnd (v * rnd (h - l)) <= h - l)%R.
Proof.
intros l h v Fl Fh Hlh [Hv0 Hv1].
generalize (bpow_gt_0 radix2 (-52)). intros Hp.
set (d := (h - l)%R). set (s := rnd d).
assert (Fs : generic_format radix2 fexp64 s).
{ apply generic_format_round; auto with typeclass_instances. }
assert (Hs0 : (0 <= s)%R).
{ apply round_ge_generic; auto with typeclass_instances.
  apply generic_format_0. unfold d; lra. }
assert (Hvs : (v * s <= (1 - bpow radix2 (-52)) * s)%R).
{ apply Rmult_le_compat_r; assumption. }
destruct (Rle_or_lt s d) as [Hsd|Hsd].
- apply Rle_trans with s; [|exact Hsd].
  apply round_le_generic; auto with typeclass_instances. nra.
- assert (NFd : ~ generic_format radix2 fexp64 d).
  { intros Fd. unfold s in Hsd. rewrite round_generic in Hsd; auto with typeclass_instances. lra. }
  assert (Hd : (bpow radix2 (prec + SpecFloat.emin prec emax) < d)%R).
  { destruct (Rle_or_lt d (bpow radix2 (prec + SpecFloat.emin prec emax))) as [H|H]; [|exact H].
    exfalso. apply NFd. unfold d. replace (h - l)%R with (h + - l)%R by ring.
    apply FLT_format_plus_small; [exact Flocq.IEEE754.PrimFloat.Hprec|exact Fh|now apply generic_format_opp|].
    rewrite Rabs_pos_eq; [|lra]. replace (h + - l)%R with d by (unfold d; ring). exact H. }
  assert (Hup : s = round radix2 fexp64 Zceil d).
  { destruct (round_DN_or_UP radix2 fexp64 ZnearestE d) as [E|E]; [|exact E].
    exfalso. fold s in E.
    destruct (round_DN_pt radix2 fexp64 d) as (_ & H & _). lra. }
  rewrite (round_UP_DN_ulp radix2 fexp64 d NFd) in Hup.
  assert (Hulp : (ulp radix2 fexp64 d <= d * bpow radix2 (-52))%R).
  { generalize (ulp_FLT_le radix2 (SpecFloat.emin prec emax) prec d).
    rewrite Rabs_pos_eq by (unfold d; lra).
    intros H. apply H.
    apply Rle_trans with (2 := Rlt_le _ _ Hd). apply bpow_le. lia. }
  destruct (round_DN_pt radix2 fexp64 d) as (FDN & HDN & _).
  apply Rle_trans with (2 := HDN).
  apply round_le_generic; auto with typeclass_instances.
  assert (d * bpow radix2 (-52) <= s * bpow radix2 (-52))%R by (apply Rmult_le_compat_r; lra).
  lra.
Qed.

Lemma Brand_range :
  forall (V L H : bf) m,
  (0 <= m < 2^52)%Z -> is_finite V = true -> B2R V = (IZR m * bpow radix2 (-52))%R ->
  is_finite L = true -> is_finite H = true -> (B2R L < B2R H)%R ->
  is_finite (Bminus mode_NE H L) = true ->
  let X := Bplus mode_NE (Bmult mode_NE V (Bminus mode_NE H L)) L in
  is_finite X = true /\ (B2R L <= B2R X <= B2R H)%R.
Proof.
intros V L H m Hm FV RV FL FH HLH FS X.
destruct (IZR_m52_bounds m Hm) as [B1 B2]. rewrite <- RV in B1, B2.
set (S := Bminus mode_NE H L) in *.
assert (RS : B2R S = rnd (B2R H - B2R L)).
{ generalize (Bminus_correct prec emax _ _ mode_NE H L FH FL). fold S.
  destruct (Rlt_bool _ _).
  - now intros (H1 & _).
  - intros (H1 & _). unfold binary_overflow in H1. simpl overflow_to_inf in H1. cbv iota in H1.
    apply B2SF_inf in H1. rewrite H1 in FS. discriminate. }
assert (HS0 : (0 <= B2R S)%R).
{ rewrite RS. apply round_ge_generic; auto with typeclass_instances.
  apply generic_format_0. lra. }
set (P := Bmult mode_NE V S) in *.
assert (Pr0 : (0 <= rnd (B2R V * B2R S))%R).
{ apply round_ge_generic; auto with typeclass_instances.
  apply generic_format_0. now apply Rmult_le_pos. }
assert (Pr1 : (rnd (B2R V * B2R S) <= B2R S)%R).
{ apply round_le_generic; auto with typeclass_instances.
  apply generic_format_B2R.
  generalize (bpow_gt_0 radix2 (-52)). intros Hp. nra. }
assert (HP : B2R P = rnd (B2R V * B2R S) /\ is_finite P = true).
{ generalize (Bmult_correct prec emax _ _ mode_NE V S). fold P. simpl round_mode.
  rewrite Rlt_bool_true.
  - intros (H1 & H2 & _). split; [exact H1|]. now rewrite H2, FV, FS.
  - change (fexp prec emax) with fexp64.
    rewrite Rabs_pos_eq by exact Pr0.
    generalize (B2R_bounds _ _ S). lra. }
destruct HP as [RP FP].
assert (Pr2 : (B2R P <= B2R H - B2R L)%R).
{ rewrite RP, RS. apply rnd_scale_le; try apply generic_format_B2R; try assumption.
  now split. }
assert (X1 : (B2R L <= rnd (B2R P + B2R L))%R).
{ apply round_ge_generic; auto with typeclass_instances.
  apply generic_format_B2R. rewrite RP. lra. }
assert (X2 : (rnd (B2R P + B2R L) <= B2R H)%R).
{ apply round_le_generic; auto with typeclass_instances.
  apply generic_format_B2R. lra. }
generalize (Bplus_correct prec emax _ _ mode_NE P L FP FL). fold X. simpl round_mode.
change (fexp prec emax) with fexp64.
rewrite Rlt_bool_true.
- intros (H1 & H2 & _). split; [exact H2|]. rewrite H1. now split.
- generalize (B2R_bounds _ _ L) (B2R_bounds _ _ H). intros BL BH.
  apply Rabs_def1; lra.
Qed.

Lemma rand_range_in :
  forall u lo hi x, (u < 2^64)%N -> rand_range u lo hi = Ok x ->
  fle lo x = true /\ fle x hi = true.
Proof.
intros u lo hi x Hu. unfold rand_range.
destruct (u01_12_spec u Hu) as (m & Hm & Fv & Rv).
revert Fv Rv. generalize (u01_12 u). intros v Fv Rv.
destruct (flt lo hi) eqn:Hlt; [|discriminate]. cbn [negb].
destruct (fis_finite lo) eqn:Flo; [|discriminate].
destruct (fis_finite hi) eqn:Fhi; [|discriminate].
destruct (fis_finite (hi - lo)%float) eqn:Fs; [|discriminate].
cbn [negb orb]. intros [= <-].
rewrite fis_finite_B in Flo, Fhi, Fs.
apply flt_iff in Hlt. destruct Hlt as (_ & _ & Hlt).
rewrite !ford_finite in Hlt by assumption.
rewrite sub_equiv in Fs.
destruct (Brand_range _ _ _ m Hm Fv Rv Flo Fhi Hlt Fs) as (FX & X1 & X2).
rewrite <- sub_equiv, <- mul_equiv, <- add_equiv in FX, X1, X2.
split; apply fle_iff; repeat split; try (now apply fnan_finite);
  rewrite !ford_finite by assumption; assumption.
Qed.

(* ------------------------------------------------------------------ *)
(* 5. SO(2) normalisation stays in [-pi, pi]                           *)
(* ------------------------------------------------------------------ *)

Lemma Bplus_finite_R :
  forall x y : bf, is_finite x = true -> is_finite y = true ->
  is_finite (Bplus mode_NE x y) = true ->
  B2R (Bplus mode_NE x y) = rnd (B2R x + B2R y).
Proof.
intros x y Fx Fy Fz.
generalize (Bplus_correct prec emax _ _ mode_NE x y Fx Fy).
destruct (Rlt_bool _ _).
- now intros (H1 & _).
- intros (H1 & _). unfold binary_overflow in H1. simpl overflow_to_inf in H1. cbv iota in H1.
  apply B2SF_inf in H1. rewrite H1 in Fz. discriminate.
Qed.

Lemma Bminus_finite_R :
  forall x y : bf, is_finite x = true -> is_finite y = true ->
  is_finite (Bminus mode_NE x y) = true ->
  B2R (Bminus mode_NE x y) = rnd (B2R x - B2R y).
Proof.
intros x y Fx Fy Fz.
generalize (Bminus_correct prec emax _ _ mode_NE x y Fx Fy).
destruct (Rlt_bool _ _).
- now intros (H1 & _).
- intros (H1 & _). unfold binary_overflow in H1. simpl overflow_to_inf in H1. cbv iota in H1.
  apply B2SF_inf in H1. rewrite H1 in Fz. discriminate.
Qed.

Lemma Bplus_R_of_bound :
  forall x y : bf, is_finite x = true -> is_finite y = true ->
  (Rabs (rnd (B2R x + B2R y)) < M)%R ->
  is_finite (Bplus mode_NE x y) = true /\ B2R (Bplus mode_NE x y) = rnd (B2R x + B2R y).
Proof.
intros x y Fx Fy Hb.
generalize (Bplus_correct prec emax _ _ mode_NE x y Fx Fy). simpl round_mode.
change (fexp prec emax) with fexp64.
rewrite Rlt_bool_true by exact Hb. now intros (H1 & H2 & _).
Qed.

Lemma Bminus_R_of_bound :
  forall x y : bf, is_finite x = true -> is_finite y = true ->
  (Rabs (rnd (B2R x - B2R y)) < M)%R ->
  is_finite (Bminus mode_NE x y) = true /\ B2R (Bminus mode_NE x y) = rnd (B2R x - B2R y).
Proof.
intros x y Fx Fy Hb.
generalize (Bminus_correct prec emax _ _ mode_NE x y Fx Fy). simpl round_mode.
change (fexp prec emax) with fexp64.
rewrite Rlt_bool_true by exact Hb. now intros (H1 & H2 & _).
Qed.

Lemma finite_strict_finite : forall x : bf, is_finite_strict x = true -> is_finite x = true.
Proof. now intros [s|s| |s m e H]. Qed.

Lemma Prim2B_neg_zero : Prim2B neg_zero = B754_zero true.
Proof. rewrite neg_zero_equiv. apply Prim2B_B2Prim. Qed.

Lemma ffmod_finite_bound :
  forall x y, is_finite (Prim2B x) = true -> is_finite_strict (Prim2B y) = true ->
  is_finite (Prim2B (ffmod x y)) = true /\
  (Rabs (B2R (Prim2B (ffmod x y))) <= Rabs (B2R (Prim2B y)))%R.
Proof.
intros x y Fx Fy. unfold ffmod.
rewrite <- (B2SF_Prim2B x), <- (B2SF_Prim2B y).
destruct (Prim2B y) as [sy|sy| |sy my ey Hy] eqn:EqY; try discriminate.
destruct (Prim2B x) as [sx|sx| |sx mx ex Hx] eqn:EqX; try discriminate; cbn [B2SF]; cbv iota.
- rewrite EqX. split; [reflexivity|]. simpl B2R at 1. rewrite Rabs_R0. apply Rabs_pos.
- cbv zeta.
  set (e := Z.min ex ey).
  set (Y := (Z.pos my * 2 ^ (ey - e))%Z).
  set (R := ((Z.pos mx * 2 ^ (ex - e)) mod Y)%Z).
  assert (HY : (0 < Y)%Z).
  { unfold Y. apply Z.mul_pos_pos; [lia|]. apply Z.pow_pos_nonneg; lia. }
  assert (HR : (0 <= R < Y)%Z) by (apply Z.mod_pos_bound; exact HY).
  destruct (R =? 0)%Z eqn:ER.
  + destruct sx; [rewrite Prim2B_neg_zero|rewrite Prim2B_zero];
      (split; [reflexivity|]); simpl B2R at 1; rewrite Rabs_R0; apply Rabs_pos.
  + apply Z.eqb_neq in ER.
    set (mz := if sx then (- R)%Z else R).
    rewrite binary_normalize_equiv.
    match goal with |- context [SF2Prim (B2SF ?z)] => change (SF2Prim (B2SF z)) with (B2Prim z) end.
    rewrite Prim2B_B2Prim.
    match goal with |- context [binary_normalize prec emax ?hp ?hm mode_NE mz e false] =>
      generalize (binary_normalize_correct prec emax hp hm mode_NE mz e false);
      set (z := binary_normalize prec emax hp hm mode_NE mz e false) end.
    cbv zeta. simpl round_mode. change (fexp prec emax) with fexp64.
    set (xr := F2R (Float radix2 mz e)).
    set (yr := Rabs (B2R (B754_finite sy my ey Hy))).
    assert (Eyr : yr = (IZR (Z.pos my) * bpow radix2 ey)%R).
    { unfold yr, B2R. rewrite <- F2R_Zabs, abs_cond_Zopp. reflexivity. }
    assert (Fyr : generic_format radix2 fexp64 yr).
    { unfold yr. apply generic_format_abs. apply generic_format_B2R. }
    assert (Hxr : (Rabs xr < yr)%R).
    { unfold xr. rewrite <- F2R_Zabs. simpl Fnum.
      replace (Z.abs mz) with R by (unfold mz; destruct sx; lia).
      rewrite Eyr. unfold F2R. simpl Fnum. simpl Fexp.
      apply Rlt_le_trans with (IZR Y * bpow radix2 e)%R.
      - apply Rmult_lt_compat_r. apply bpow_gt_0. apply IZR_lt. lia.
      - right. unfold Y. rewrite mult_IZR.
        change (2 ^ (ey - e))%Z with (Zpower radix2 (ey - e)).
        rewrite IZR_Zpower by (unfold e; lia).
        rewrite Rmult_assoc, <- bpow_plus. replace (ey - e + e)%Z with ey by ring. reflexivity. }
    assert (Hrx : (Rabs (rnd xr) <= yr)%R).
    { apply Rabs_def2 in Hxr. destruct Hxr as [Hx1 Hx2]. apply Rabs_le. split.
      - apply round_ge_generic; auto with typeclass_instances.
        now apply generic_format_opp. lra.
      - apply round_le_generic; auto with typeclass_instances. lra. }
    rewrite Rlt_bool_true.
    * intros (H1 & H2 & _). split; [exact H2|]. rewrite H1. exact Hrx.
    * apply Rle_lt_trans with (1 := Hrx). unfold yr. apply abs_B2R_lt_emax.
Qed.

Lemma ford_zero : ford zero = 0%R.
Proof. unfold ford. now rewrite Prim2B_zero. Qed.

Lemma frem_euclid_range :
  forall x y, is_finite (Prim2B x) = true -> is_finite_strict (Prim2B y) = true ->
  is_finite (Prim2B (frem_euclid x y)) = true /\
  (0 <= B2R (Prim2B (frem_euclid x y)) <= Rabs (B2R (Prim2B y)))%R.
Proof.
intros x y Fx Fy. unfold frem_euclid.
destruct (ffmod_finite_bound x y Fx Fy) as [Fr Br].
revert Fr Br. generalize (ffmod x y). intros r Fr Br. cbv zeta.
assert (N0 : fnan zero = false) by reflexivity.
assert (Nr : fnan r = false) by now apply fnan_finite.
apply Rabs_le_inv in Br.
destruct (flt r zero) eqn:E.
- apply flt_iff in E. destruct E as (_ & _ & E).
  rewrite ford_zero, (ford_finite r Fr) in E.
  rewrite add_equiv, abs_equiv.
  assert (Fa : is_finite (Babs (Prim2B y)) = true).
  { rewrite is_finite_Babs. now apply finite_strict_finite. }
  assert (Fya : generic_format radix2 fexp64 (Rabs (B2R (Prim2B y)))).
  { apply generic_format_abs. apply generic_format_B2R. }
  assert (H1 : (0 <= rnd (B2R (Prim2B r) + B2R (Babs (Prim2B y))))%R).
  { apply round_ge_generic; auto with typeclass_instances. apply generic_format_0.
    rewrite B2R_Babs. lra. }
  assert (H2 : (rnd (B2R (Prim2B r) + B2R (Babs (Prim2B y))) <= Rabs (B2R (Prim2B y)))%R).
  { apply round_le_generic; auto with typeclass_instances. rewrite B2R_Babs. lra. }
  destruct (Bplus_R_of_bound (Prim2B r) (Babs (Prim2B y)) Fr Fa) as [F3 R3].
  { rewrite Rabs_pos_eq by exact H1. apply Rle_lt_trans with (1 := H2). apply abs_B2R_lt_emax. }
  split; [exact F3|]. rewrite R3. now split.
- apply (flt_false_iff r zero Nr N0) in E.
  rewrite ford_zero, (ford_finite r Fr) in E.
  split; [exact Fr|]. lra.
Qed.

Definition MAXF : F := 0x1.fffffffffffffp+1023%float.

Lemma B2R_MAXF : B2R (Prim2B MAXF) = (bpow radix2 emax - bpow radix2 (emax - prec))%R.
Proof.
rewrite <- SF2R_B2SF, B2SF_Prim2B.
replace (Prim2SF MAXF) with (S754_finite false 9007199254740991 971) by (vm_compute; reflexivity).
unfold SF2R, F2R, cond_Zopp. simpl Fnum. simpl Fexp.
change (Z.pos 9007199254740991) with (2^53 - 1)%Z.
rewrite minus_IZR. change (2^53)%Z with (Zpower radix2 53). rewrite IZR_Zpower by easy.
rewrite Rmult_minus_distr_r, <- bpow_plus, Rmult_1_l. reflexivity.
Qed.

Lemma finite_le_MAXF :
  forall x : bf, (- B2R (Prim2B MAXF) <= B2R x <= B2R (Prim2B MAXF))%R.
Proof.
intros x. rewrite B2R_MAXF. apply Rabs_le_inv. apply abs_B2R_le_emax_minus_prec. exact _.
Qed.

Lemma finiteP : forall a, PrimFloat.is_finite a = true -> is_finite (Prim2B a) = true.
Proof. intros a. now rewrite is_finite_equiv. Qed.

Lemma so2_norm_range :
  forall v, fis_finite v = true ->
  fle (- PI_f)%float (so2_norm v) = true /\ fle (so2_norm v) PI_f = true.
Proof.
intros v Fv. rewrite fis_finite_B in Fv. unfold so2_norm.
set (BP := Prim2B PI_f).
assert (FP : is_finite BP = true) by (apply finiteP; vm_compute; reflexivity).
assert (FT : is_finite_strict (Prim2B TWO_PI_f) = true).
{ unfold Prim2B. rewrite is_finite_strict_SF2B. vm_compute. reflexivity. }
(* step 1: v + pi does not overflow *)
assert (Fw : is_finite (Prim2B (v + PI_f)%float) = true).
{ rewrite add_equiv. fold BP.
  assert (U : is_finite (Bplus mode_NE (Prim2B MAXF) BP) = true).
  { unfold BP. rewrite <- add_equiv. apply finiteP. vm_compute. reflexivity. }
  assert (L : is_finite (Bplus mode_NE (Bopp (Prim2B MAXF)) BP) = true).
  { unfold BP. rewrite <- opp_equiv, <- add_equiv. apply finiteP. vm_compute. reflexivity. }
  assert (FM : is_finite (Prim2B MAXF) = true) by (apply finiteP; vm_compute; reflexivity).
  assert (FM' : is_finite (Bopp (Prim2B MAXF)) = true) by now rewrite is_finite_Bopp.
  generalize (Bplus_finite_R _ _ FM FP U) (Bplus_finite_R _ _ FM' FP L).
  rewrite B2R_Bopp. intros RU RL.
  generalize (B2R_bounds _ _ (Bplus mode_NE (Prim2B MAXF) BP))
             (B2R_bounds _ _ (Bplus mode_NE (Bopp (Prim2B MAXF)) BP)).
  rewrite RU, RL. intros BU BL.
  destruct (finite_le_MAXF (Prim2B v)) as [V1 V2].
  apply (Bplus_R_of_bound (Prim2B v) BP Fv FP).
  apply Rabs_def1.
  - apply Rle_lt_trans with (2 := proj2 BU).
    apply (round_le radix2 fexp64 ZnearestE). lra.
  - apply Rlt_le_trans with (1 := proj1 BL).
    apply (round_le radix2 fexp64 ZnearestE). lra. }
(* step 2: the euclidean remainder is in [0, 2 pi] *)
destruct (frem_euclid_range _ _ Fw FT) as [Fq [Q1 Q2]].
revert Fq Q1 Q2. generalize (frem_euclid (v + PI_f)%float TWO_PI_f). intros q Fq Q1 Q2.
(* step 3: subtracting pi *)
assert (ET : B2R BP = rnd (Rabs (B2R (Prim2B TWO_PI_f)) - B2R BP)).
{ assert (E : (abs TWO_PI_f - PI_f)%float = PI_f) by (vm_compute; reflexivity).
  assert (Fa : is_finite (Babs (Prim2B TWO_PI_f)) = true).
  { rewrite is_finite_Babs. now apply finite_strict_finite. }
  rewrite <- B2R_Babs.
  rewrite <- (Bminus_finite_R _ _ Fa FP).
  - unfold BP. now rewrite <- abs_equiv, <- sub_equiv, E.
  - unfold BP. rewrite <- abs_equiv, <- sub_equiv, E. exact FP. }
assert (FPR : generic_format radix2 fexp64 (B2R BP)) by apply generic_format_B2R.
assert (H1 : (- B2R BP <= rnd (B2R (Prim2B q) - B2R BP))%R).
{ apply round_ge_generic; auto with typeclass_instances.
  now apply generic_format_opp. lra. }
assert (H2 : (rnd (B2R (Prim2B q) - B2R BP) <= B2R BP)%R).
{ rewrite ET at 2. apply (round_le radix2 fexp64 ZnearestE). lra. }
destruct (Bminus_R_of_bound (Prim2B q) BP Fq FP) as [F3 R3].
{ generalize (B2R_bounds _ _ BP). intros BB. apply Rabs_def1; lra. }
unfold BP in F3, R3. rewrite <- sub_equiv in F3, R3.
assert (FN : is_finite (Prim2B (- PI_f)%float) = true).
{ rewrite opp_equiv, is_finite_Bopp. exact FP. }
split; apply fle_iff; repeat split; try (now apply fnan_finite);
  rewrite !ford_finite by assumption; rewrite R3; [rewrite opp_equiv, B2R_Bopp|]; assumption.
Qed.

(* ------------------------------------------------------------------ *)
Print Assumptions fclamp_in_range.
Print Assumptions fclamp_idem.
Print Assumptions fclamp_fixed.
Print Assumptions fclamp_none_iff.
Print Assumptions fsq_sub_sym.
Print Assumptions rv_dist_sym.
Print Assumptions fsub_pos_le.
Print Assumptions fadd_pos_ge.
Print Assumptions rv_satisfies_enforce.
Print Assumptions rv_enforce_idem_gen.
Print Assumptions rv_enforce_idem.
Print Assumptions u01_12_spec.
Print Assumptions u01_12_range.
Print Assumptions rnd_scale_le.
Print Assumptions rand_range_in.
Print Assumptions ffmod_finite_bound.
Print Assumptions frem_euclid_range.
Print Assumptions so2_norm_range.
