(* Metric and geodesic theorems for the SO(3) model of SpacesR.v:
   unit quaternions, so3_dist p q = 2 * acos (Rmin (Rabs (qdot p q)) 1),
   so3_slerp, so3_nlerp.  Everything is closed by Qed; only the standard axioms
   of the Reals library are used (see the Print Assumptions at the end). *)
From Coq Require Import Reals Lra Psatz.
From OX Require Import Spaces.SpacesR.
Open Scope R_scope.

(* ------------------------------------------------------------------ *)
(* Algebra of qdot                                                     *)
(* ------------------------------------------------------------------ *)

Lemma qdot_comm : forall p q, qdot p q = qdot q p.
Proof. intros p q; unfold qdot; ring. Qed.

Lemma qdot_neg_l : forall p q, qdot (qneg p) q = - qdot p q.
Proof. intros p q; unfold qdot, qneg; simpl; ring. Qed.

Lemma qdot_scale_l : forall s p q, qdot (qscale s p) q = s * qdot p q.
Proof. intros s p q; unfold qdot, qscale; simpl; ring. Qed.

Lemma qdot_scale_r : forall s p q, qdot p (qscale s q) = s * qdot p q.
Proof. intros s p q; unfold qdot, qscale; simpl; ring. Qed.

Lemma qdot_add_l : forall a b q, qdot (qadd a b) q = qdot a q + qdot b q.
Proof. intros a b q; unfold qdot, qadd; simpl; ring. Qed.

Lemma qdot_add_r : forall p a b, qdot p (qadd a b) = qdot p a + qdot p b.
Proof. intros p a b; unfold qdot, qadd; simpl; ring. Qed.

Lemma qdot_self_nonneg : forall p, 0 <= qdot p p.
Proof. intros p; unfold qdot; nra. Qed.

(* 1. Cauchy-Schwarz, from the Lagrange identity *)
Theorem qdot_cauchy : forall p q, qdot p q * qdot p q <= qdot p p * qdot q q.
Proof.
  intros [a b c d] [e f g h]; unfold qdot; simpl.
  assert (L : (a*a+b*b+c*c+d*d) * (e*e+f*f+g*g+h*h) - (a*e+b*f+c*g+d*h) * (a*e+b*f+c*g+d*h)
              = (a*f-b*e)*(a*f-b*e) + (a*g-c*e)*(a*g-c*e) + (a*h-d*e)*(a*h-d*e)
              + (b*g-c*f)*(b*g-c*f) + (b*h-d*f)*(b*h-d*f) + (c*h-d*g)*(c*h-d*g)) by ring.
  pose proof (Rle_0_sqr (a*f-b*e)) as H1. pose proof (Rle_0_sqr (a*g-c*e)) as H2.
  pose proof (Rle_0_sqr (a*h-d*e)) as H3. pose proof (Rle_0_sqr (b*g-c*f)) as H4.
  pose proof (Rle_0_sqr (b*h-d*f)) as H5. pose proof (Rle_0_sqr (c*h-d*g)) as H6.
  unfold Rsqr in *. lra.
Qed.

Lemma sqr_le_1_abs : forall x, x * x <= 1 -> Rabs x <= 1.
Proof.
  intros x H. unfold Rabs; destruct (Rcase_abs x); nra.
Qed.

(* 2. *)
Theorem qdot_unit_bound : forall p q, qunit p -> qunit q -> Rabs (qdot p q) <= 1.
Proof.
  intros p q Hp Hq. apply sqr_le_1_abs.
  pose proof (qdot_cauchy p q) as H. unfold qunit in *. rewrite Hp, Hq in H. lra.
Qed.

(* ------------------------------------------------------------------ *)
(* acos on [0,1]                                                       *)
(* ------------------------------------------------------------------ *)

Lemma Rmin_abs_1_range : forall x, 0 <= Rmin (Rabs x) 1 <= 1.
Proof.
  intros x. split.
  - apply Rmin_glb; [apply Rabs_pos | lra].
  - apply Rmin_r.
Qed.

Lemma acos_le_PI2 : forall u, 0 <= u <= 1 -> 0 <= acos u <= PI / 2.
Proof.
  intros u Hu. pose proof (acos_bound u) as [H0 H1]. split; [exact H0|].
  destruct (Rle_dec (acos u) (PI / 2)) as [H|H]; [exact H|].
  exfalso. assert (Hc : cos (acos u) < 0).
  { apply cos_lt_0; [lra|]. pose proof PI_RGT_0. lra. }
  rewrite cos_acos in Hc by lra. lra.
Qed.

(* 3. *)
Theorem so3_dist_nonneg : forall p q, 0 <= so3_dist p q.
Proof.
  intros p q. unfold so3_dist.
  pose proof (acos_bound (Rmin (Rabs (qdot p q)) 1)). lra.
Qed.

(* 4. *)
Theorem so3_dist_le_PI : forall p q, so3_dist p q <= PI.
Proof.
  intros p q. unfold so3_dist.
  pose proof (acos_le_PI2 _ (Rmin_abs_1_range (qdot p q))). lra.
Qed.

(* 5. *)
Theorem so3_dist_refl : forall p, qunit p -> so3_dist p p = 0.
Proof.
  intros p Hp. unfold so3_dist. unfold qunit in Hp. rewrite Hp.
  rewrite Rabs_R1. unfold Rmin. destruct (Rle_dec 1 1); rewrite acos_1; ring.
Qed.

(* 6. *)
Theorem so3_dist_sym : forall p q, so3_dist p q = so3_dist q p.
Proof. intros p q. unfold so3_dist. rewrite (qdot_comm p q). reflexivity. Qed.

(* 7. *)
Theorem so3_dist_neg : forall p q, so3_dist (qneg p) q = so3_dist p q.
Proof. intros p q. unfold so3_dist. rewrite qdot_neg_l, Rabs_Ropp. reflexivity. Qed.

Lemma so3_dist_neg_r : forall p q, so3_dist p (qneg q) = so3_dist p q.
Proof. intros p q. rewrite so3_dist_sym, so3_dist_neg. apply so3_dist_sym. Qed.

Lemma so3_dist_unit : forall p q, qunit p -> qunit q ->
  so3_dist p q = 2 * acos (Rabs (qdot p q)).
Proof.
  intros p q Hp Hq. unfold so3_dist. rewrite Rmin_left; [reflexivity|].
  apply qdot_unit_bound; assumption.
Qed.

(* ------------------------------------------------------------------ *)
(* Triangle inequality                                                 *)
(* ------------------------------------------------------------------ *)

Lemma acos_triangle : forall a b c,
  0 <= a <= PI -> 0 <= b <= PI -> -1 <= c <= 1 ->
  cos a * cos b - sin a * sin b <= c -> acos c <= a + b.
Proof.
  intros a b c Ha Hb Hc H. pose proof (acos_bound c) as [G0 G1].
  destruct (Rle_dec (a + b) PI) as [Hab|Hab]; [|lra].
  destruct (Rle_dec (acos c) (a + b)) as [Hle|Hgt]; [exact Hle|].
  exfalso. assert (Hlt : a + b < acos c) by lra.
  pose proof (cos_decreasing_1 (a + b) (acos c)) as D.
  rewrite cos_acos, cos_plus in D by exact Hc. lra.
Qed.

(* Gram inequality: Cauchy-Schwarz for the components of p and r orthogonal to q *)
Lemma gram_ineq : forall p q r, qunit p -> qunit q -> qunit r ->
  (qdot p r - qdot p q * qdot q r) * (qdot p r - qdot p q * qdot q r)
  <= (1 - qdot p q * qdot p q) * (1 - qdot q r * qdot q r).
Proof.
  intros p q r Hp Hq Hr. unfold qunit in *.
  set (x := qdot p q). set (y := qdot q r). set (z := qdot p r).
  pose (p' := qadd p (qscale (- x) q)). pose (r' := qadd r (qscale (- y) q)).
  pose proof (qdot_cauchy p' r') as CS.
  assert (E1 : qdot p' r' = z - x * y).
  { unfold p', r'. rewrite !qdot_add_l, !qdot_add_r, !qdot_scale_l, !qdot_scale_r.
    rewrite Hq. fold x y z. ring. }
  assert (E2 : qdot p' p' = 1 - x * x).
  { unfold p'. rewrite !qdot_add_l, !qdot_add_r, !qdot_scale_l, !qdot_scale_r.
    rewrite Hq, Hp. rewrite (qdot_comm q p). fold x. ring. }
  assert (E3 : qdot r' r' = 1 - y * y).
  { unfold r'. rewrite !qdot_add_l, !qdot_add_r, !qdot_scale_l, !qdot_scale_r.
    rewrite Hq, Hr. rewrite (qdot_comm r q). fold y. ring. }
  rewrite E1, E2, E3 in CS. exact CS.
Qed.

Lemma abs_le_1_sqr : forall x, Rabs x <= 1 -> 0 <= 1 - x * x.
Proof.
  intros x H. unfold Rabs in H; destruct (Rcase_abs x); nra.
Qed.

Lemma sqr_abs : forall x, Rabs x * Rabs x = x * x.
Proof. intros x. unfold Rabs; destruct (Rcase_abs x); ring. Qed.

(* 8. *)
Theorem so3_dist_triangle : forall p q r, qunit p -> qunit q -> qunit r ->
  so3_dist p r <= so3_dist p q + so3_dist q r.
Proof.
  intros p q r Hp Hq Hr.
  rewrite !so3_dist_unit by assumption.
  pose proof (gram_ineq p q r Hp Hq Hr) as G.
  pose proof (qdot_unit_bound p q Hp Hq) as Bx.
  pose proof (qdot_unit_bound q r Hq Hr) as By.
  pose proof (qdot_unit_bound p r Hp Hr) as Bz.
  set (x := qdot p q) in *. set (y := qdot q r) in *. set (z := qdot p r) in *.
  pose proof (Rabs_pos x) as Px. pose proof (Rabs_pos y) as Py. pose proof (Rabs_pos z) as Pz.
  pose proof (abs_le_1_sqr x Bx) as Sx. pose proof (abs_le_1_sqr y By) as Sy.
  assert (T : acos (Rabs z) <= acos (Rabs x) + acos (Rabs y)).
  { apply acos_triangle.
    - apply acos_bound.
    - apply acos_bound.
    - lra.
    - rewrite !cos_acos, !sin_acos by lra.
      unfold Rsqr. rewrite !sqr_abs.
      rewrite <- sqrt_mult by assumption.
      (* |z - x y| <= sqrt ((1-x^2)(1-y^2)) *)
      assert (A : Rabs (z - x * y) <= sqrt ((1 - x * x) * (1 - y * y))).
      { rewrite <- (sqrt_Rsqr_abs (z - x * y)). apply sqrt_le_1.
        - apply Rle_0_sqr.
        - apply Rmult_le_pos; assumption.
        - unfold Rsqr. exact G. }
      assert (B : Rabs x * Rabs y <= Rabs z + Rabs (z - x * y)).
      { rewrite <- Rabs_mult.
        replace (x * y) with (z + - (z - x * y)) at 1 by ring.
        eapply Rle_trans; [apply Rabs_triang|]. rewrite Rabs_Ropp. lra. }
      lra. }
  lra.
Qed.

(* ------------------------------------------------------------------ *)
(* 9. Identity of indiscernibles (up to the double cover q ~ -q)        *)
(* ------------------------------------------------------------------ *)

Lemma qunit_neg : forall q, qunit q -> qunit (qneg q).
Proof. intros q H. unfold qunit in *. rewrite <- H. unfold qdot, qneg; simpl; ring. Qed.

Lemma qdot_1_eq : forall p q, qunit p -> qunit q -> qdot p q = 1 -> p = q.
Proof.
  intros [a b c d] [e f g h] Hp Hq H. unfold qunit, qdot in *; simpl in *.
  assert (S : (a-e)*(a-e) + (b-f)*(b-f) + (c-g)*(c-g) + (d-h)*(d-h) = 0) by nra.
  pose proof (Rle_0_sqr (a-e)) as H1. pose proof (Rle_0_sqr (b-f)) as H2.
  pose proof (Rle_0_sqr (c-g)) as H3. pose proof (Rle_0_sqr (d-h)) as H4.
  unfold Rsqr in *.
  assert (E1 : a = e) by nra. assert (E2 : b = f) by nra.
  assert (E3 : c = g) by nra. assert (E4 : d = h) by nra.
  subst. reflexivity.
Qed.

Theorem so3_dist_zero : forall p q, qunit p -> qunit q ->
  so3_dist p q = 0 -> p = q \/ p = qneg q.
Proof.
  intros p q Hp Hq H. rewrite so3_dist_unit in H by assumption.
  pose proof (qdot_unit_bound p q Hp Hq) as B. pose proof (Rabs_pos (qdot p q)) as P.
  assert (A : acos (Rabs (qdot p q)) = 0) by lra.
  assert (C : Rabs (qdot p q) = 1).
  { rewrite <- (cos_acos (Rabs (qdot p q))) by lra. rewrite A. apply cos_0. }
  unfold Rabs in C. destruct (Rcase_abs (qdot p q)) as [Hn|Hn].
  - right. apply qdot_1_eq; [assumption | apply qunit_neg; assumption |].
    rewrite qdot_comm, qdot_neg_l, qdot_comm. exact C.
  - left. apply qdot_1_eq; assumption.
Qed.

(* ------------------------------------------------------------------ *)
(* 10. SLERP                                                           *)
(* ------------------------------------------------------------------ *)

Lemma so3_sign_abs : forall p q, qdot p q * so3_sign p q = Rabs (qdot p q).
Proof.
  intros p q. unfold so3_sign. destruct (Rlt_dec (qdot p q) 0) as [H|H].
  - rewrite Rabs_left by exact H. ring.
  - rewrite Rabs_right by lra. ring.
Qed.

Lemma so3_sign_sqr : forall p q, so3_sign p q * so3_sign p q = 1.
Proof. intros p q. unfold so3_sign. destruct (Rlt_dec (qdot p q) 0); ring. Qed.

Lemma qunit_scale_sign : forall p q, qunit q -> qunit (qscale (so3_sign p q) q).
Proof.
  intros p q H. unfold qunit in *. rewrite qdot_scale_l, qdot_scale_r, H.
  pose proof (so3_sign_sqr p q). lra.
Qed.

(* the angle th = acos d for 0 <= d < 1 *)
Lemma acos_lt1_facts : forall d, 0 <= d < 1 ->
  0 < acos d <= PI / 2 /\ cos (acos d) = d /\ 0 < sin (acos d).
Proof.
  intros d Hd. pose proof (acos_le_PI2 d) as B. pose proof (acos_bound_lt d) as L.
  assert (0 < acos d < PI) as L' by (apply L; lra).
  repeat split; try lra.
  - apply cos_acos; lra.
  - apply sin_gt_0; lra.
Qed.

Lemma so3_slerp_eq : forall p q t,
  so3_slerp p q t =
  let th := acos (Rabs (qdot p q)) in
  qadd (qscale (sin (th - t * th) / sin th) p)
       (qscale (sin (t * th) / sin th * so3_sign p q) q).
Proof.
  intros p q t. unfold so3_slerp. cbv zeta. rewrite so3_sign_abs.
  replace ((1 - t) * acos (Rabs (qdot p q)))
    with (acos (Rabs (qdot p q)) - t * acos (Rabs (qdot p q))) by ring.
  reflexivity.
Qed.

Lemma qdot_lincomb : forall a b p q,
  qdot (qadd (qscale a p) (qscale b q)) (qadd (qscale a p) (qscale b q))
  = a * a * qdot p p + 2 * a * b * qdot p q + b * b * qdot q q.
Proof. intros a b p q. unfold qdot, qadd, qscale; simpl; ring. Qed.

Lemma slerp_trig_dot : forall a b, sin b <> 0 ->
  sin (b - a) / sin b + sin a / sin b * cos b = cos a.
Proof. intros a b H. rewrite sin_minus. field. exact H. Qed.

Lemma slerp_trig_unit : forall a b, sin b <> 0 ->
  (sin (b - a) / sin b) * (sin (b - a) / sin b)
  + 2 * (sin (b - a) / sin b) * (sin a / sin b) * cos b
  + (sin a / sin b) * (sin a / sin b) = 1.
Proof.
  intros a b H. rewrite sin_minus.
  pose proof (sin2_cos2 a) as Ea. pose proof (sin2_cos2 b) as Eb. unfold Rsqr in *.
  set (sa := sin a) in *. set (ca := cos a) in *.
  set (sb := sin b) in *. set (cb := cos b) in *.
  replace ((sb * ca - cb * sa) / sb * ((sb * ca - cb * sa) / sb)
           + 2 * ((sb * ca - cb * sa) / sb) * (sa / sb) * cb + sa / sb * (sa / sb))
    with (ca * ca + sa * sa * ((1 - cb * cb) / (sb * sb))) by (field; exact H).
  replace (1 - cb * cb) with (sb * sb) by lra.
  replace (sb * sb / (sb * sb)) with 1 by (field; exact H). lra.
Qed.

Theorem so3_slerp_unit : forall p q t, qunit p -> qunit q -> Rabs (qdot p q) < 1 ->
  qunit (so3_slerp p q t).
Proof.
  intros p q t Hp Hq Hlt. rewrite so3_slerp_eq. cbv zeta.
  pose proof (Rabs_pos (qdot p q)) as P.
  destruct (acos_lt1_facts (Rabs (qdot p q))) as (Hth & Hc & Hs); [lra|].
  set (th := acos (Rabs (qdot p q))) in *.
  unfold qunit in *. rewrite qdot_lincomb, Hp, Hq.
  pose proof (so3_sign_abs p q) as SA. pose proof (so3_sign_sqr p q) as SS.
  set (sg := so3_sign p q) in *. set (x := qdot p q) in *.
  assert (Hs' : sin th <> 0) by lra.
  pose proof (slerp_trig_unit (t * th) th Hs') as T. rewrite Hc in T.
  set (S0 := sin (th - t * th) / sin th) in *.
  set (S1 := sin (t * th) / sin th) in *.
  replace (S0 * S0 * 1 + 2 * S0 * (S1 * sg) * x + S1 * sg * (S1 * sg) * 1)
    with (S0 * S0 + 2 * S0 * S1 * (x * sg) + S1 * S1 * (sg * sg)) by ring.
  rewrite SA, SS. lra.
Qed.

Theorem so3_slerp_dot_from : forall p q t, qunit p -> qunit q -> Rabs (qdot p q) < 1 ->
  qdot p (so3_slerp p q t) = cos (t * acos (Rabs (qdot p q))).
Proof.
  intros p q t Hp Hq Hlt. rewrite so3_slerp_eq. cbv zeta.
  pose proof (Rabs_pos (qdot p q)) as P.
  destruct (acos_lt1_facts (Rabs (qdot p q))) as (Hth & Hc & Hs); [lra|].
  set (th := acos (Rabs (qdot p q))) in *.
  unfold qunit in *. rewrite qdot_add_r, !qdot_scale_r, Hp.
  pose proof (so3_sign_abs p q) as SA.
  set (sg := so3_sign p q) in *. set (x := qdot p q) in *.
  assert (Hs' : sin th <> 0) by lra.
  pose proof (slerp_trig_dot (t * th) th Hs') as T. rewrite Hc in T.
  rewrite <- T, <- SA. ring.
Qed.

Theorem so3_slerp_dist_from : forall p q t, qunit p -> qunit q -> Rabs (qdot p q) < 1 ->
  0 <= t <= 1 -> so3_dist p (so3_slerp p q t) = t * so3_dist p q.
Proof.
  intros p q t Hp Hq Hlt Ht.
  rewrite (so3_dist_unit p q) by assumption.
  unfold so3_dist at 1. rewrite so3_slerp_dot_from by assumption.
  pose proof (Rabs_pos (qdot p q)) as P.
  destruct (acos_lt1_facts (Rabs (qdot p q))) as (Hth & Hc & Hs); [lra|].
  set (th := acos (Rabs (qdot p q))) in *.
  assert (R : 0 <= t * th <= PI / 2) by nra.
  pose proof PI_RGT_0 as Ppi.
  assert (C0 : 0 <= cos (t * th)) by (apply cos_ge_0; lra).
  pose proof (COS_bound (t * th)) as [_ C1].
  rewrite Rabs_right by lra. rewrite Rmin_left by exact C1.
  rewrite acos_cos by lra. ring.
Qed.

Lemma qadd_scale_1_0 : forall p q, qadd (qscale 1 p) (qscale 0 q) = p.
Proof. intros [a b c d] [e f g h]. unfold qadd, qscale; simpl. f_equal; ring. Qed.

Lemma qadd_scale_0_s : forall s p q, qadd (qscale 0 p) (qscale s q) = qscale s q.
Proof. intros s [a b c d] [e f g h]. unfold qadd, qscale; simpl. f_equal; ring. Qed.

Theorem so3_slerp_0 : forall p q, qunit p -> qunit q -> Rabs (qdot p q) < 1 ->
  so3_slerp p q 0 = p.
Proof.
  intros p q Hp Hq Hlt. rewrite so3_slerp_eq. cbv zeta.
  pose proof (Rabs_pos (qdot p q)) as P.
  destruct (acos_lt1_facts (Rabs (qdot p q))) as (Hth & Hc & Hs); [lra|].
  set (th := acos (Rabs (qdot p q))) in *.
  replace (th - 0 * th) with th by ring. replace (0 * th) with 0 by ring.
  rewrite sin_0.
  replace (sin th / sin th) with 1 by (field; lra).
  replace (0 / sin th * so3_sign p q) with 0 by (field; lra).
  apply qadd_scale_1_0.
Qed.

Theorem so3_slerp_1 : forall p q, qunit p -> qunit q -> Rabs (qdot p q) < 1 ->
  so3_slerp p q 1 = qscale (so3_sign p q) q.
Proof.
  intros p q Hp Hq Hlt. rewrite so3_slerp_eq. cbv zeta.
  pose proof (Rabs_pos (qdot p q)) as P.
  destruct (acos_lt1_facts (Rabs (qdot p q))) as (Hth & Hc & Hs); [lra|].
  set (th := acos (Rabs (qdot p q))) in *.
  replace (th - 1 * th) with 0 by ring. replace (1 * th) with th by ring.
  rewrite sin_0.
  replace (0 / sin th) with 0 by (field; lra).
  replace (sin th / sin th * so3_sign p q) with (so3_sign p q) by (field; lra).
  apply qadd_scale_0_s.
Qed.

(* ------------------------------------------------------------------ *)
(* 11. NLERP                                                           *)
(* ------------------------------------------------------------------ *)

Lemma nlerp_norm : forall p q s t,
  let l := qadd p (qscale t (qadd (qscale s q) (qneg p))) in
  qdot l l = (1 - t) * (1 - t) * qdot p p + 2 * t * (1 - t) * s * qdot p q
             + t * t * s * s * qdot q q.
Proof. intros p q s t. unfold qdot, qadd, qscale, qneg; simpl; ring. Qed.

Lemma qunit_normalize : forall l, 0 < qdot l l -> qunit (qscale (/ sqrt (qdot l l)) l).
Proof.
  intros l H. unfold qunit. rewrite qdot_scale_l, qdot_scale_r.
  assert (S : sqrt (qdot l l) * sqrt (qdot l l) = qdot l l) by (apply sqrt_sqrt; lra).
  assert (Z : sqrt (qdot l l) <> 0).
  { intro E. rewrite E in S. lra. }
  rewrite <- S at 3. field. exact Z.
Qed.

Theorem so3_nlerp_unit : forall p q t, qunit p -> qunit q -> 0 <= t <= 1 ->
  0 < qdot p q * so3_sign p q -> qunit (so3_nlerp p q t).
Proof.
  intros p q t Hp Hq Ht Hd. unfold so3_nlerp. cbv zeta.
  apply qunit_normalize. rewrite nlerp_norm. unfold qunit in *. rewrite Hp, Hq.
  pose proof (so3_sign_sqr p q) as SS.
  set (sg := so3_sign p q) in *. set (x := qdot p q) in *.
  replace ((1 - t) * (1 - t) * 1 + 2 * t * (1 - t) * sg * x + t * t * sg * sg * 1)
    with ((1 - t) * (1 - t) + 2 * t * (1 - t) * (x * sg) + t * t * (sg * sg)) by ring.
  rewrite SS.
  assert (0 <= t * (1 - t)) by nra.
  assert (0 <= t * (1 - t) * (x * sg)) by (apply Rmult_le_pos; lra).
  nra.
Qed.

Theorem so3_nlerp_0 : forall p q, qunit p -> qunit q -> so3_nlerp p q 0 = p.
Proof.
  intros p q Hp Hq. unfold so3_nlerp. cbv zeta. rewrite nlerp_norm.
  unfold qunit in *. rewrite Hp, Hq.
  replace ((1 - 0) * (1 - 0) * 1 + 2 * 0 * (1 - 0) * so3_sign p q * qdot p q
           + 0 * 0 * so3_sign p q * so3_sign p q * 1) with 1 by ring.
  rewrite sqrt_1, Rinv_1. generalize (so3_sign p q) as sg. intros sg.
  destruct p as [a b c d], q as [e f g h]. unfold qadd, qscale, qneg; simpl. f_equal; ring.
Qed.

Theorem so3_nlerp_1 : forall p q, qunit p -> qunit q ->
  so3_nlerp p q 1 = qscale (so3_sign p q) q.
Proof.
  intros p q Hp Hq. unfold so3_nlerp. cbv zeta. rewrite nlerp_norm.
  unfold qunit in *. rewrite Hp, Hq.
  pose proof (so3_sign_sqr p q) as SS.
  replace ((1 - 1) * (1 - 1) * 1 + 2 * 1 * (1 - 1) * so3_sign p q * qdot p q
           + 1 * 1 * so3_sign p q * so3_sign p q * 1) with (so3_sign p q * so3_sign p q) by ring.
  rewrite SS, sqrt_1, Rinv_1. clear SS. generalize (so3_sign p q) as sg. intros sg.
  destruct p as [a b c d], q as [e f g h]. unfold qadd, qscale, qneg; simpl. f_equal; ring.
Qed.

(* ------------------------------------------------------------------ *)
(* 12. A geodesic ball (cone) of radius 2 about a rotation is not       *)
(*     closed under so3_slerp                                           *)
(* ------------------------------------------------------------------ *)

Lemma cos_1_le_3_5 : cos 1 <= 3 / 5.
Proof.
  pose proof (pre_cos_bound 1 0) as [_ H]; [lra | lra |].
  eapply Rle_trans; [exact H|].
  unfold cos_approx, cos_term. simpl. lra.
Qed.

Lemma acos_3_5_le_1 : acos (3 / 5) <= 1.
Proof.
  pose proof (acos_bound (3 / 5)) as [B0 B1].
  destruct (Rle_dec (acos (3 / 5)) 1) as [H|H]; [exact H|]. exfalso.
  pose proof PI2_1 as P1.
  pose proof (cos_decreasing_1 1 (acos (3 / 5))) as D.
  rewrite cos_acos in D by lra. pose proof cos_1_le_3_5. lra.
Qed.

Theorem so3_cone_not_convex : exists c p q t,
  qunit c /\ qunit p /\ qunit q /\ so3_dist c p <= 2 /\ so3_dist c q <= 2 /\
  0 <= t <= 1 /\ Rabs (qdot p q) < 1 /\ ~ so3_dist c (so3_slerp p q t) <= 2.
Proof.
  exists (mkQ 0 0 0 1), (mkQ (4/5) 0 0 (3/5)), (mkQ (-4/5) 0 0 (3/5)), (1/2).
  set (c := mkQ 0 0 0 1). set (p := mkQ (4/5) 0 0 (3/5)). set (q := mkQ (-4/5) 0 0 (3/5)).
  assert (Hc : qunit c) by (unfold qunit, qdot; simpl; lra).
  assert (Hp : qunit p) by (unfold qunit, qdot; simpl; lra).
  assert (Hq : qunit q) by (unfold qunit, qdot; simpl; lra).
  assert (Dcp : qdot c p = 3 / 5) by (unfold qdot; simpl; lra).
  assert (Dcq : qdot c q = 3 / 5) by (unfold qdot; simpl; lra).
  assert (Dpq : qdot p q = - (7 / 25)) by (unfold qdot; simpl; lra).
  pose proof acos_3_5_le_1 as A.
  repeat split; try assumption; try lra.
  - rewrite so3_dist_unit by assumption. rewrite Dcp, Rabs_right by lra. lra.
  - rewrite so3_dist_unit by assumption. rewrite Dcq, Rabs_right by lra. lra.
  - rewrite Dpq, Rabs_Ropp, Rabs_right by lra. lra.
  - assert (Sg : so3_sign p q = -1).
    { unfold so3_sign. rewrite Dpq. destruct (Rlt_dec (- (7 / 25)) 0); [reflexivity | lra]. }
    assert (Z : qdot c (so3_slerp p q (1 / 2)) = 0).
    { unfold so3_slerp. cbv zeta. rewrite qdot_add_r, !qdot_scale_r, Dcp, Dcq, Sg.
      replace ((1 - 1 / 2) * acos (qdot p q * -1)) with (1 / 2 * acos (qdot p q * -1)) by lra.
      unfold Rdiv. ring. }
    unfold so3_dist. rewrite Z, Rabs_R0, Rmin_left by lra. rewrite acos_0.
    pose proof PI2_3_2. lra.
Qed.

Print Assumptions so3_dist_triangle.
Print Assumptions so3_slerp_dist_from.
