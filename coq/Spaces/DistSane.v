(* Sanity of the executable distance functions of Spaces/SpacesF.v at the level of IEEE-754
   binary64: when is the result ">= 0 and not NaN" (fle zero d = true; +inf and -0.0 allowed)?
   This is the single hypothesis on `dist` of the generic planner theorems (C15/C17). *)
From Coq Require Import ZArith NArith List Bool Reals Floats Lra Lia.
From Flocq Require Import Core IEEE754.BinarySingleNaN IEEE754.PrimFloat.
From OX Require Import Numerics.FloatBits Numerics.FloatOrder Gen.Consts Spaces.SpacesF
  Spaces.SpacesFProofs.
Import ListNotations.

#[local] Existing Instance Flocq.IEEE754.PrimFloat.Hprec.
#[local] Existing Instance Flocq.IEEE754.PrimFloat.Hmax.

Notation bf := (binary_float prec emax).
Notation fexp64 := (FLT_exp (SpecFloat.emin prec emax) prec).
Notation rnd := (round radix2 fexp64 ZnearestE).
Notation M := (bpow radix2 emax).
Notation Bo := (Bord prec emax).
Notation B0 := (B754_zero false : bf).

(* ------------------------------------------------------------------ *)
(* 1. Flocq level: products, square roots, absolute values, NaN        *)
(* ------------------------------------------------------------------ *)

Lemma overflow_NE_inf :
  forall (z : bf) s, B2SF z = binary_overflow prec emax mode_NE s -> z = B754_infinity s.
Proof.
intros z s H. unfold binary_overflow in H. simpl overflow_to_inf in H. cbv iota in H.
now apply B2SF_inf.
Qed.

Lemma Bleb_0_finite :
  forall z : bf, is_finite z = true -> (0 <= B2R z)%R -> Bleb B0 z = true.
Proof.
intros z Fz Pz. apply Bleb_true_iff. repeat split.
- now apply finite_not_nan.
- rewrite (Bord_finite _ _ _ Fz). exact Pz.
Qed.

(* finite * finite is never NaN *)
Lemma Bmult_ff_cases :
  forall x y : bf, is_finite x = true -> is_finite y = true ->
  (is_finite (Bmult mode_NE x y) = true /\ B2R (Bmult mode_NE x y) = rnd (B2R x * B2R y)) \/
  Bmult mode_NE x y = B754_infinity (xorb (Bsign x) (Bsign y)).
Proof.
intros x y Fx Fy.
generalize (Bmult_correct prec emax _ _ mode_NE x y). simpl round_mode.
change (fexp prec emax) with fexp64.
destruct (Rlt_bool _ _).
- intros (H1 & H2 & _). left. rewrite H2, Fx, Fy. now split.
- intros H1. right. now apply overflow_NE_inf.
Qed.

Lemma Bmult_ff_not_nan :
  forall x y : bf, is_finite x = true -> is_finite y = true ->
  is_nan (Bmult mode_NE x y) = false.
Proof.
intros x y Fx Fy. destruct (Bmult_ff_cases x y Fx Fy) as [[F _]|E].
- now apply finite_not_nan.
- now rewrite E.
Qed.

(* (non-NaN) * (finite, non-zero) is never NaN *)
Lemma Bmult_strict_not_nan :
  forall x y : bf, is_nan x = false -> is_finite_strict y = true ->
  is_nan (Bmult mode_NE x y) = false.
Proof.
intros x y Nx Sy.
destruct x as [sx|sx| |sx mx ex Hx]; try discriminate.
- now destruct y.
- now destruct y.
- apply Bmult_ff_not_nan; [reflexivity|now apply finite_strict_finite].
Qed.

Lemma Bmult_nan_inv :
  forall x y : bf, is_nan (Bmult mode_NE x y) = false -> is_nan x = false /\ is_nan y = false.
Proof.
intros [sx|sx| |sx mx ex Hx] [sy|sy| |sy my ey Hy]; try discriminate; now split.
Qed.

(* x * x >= 0 *)
Lemma Bmult_self_nonneg :
  forall x : bf, is_nan x = false -> Bleb B0 (Bmult mode_NE x x) = true.
Proof.
intros x Nx.
destruct x as [sx|sx| |sx mx ex Hx]; try discriminate.
- now destruct sx.
- now destruct sx.
- set (x := B754_finite sx mx ex Hx).
  destruct (Bmult_ff_cases x x eq_refl eq_refl) as [[F R]|E].
  + apply Bleb_0_finite; [exact F|]. rewrite R. apply (rnd_ge_0 prec emax Flocq.IEEE754.PrimFloat.Hprec). apply Rle_0_sqr.
  + rewrite E, xorb_nilpotent. reflexivity.
Qed.

(* (finite, > 0) * (>= 0) is >= 0 *)
Lemma Bmult_pos_nonneg :
  forall c d : bf, is_finite_strict c = true -> Bsign c = false ->
  Bleb B0 d = true -> Bleb B0 (Bmult mode_NE c d) = true.
Proof.
intros c d Sc Pc Hd.
destruct c as [sc|sc| |sc mc ec Hc]; try discriminate. simpl in Pc. subst sc.
destruct (Bnonneg_cases prec emax d Hd) as [E|(Fd & Pd & _)].
- subst d. reflexivity.
- set (c := B754_finite false mc ec Hc) in *.
  assert (P : (0 <= B2R c)%R) by (now apply B2R_sign_false_ge_0).
  destruct (Bmult_ff_cases c d eq_refl Fd) as [[F R]|E].
  + apply Bleb_0_finite; [exact F|]. rewrite R. apply (rnd_ge_0 prec emax Flocq.IEEE754.PrimFloat.Hprec).
    now apply Rmult_le_pos.
  + rewrite E. unfold c in E |- *.
    destruct d as [sd|sd| |[|] md ed Hd']; try discriminate. reflexivity.
Qed.

Lemma Bsqrt_nonneg :
  forall x : bf, Bleb B0 x = true -> Bleb B0 (Bsqrt mode_NE x) = true.
Proof.
intros x Hx.
destruct x as [s|[|]| |[|] m e H]; try discriminate.
- now destruct s.
- reflexivity.
- generalize (Bsqrt_correct prec emax _ _ mode_NE (B754_finite false m e H)).
  simpl round_mode. change (fexp prec emax) with fexp64.
  intros (R & F & _).
  apply Bleb_0_finite; [exact F|]. rewrite R. apply (rnd_ge_0 prec emax Flocq.IEEE754.PrimFloat.Hprec). apply sqrt_pos.
Qed.

Lemma Bsqrt_nan_inv : forall x : bf, is_nan (Bsqrt mode_NE x) = false -> is_nan x = false.
Proof. now intros [s|s| |s m e H]. Qed.

Lemma Bplus_nan_inv :
  forall x y : bf, is_nan (Bplus mode_NE x y) = false -> is_nan x = false /\ is_nan y = false.
Proof.
intros [sx|sx| |sx mx ex Hx] [sy|sy| |sy my ey Hy]; try discriminate; now split.
Qed.

Lemma Babs_nonneg : forall x : bf, is_nan x = false -> Bleb B0 (Babs x) = true.
Proof. now intros [s|s| |s m e H]. Qed.

Lemma Babs_nan : forall x : bf, is_nan (Babs x) = is_nan x.
Proof. now intros [s|s| |s m e H]. Qed.

Lemma Bo_Babs : forall x : bf, is_nan x = false -> Bo (Babs x) = Rabs (Bo x).
Proof.
intros [s|s| |s m e H] Nx; try discriminate.
- simpl. now rewrite Rabs_R0.
- generalize (M_pos emax). intros HM. destruct s; simpl.
  + rewrite Rabs_Ropp, Rabs_pos_eq; lra.
  + rewrite Rabs_pos_eq; lra.
- change (Bo (Babs (B754_finite s m e H))) with (B2R (Babs (B754_finite s m e H))).
  now rewrite B2R_Babs.
Qed.

(* a difference is NaN only if an operand is NaN or both are infinite *)
Lemma Bminus_not_nan :
  forall x y : bf, is_nan x = false -> is_nan y = false ->
  is_finite x = true \/ is_finite y = true ->
  is_nan (Bminus mode_NE x y) = false.
Proof.
intros x y Nx Ny Fxy.
destruct (is_finite x) eqn:Fx; destruct (is_finite y) eqn:Fy.
- generalize (Bminus_correct prec emax _ _ mode_NE x y Fx Fy).
  destruct (Rlt_bool _ _).
  + intros (_ & F & _). now apply finite_not_nan.
  + intros (H & _). apply overflow_NE_inf in H. now rewrite H.
- destruct y as [sy|sy| |sy my ey Hy]; try discriminate. now destruct x.
- destruct x as [sx|sx| |sx mx ex Hx]; try discriminate. now destruct y.
- now destruct Fxy.
Qed.

Lemma Bminus_nan_inv :
  forall x y : bf, is_nan (Bminus mode_NE x y) = false -> is_nan x = false /\ is_nan y = false.
Proof.
intros [sx|sx| |sx mx ex Hx] [sy|sy| |sy my ey Hy]; try discriminate; now split.
Qed.

Lemma Bo_Bopp : forall x : bf, Bo (Bopp x) = (- Bo x)%R.
Proof.
intros [s|s| |s m e H].
- simpl. lra.
- destruct s; simpl; lra.
- simpl. lra.
- change (B2R (Bopp (B754_finite s m e H)) = (- B2R (B754_finite s m e H))%R). apply B2R_Bopp.
Qed.

Lemma Bo_inside_finite :
  forall x : bf, is_nan x = false -> (- M < Bo x < M)%R -> is_finite x = true.
Proof.
intros [s|s| |s m e H] Nx B; try reflexivity; try discriminate.
destruct s; simpl in B; lra.
Qed.

Lemma Bminus_finite_of_range :
  forall x y : bf, is_finite x = true -> is_finite y = true ->
  (Rabs (B2R x) <= bpow radix2 1022)%R -> (Rabs (B2R y) <= bpow radix2 1022)%R ->
  is_finite (Bminus mode_NE x y) = true.
Proof.
intros x y Fx Fy Hx Hy.
apply (Bminus_R_of_bound x y Fx Fy).
apply Rabs_le_inv in Hx. apply Rabs_le_inv in Hy.
assert (E : (bpow radix2 1023 = 2 * bpow radix2 1022)%R).
{ change 1023%Z with (1 + 1022)%Z. rewrite bpow_plus. reflexivity. }
assert (G : generic_format radix2 fexp64 (bpow radix2 1023)).
{ apply generic_format_FLT_bpow; [exact _|]. unfold SpecFloat.emin, emax, prec. lia. }
apply Rle_lt_trans with (bpow radix2 1023).
- apply Rabs_le. split.
  + apply round_ge_generic; auto with typeclass_instances. now apply generic_format_opp. lra.
  + apply round_le_generic; auto with typeclass_instances. lra.
- apply bpow_lt. reflexivity.
Qed.

(* ------------------------------------------------------------------ *)
(* 2. the same facts on primitive floats                               *)
(* ------------------------------------------------------------------ *)

Lemma fsq_nonneg : forall x : F, fis_nan x = false -> fle zero (fsq x) = true.
Proof.
intros x. unfold fis_nan, fle, fsq.
rewrite is_nan_equiv, leb_equiv, mul_equiv, Prim2B_zero.
apply Bmult_self_nonneg.
Qed.

Lemma fsq_nan_inv : forall x : F, fis_nan (fsq x) = false -> fis_nan x = false.
Proof.
intros x. unfold fis_nan, fsq. rewrite !is_nan_equiv, mul_equiv.
intros H. now apply Bmult_nan_inv in H.
Qed.

Lemma fsqrt_nonneg : forall x : F, fle zero x = true -> fle zero (sqrt x) = true.
Proof.
intros x. unfold fle. rewrite !leb_equiv, sqrt_equiv, Prim2B_zero.
apply Bsqrt_nonneg.
Qed.

Lemma fsqrt_nan_inv : forall x : F, fis_nan (sqrt x) = false -> fis_nan x = false.
Proof.
intros x. unfold fis_nan. rewrite !is_nan_equiv, sqrt_equiv. apply Bsqrt_nan_inv.
Qed.

Lemma fadd_nan_inv :
  forall x y : F, fis_nan (x + y)%float = false -> fis_nan x = false /\ fis_nan y = false.
Proof.
intros x y. unfold fis_nan. rewrite !is_nan_equiv, add_equiv. apply Bplus_nan_inv.
Qed.

Lemma fabs_nonneg : forall x : F, fis_nan x = false -> fle zero (abs x) = true.
Proof.
intros x. unfold fis_nan, fle. rewrite is_nan_equiv, leb_equiv, abs_equiv, Prim2B_zero.
apply Babs_nonneg.
Qed.

Lemma fabs_nan : forall x : F, fis_nan (abs x) = fis_nan x.
Proof. intros x. unfold fis_nan. rewrite !is_nan_equiv, abs_equiv. apply Babs_nan. Qed.

Lemma fmul_finite_not_nan :
  forall x y : F, fis_finite x = true -> fis_finite y = true -> fis_nan (x * y)%float = false.
Proof.
intros x y. rewrite !fis_finite_B. unfold fis_nan. rewrite is_nan_equiv, mul_equiv.
apply Bmult_ff_not_nan.
Qed.

(* a weight that is finite and not (+-)0 *)
Definition weight_ok (w : F) : bool := fis_finite w && negb (is_zero w).

Lemma weight_ok_B : forall w, weight_ok w = is_finite_strict (Prim2B w).
Proof.
intros w. unfold weight_ok. rewrite fis_finite_B, is_zero_equiv. now destruct (Prim2B w).
Qed.

Lemma fmul_weight_not_nan :
  forall d w : F, fis_nan d = false -> weight_ok w = true -> fis_nan (d * w)%float = false.
Proof.
intros d w. rewrite weight_ok_B. unfold fis_nan. rewrite !is_nan_equiv, mul_equiv.
apply Bmult_strict_not_nan.
Qed.

Lemma fmul_nan_inv :
  forall x y : F, fis_nan (x * y)%float = false -> fis_nan x = false /\ fis_nan y = false.
Proof.
intros x y. unfold fis_nan. rewrite !is_nan_equiv, mul_equiv. apply Bmult_nan_inv.
Qed.

Lemma fsub_not_nan :
  forall x y : F, fis_nan x = false -> fis_nan y = false ->
  fis_finite x = true \/ fis_finite y = true -> fis_nan (x - y)%float = false.
Proof.
intros x y. rewrite !fis_finite_B. unfold fis_nan. rewrite !is_nan_equiv, sub_equiv.
apply Bminus_not_nan.
Qed.

Lemma fsub_nan_inv :
  forall x y : F, fis_nan (x - y)%float = false -> fis_nan x = false /\ fis_nan y = false.
Proof.
intros x y. unfold fis_nan. rewrite !is_nan_equiv, sub_equiv. apply Bminus_nan_inv.
Qed.

Lemma fis_finite_not_nan : forall x : F, fis_finite x = true -> fis_nan x = false.
Proof.
intros x. unfold fis_finite, fis_nan. now destruct (PrimFloat.is_nan x).
Qed.

Lemma fle_zero_not_nan : forall x : F, fle zero x = true -> fis_nan x = false.
Proof. intros x H. now destruct (fle_not_nan _ _ H). Qed.

Lemma fle_zero_neg_zero : fle zero neg_zero = true.
Proof. reflexivity. Qed.

(* ------------------------------------------------------------------ *)
(* 3. R^n: sqrt (sum of squared differences)                           *)
(* ------------------------------------------------------------------ *)

Lemma fold_add_nonneg :
  forall (l : list F) (acc : F), fle zero acc = true ->
  Forall (fun x => fle zero x = true) l ->
  fle zero (fold_left (fun a b => (a + b)%float) l acc) = true.
Proof.
induction l as [|x l IH]; intros acc Ha Hl; cbn [fold_left].
- exact Ha.
- inversion_clear Hl as [|? ? Hx Hl']. apply IH; [|exact Hl'].
  now apply fadd_nonneg_nonneg.
Qed.

Lemma fold_add_nan_inv :
  forall (l : list F) (acc : F),
  fis_nan (fold_left (fun a b => (a + b)%float) l acc) = false ->
  fis_nan acc = false /\ Forall (fun x => fis_nan x = false) l.
Proof.
induction l as [|x l IH]; intros acc H; cbn [fold_left] in H.
- split; [exact H|constructor].
- destruct (IH _ H) as [H1 H2]. destruct (fadd_nan_inv _ _ H1) as [Ha Hx].
  split; [exact Ha|]. now constructor.
Qed.

(* the only way a coordinate pair can spoil the R^n distance *)
Definition diff_ok (p : F * F) : Prop := fis_nan (fst p - snd p)%float = false.

Lemma sq_diffs_sane_iff :
  forall l : list (F * F),
  fle zero (sqrt (fsum (map (fun '(x, y) => fsq (x - y)%float) l))) = true <-> Forall diff_ok l.
Proof.
intros l. split.
- intros H. apply fle_zero_not_nan, fsqrt_nan_inv in H. unfold fsum in H.
  apply fold_add_nan_inv in H. destruct H as [_ H].
  induction l as [|[x y] l IH]; [constructor|].
  cbn [map] in H. inversion_clear H as [|? ? H1 H2].
  constructor; [|now apply IH]. unfold diff_ok. cbn [fst snd]. now apply fsq_nan_inv.
- intros H. apply fsqrt_nonneg. unfold fsum. apply fold_add_nonneg; [exact fle_zero_neg_zero|].
  induction H as [|[x y] l H1 H2 IH]; cbn [map]; constructor; [|exact IH].
  apply fsq_nonneg. exact H1.
Qed.

(* exact characterisation: whenever rv_dist returns, the result is ">= 0, not NaN" iff no
   coordinate difference is NaN *)
Theorem rv_dist_sane_iff :
  forall (dim : N) (a b : list F) (d : F),
  rv_dist dim a b = Ok d ->
  (fle zero d = true <-> Forall diff_ok (combine a b)).
Proof.
intros dim a b d. unfold rv_dist. destruct (_ || _); [discriminate|].
intros [= <-]. apply sq_diffs_sane_iff.
Qed.

Theorem rv_dist_sane :
  forall (dim : N) (a b : list F) (d : F),
  Forall diff_ok (combine a b) ->
  rv_dist dim a b = Ok d -> fle zero d = true.
Proof. intros dim a b d H E. now apply (rv_dist_sane_iff dim a b d E). Qed.

Lemma Forall_combine :
  forall (A B : Type) (P : A -> Prop) (Q : B -> Prop) (a : list A) (b : list B),
  Forall P a -> Forall Q b -> Forall (fun p => P (fst p) /\ Q (snd p)) (combine a b).
Proof.
intros A B P Q a b Ha. revert b. induction Ha as [|x a Hx Ha IH]; intros b Hb; cbn [combine].
- constructor.
- destruct Hb as [|y b Hy Hb]; constructor; [now split|now apply IH].
Qed.

(* one side may even contain infinities *)
Corollary rv_dist_sane_one_finite :
  forall (dim : N) (a b : list F) (d : F),
  Forall (fun x => fis_nan x = false) a -> Forall (fun y => fis_finite y = true) b ->
  rv_dist dim a b = Ok d -> fle zero d = true.
Proof.
intros dim a b d Ha Hb. apply rv_dist_sane.
eapply Forall_impl; [|exact (Forall_combine _ _ _ _ a b Ha Hb)].
intros [x y] [Hx Hy]. cbn [fst snd] in Hx, Hy. unfold diff_ok. cbn [fst snd].
apply fsub_not_nan; [exact Hx|now apply fis_finite_not_nan|now right].
Qed.

Corollary rv_dist_sane_finite :
  forall (dim : N) (a b : list F) (d : F),
  Forall (fun x => fis_finite x = true) a -> Forall (fun y => fis_finite y = true) b ->
  rv_dist dim a b = Ok d -> fle zero d = true.
Proof.
intros dim a b d Ha Hb. apply rv_dist_sane_one_finite; [|exact Hb].
eapply Forall_impl; [|exact Ha]. intros x. apply fis_finite_not_nan.
Qed.

(* ------------------------------------------------------------------ *)
(* 4. SO(2)                                                            *)
(* ------------------------------------------------------------------ *)

Lemma so2_dist_norm : forall a b : F, so2_dist a b = abs (so2_norm (a - b)%float).
Proof. reflexivity. Qed.

Lemma so2_norm_nonfinite : forall v : F, fis_finite v = false -> so2_norm v = nan.
Proof.
intros v Fv. rewrite fis_finite_B in Fv. unfold so2_norm.
assert (E : ffmod (v + PI_f)%float TWO_PI_f = nan).
{ assert (P : exists m e, Prim2SF PI_f = S754_finite false m e) by (vm_compute; eauto).
  destruct P as (m & e & P).
  unfold ffmod. rewrite add_spec, P, <- (B2SF_Prim2B v).
  destruct (Prim2B v) as [s|s| |s mv ev H]; try discriminate; cbn [B2SF SF64add SFadd];
    now destruct (Prim2SF TWO_PI_f). }
unfold frem_euclid. rewrite E. cbv zeta.
change (flt nan zero) with false. cbv iota.
vm_compute. reflexivity.
Qed.

(* exact characterisation: the SO(2) distance is ">= 0, not NaN" iff a - b is finite
   (a, b finite is NOT enough: a - b may overflow) *)
Theorem so2_dist_sane_iff :
  forall a b : F, fle zero (so2_dist a b) = true <-> fis_finite (a - b)%float = true.
Proof.
intros a b. split.
- intros H. destruct (fis_finite (a - b)%float) eqn:E; [reflexivity|].
  rewrite so2_dist_norm, (so2_norm_nonfinite _ E) in H. vm_compute in H. discriminate H.
- intros Fv. rewrite so2_dist_norm. apply fabs_nonneg.
  destruct (so2_norm_range _ Fv) as [H _]. now destruct (fle_not_nan _ _ H).
Qed.

Theorem so2_dist_sane :
  forall a b : F, fis_finite (a - b)%float = true -> fle zero (so2_dist a b) = true.
Proof. intros a b. apply so2_dist_sane_iff. Qed.

Lemma ford_opp : forall x : F, ford (- x)%float = (- ford x)%R.
Proof. intros x. unfold ford. rewrite opp_equiv. apply Bo_Bopp. Qed.

Theorem so2_dist_le_pi :
  forall a b : F, fis_finite (a - b)%float = true -> fle (so2_dist a b) PI_f = true.
Proof.
intros a b Fv. rewrite so2_dist_norm.
destruct (so2_norm_range _ Fv) as [H1 H2].
revert H1 H2. generalize (so2_norm (a - b)%float). intros n H1 H2.
apply fle_iff in H1. apply fle_iff in H2.
destruct H1 as (_ & Nn & L1). destruct H2 as (_ & NP & L2).
assert (FP : is_finite (Prim2B PI_f) = true) by (apply finiteP; vm_compute; reflexivity).
rewrite ford_opp in L1.
apply fle_iff. split; [|split; [exact NP|]].
- change (fnan (abs n)) with (fis_nan (abs n)). now rewrite fabs_nan.
- unfold ford at 1. rewrite abs_equiv, Bo_Babs.
  + apply Rabs_le. split; assumption.
  + unfold fnan in Nn. now rewrite is_nan_equiv in Nn.
Qed.

Definition HALF_RANGE : F := 0x1p+1022%float.

Lemma B2R_HALF_RANGE : B2R (Prim2B HALF_RANGE) = bpow radix2 1022.
Proof.
rewrite <- SF2R_B2SF, B2SF_Prim2B.
replace (Prim2SF HALF_RANGE) with (S754_finite false (Z.to_pos (2^52)) 970) by (vm_compute; reflexivity).
unfold SF2R, F2R, cond_Zopp. simpl Fnum. simpl Fexp.
change (IZR _) with (IZR (2^52)).
rewrite IZR_2_52, <- bpow_plus. reflexivity.
Qed.

(* both angles inside a symmetric range [-c, c] with c <= 2^1022: the difference is finite *)
Lemma fsub_finite_of_range :
  forall c a b : F, fle c HALF_RANGE = true ->
  fle (- c)%float a = true -> fle a c = true ->
  fle (- c)%float b = true -> fle b c = true ->
  fis_finite (a - b)%float = true.
Proof.
intros c a b Hc A1 A2 B1 B2.
apply fle_iff in Hc, A1, A2, B1, B2.
destruct Hc as (Nc & _ & Hc). destruct A1 as (_ & Na & A1). destruct A2 as (_ & _ & A2).
destruct B1 as (_ & Nb & B1). destruct B2 as (_ & _ & B2).
assert (FH : is_finite (Prim2B HALF_RANGE) = true) by (apply finiteP; vm_compute; reflexivity).
rewrite (ford_finite _ FH), B2R_HALF_RANGE in Hc.
rewrite ford_opp in A1, B1.
assert (L : (bpow radix2 1022 < M)%R) by (apply bpow_lt; reflexivity).
unfold fnan in Na, Nb. rewrite is_nan_equiv in Na, Nb.
assert (Fa : is_finite (Prim2B a) = true).
{ apply Bo_inside_finite; [exact Na|]. fold (ford a). lra. }
assert (Fb : is_finite (Prim2B b) = true).
{ apply Bo_inside_finite; [exact Nb|]. fold (ford b). lra. }
rewrite (ford_finite _ Fa) in A1, A2. rewrite (ford_finite _ Fb) in B1, B2.
rewrite fis_finite_B, sub_equiv.
apply Bminus_finite_of_range; try assumption; apply Rabs_le; lra.
Qed.

(* in particular for angles in any symmetric range up to 2^1022 ... *)
Corollary so2_dist_sane_range :
  forall c a b : F, fle c HALF_RANGE = true ->
  fle (- c)%float a = true -> fle a c = true ->
  fle (- c)%float b = true -> fle b c = true ->
  fle zero (so2_dist a b) = true.
Proof. intros c a b Hc A1 A2 B1 B2. apply so2_dist_sane. now apply (fsub_finite_of_range c). Qed.

(* ... e.g. for normalised SO(2) states, which lie in [-pi, pi] *)
Corollary so2_dist_sane_pi :
  forall a b : F,
  fle (- PI_f)%float a = true -> fle a PI_f = true ->
  fle (- PI_f)%float b = true -> fle b PI_f = true ->
  fle zero (so2_dist a b) = true.
Proof. intros a b. apply so2_dist_sane_range. vm_compute. reflexivity. Qed.

Corollary so2_dist_sane_norm :
  forall u v : F, fis_finite u = true -> fis_finite v = true ->
  fle zero (so2_dist (so2_norm u) (so2_norm v)) = true.
Proof.
intros u v Fu Fv.
destruct (so2_norm_range u Fu) as [U1 U2]. destruct (so2_norm_range v Fv) as [V1 V2].
now apply so2_dist_sane_pi.
Qed.

(* ------------------------------------------------------------------ *)
(* 5. SO(3): acos is an oracle                                         *)
(* ------------------------------------------------------------------ *)

Lemma fmul_two_nonneg : forall d : F, fle zero d = true -> fle zero (2 * d)%float = true.
Proof.
intros d. unfold fle. rewrite !leb_equiv, mul_equiv, Prim2B_zero.
apply Bmult_pos_nonneg.
- unfold Prim2B. rewrite is_finite_strict_SF2B. vm_compute. reflexivity.
- rewrite <- get_sign_equiv. vm_compute. reflexivity.
Qed.

(* the argument handed to acos is always in [0, 1] - never NaN, whatever the quaternions *)
Lemma fmin_abs_one_range :
  forall q : F, fle zero (fmin (abs q) 1%float) = true /\ fle (fmin (abs q) 1%float) 1%float = true.
Proof.
intros q. unfold fmin.
destruct (fis_nan (abs q)) eqn:Nq; [now split|].
change (fis_nan 1%float) with false. cbv iota.
assert (P : fle zero (abs q) = true) by (apply fabs_nonneg; now rewrite fabs_nan in Nq).
destruct (flt 1%float (abs q)) eqn:L.
- now split.
- split; [exact P|]. now apply flt_false_fle.
Qed.

Section SO3Dist.
Variable acosF : F -> F.
(* all that is needed of the acos oracle: on [0, 1] it returns something >= 0 (not NaN) *)
Hypothesis acos_unit_nonneg :
  forall x : F, fle zero x = true -> fle x 1%float = true -> fle zero (acosF x) = true.

Theorem so3_dist_sane :
  forall ax ay az aw bx by_ bz bw : F,
  fle zero (so3_dist acosF ax ay az aw bx by_ bz bw) = true.
Proof.
intros. unfold so3_dist. apply fmul_two_nonneg.
apply acos_unit_nonneg; apply fmin_abs_one_range.
Qed.
End SO3Dist.

Corollary so3_dist_sane_total :
  forall acosF : F -> F, (forall x : F, fle zero (acosF x) = true) ->
  forall ax ay az aw bx by_ bz bw : F,
  fle zero (so3_dist acosF ax ay az aw bx by_ bz bw) = true.
Proof. intros acosF H. apply so3_dist_sane. intros x _ _. apply H. Qed.

(* ------------------------------------------------------------------ *)
(* 6. compound spaces: sqrt (0 + (d1*w1)^2 + (d2*w2)^2 + ...)          *)
(* ------------------------------------------------------------------ *)

(* the accumulation loop of `distance` on a CS node, over (component distance, weight) pairs *)
Fixpoint cs_fold (ds : list (F * F)) (acc : F) : F :=
  match ds with
  | [] => sqrt acc
  | (d, w) :: r => cs_fold r (acc + fsq (d * w))%float
  end.

(* the only way a component can spoil the compound distance: d * w is NaN
   (d or w NaN, or 0 * inf: an overflowed component with weight 0, a zero distance with an
   infinite weight) *)
Definition prod_ok (p : F * F) : Prop := fis_nan (fst p * snd p)%float = false.

Lemma cs_fold_nonneg :
  forall (ds : list (F * F)) (acc : F), fle zero acc = true -> Forall prod_ok ds ->
  fle zero (cs_fold ds acc) = true.
Proof.
induction ds as [|[d w] ds IH]; intros acc Ha H; cbn [cs_fold].
- now apply fsqrt_nonneg.
- inversion_clear H as [|? ? H1 H2]. apply IH; [|exact H2].
  apply fadd_nonneg_nonneg; [exact Ha|]. apply fsq_nonneg. exact H1.
Qed.

Lemma cs_fold_nan_inv :
  forall (ds : list (F * F)) (acc : F), fis_nan (cs_fold ds acc) = false ->
  fis_nan acc = false /\ Forall prod_ok ds.
Proof.
induction ds as [|[d w] ds IH]; intros acc H; cbn [cs_fold] in H.
- split; [now apply fsqrt_nan_inv|constructor].
- destruct (IH _ H) as [H1 H2]. destruct (fadd_nan_inv _ _ H1) as [Ha Hx].
  split; [exact Ha|]. constructor; [|exact H2]. now apply fsq_nan_inv.
Qed.

Theorem cs_fold_sane_iff :
  forall ds : list (F * F), fle zero (cs_fold ds zero) = true <-> Forall prod_ok ds.
Proof.
intros ds. split.
- intros H. apply fle_zero_not_nan in H. now apply cs_fold_nan_inv in H.
- apply cs_fold_nonneg. reflexivity.
Qed.

(* sufficient conditions for prod_ok *)
Lemma prod_ok_weight :
  forall d w : F, fle zero d = true -> weight_ok w = true -> prod_ok (d, w).
Proof.
intros d w Hd Hw. unfold prod_ok. cbn [fst snd].
apply fmul_weight_not_nan; [now apply fle_zero_not_nan|exact Hw].
Qed.

Lemma prod_ok_finite :
  forall d w : F, fis_finite d = true -> fis_finite w = true -> prod_ok (d, w).
Proof. intros d w Hd Hw. unfold prod_ok. cbn [fst snd]. now apply fmul_finite_not_nan. Qed.

Section Compound.
Variable acosF : F -> F.

(* ds lists (distance of component i, weight i) for the components `distance` visits *)
Inductive comp_dists : list (space * F) -> list st -> list st -> list (F * F) -> Prop :=
| cd_nil : forall xs ys, comp_dists [] xs ys []
| cd_cons : forall s w subs x xs y ys d ds,
    distance acosF s x y = Ok d -> comp_dists subs xs ys ds ->
    comp_dists ((s, w) :: subs) (x :: xs) (y :: ys) ((d, w) :: ds).

Lemma distance_CS_fold :
  forall subs xs ys r,
  distance acosF (CS subs) (VC xs) (VC ys) = Ok r ->
  exists ds, comp_dists subs xs ys ds /\ r = cs_fold ds zero.
Proof.
intros subs xs ys r. cbn [distance].
generalize zero.
revert xs ys. induction subs as [|[s w] subs IH]; intros xs ys acc.
- intros [= <-]. exists []. split; [constructor|reflexivity].
- destruct xs as [|x xs]; [discriminate|]. destruct ys as [|y ys]; [discriminate|].
  destruct (distance acosF s x y) as [d| |e] eqn:E; try discriminate.
  intros H. destruct (IH _ _ _ H) as (ds & C & R).
  exists ((d, w) :: ds). split; [now constructor|exact R].
Qed.

(* exact characterisation for one compound node, in terms of its component distances *)
Theorem distance_CS_sane_iff :
  forall subs xs ys r,
  distance acosF (CS subs) (VC xs) (VC ys) = Ok r ->
  exists ds, comp_dists subs xs ys ds /\ (fle zero r = true <-> Forall prod_ok ds).
Proof.
intros subs xs ys r H. destruct (distance_CS_fold _ _ _ _ H) as (ds & C & ->).
exists ds. split; [exact C|apply cs_fold_sane_iff].
Qed.

(* component distances >= 0 (not NaN) and weights finite, non-zero: compound distance >= 0 *)
Corollary distance_CS_sane :
  forall subs xs ys r,
  distance acosF (CS subs) (VC xs) (VC ys) = Ok r ->
  (forall ds, comp_dists subs xs ys ds ->
     Forall (fun p => fle zero (fst p) = true /\ weight_ok (snd p) = true) ds) ->
  fle zero r = true.
Proof.
intros subs xs ys r H Hds. destruct (distance_CS_sane_iff _ _ _ _ H) as (ds & C & I).
apply I. eapply Forall_impl; [|exact (Hds ds C)].
intros [d w] [Hd Hw]. now apply prod_ok_weight.
Qed.

(* ---- the whole space tree ---- *)

Hypothesis acos_unit_nonneg :
  forall x : F, fle zero x = true -> fle x 1%float = true -> fle zero (acosF x) = true.

(* arguments on which every distance in the tree is sane: R^n leaves have no NaN coordinate
   difference, SO(2) leaves have a finite difference, every weight is finite and non-zero *)
Fixpoint sane_args (sp : space) (a b : st) {struct sp} : Prop :=
  match sp, a, b with
  | RV _ _ _, VRV x, VRV y => Forall diff_ok (combine x y)
  | SO2 _ _ _, VSO2 x, VSO2 y => fis_finite (x - y)%float = true
  | CS subs, VC xs, VC ys =>
      (fix go (subs : list (space * F)) (xs ys : list st) {struct subs} : Prop :=
         match subs, xs, ys with
         | (s, w) :: subs', x :: xs', y :: ys' =>
             sane_args s x y /\ weight_ok w = true /\ go subs' xs' ys'
         | _, _, _ => True
         end) subs xs ys
  | _, _, _ => True
  end.

Section space_ind_nested.
Variable P : space -> Prop.
Hypothesis HRV : forall dim bounds frac, P (RV dim bounds frac).
Hypothesis HSO2 : forall lo hi frac, P (SO2 lo hi frac).
Hypothesis HSO3 : forall cx cy cz cw maxa frac, P (SO3 cx cy cz cw maxa frac).
Hypothesis HCS : forall subs, Forall (fun p => P (fst p)) subs -> P (CS subs).

Fixpoint space_ind_nested (sp : space) : P sp :=
  match sp with
  | RV dim bounds frac => HRV dim bounds frac
  | SO2 lo hi frac => HSO2 lo hi frac
  | SO3 cx cy cz cw maxa frac => HSO3 cx cy cz cw maxa frac
  | CS subs =>
      HCS subs
        ((fix go (l : list (space * F)) : Forall (fun p => P (fst p)) l :=
            match l with
            | [] => Forall_nil _
            | p :: r =>
                Forall_cons p
                  (match p as p0 return P (fst p0) with (s, _) => space_ind_nested s end)
                  (go r)
            end) subs)
  end.
End space_ind_nested.

Theorem distance_sane :
  forall (sp : space) (a b : st) (d : F),
  sane_args sp a b -> distance acosF sp a b = Ok d -> fle zero d = true.
Proof.
induction sp as [dim bounds frac|lo hi frac|cx cy cz cw maxa frac|subs IH] using space_ind_nested;
  intros a b d Hs Hd.
- destruct a as [x| | |]; try discriminate Hd. destruct b as [y| | |]; try discriminate Hd.
  cbn [distance] in Hd. cbn [sane_args] in Hs. exact (rv_dist_sane _ _ _ _ Hs Hd).
- destruct a as [|x| |]; try discriminate Hd. destruct b as [|y| |]; try discriminate Hd.
  cbn [distance] in Hd. cbn [sane_args] in Hs. injection Hd as <-. now apply so2_dist_sane.
- destruct a as [| |ax ay az aw|]; try discriminate Hd.
  destruct b as [| |bx by_ bz bw|]; try discriminate Hd.
  cbn [distance] in Hd. injection Hd as <-. now apply so3_dist_sane.
- destruct a as [| | |xs]; try discriminate Hd. destruct b as [| | |ys]; try discriminate Hd.
  destruct (distance_CS_sane_iff _ _ _ _ Hd) as (ds & C & I). apply I. clear I Hd d.
  cbn [sane_args] in Hs.
  induction C as [xs ys|s w subs x xs y ys d ds E C IHC]; [constructor|].
  destruct Hs as (H1 & H2 & H3). inversion_clear IH as [|? ? P1 P2]. cbn [fst] in P1.
  constructor; [|now apply IHC].
  apply prod_ok_weight; [exact (P1 _ _ _ H1 E)|exact H2].
Qed.

End Compound.

(* ------------------------------------------------------------------ *)
(* 7. the hypotheses are needed: inputs on which the model returns NaN  *)
(* ------------------------------------------------------------------ *)

Definition MAXF64 : F := 0x1.fffffffffffffp+1023%float.

(* R^n: inf - inf *)
Example rv_dist_inf_inf :
  exists d, rv_dist 1 [infinity] [infinity] = Ok d /\ fle zero d = false.
Proof. eexists. split; [vm_compute; reflexivity|vm_compute; reflexivity]. Qed.

(* R^n: a NaN coordinate *)
Example rv_dist_nan_coord :
  exists d, rv_dist 2 [zero; nan] [zero; zero] = Ok d /\ fle zero d = false.
Proof. eexists. split; [vm_compute; reflexivity|vm_compute; reflexivity]. Qed.

(* R^n: overflow is harmless, and so are -0.0 and the empty sum (sqrt (-0.0) = -0.0) *)
Example rv_dist_overflow :
  exists d, rv_dist 1 [MAXF64] [(- MAXF64)%float] = Ok d /\ fle zero d = true.
Proof. eexists. split; [vm_compute; reflexivity|vm_compute; reflexivity]. Qed.

Example rv_dist_empty :
  exists d, rv_dist 0 [] [] = Ok d /\ fle zero d = true /\ get_sign d = true.
Proof. eexists. split; [vm_compute; reflexivity|split; vm_compute; reflexivity]. Qed.

(* SO(2): two finite angles whose difference overflows *)
Example so2_dist_finite_not_enough :
  fis_finite MAXF64 = true /\ fis_finite (- MAXF64)%float = true /\
  fle zero (so2_dist MAXF64 (- MAXF64)%float) = false.
Proof. repeat split; vm_compute; reflexivity. Qed.

(* compound: an overflowed component with weight 0, a zero distance with an infinite weight *)
Example cs_inf_times_zero :
  forall acosF,
  exists d, distance acosF (CS [(RV 1 [] one, zero)]) (VC [VRV [MAXF64]]) (VC [VRV [(- MAXF64)%float]]) = Ok d
            /\ fle zero d = false.
Proof. intros acosF. eexists. split; [vm_compute; reflexivity|vm_compute; reflexivity]. Qed.

Example cs_zero_times_inf :
  forall acosF,
  exists d, distance acosF (CS [(RV 1 [] one, infinity)]) (VC [VRV [one]]) (VC [VRV [one]]) = Ok d
            /\ fle zero d = false.
Proof. intros acosF. eexists. split; [vm_compute; reflexivity|vm_compute; reflexivity]. Qed.

(* SO(3): without an assumption on the oracle nothing can be said *)
Example so3_dist_bad_oracle :
  fle zero (so3_dist (fun _ => nan) zero zero zero one zero zero zero one) = false.
Proof. vm_compute. reflexivity. Qed.

(* ------------------------------------------------------------------ *)
Print Assumptions rv_dist_sane_iff.
Print Assumptions rv_dist_sane.
Print Assumptions rv_dist_sane_one_finite.
Print Assumptions rv_dist_sane_finite.
Print Assumptions so2_dist_sane_iff.
Print Assumptions so2_dist_sane.
Print Assumptions so2_dist_le_pi.
Print Assumptions so2_dist_sane_range.
Print Assumptions so2_dist_sane_pi.
Print Assumptions so2_dist_sane_norm.
Print Assumptions so3_dist_sane.
Print Assumptions so3_dist_sane_total.
Print Assumptions cs_fold_sane_iff.
Print Assumptions distance_CS_sane_iff.
Print Assumptions distance_CS_sane.
Print Assumptions distance_sane.
