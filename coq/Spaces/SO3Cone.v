(* Convexity of small geodesic balls ("cones") of SO(3) under the library's interpolation.

   For a unit quaternion c and a radius 0 <= m < PI/2 the set
       { x unit | so3_dist c x <= m }
   is closed under so3_slerp and so3_nlerp (the two branches of interpolate).
   The bound PI/2 is the right one for this statement: SpacesR_SO3.so3_cone_not_convex
   exhibits a ball of radius 2 > PI/2 that is not closed under so3_slerp.

   Proof idea.  With k := cos (m/2) one has k > 0 and 2 k^2 - 1 = cos m > 0, and for unit
   c, x :  so3_dist c x <= m  <->  k <= |<c,x>|.  After replacing c by -c we may assume
   k <= <c,p>.  The library interpolates from p towards q' := so3_sign p q * q, for which
   <p,q'> = |<p,q>| >= 0.  Then k <= <c,q'> as well: otherwise k <= <c,-q'>, and two unit
   vectors within the cap {k <= <c,.>} have positive dot product (cap_dot_pos, from the
   Gram inequality), so <p,-q'> > 0, a contradiction.  Both interpolants are
   (s0 p + s1 q') with s0, s1 >= 0 and s0 + s1 >= 1, so <c, .> >= k.

   Everything is closed by Qed; only the standard axioms of the Reals library are used. *)
From Coq Require Import Reals Lra Psatz.
From OX Require Import Spaces.SpacesR Spaces.SpacesR_SO3.
Open Scope R_scope.

(* ------------------------------------------------------------------ *)
(* The threshold k = cos (m/2)                                         *)
(* ------------------------------------------------------------------ *)

Lemma cone_k_facts : forall m, 0 <= m < PI / 2 ->
  0 < cos (m / 2) /\ 1 < 2 * (cos (m / 2) * cos (m / 2)).
Proof.
  intros m Hm. pose proof PI_RGT_0 as Ppi. split.
  - apply cos_gt_0; lra.
  - assert (C : 0 < cos (2 * (m / 2))).
    { replace (2 * (m / 2)) with m by field. apply cos_gt_0; lra. }
    rewrite cos_2a_cos in C. lra.
Qed.

(* distance bound <-> dot-product bound, for unit quaternions *)
Lemma dist_le_of_dot : forall c x m, qunit c -> qunit x -> 0 <= m < PI / 2 ->
  cos (m / 2) <= Rabs (qdot c x) -> so3_dist c x <= m.
Proof.
  intros c x m Hc Hx Hm Hk. rewrite so3_dist_unit by assumption.
  pose proof (qdot_unit_bound c x Hc Hx) as B. pose proof (Rabs_pos (qdot c x)) as P.
  pose proof PI_RGT_0 as Ppi.
  set (d := Rabs (qdot c x)) in *.
  pose proof (acos_bound d) as [A0 A1].
  destruct (Rle_dec (acos d) (m / 2)) as [H|H]; [lra|]. exfalso.
  assert (L : cos (acos d) < cos (m / 2)) by (apply cos_decreasing_1; lra).
  rewrite cos_acos in L by lra. lra.
Qed.

Lemma dot_of_dist_le : forall c x m, qunit c -> qunit x -> 0 <= m < PI / 2 ->
  so3_dist c x <= m -> cos (m / 2) <= Rabs (qdot c x).
Proof.
  intros c x m Hc Hx Hm Hd. rewrite so3_dist_unit in Hd by assumption.
  pose proof (qdot_unit_bound c x Hc Hx) as B. pose proof (Rabs_pos (qdot c x)) as P.
  pose proof PI_RGT_0 as Ppi.
  set (d := Rabs (qdot c x)) in *.
  pose proof (acos_bound d) as [A0 A1].
  assert (L : cos (m / 2) <= cos (acos d)) by (apply cos_decr_1; lra).
  rewrite cos_acos in L by lra. exact L.
Qed.

(* ------------------------------------------------------------------ *)
(* Two unit vectors in the cap {k <= <c,.>}, 2 k^2 > 1, have positive   *)
(* dot product                                                         *)
(* ------------------------------------------------------------------ *)

Lemma cap_dot_pos : forall c u v k, qunit c -> qunit u -> qunit v ->
  0 < k -> 1 < 2 * (k * k) -> k <= qdot c u -> k <= qdot c v -> 0 < qdot u v.
Proof.
  intros c u v k Hc Hu Hv Hk Hk2 Hcu Hcv.
  pose proof (gram_ineq u c v Hu Hc Hv) as G.
  pose proof (qdot_unit_bound c u Hc Hu) as Bu.
  pose proof (qdot_unit_bound c v Hc Hv) as Bv.
  rewrite (qdot_comm u c) in G.
  set (x := qdot c u) in *. set (y := qdot c v) in *. set (z := qdot u v) in *.
  assert (X1 : x <= 1) by (pose proof (Rle_abs x); lra).
  assert (Y1 : y <= 1) by (pose proof (Rle_abs y); lra).
  (* (1-x^2) <= 1-k^2, (1-y^2) <= 1-k^2 *)
  assert (Ex : 0 <= 1 - x * x <= 1 - k * k) by nra.
  assert (Ey : 0 <= 1 - y * y <= 1 - k * k) by nra.
  assert (K1 : 0 <= 1 - k * k) by lra.
  assert (G' : (z - x * y) * (z - x * y) <= (1 - k * k) * (1 - k * k)).
  { eapply Rle_trans; [exact G|]. apply Rmult_le_compat; lra. }
  assert (Hxy : k * k <= x * y) by nra.
  (* z - x y >= -(1 - k^2) *)
  assert (Z : - (1 - k * k) <= z - x * y).
  { destruct (Rle_dec (- (1 - k * k)) (z - x * y)) as [H|H]; [exact H|]. exfalso.
    assert (H' : 1 - k * k < - (z - x * y)) by lra. nra. }
  lra.
Qed.

(* the representative q' = sg * q the library interpolates towards stays in the cap *)
Lemma cap_sign_rep : forall c p q k, qunit c -> qunit p -> qunit q ->
  0 < k -> 1 < 2 * (k * k) -> k <= qdot c p -> k <= Rabs (qdot c q) ->
  k <= so3_sign p q * qdot c q.
Proof.
  intros c p q k Hc Hp Hq Hk Hk2 Hcp Hcq.
  pose proof (so3_sign_abs p q) as SA. pose proof (so3_sign_sqr p q) as SS.
  pose proof (Rabs_pos (qdot p q)) as Ppq.
  set (sg := so3_sign p q) in *.
  destruct (Rle_dec k (sg * qdot c q)) as [H|H]; [exact H|]. exfalso.
  (* then k <= <c, -sg q> *)
  assert (Hneg : k <= qdot c (qscale (- sg) q)).
  { rewrite qdot_scale_r.
    assert (Sg : sg = 1 \/ sg = -1).
    { unfold sg, so3_sign. destruct (Rlt_dec (qdot p q) 0); [right|left]; reflexivity. }
    unfold Rabs in Hcq. destruct (Rcase_abs (qdot c q)); destruct Sg as [E|E]; rewrite E in *; lra. }
  assert (Hu : qunit (qscale (- sg) q)).
  { unfold qunit in *. rewrite qdot_scale_l, qdot_scale_r, Hq. nra. }
  pose proof (cap_dot_pos c p (qscale (- sg) q) k Hc Hp Hu Hk Hk2 Hcp Hneg) as Pos.
  rewrite qdot_scale_r in Pos. lra.
Qed.

(* ------------------------------------------------------------------ *)
(* Trigonometry: the slerp weights sum to at least 1                    *)
(* ------------------------------------------------------------------ *)

Lemma cos_le_half : forall x s, 0 <= x <= PI -> -1 <= s <= 1 ->
  cos (x / 2) <= cos (s * x / 2).
Proof.
  intros x s Hx Hs. pose proof PI_RGT_0 as Ppi.
  destruct (Rle_dec 0 s) as [H|H].
  - apply cos_decr_1; nra.
  - rewrite <- (cos_neg (s * x / 2)). apply cos_decr_1; nra.
Qed.

Lemma slerp_weights_sum : forall x t, 0 <= x <= PI -> 0 <= t <= 1 ->
  sin x <= sin (x - t * x) + sin (t * x).
Proof.
  intros x t Hx Ht. pose proof PI_RGT_0 as Ppi.
  rewrite form3.
  replace ((x - t * x - t * x) / 2) with ((1 - 2 * t) * x / 2) by field.
  replace ((x - t * x + t * x) / 2) with (x / 2) by field.
  replace (sin x) with (sin (2 * (x / 2))) by (f_equal; field).
  rewrite sin_2a.
  assert (S : 0 <= sin (x / 2)) by (apply sin_ge_0; lra).
  pose proof (cos_le_half x (1 - 2 * t) Hx) as C.
  assert (C' : cos (x / 2) <= cos ((1 - 2 * t) * x / 2)) by (apply C; lra).
  nra.
Qed.

(* ------------------------------------------------------------------ *)
(* SLERP                                                               *)
(* ------------------------------------------------------------------ *)

(* oriented version: k <= <c,p> *)
Lemma slerp_cap : forall c p q t k, qunit c -> qunit p -> qunit q ->
  0 < k -> 1 < 2 * (k * k) -> k <= qdot c p -> k <= Rabs (qdot c q) ->
  0 <= t <= 1 -> Rabs (qdot p q) < 1 ->
  k <= qdot c (so3_slerp p q t).
Proof.
  intros c p q t k Hc Hp Hq Hk Hk2 Hcp Hcq Ht Hlt.
  pose proof (cap_sign_rep c p q k Hc Hp Hq Hk Hk2 Hcp Hcq) as Hb.
  rewrite so3_slerp_eq. cbv zeta.
  pose proof (Rabs_pos (qdot p q)) as P.
  destruct (acos_lt1_facts (Rabs (qdot p q))) as (Hth & _ & Hs); [lra|].
  set (th := acos (Rabs (qdot p q))) in *.
  rewrite qdot_add_r, !qdot_scale_r.
  set (sg := so3_sign p q) in *. set (a := qdot c p) in *. set (b0 := qdot c q) in *.
  pose proof PI_RGT_0 as Ppi.
  assert (R0 : 0 <= th - t * th <= PI) by nra.
  assert (R1 : 0 <= t * th <= PI) by nra.
  assert (N0 : 0 <= sin (th - t * th)) by (apply sin_ge_0; lra).
  assert (N1 : 0 <= sin (t * th)) by (apply sin_ge_0; lra).
  assert (Sum : sin th <= sin (th - t * th) + sin (t * th))
    by (apply slerp_weights_sum; lra).
  assert (Iv : 0 < / sin th) by (apply Rinv_0_lt_compat; exact Hs).
  assert (W0 : 0 <= sin (th - t * th) / sin th)
    by (unfold Rdiv; apply Rmult_le_pos; lra).
  assert (W1 : 0 <= sin (t * th) / sin th)
    by (unfold Rdiv; apply Rmult_le_pos; lra).
  assert (WS : 1 <= sin (th - t * th) / sin th + sin (t * th) / sin th).
  { replace (sin (th - t * th) / sin th + sin (t * th) / sin th)
      with ((sin (th - t * th) + sin (t * th)) * / sin th) by (field; lra).
    replace 1 with (sin th * / sin th) by (field; lra).
    apply Rmult_le_compat_r; lra. }
  set (S0 := sin (th - t * th) / sin th) in *.
  set (S1 := sin (t * th) / sin th) in *.
  replace (S0 * a + S1 * sg * b0) with (S0 * a + S1 * (sg * b0)) by ring.
  assert (T0 : S0 * k <= S0 * a) by (apply Rmult_le_compat_l; lra).
  assert (T1 : S1 * k <= S1 * (sg * b0)) by (apply Rmult_le_compat_l; lra).
  assert (T2 : k * 1 <= k * (S0 + S1)) by (apply Rmult_le_compat_l; lra).
  lra.
Qed.

Lemma abs_flip : forall x, x < 0 -> Rabs x = - x.
Proof. intros x H. apply Rabs_left; exact H. Qed.

Theorem so3_cone_convex_slerp : forall c p q t m,
  qunit c -> qunit p -> qunit q -> 0 <= m < PI / 2 ->
  so3_dist c p <= m -> so3_dist c q <= m -> 0 <= t <= 1 -> Rabs (qdot p q) < 1 ->
  so3_dist c (so3_slerp p q t) <= m.
Proof.
  intros c p q t m Hc Hp Hq Hm Dp Dq Ht Hlt.
  destruct (cone_k_facts m Hm) as [Hk Hk2].
  pose proof (dot_of_dist_le c p m Hc Hp Hm Dp) as Kp.
  pose proof (dot_of_dist_le c q m Hc Hq Hm Dq) as Kq.
  pose proof (so3_slerp_unit p q t Hp Hq Hlt) as Hu.
  set (k := cos (m / 2)) in *.
  apply dist_le_of_dot; try assumption. fold k.
  destruct (Rlt_dec (qdot c p) 0) as [Hn|Hn].
  - (* replace c by -c *)
    pose proof (qunit_neg c Hc) as Hc'.
    assert (Kp' : k <= qdot (qneg c) p) by (rewrite qdot_neg_l; rewrite abs_flip in Kp; lra).
    assert (Kq' : k <= Rabs (qdot (qneg c) q)) by (rewrite qdot_neg_l, Rabs_Ropp; exact Kq).
    pose proof (slerp_cap (qneg c) p q t k Hc' Hp Hq Hk Hk2 Kp' Kq' Ht Hlt) as R.
    rewrite qdot_neg_l in R. rewrite <- Rabs_Ropp.
    eapply Rle_trans; [exact R | apply Rle_abs].
  - assert (Kp' : k <= qdot c p) by (rewrite Rabs_right in Kp; lra).
    pose proof (slerp_cap c p q t k Hc Hp Hq Hk Hk2 Kp' Kq Ht Hlt) as R.
    eapply Rle_trans; [exact R | apply Rle_abs].
Qed.

(* ------------------------------------------------------------------ *)
(* NLERP                                                               *)
(* ------------------------------------------------------------------ *)

(* the un-normalised lerp: <c,l> >= k and 0 < <l,l> <= 1 *)
Lemma lerp_cap : forall c p q t k, qunit c -> qunit p -> qunit q ->
  0 < k -> 1 < 2 * (k * k) -> k <= qdot c p -> k <= Rabs (qdot c q) ->
  0 <= t <= 1 ->
  let l := qadd p (qscale t (qadd (qscale (so3_sign p q) q) (qneg p))) in
  k <= qdot c l /\ 0 < qdot l l <= 1.
Proof.
  intros c p q t k Hc Hp Hq Hk Hk2 Hcp Hcq Ht l.
  pose proof (cap_sign_rep c p q k Hc Hp Hq Hk Hk2 Hcp Hcq) as Hb.
  assert (Hcl : k <= qdot c l).
  { unfold l. rewrite qdot_add_r, qdot_scale_r, qdot_add_r, qdot_scale_r.
    rewrite (qdot_comm c (qneg p)), qdot_neg_l, (qdot_comm p c).
    set (a := qdot c p) in *. set (b := so3_sign p q * qdot c q) in *.
    replace (a + t * (b + - a)) with ((1 - t) * a + t * b) by ring.
    assert (T0 : (1 - t) * k <= (1 - t) * a) by (apply Rmult_le_compat_l; lra).
    assert (T1 : t * k <= t * b) by (apply Rmult_le_compat_l; lra).
    lra. }
  split; [exact Hcl|].
  split.
  - (* Cauchy-Schwarz with the unit c *)
    pose proof (qdot_cauchy c l) as CS. unfold qunit in Hc. rewrite Hc in CS.
    assert (0 < k * k) by nra. nra.
  - unfold l. rewrite nlerp_norm. unfold qunit in Hp, Hq. rewrite Hp, Hq.
    pose proof (so3_sign_abs p q) as SA. pose proof (so3_sign_sqr p q) as SS.
    pose proof (qdot_unit_bound p q Hp Hq) as B.
    set (sg := so3_sign p q) in *. set (x := qdot p q) in *.
    replace ((1 - t) * (1 - t) * 1 + 2 * t * (1 - t) * sg * x + t * t * sg * sg * 1)
      with ((1 - t) * (1 - t) + 2 * (t * (1 - t)) * (x * sg) + t * t * (sg * sg)) by ring.
    rewrite SA, SS.
    assert (T : 0 <= t * (1 - t)) by nra.
    assert (T' : t * (1 - t) * Rabs x <= t * (1 - t) * 1) by (apply Rmult_le_compat_l; lra).
    nra.
Qed.

Lemma nlerp_cap : forall c p q t k, qunit c -> qunit p -> qunit q ->
  0 < k -> 1 < 2 * (k * k) -> k <= qdot c p -> k <= Rabs (qdot c q) ->
  0 <= t <= 1 ->
  qunit (so3_nlerp p q t) /\ k <= qdot c (so3_nlerp p q t).
Proof.
  intros c p q t k Hc Hp Hq Hk Hk2 Hcp Hcq Ht.
  pose proof (lerp_cap c p q t k Hc Hp Hq Hk Hk2 Hcp Hcq Ht) as L. cbv zeta in L.
  unfold so3_nlerp. cbv zeta.
  set (l := qadd p (qscale t (qadd (qscale (so3_sign p q) q) (qneg p)))) in *.
  destruct L as (Hcl & Hpos & Hle1).
  split; [apply qunit_normalize; exact Hpos|].
  rewrite qdot_scale_r.
  assert (N0 : 0 < sqrt (qdot l l)) by (apply sqrt_lt_R0; exact Hpos).
  assert (N1 : sqrt (qdot l l) <= 1).
  { rewrite <- sqrt_1. apply sqrt_le_1; lra. }
  set (n := sqrt (qdot l l)) in *.
  assert (I1 : 1 <= / n).
  { rewrite <- Rinv_1. apply Rinv_le_contravar; lra. }
  assert (T0 : / n * k <= / n * qdot c l) by (apply Rmult_le_compat_l; lra).
  assert (T1 : 1 * k <= / n * k) by (apply Rmult_le_compat_r; lra).
  lra.
Qed.

(* No extra non-degeneracy hypothesis is needed: 0 < <l,l> follows from
   k^2 <= <c,l>^2 <= <l,l> (Cauchy-Schwarz with the unit c). *)
Theorem so3_cone_convex_nlerp : forall c p q t m,
  qunit c -> qunit p -> qunit q -> 0 <= m < PI / 2 ->
  so3_dist c p <= m -> so3_dist c q <= m -> 0 <= t <= 1 ->
  so3_dist c (so3_nlerp p q t) <= m.
Proof.
  intros c p q t m Hc Hp Hq Hm Dp Dq Ht.
  destruct (cone_k_facts m Hm) as [Hk Hk2].
  pose proof (dot_of_dist_le c p m Hc Hp Hm Dp) as Kp.
  pose proof (dot_of_dist_le c q m Hc Hq Hm Dq) as Kq.
  set (k := cos (m / 2)) in *.
  destruct (Rlt_dec (qdot c p) 0) as [Hn|Hn].
  - pose proof (qunit_neg c Hc) as Hc'.
    assert (Kp' : k <= qdot (qneg c) p) by (rewrite qdot_neg_l; rewrite abs_flip in Kp; lra).
    assert (Kq' : k <= Rabs (qdot (qneg c) q)) by (rewrite qdot_neg_l, Rabs_Ropp; exact Kq).
    destruct (nlerp_cap (qneg c) p q t k Hc' Hp Hq Hk Hk2 Kp' Kq' Ht) as [Hu R].
    apply dist_le_of_dot; try assumption. fold k.
    rewrite qdot_neg_l in R. rewrite <- Rabs_Ropp.
    eapply Rle_trans; [exact R | apply Rle_abs].
  - assert (Kp' : k <= qdot c p) by (rewrite Rabs_right in Kp; lra).
    destruct (nlerp_cap c p q t k Hc Hp Hq Hk Hk2 Kp' Kq Ht) as [Hu R].
    apply dist_le_of_dot; try assumption. fold k.
    eapply Rle_trans; [exact R | apply Rle_abs].
Qed.

Print Assumptions so3_cone_convex_slerp.
Print Assumptions so3_cone_convex_nlerp.
