(* C12 on the float model of the constructors: a constructor returns a space only with well-formed
   stored bounds - for ALL float arguments. *)
From Coq Require Import ZArith NArith List Bool Floats Lia.
From OX Require Import Numerics.FloatBits Numerics.FloatOrder Gen.Consts Spaces.SpacesF.
Import ListNotations.

Lemma not_ge_lt : forall a b, fge a b = false -> fis_nan a = false -> fis_nan b = false -> flt a b = true.
Proof.
  intros a b H Ha Hb. unfold fge in H. destruct (fle_total b a Hb Ha) as [H1|H1]; [|exact H1].
  unfold FloatBits.fle in *. rewrite H1 in H; discriminate.
Qed.

Theorem rv_new_bounded_wf : forall dim bs sp,
  rv_new dim (Some bs) = Ok sp ->
  sp = RV dim bs default_fraction /\ N.of_nat (length bs) = dim /\
  Forall (fun b => flt (fst b) (snd b) = true /\ fis_nan (fst b) = false /\ fis_nan (snd b) = false) bs.
Proof.
  intros dim bs sp. unfold rv_new.
  destruct (N.eqb_spec (N.of_nat (length bs)) dim) as [El|El]; cbn [negb]; [|discriminate].
  destruct (existsb _ bs) eqn:Ex; [discriminate|]. intros E; inversion E; subst. split; [reflexivity|]. split; [reflexivity|].
  rewrite Forall_forall. intros [lo hi] Hin. cbn.
  assert (H : (fge lo hi || fis_nan lo || fis_nan hi) = false).
  { destruct (fge lo hi || fis_nan lo || fis_nan hi) eqn:E1; [|reflexivity].
    assert (existsb (fun '(lo0, hi0) => fge lo0 hi0 || fis_nan lo0 || fis_nan hi0) bs = true)
      by (apply existsb_exists; exists (lo, hi); split; [exact Hin|exact E1]).
    rewrite H in Ex; discriminate. }
  apply orb_false_iff in H. destruct H as [H Hh]. apply orb_false_iff in H. destruct H as [Hg Hl].
  split; [apply not_ge_lt; assumption|split; assumption].
Qed.

Theorem rv_new_errors : forall dim bs,
  (N.of_nat (length bs) <> dim -> rv_new dim (Some bs) = Err E_DIM) /\
  (rv_new dim None = if (dim =? 0)%N then Err E_ZERODIM else Ok (RV dim (repeat (neg_infinity, infinity) (N.to_nat dim)) default_fraction)).
Proof.
  intros dim bs. split.
  - intros H. unfold rv_new. destruct (N.eqb_spec (N.of_nat (length bs)) dim); [contradiction|reflexivity].
  - reflexivity.
Qed.

Lemma negPI_not_nan : fis_nan (- PI_f)%float = false. Proof. vm_compute; reflexivity. Qed.
Lemma PI_not_nan : fis_nan PI_f = false. Proof. vm_compute; reflexivity. Qed.

Lemma fmax_ge_r : forall a b, fis_nan b = false -> fle b (fmax a b) = true /\ fis_nan (fmax a b) = false.
Proof.
  intros a b Hb. unfold fmax. destruct (fis_nan a) eqn:Ha; [split; [apply fle_refl; exact Hb|exact Hb]|].
  rewrite Hb. destruct (flt a b) eqn:E; [split; [apply fle_refl; exact Hb|exact Hb]|].
  split; [apply flt_false_fle; assumption|exact Ha].
Qed.

Lemma fmin_le_r : forall a b, fis_nan b = false -> fle (fmin a b) b = true /\ fis_nan (fmin a b) = false.
Proof.
  intros a b Hb. unfold fmin. destruct (fis_nan a) eqn:Ha; [split; [apply fle_refl; exact Hb|exact Hb]|].
  rewrite Hb. destruct (flt b a) eqn:E; [split; [apply fle_refl; exact Hb|exact Hb]|].
  split; [apply flt_false_fle; assumption|exact Ha].
Qed.

(* SO(2): the stored interval is strictly ordered, NaN-free and inside [-PI, PI] *)
Theorem so2_new_wf : forall b lo hi fr,
  so2_new b = Ok (SO2 lo hi fr) ->
  flt lo hi = true /\ fle (- PI_f)%float lo = true /\ fle hi PI_f = true.
Proof.
  intros b lo hi fr. unfold so2_new.
  destruct (match b with Some b0 => b0 | None => ((- PI_f)%float, PI_f) end) as [l h].
  destruct (fge l h); [discriminate|].
  destruct (fmax_ge_r l (- PI_f)%float negPI_not_nan) as [H1 H1n].
  destruct (fmin_le_r h PI_f PI_not_nan) as [H2 H2n].
  destruct (fge (fmax l (- PI_f)%float) (fmin h PI_f)) eqn:E; [discriminate|].
  intros H; inversion H; subst. split; [apply not_ge_lt; assumption|split; assumption].
Qed.

(* SO(3): the stored radius is in [0, PI] (NaN radius is stored as PI: f64::min ignores NaN) *)
Theorem so3_new_wf : forall b cx cy cz cw m fr,
  so3_new b = Ok (SO3 cx cy cz cw m fr) -> fle zero m = true /\ fle m PI_f = true.
Proof.
  intros b cx cy cz cw m fr. unfold so3_new. destruct b as [[[[[x y] z] w] a]|].
  - destruct (flt a zero) eqn:E; [discriminate|]. intros H; inversion H; subst.
    destruct (fmin_le_r a PI_f PI_not_nan) as [H2 H2n]. split; [|exact H2].
    unfold fmin in *. destruct (fis_nan a) eqn:Ha; [vm_compute; reflexivity|].
    rewrite PI_not_nan in *. destruct (flt PI_f a) eqn:E2; [vm_compute; reflexivity|].
    apply flt_false_fle; [exact Ha|vm_compute; reflexivity|exact E].
  - intros H; inversion H; subst. split; vm_compute; reflexivity.
Qed.

Theorem so3_new_negative_radius : forall x y z w a, flt a zero = true -> so3_new (Some (x, y, z, w, a)) = Err E_ANG.
Proof. intros x y z w a H. unfold so3_new. rewrite H. reflexivity. Qed.

(* witnesses of the recorded finding: a huge quaternion "normalises" to the zero quaternion *)
Theorem so3_normalise_huge_refuted :
  let big := fbits 7598952565167317594 in     (* 1e200 *)
  so3_normalise big zero zero zero = Ok (zero, zero, zero, zero).
Proof. vm_compute. reflexivity. Qed.
