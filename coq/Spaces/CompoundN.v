(* General-n compound law (C13) and its lift of the enforce -> satisfies law (C11) on the FLOAT model:
   for a compound space of ANY number of components, of any nesting depth, distance / resolution /
   interpolate / enforce / satisfies are the documented fold over the component results, and a compound
   state whose components were enforced satisfies the compound bounds whenever every component space
   obeys "enforce then satisfies".  Props/C13.v had these for two components only. *)
From Coq Require Import ZArith NArith List Bool Floats.
From OX Require Import Numerics.FloatBits Numerics.FloatOrder Gen.Consts Spaces.SpacesF Spaces.SpacesFProofs.
Import ListNotations.
Open Scope float_scope.

Section Law.
Variable acosF sinF : F -> F.

(* the documented folds, as stand-alone functions of the component results *)
Definition cs_acc (acc : F) (dw : F * F) : F := acc + fsq (fst dw * snd dw).
Definition cs_dist_of (ds ws : list F) : F := sqrt (fold_left cs_acc (combine ds ws) zero).

Inductive comp_dist : list (space * F) -> list st -> list st -> list F -> Prop :=
| cd_nil : forall xs ys, comp_dist [] xs ys []
| cd_cons : forall s w subs x xs y ys d ds,
    distance acosF s x y = Ok d -> comp_dist subs xs ys ds ->
    comp_dist ((s, w) :: subs) (x :: xs) (y :: ys) (d :: ds).

Lemma distance_CS_go : forall subs xs ys ds acc, comp_dist subs xs ys ds ->
  (fix go (subs : list (space * F)) (xs ys : list st) (acc : F) {struct subs} : res F :=
     match subs with
     | [] => Ok (sqrt acc)
     | (s, w) :: subs' =>
         match xs, ys with
         | x :: xs', y :: ys' =>
             match distance acosF s x y with
             | Ok d => go subs' xs' ys' (acc + fsq (d * w))
             | other => other
             end
         | _, _ => Panic
         end
     end) subs xs ys acc = Ok (sqrt (fold_left cs_acc (combine ds (map snd subs)) acc)).
Proof.
  intros subs xs ys ds acc H. revert acc.
  induction H as [xs ys|s w subs x xs y ys d ds Hd _ IH]; intros acc; [reflexivity|].
  cbn [map snd combine fold_left]. rewrite Hd. rewrite IH. reflexivity.
Qed.

Theorem distance_CS_n : forall subs xs ys ds, comp_dist subs xs ys ds ->
  distance acosF (CS subs) (VC xs) (VC ys) = Ok (cs_dist_of ds (map snd subs)).
Proof. intros subs xs ys ds H. exact (distance_CS_go subs xs ys ds zero H). Qed.

Lemma lvs_CS_go : forall subs acc,
  (fix go (subs : list (space * F)) (acc : F) {struct subs} : F :=
     match subs with
     | [] => acc
     | (s, w) :: subs' => go subs' (acc + fsq (lvs s * w))
     end) subs acc = fold_left cs_acc (combine (map (fun sw => lvs (fst sw)) subs) (map snd subs)) acc.
Proof. induction subs as [|[s w] subs IH]; intros acc; [reflexivity|]. cbn [map fst snd combine fold_left]. rewrite IH. reflexivity. Qed.

Theorem lvs_CS_n : forall subs, lvs (CS subs) = cs_dist_of (map (fun sw => lvs (fst sw)) subs) (map snd subs).
Proof. intros subs. unfold cs_dist_of. rewrite <- lvs_CS_go. reflexivity. Qed.

(* satisfies: conjunction of the component verdicts, left to right *)
Inductive comp_sat : list (space * F) -> list st -> list bool -> Prop :=
| cs_nil : forall xs, comp_sat [] xs []
| cs_cons : forall s w subs x xs b bs,
    satisfies acosF s x = Ok b -> comp_sat subs xs bs -> comp_sat ((s, w) :: subs) (x :: xs) (b :: bs).

Theorem satisfies_CS_n : forall subs xs bs, comp_sat subs xs bs ->
  satisfies acosF (CS subs) (VC xs) = Ok (forallb (fun b => b) bs).
Proof.
  intros subs xs bs H. cbn [satisfies].
  induction H as [xs|s w subs x xs b bs Hb _ IH]; [reflexivity|].
  rewrite Hb. destruct b; [rewrite IH; reflexivity|reflexivity].
Qed.

(* a component that fails the check makes the compound fail, whatever the later components are *)
Theorem satisfies_CS_first_false : forall s w subs x xs,
  satisfies acosF s x = Ok false -> satisfies acosF (CS ((s, w) :: subs)) (VC (x :: xs)) = Ok false.
Proof. intros s w subs x xs H. cbn [satisfies]. rewrite H. reflexivity. Qed.

(* enforce / interpolate: component by component, surplus components untouched *)
Inductive comp_enf : list (space * F) -> list st -> list st -> Prop :=
| ce_nil : forall xs, comp_enf [] xs xs
| ce_cons : forall s w subs x xs r rs,
    enforce acosF sinF s x = Ok r -> comp_enf subs xs rs -> comp_enf ((s, w) :: subs) (x :: xs) (r :: rs).

Theorem enforce_CS_n : forall subs xs rs, comp_enf subs xs rs ->
  enforce acosF sinF (CS subs) (VC xs) = Ok (VC rs).
Proof.
  intros subs xs rs H. cbn [enforce].
  match goal with |- match ?g subs xs with _ => _ end = _ => assert (E : g subs xs = Ok rs) end.
  { induction H as [xs|s w subs x xs r rs Hr _ IH]; [destruct xs; reflexivity|]. rewrite Hr, IH. reflexivity. }
  rewrite E. reflexivity.
Qed.

Inductive comp_int (t : F) : list (space * F) -> list st -> list st -> list st -> list st -> Prop :=
| ci_nil : forall xs ys os, comp_int t [] xs ys os os
| ci_cons : forall s w subs x xs y ys o os r rs,
    interpolate acosF sinF s x y t o = Ok r -> comp_int t subs xs ys os rs ->
    comp_int t ((s, w) :: subs) (x :: xs) (y :: ys) (o :: os) (r :: rs).

Theorem interpolate_CS_n : forall t subs xs ys os rs, comp_int t subs xs ys os rs ->
  interpolate acosF sinF (CS subs) (VC xs) (VC ys) t (VC os) = Ok (VC rs).
Proof.
  intros t subs xs ys os rs H. cbn [interpolate].
  match goal with |- match ?g subs xs ys os with _ => _ end = _ => assert (E : g subs xs ys os = Ok rs) end.
  { induction H as [xs ys os|s w subs x xs y ys o os r rs Hr _ IH]; [reflexivity|]. rewrite Hr, IH. reflexivity. }
  rewrite E. reflexivity.
Qed.

(* C11 lifted: if every component space obeys "what enforce returns, satisfies accepts", so does the
   compound, for any number of components; stated on the space tree, so nesting is covered by re-use. *)
(* P: the class of input states the component laws are stated for (R^n needs NaN-free coordinates) *)
Variable P : st -> Prop.
Hypothesis P_components : forall xs, P (VC xs) -> Forall P xs.

Definition enf_sat_law (s : space) : Prop :=
  forall x r, P x -> enforce acosF sinF s x = Ok r -> satisfies acosF s r = Ok true.

Lemma comp_enf_sat : forall subs xs rs, Forall (fun sw => enf_sat_law (fst sw)) subs -> Forall P xs ->
  comp_enf subs xs rs -> comp_sat subs rs (map (fun _ => true) subs).
Proof.
  intros subs xs rs HF HP H. induction H as [xs|s w subs x xs r rs Hr Hrest IH].
  - constructor.
  - inversion HF as [|? ? Hs HF']; subst. inversion HP as [|? ? Hx HP']; subst.
    cbn [map]. constructor; [exact (Hs x r Hx Hr)|].
    apply IH; assumption.
Qed.

Lemma forallb_all_true : forall (A : Type) (l : list A), forallb (fun b : bool => b) (map (fun _ => true) l) = true.
Proof. induction l as [|a l IH]; [reflexivity|exact IH]. Qed.

(* inversion: a successful compound enforce IS a component-wise enforce *)
Lemma enforce_CS_inv : forall subs xs r, enforce acosF sinF (CS subs) (VC xs) = Ok r ->
  exists rs, r = VC rs /\ comp_enf subs xs rs.
Proof.
  intros subs xs r. cbn [enforce].
  match goal with |- match ?g subs xs with _ => _ end = _ -> _ =>
    assert (E : forall subs xs rs, g subs xs = Ok rs -> comp_enf subs xs rs) end.
  { clear subs xs r. induction subs as [|[s w] subs IH]; intros xs rs H.
    - inversion H; subst. constructor.
    - destruct xs as [|x xs]; [discriminate|].
      destruct (enforce acosF sinF s x) as [r0| |e] eqn:Er; try discriminate.
      match type of H with match ?t with _ => _ end = _ => destruct t as [rs0| |e] eqn:Eg; try discriminate end.
      inversion H; subst. constructor; [exact Er|apply IH; exact Eg]. }
  match goal with |- match ?t with _ => _ end = _ -> _ => destruct t as [rs| |e] eqn:Eg; try discriminate end.
  intros H; inversion H; subst. exists rs. split; [reflexivity|apply E; exact Eg].
Qed.

Theorem compound_enforce_then_satisfies : forall subs,
  Forall (fun sw => enf_sat_law (fst sw)) subs ->
  enf_sat_law (CS subs).
Proof.
  intros subs HF x r Hx H. destruct x as [l|v|qx qy qz qw|xs]; try discriminate H.
  destruct (enforce_CS_inv subs xs r H) as [rs [-> Hc]].
  rewrite (satisfies_CS_n subs rs _ (comp_enf_sat subs xs rs HF (P_components xs Hx) Hc)).
  rewrite forallb_all_true. reflexivity.
Qed.
End Law.

(* instance: NaN-free states; every well-formed R^n component obeys the law (SpacesFProofs), hence so does
   every compound of them, of any width and nesting depth *)
Fixpoint st_no_nan (x : st) : Prop :=
  match x with
  | VRV l => Forall (fun v => fis_nan v = false) l
  | VSO2 v => fis_nan v = false
  | VSO3 a b c d => fis_nan a = false /\ fis_nan b = false /\ fis_nan c = false /\ fis_nan d = false
  | VC l => (fix all (l : list st) : Prop := match l with [] => True | a :: l' => st_no_nan a /\ all l' end) l
  end.

Lemma st_no_nan_components : forall xs, st_no_nan (VC xs) -> Forall st_no_nan xs.
Proof. induction xs as [|a xs IH]; intros H; [constructor|]. destruct H as [Ha Hr]. constructor; [exact Ha|exact (IH Hr)]. Qed.

Inductive rv_tree : space -> Prop :=
| rt_rv : forall dim bs frac, Forall (fun '(lo, hi) => fle lo hi = true) bs -> N.of_nat (length bs) = dim ->
    rv_tree (RV dim bs frac)
| rt_cs : forall subs, Forall (fun sw => rv_tree (fst sw)) subs -> rv_tree (CS subs).


Section Instance.
Variable acosF sinF : F -> F.

Lemma rv_leaf_law : forall dim bs frac, Forall (fun '(lo, hi) => fle lo hi = true) bs -> N.of_nat (length bs) = dim ->
  enf_sat_law acosF sinF st_no_nan (RV dim bs frac).
Proof.
  intros dim bs frac Hb Hd x r Hx H. destruct x as [l|v|qx qy qz qw|xs]; try discriminate H.
  cbn [enforce] in H. destruct (rv_enforce dim bs l) as [l'| |e] eqn:E; try discriminate H.
  inversion H; subst r. cbn [satisfies]. exact (rv_satisfies_enforce dim bs l l' Hb Hx Hd E).
Qed.

Fixpoint rv_tree_law (s : space) (H : rv_tree s) {struct H} : enf_sat_law acosF sinF st_no_nan s.
Proof.
  destruct H as [dim bs frac Hb Hd|subs HF].
  - exact (rv_leaf_law dim bs frac Hb Hd).
  - apply compound_enforce_then_satisfies; [exact st_no_nan_components|].
    induction HF as [|sw subs' Hsw _ IH]; constructor; [exact (rv_tree_law _ Hsw)|exact IH].
Qed.
End Instance.

(* non-vacuity: a nested compound of two boxes and a state of it *)
Example rv_tree_example :
  rv_tree (CS [(RV 1 [(zero, one)] one, one); (CS [(RV 2 [(zero, one); (neg_zero, one)] one, one)], one)])
  /\ st_no_nan (VC [VRV [one]; VC [VRV [zero; one]]]).
Proof.
  split.
  - repeat (constructor; cbn [fst]); reflexivity.
  - cbn. repeat split; repeat constructor.
Qed.

(* ---------- sampling: components are drawn left to right from ONE stream, each from where the previous stopped ---------- *)
Section Sampling.
Variable acosF : F -> F.
Variable fuel : nat.

Inductive comp_smp : list (space * F) -> list N -> list st -> list N -> Prop :=
| sm_nil : forall us, comp_smp [] us [] us
| sm_cons : forall s w subs us x mid xs rest,
    sample acosF fuel s us = (Some (Ok x), mid) -> comp_smp subs mid xs rest ->
    comp_smp ((s, w) :: subs) us (x :: xs) rest.

Theorem sample_CS_n : forall subs us xs rest, comp_smp subs us xs rest ->
  sample acosF fuel (CS subs) us = (Some (Ok (VC xs)), rest).
Proof.
  intros subs us xs rest H. cbn [sample].
  match goal with |- match ?g subs us with _ => _ end = _ => assert (E : g subs us = (Some (Ok xs), rest)) end.
  { induction H as [us|s w subs us x mid xs rest Hx _ IH]; [reflexivity|]. rewrite Hx, IH. reflexivity. }
  rewrite E. reflexivity.
Qed.

Lemma sample_CS_inv : forall subs us r rest, sample acosF fuel (CS subs) us = (Some (Ok r), rest) ->
  exists xs, r = VC xs /\ comp_smp subs us xs rest.
Proof.
  intros subs us r rest. cbn [sample].
  match goal with |- match ?g subs us with _ => _ end = _ -> _ =>
    assert (E : forall subs us xs rest, g subs us = (Some (Ok xs), rest) -> comp_smp subs us xs rest) end.
  { clear subs us r rest. induction subs as [|[s w] subs IH]; intros us xs rest H.
    - inversion H; subst. constructor.
    - destruct (sample acosF fuel s us) as [[[x| |e]|] mid] eqn:Es; try discriminate.
      match type of H with match ?t with _ => _ end = _ => destruct t as [[[xs0| |e]|] rest0] eqn:Eg; try discriminate end.
      inversion H; subst. econstructor; [exact Es|apply IH; exact Eg]. }
  match goal with |- match ?t with _ => _ end = _ -> _ => destruct t as [[[xs| |e]|] rest0] eqn:Eg; try discriminate end.
  intros H; inversion H; subst. exists xs. split; [reflexivity|apply E; exact Eg].
Qed.

(* C11 lifted: if every component's samples pass its own bounds check, every compound sample passes the
   compound bounds check - for any number of components, any rejection-loop fuel, and any class Q of streams
   that sampling preserves (Q = "every word is a u64" for the box instance below) *)
Variable Q : list N -> Prop.
Definition smp_sat_law (s : space) : Prop :=
  forall us x rest, Q us -> sample acosF fuel s us = (Some (Ok x), rest) -> satisfies acosF s x = Ok true /\ Q rest.

Theorem compound_sample_then_satisfies : forall subs,
  Forall (fun sw => smp_sat_law (fst sw)) subs -> smp_sat_law (CS subs).
Proof.
  intros subs HF us r rest HQ H. destruct (sample_CS_inv subs us r rest H) as [xs [-> Hc]].
  assert (Hs : comp_sat acosF subs xs (map (fun _ => true) subs) /\ Q rest).
  { clear H. induction Hc as [us|s w subs us x mid xs rest Hx _ IH]; [split; [constructor|exact HQ]|].
    inversion HF as [|? ? Hs HF']; subst. destruct (Hs us x mid HQ Hx) as [Hsat Hmid].
    destruct (IH HF' Hmid) as [Hrest HQr]. split; [|exact HQr]. cbn [map]. constructor; assumption. }
  destruct Hs as [Hs HQr]. split; [|exact HQr].
  rewrite (satisfies_CS_n acosF subs xs _ Hs). rewrite forallb_all_true. reflexivity.
Qed.
End Sampling.

(* instance: boxes.  A sampled R^n state passes the R^n bounds check, for every stream of u64 words. *)
Definition u64s (us : list N) : Prop := Forall (fun u => (u < 2^64)%N) us.

Lemma rv_sample_aux_sat : forall n i bs us l rest, u64s us ->
  rv_sample_aux n i bs us = (Ok l, rest) ->
  rv_satisfies_aux n bs l = Ok true /\ length l = n /\ u64s rest.
Proof.
  induction n as [|n IH]; intros i bs us l rest HQ H; cbn [rv_sample_aux] in H.
  - inversion H; subst. split; [reflexivity|split; [reflexivity|exact HQ]].
  - destruct bs as [|[lo hi] bs]; [discriminate|].
    destruct (negb (fis_finite lo) || negb (fis_finite hi)); [discriminate|].
    destruct (fge lo hi); [discriminate|].
    destruct us as [|u us]; [discriminate|]. inversion HQ as [|? ? Hu HQ']; subst.
    destruct (rand_range u lo hi) as [x| |e] eqn:Er; try discriminate.
    destruct (rv_sample_aux n (i + 1)%N bs us) as [[r| |e] rest0] eqn:Es; try discriminate.
    inversion H; subst. destruct (IH _ _ _ _ _ HQ' Es) as [Hs [Hl Hr]].
    destruct (rand_range_in u lo hi x Hu Er) as [L1 L2].
    destruct (fle_not_nan _ _ L1) as [_ Nx].
    cbn [rv_satisfies_aux length].
    change (fgt (x - EPS_f)%float hi) with (flt hi (x - EPS_f)%float).
    rewrite (fle_flt_false _ _ (fle_trans _ _ _ (fsub_pos_le x Nx) L2)).
    rewrite (fle_flt_false _ _ (fle_trans _ _ _ L1 (fadd_pos_ge x Nx))).
    split; [exact Hs|split; [congruence|exact Hr]].
Qed.

Theorem rv_sample_then_satisfies : forall acosF fuel dim bs frac,
  smp_sat_law acosF fuel u64s (RV dim bs frac).
Proof.
  intros acosF fuel dim bs frac us x rest HQ H. cbn [sample] in H.
  destruct (rv_sample_aux (N.to_nat dim) 0 bs us) as [[l| |e] rest0] eqn:Es; try discriminate.
  inversion H; subst. destruct (rv_sample_aux_sat _ _ _ _ _ _ HQ Es) as [Hs [Hl Hr]].
  split; [|exact Hr]. cbn [satisfies]. unfold rv_satisfies. rewrite Hl, N2Nat.id, N.eqb_refl. exact Hs.
Qed.

(* every compound tree of boxes: a successful sample passes the compound bounds check *)
Inductive box_tree : space -> Prop :=
| bt_rv : forall dim bs frac, box_tree (RV dim bs frac)
| bt_cs : forall subs, Forall (fun sw => box_tree (fst sw)) subs -> box_tree (CS subs).

Fixpoint box_tree_sample_law acosF fuel (s : space) (H : box_tree s) {struct H} : smp_sat_law acosF fuel u64s s.
Proof.
  destruct H as [dim bs frac|subs HF].
  - apply rv_sample_then_satisfies.
  - apply compound_sample_then_satisfies.
    induction HF as [|sw subs' Hsw _ IH]; constructor; [exact (box_tree_sample_law acosF fuel _ Hsw)|exact IH].
Qed.

(* ---------- enforce is idempotent on compounds whenever it is on the components ---------- *)
Section Idem.
Variable acosF sinF : F -> F.
Definition enf_idem_law (s : space) : Prop :=
  forall x r, enforce acosF sinF s x = Ok r -> enforce acosF sinF s r = Ok r.

Theorem compound_enforce_idempotent : forall subs,
  Forall (fun sw => enf_idem_law (fst sw)) subs -> enf_idem_law (CS subs).
Proof.
  intros subs HF x r H. destruct x as [l|v|qx qy qz qw|xs]; try discriminate H.
  destruct (enforce_CS_inv acosF sinF subs xs r H) as [rs [-> Hc]].
  apply enforce_CS_n. clear H.
  induction Hc as [xs|s w subs x xs r rs Hr _ IH]; [constructor|].
  inversion HF as [|? ? Hs HF']; subst. constructor; [exact (Hs x r Hr)|exact (IH HF')].
Qed.

Lemma rv_leaf_idem : forall dim bs frac, enf_idem_law (RV dim bs frac).
Proof.
  intros dim bs frac x r H. destruct x as [l|v|qx qy qz qw|xs]; try discriminate H.
  cbn [enforce] in H. destruct (rv_enforce dim bs l) as [l'| |e] eqn:E; try discriminate H.
  inversion H; subst r. cbn [enforce]. rewrite (rv_enforce_idem_gen dim bs l l' E). reflexivity.
Qed.

Fixpoint box_tree_idem (s : space) (H : box_tree s) {struct H} : enf_idem_law s.
Proof.
  destruct H as [dim bs frac|subs HF].
  - apply rv_leaf_idem.
  - apply compound_enforce_idempotent.
    induction HF as [|sw subs' Hsw _ IH]; constructor; [exact (box_tree_idem _ Hsw)|exact IH].
Qed.
End Idem.

(* ---------- C09 at float level: bit-exact symmetry of the distance lifts to compounds of any width ---------- *)
Section Sym.
Variable acosF : F -> F.
Definition dist_sym_law (s : space) : Prop := forall x y, distance acosF s x y = distance acosF s y x.

Theorem compound_distance_symmetric : forall subs,
  Forall (fun sw => dist_sym_law (fst sw)) subs -> dist_sym_law (CS subs).
Proof.
  intros subs HF x y. destruct x as [l|v|qx qy qz qw|xs]; destruct y as [l'|v'|qx' qy' qz' qw'|ys]; try reflexivity.
  cbn [distance].
  match goal with |- ?g subs xs ys zero = _ =>
    assert (E : forall subs, Forall (fun sw => dist_sym_law (fst sw)) subs ->
                forall xs ys acc, g subs xs ys acc = g subs ys xs acc) end.
  { clear. induction subs as [|[s w] subs IH]; intros HF xs ys acc; [reflexivity|].
    inversion HF as [|? ? Hs HF']; subst. cbn [fst] in Hs.
    destruct xs as [|x xs]; destruct ys as [|y ys]; try reflexivity.
    rewrite (Hs x y). destruct (distance acosF s y x) as [d| |e]; [apply IH; exact HF'|reflexivity|reflexivity]. }
  apply E; exact HF.
Qed.

Lemma rv_leaf_sym : forall dim bs frac, dist_sym_law (RV dim bs frac).
Proof.
  intros dim bs frac x y. destruct x as [l|v|qx qy qz qw|xs]; destruct y as [l'|v'|qx' qy' qz' qw'|ys]; try reflexivity.
  cbn [distance]. apply rv_dist_sym.
Qed.

Fixpoint box_tree_sym (s : space) (H : box_tree s) {struct H} : dist_sym_law s.
Proof.
  destruct H as [dim bs frac|subs HF].
  - apply rv_leaf_sym.
  - apply compound_distance_symmetric.
    induction HF as [|sw subs' Hsw _ IH]; constructor; [exact (box_tree_sym _ Hsw)|exact IH].
Qed.
End Sym.

(* SO(3) leaf: the quaternion dot product is bit-exactly symmetric (IEEE multiplication commutes), hence so is
   2 acos(min(|dot|, 1)) whatever the acos oracle is; trees with R^n and SO(3) leaves are symmetric *)
From Flocq Require Import Core IEEE754.BinarySingleNaN IEEE754.PrimFloat.
Lemma SFmul_comm : forall x y, SFmul prec emax x y = SFmul prec emax y x.
Proof.
intros [sx|sx| |sx mx ex] [sy|sy| |sy my ey]; simpl; try reflexivity;
  try (rewrite (xorb_comm sx sy); reflexivity).
rewrite (xorb_comm sx sy), (Pos.mul_comm mx my), (Z.add_comm ex ey). reflexivity.
Qed.
Lemma fmul_comm : forall x y : F, (x * y)%float = (y * x)%float.
Proof. intros x y. apply Prim2SF_inj. rewrite !mul_spec. apply SFmul_comm. Qed.

Lemma so3_dist_float_sym : forall acosF ax ay az aw bx by_ bz bw,
  so3_dist acosF ax ay az aw bx by_ bz bw = so3_dist acosF bx by_ bz bw ax ay az aw.
Proof.
  intros. unfold so3_dist, q_dot.
  rewrite (fmul_comm ax bx), (fmul_comm ay by_), (fmul_comm az bz), (fmul_comm aw bw). reflexivity.
Qed.

Inductive rv_so3_tree : space -> Prop :=
| st_rv : forall dim bs frac, rv_so3_tree (RV dim bs frac)
| st_so3 : forall cx cy cz cw maxa frac, rv_so3_tree (SO3 cx cy cz cw maxa frac)
| st_cs : forall subs, Forall (fun sw => rv_so3_tree (fst sw)) subs -> rv_so3_tree (CS subs).

Fixpoint rv_so3_tree_sym acosF (s : space) (H : rv_so3_tree s) {struct H} : dist_sym_law acosF s.
Proof.
  destruct H as [dim bs frac|cx cy cz cw maxa frac|subs HF].
  - apply rv_leaf_sym.
  - intros x y. destruct x as [l|v|qx qy qz qw|xs]; destruct y as [l'|v'|qx' qy' qz' qw'|ys]; try reflexivity.
    cbn [distance]. f_equal. apply so3_dist_float_sym.
  - apply compound_distance_symmetric.
    induction HF as [|sw subs' Hsw _ IH]; constructor; [exact (rv_so3_tree_sym acosF _ Hsw)|exact IH].
Qed.

(* non-vacuity of the sampling theorems: a nested box tree does return a sample from a u64 stream *)
Example box_sample_nonvacuous :
  box_tree (CS [(RV 1 [(zero, one)] one, one); (CS [(RV 1 [(zero, one)] one, one)], one)]) /\
  exists x rest, sample (fun v => v) 10 (CS [(RV 1 [(zero, one)] one, one); (CS [(RV 1 [(zero, one)] one, one)], one)])
                   [5%N; 123456789012345%N] = (Some (Ok x), rest).
Proof.
  split.
  - repeat (constructor; cbn [fst]).
  - eexists. eexists. vm_compute. reflexivity.
Qed.
