(* SO(2): metric and geodesic theorems for the real-number model in SpacesR.v.
   wrap / so2_dist / so2_diff / so2_interp / so2_in. *)
From Coq Require Import Reals Lra Lia Psatz ZArith.
From OX Require Import Spaces.SpacesR.
Open Scope R_scope.

(* ------------------------------------------------------------------ *)
(* floor                                                               *)
(* ------------------------------------------------------------------ *)

Lemma Rfloor_spec : forall x, IZR (Rfloor x) <= x < IZR (Rfloor x) + 1.
Proof.
  intro x. unfold Rfloor. rewrite minus_IZR.
  destruct (archimed x) as [Hgt Hle]. lra.
Qed.

Lemma Rfloor_unique : forall x (k : Z), IZR k <= x < IZR k + 1 -> Rfloor x = k.
Proof.
  intros x k [Hlo Hhi]. unfold Rfloor.
  assert (Hup : (k + 1)%Z = up x).
  { apply tech_up; rewrite plus_IZR; lra. }
  rewrite <- Hup. lia.
Qed.

(* ------------------------------------------------------------------ *)
(* wrap                                                                *)
(* ------------------------------------------------------------------ *)

Lemma two_PI_pos : 0 < 2 * PI.
Proof. pose proof PI_RGT_0 as HP. lra. Qed.

Lemma wrap_range : forall x, - PI <= wrap x < PI.
Proof.
  intro x. unfold wrap.
  pose proof two_PI_pos as H2P.
  set (q := (x + PI) / (2 * PI)).
  destruct (Rfloor_spec q) as [Hlo Hhi].
  set (f := IZR (Rfloor q)) in *.
  assert (Hq : x + PI = q * (2 * PI)).
  { unfold q. field. lra. }
  assert (H1 : f * (2 * PI) <= q * (2 * PI)).
  { apply Rmult_le_compat_r; lra. }
  assert (H2 : q * (2 * PI) < (f + 1) * (2 * PI)).
  { apply Rmult_lt_compat_r; lra. }
  lra.
Qed.

Lemma wrap_congr : forall x, exists k : Z, wrap x = x + 2 * PI * IZR k.
Proof.
  intro x. exists (- Rfloor ((x + PI) / (2 * PI)))%Z.
  unfold wrap. rewrite opp_IZR. ring.
Qed.

Lemma wrap_unique : forall x y (k : Z),
  - PI <= y < PI -> y = x + 2 * PI * IZR k -> wrap x = y.
Proof.
  intros x y k [Hlo Hhi] Hy. unfold wrap.
  pose proof two_PI_pos as H2P.
  assert (Hfl : Rfloor ((x + PI) / (2 * PI)) = (- k)%Z).
  { apply Rfloor_unique. rewrite opp_IZR.
    assert (Hq : (x + PI) / (2 * PI) = (y + PI) / (2 * PI) - IZR k).
    { rewrite Hy. field. lra. }
    rewrite Hq.
    assert (H0 : 0 <= (y + PI) / (2 * PI)).
    { apply Rmult_le_pos; [lra|]. left. apply Rinv_0_lt_compat. lra. }
    assert (H1 : (y + PI) / (2 * PI) < 1).
    { apply Rmult_lt_reg_r with (2 * PI); [lra|].
      unfold Rdiv. rewrite Rmult_assoc, Rinv_l; lra. }
    lra. }
  rewrite Hfl, opp_IZR. lra.
Qed.

Lemma wrap_idem : forall x, wrap (wrap x) = wrap x.
Proof.
  intro x. apply wrap_unique with (k := 0%Z).
  - apply wrap_range.
  - simpl. ring.
Qed.

Lemma wrap_id : forall x, - PI <= x < PI -> wrap x = x.
Proof.
  intros x Hx. apply wrap_unique with (k := 0%Z); [exact Hx|]. simpl. ring.
Qed.

Lemma wrap_period : forall x (k : Z), wrap (x + 2 * PI * IZR k) = wrap x.
Proof.
  intros x k. destruct (wrap_congr x) as [m Hm].
  apply wrap_unique with (k := (m - k)%Z).
  - apply wrap_range.
  - rewrite Hm, minus_IZR. ring.
Qed.

(* two representatives within an open 2PI window of each other coincide *)
Lemma two_PI_mult_small : forall (n : Z),
  - (2 * PI) < 2 * PI * IZR n < 2 * PI -> n = 0%Z.
Proof.
  intros n [Hlo Hhi]. pose proof two_PI_pos as H2P.
  apply one_IZR_lt1. split.
  - apply Rmult_lt_reg_l with (2 * PI); lra.
  - apply Rmult_lt_reg_l with (2 * PI); lra.
Qed.

(* ------------------------------------------------------------------ *)
(* periodicity of cos / sin over Z                                     *)
(* ------------------------------------------------------------------ *)

Lemma cos_period_Z : forall x (k : Z), cos (x + 2 * PI * IZR k) = cos x.
Proof.
  intros x k. destruct (Z_le_gt_dec 0 k) as [Hk | Hk].
  - destruct (IZN k Hk) as [n Hn]. subst k. rewrite <- INR_IZR_INZ.
    replace (x + 2 * PI * INR n) with (x + 2 * INR n * PI) by ring.
    apply cos_period.
  - assert (Hk' : (0 <= - k)%Z) by lia.
    destruct (IZN (- k)%Z Hk') as [n Hn].
    assert (Hkn : IZR k = - INR n).
    { rewrite INR_IZR_INZ, <- Hn, opp_IZR. ring. }
    rewrite Hkn.
    rewrite <- (cos_period (x + 2 * PI * - INR n) n).
    f_equal. ring.
Qed.

Lemma cos_wrap : forall x, cos (wrap x) = cos x.
Proof.
  intro x. destruct (wrap_congr x) as [k Hk]. rewrite Hk. apply cos_period_Z.
Qed.

Lemma cos_Rabs : forall x, cos (Rabs x) = cos x.
Proof.
  intro x. unfold Rabs. destruct (Rcase_abs x); [apply cos_neg | reflexivity].
Qed.

(* ------------------------------------------------------------------ *)
(* bridge: so2_dist a b = acos (cos (a - b))                           *)
(* ------------------------------------------------------------------ *)

Lemma Rabs_le_PI : forall r, - PI <= r <= PI -> 0 <= Rabs r <= PI.
Proof.
  intros r [Hlo Hhi]. split; [apply Rabs_pos|].
  unfold Rabs. destruct (Rcase_abs r); lra.
Qed.

Lemma so2_dist_acos : forall a b, so2_dist a b = acos (cos (a - b)).
Proof.
  intros a b. unfold so2_dist.
  rewrite <- (cos_wrap (a - b)), <- cos_Rabs.
  symmetry. apply acos_cos. apply Rabs_le_PI.
  pose proof (wrap_range (a - b)) as H. lra.
Qed.

(* characterisation: any representative r of a - b in [-PI, PI] has |r| = dist *)
Lemma so2_dist_char : forall a b r (k : Z),
  - PI <= r <= PI -> r = a - b + 2 * PI * IZR k -> so2_dist a b = Rabs r.
Proof.
  intros a b r k Hr Hk. rewrite so2_dist_acos.
  rewrite <- (cos_period_Z (a - b) k), <- Hk, <- cos_Rabs.
  apply acos_cos. apply Rabs_le_PI. exact Hr.
Qed.

(* ------------------------------------------------------------------ *)
(* metric axioms                                                       *)
(* ------------------------------------------------------------------ *)

Theorem so2_dist_nonneg : forall a b, 0 <= so2_dist a b.
Proof. intros a b. unfold so2_dist. apply Rabs_pos. Qed.

Theorem so2_dist_refl : forall a, so2_dist a a = 0.
Proof.
  intro a. rewrite (so2_dist_char a a 0 0%Z).
  - apply Rabs_R0.
  - pose proof PI_RGT_0. lra.
  - simpl. ring.
Qed.

Theorem so2_dist_sym : forall a b, so2_dist a b = so2_dist b a.
Proof.
  intros a b. rewrite !so2_dist_acos.
  replace (b - a) with (- (a - b)) by ring. rewrite cos_neg. reflexivity.
Qed.

Theorem so2_dist_le_PI : forall a b, so2_dist a b <= PI.
Proof. intros a b. rewrite so2_dist_acos. apply acos_bound. Qed.

Theorem so2_dist_period : forall a b (k : Z),
  so2_dist (a + 2 * PI * IZR k) b = so2_dist a b.
Proof.
  intros a b k. rewrite !so2_dist_acos.
  replace (a + 2 * PI * IZR k - b) with (a - b + 2 * PI * IZR k) by ring.
  rewrite cos_period_Z. reflexivity.
Qed.

Lemma so2_dist_period_r : forall a b (k : Z),
  so2_dist a (b + 2 * PI * IZR k) = so2_dist a b.
Proof.
  intros a b k. rewrite (so2_dist_sym a), so2_dist_period. apply so2_dist_sym.
Qed.

Lemma acos_triangle : forall a b c,
  0 <= a <= PI -> 0 <= b <= PI -> -1 <= c <= 1 ->
  cos a * cos b - sin a * sin b <= c -> acos c <= a + b.
Proof.
  intros a b c Ha Hb Hc Hle.
  pose proof (acos_bound c) as Hg.
  destruct (Rle_dec (a + b) PI) as [Hab | Hab].
  - destruct (Rle_dec (acos c) (a + b)) as [Hok | Hno]; [exact Hok|].
    exfalso. apply Rnot_le_lt in Hno.
    assert (Hlt : cos (acos c) < cos (a + b)).
    { apply cos_decreasing_1; lra. }
    rewrite cos_acos in Hlt by exact Hc.
    rewrite cos_plus in Hlt. lra.
  - lra.
Qed.

Lemma sin_acos_cos_prod : forall u v,
  sin u * sin v <= sin (acos (cos u)) * sin (acos (cos v)).
Proof.
  intros u v.
  pose proof (acos_bound (cos u)) as HA. pose proof (acos_bound (cos v)) as HB.
  set (A := acos (cos u)) in *. set (B := acos (cos v)) in *.
  assert (HsA : 0 <= sin A) by (apply sin_ge_0; lra).
  assert (HsB : 0 <= sin B) by (apply sin_ge_0; lra).
  assert (HcA : cos A = cos u) by (apply cos_acos, COS_bound).
  assert (HcB : cos B = cos v) by (apply cos_acos, COS_bound).
  assert (H2A : sin A * sin A = sin u * sin u).
  { pose proof (sin2_cos2 A) as H1. pose proof (sin2_cos2 u) as H2.
    unfold Rsqr in H1, H2. rewrite HcA in H1. lra. }
  assert (H2B : sin B * sin B = sin v * sin v).
  { pose proof (sin2_cos2 B) as H1. pose proof (sin2_cos2 v) as H2.
    unfold Rsqr in H1, H2. rewrite HcB in H1. lra. }
  set (sa := sin A) in *. set (sb := sin B) in *.
  set (su := sin u) in *. set (sv := sin v) in *.
  destruct (Rle_dec (su * sv) (sa * sb)) as [Hok | Hno]; [exact Hok|].
  exfalso. apply Rnot_le_lt in Hno.
  assert (Hp : 0 <= sa * sb) by (apply Rmult_le_pos; assumption).
  assert (Hsq : (sa * sb) * (sa * sb) < (su * sv) * (su * sv)).
  { apply Rle_lt_trans with ((sa * sb) * (su * sv)).
    - apply Rmult_le_compat_l; lra.
    - apply Rmult_lt_compat_r; lra. }
  assert (Heq : (sa * sb) * (sa * sb) = (su * sv) * (su * sv)).
  { replace ((sa * sb) * (sa * sb)) with ((sa * sa) * (sb * sb)) by ring.
    rewrite H2A, H2B. ring. }
  lra.
Qed.

Theorem so2_dist_triangle : forall a b c,
  so2_dist a c <= so2_dist a b + so2_dist b c.
Proof.
  intros a b c. rewrite !so2_dist_acos.
  apply acos_triangle.
  - apply acos_bound.
  - apply acos_bound.
  - apply COS_bound.
  - rewrite !cos_acos by apply COS_bound.
    replace (a - c) with ((a - b) + (b - c)) by ring.
    rewrite cos_plus.
    pose proof (sin_acos_cos_prod (a - b) (b - c)) as H. lra.
Qed.

Theorem so2_dist_zero_congr : forall a b,
  so2_dist a b = 0 -> exists k : Z, a = b + 2 * PI * IZR k.
Proof.
  intros a b H. unfold so2_dist in H.
  assert (Hw : wrap (a - b) = 0).
  { destruct (Req_dec (wrap (a - b)) 0) as [E | E]; [exact E|].
    exfalso. apply Rabs_no_R0 in E. contradiction. }
  destruct (wrap_congr (a - b)) as [k Hk].
  exists (- k)%Z. rewrite opp_IZR. lra.
Qed.

(* ------------------------------------------------------------------ *)
(* so2_diff                                                            *)
(* ------------------------------------------------------------------ *)

Lemma so2_diff_spec : forall a b,
  - PI <= so2_diff a b <= PI /\ exists k : Z, so2_diff a b = b - a + 2 * PI * IZR k.
Proof.
  intros a b.
  pose proof (wrap_range a) as Ha. pose proof (wrap_range b) as Hb.
  destruct (wrap_congr a) as [ka Hka]. destruct (wrap_congr b) as [kb Hkb].
  unfold so2_diff. cbv zeta.
  destruct (Rlt_dec PI (wrap b - wrap a)) as [H1 | H1].
  - split; [lra|]. exists (kb - ka - 1)%Z.
    rewrite !minus_IZR. rewrite Hka, Hkb. simpl. ring.
  - destruct (Rlt_dec (wrap b - wrap a) (- PI)) as [H2 | H2].
    + split; [lra|]. exists (kb - ka + 1)%Z.
      rewrite plus_IZR, minus_IZR. rewrite Hka, Hkb. simpl. ring.
    + split; [lra|]. exists (kb - ka)%Z.
      rewrite minus_IZR. rewrite Hka, Hkb. ring.
Qed.

Lemma so2_diff_near : forall a b,
  - PI <= wrap b - wrap a <= PI -> so2_diff a b = wrap b - wrap a.
Proof.
  intros a b [Hlo Hhi]. unfold so2_diff. cbv zeta.
  destruct (Rlt_dec PI (wrap b - wrap a)) as [H1 | H1]; [lra|].
  destruct (Rlt_dec (wrap b - wrap a) (- PI)) as [H2 | H2]; [lra|].
  reflexivity.
Qed.

Theorem so2_diff_abs : forall a b, Rabs (so2_diff a b) = so2_dist a b.
Proof.
  intros a b. destruct (so2_diff_spec a b) as [Hr [k Hk]].
  rewrite so2_dist_sym. symmetry.
  apply so2_dist_char with (k := k); [exact Hr | rewrite Hk; ring].
Qed.

(* ------------------------------------------------------------------ *)
(* so2_interp                                                          *)
(* ------------------------------------------------------------------ *)

Theorem so2_interp_range : forall a b t, - PI <= so2_interp a b t < PI.
Proof. intros a b t. unfold so2_interp. apply wrap_range. Qed.

Theorem so2_interp_0 : forall a b, so2_interp a b 0 = wrap a.
Proof.
  intros a b. unfold so2_interp. f_equal. ring.
Qed.

Lemma scaled_in_range : forall d s, - PI <= d <= PI -> -1 <= s <= 1 -> - PI <= d * s <= PI.
Proof.
  intros d s Hd Hs. pose proof PI_RGT_0 as HP.
  destruct (Rle_dec 0 d) as [Hd0 | Hd0].
  - assert (H1 : d * s <= d * 1) by (apply Rmult_le_compat_l; lra).
    assert (H2 : d * (-1) <= d * s) by (apply Rmult_le_compat_l; lra).
    lra.
  - apply Rnot_le_lt in Hd0.
    assert (H1 : (- d) * s <= (- d) * 1) by (apply Rmult_le_compat_l; lra).
    assert (H2 : (- d) * (-1) <= (- d) * s) by (apply Rmult_le_compat_l; lra).
    lra.
Qed.

Theorem so2_interp_dist_from : forall a b t, 0 <= t <= 1 ->
  so2_dist a (so2_interp a b t) = t * so2_dist a b.
Proof.
  intros a b t Ht. rewrite <- (so2_diff_abs a b).
  destruct (so2_diff_spec a b) as [Hr _].
  unfold so2_interp.
  destruct (wrap_congr (a + so2_diff a b * t)) as [k Hk].
  rewrite Hk.
  rewrite (so2_dist_char a (a + so2_diff a b * t + 2 * PI * IZR k)
             (so2_diff a b * (- t)) k).
  - rewrite Rabs_mult, Rabs_Ropp, (Rabs_right t) by lra. ring.
  - apply scaled_in_range; lra.
  - ring.
Qed.

Theorem so2_interp_dist_to : forall a b t, 0 <= t <= 1 ->
  so2_dist (so2_interp a b t) b = (1 - t) * so2_dist a b.
Proof.
  intros a b t Ht. rewrite <- (so2_diff_abs a b).
  destruct (so2_diff_spec a b) as [Hr [m Hm]].
  unfold so2_interp.
  destruct (wrap_congr (a + so2_diff a b * t)) as [k Hk].
  rewrite Hk.
  rewrite (so2_dist_char (a + so2_diff a b * t + 2 * PI * IZR k) b
             (so2_diff a b * (t - 1)) (- m - k)%Z).
  - rewrite Rabs_mult, (Rabs_left1 (t - 1)) by lra. ring.
  - apply scaled_in_range; lra.
  - rewrite minus_IZR, opp_IZR.
    assert (Hab : a - b = - so2_diff a b + 2 * PI * IZR m) by lra.
    replace (a + so2_diff a b * t + 2 * PI * IZR k - b)
      with ((a - b) + so2_diff a b * t + 2 * PI * IZR k) by ring.
    rewrite Hab. ring.
Qed.

Theorem so2_interp_1 : forall a b, so2_dist (so2_interp a b 1) b = 0.
Proof.
  intros a b. rewrite so2_interp_dist_to by lra. ring.
Qed.

Lemma so2_dist_wrap_congr : forall x y (k : Z),
  x - y = 2 * PI * IZR k -> so2_dist (wrap x) (wrap y) = 0.
Proof.
  intros x y k Hxy.
  destruct (wrap_congr x) as [kx Hkx]. destruct (wrap_congr y) as [ky Hky].
  rewrite (so2_dist_char (wrap x) (wrap y) 0 (ky - kx - k)%Z).
  - apply Rabs_R0.
  - pose proof PI_RGT_0. lra.
  - rewrite !minus_IZR, Hkx, Hky.
    replace (x + 2 * PI * IZR kx - (y + 2 * PI * IZR ky)) with
      ((x - y) + 2 * PI * IZR kx - 2 * PI * IZR ky) by ring.
    rewrite Hxy. ring.
Qed.

Lemma so2_diff_antisym : forall a b, so2_dist a b < PI -> so2_diff b a = - so2_diff a b.
Proof.
  intros a b Hlt. rewrite <- so2_diff_abs in Hlt.
  destruct (so2_diff_spec a b) as [Hr [k Hk]].
  destruct (so2_diff_spec b a) as [Hr' [m Hm]].
  assert (Habs : - PI < so2_diff a b < PI).
  { unfold Rabs in Hlt. destruct (Rcase_abs (so2_diff a b)); lra. }
  assert (Hz : (m + k)%Z = 0%Z).
  { apply two_PI_mult_small. rewrite plus_IZR. lra. }
  assert (Hz' : IZR m + IZR k = 0).
  { rewrite <- plus_IZR, Hz. reflexivity. }
  rewrite Hm, Hk.
  replace (IZR m) with (- IZR k) by lra. ring.
Qed.

Theorem so2_interp_reverse : forall a b t, 0 <= t <= 1 -> so2_dist a b < PI ->
  so2_dist (so2_interp b a (1 - t)) (so2_interp a b t) = 0.
Proof.
  intros a b t Ht Hlt. unfold so2_interp.
  rewrite (so2_diff_antisym a b Hlt).
  destruct (so2_diff_spec a b) as [_ [k Hk]].
  apply so2_dist_wrap_congr with (k := (- k)%Z).
  rewrite opp_IZR.
  replace (b + - so2_diff a b * (1 - t) - (a + so2_diff a b * t))
    with (b - a - so2_diff a b) by ring.
  rewrite Hk. ring.
Qed.

(* ------------------------------------------------------------------ *)
(* bounded angular intervals                                           *)
(* ------------------------------------------------------------------ *)

Theorem so2_interval_convex : forall lo hi a b t,
  - PI <= lo -> hi <= PI -> hi - lo <= PI ->
  so2_in lo hi a -> so2_in lo hi b -> 0 <= t <= 1 ->
  so2_in lo hi (so2_interp a b t).
Proof.
  intros lo hi a b t Hlo Hhi Hspan [Ha1 Ha2] [Hb1 Hb2] [Ht0 Ht1].
  pose proof (wrap_range a) as Hwa. pose proof (wrap_range b) as Hwb.
  unfold so2_in, so2_interp.
  rewrite so2_diff_near by lra.
  destruct (wrap_congr a) as [k Hk].
  set (wa := wrap a) in *. set (wb := wrap b) in *.
  assert (Hmix : wa + (wb - wa) * t = (1 - t) * wa + t * wb) by ring.
  assert (Hge : lo <= (1 - t) * wa + t * wb).
  { assert (H1 : (1 - t) * lo <= (1 - t) * wa) by (apply Rmult_le_compat_l; lra).
    assert (H2 : t * lo <= t * wb) by (apply Rmult_le_compat_l; lra).
    lra. }
  assert (Hle : (1 - t) * wa + t * wb <= hi).
  { assert (H1 : (1 - t) * wa <= (1 - t) * hi) by (apply Rmult_le_compat_l; lra).
    assert (H2 : t * wb <= t * hi) by (apply Rmult_le_compat_l; lra).
    lra. }
  assert (Hlt : (1 - t) * wa + t * wb < PI).
  { destruct (Rle_dec t (1 / 2)) as [Hth | Hth].
    - assert (H1 : (1 - t) * wa < (1 - t) * PI) by (apply Rmult_lt_compat_l; lra).
      assert (H2 : t * wb <= t * PI) by (apply Rmult_le_compat_l; lra).
      lra.
    - assert (H1 : (1 - t) * wa <= (1 - t) * PI) by (apply Rmult_le_compat_l; lra).
      assert (H2 : t * wb < t * PI) by (apply Rmult_lt_compat_l; lra).
      lra. }
  assert (Hw : wrap (a + (wb - wa) * t) = (1 - t) * wa + t * wb).
  { apply wrap_unique with (k := k); [lra|]. rewrite <- Hmix, Hk. ring. }
  rewrite Hw, wrap_id by lra. lra.
Qed.

Lemma PI_gt_3 : 3 < PI.
Proof. pose proof PI2_3_2 as H. lra. Qed.

Theorem so2_span_gt_pi_not_convex : exists lo hi a b t,
  - PI <= lo /\ hi <= PI /\ so2_in lo hi a /\ so2_in lo hi b /\ 0 <= t <= 1 /\
  ~ so2_in lo hi (so2_interp a b t).
Proof.
  pose proof PI_gt_3 as H3. pose proof PI_4 as H4.
  assert (Hwa : wrap (-29 / 10) = -29 / 10) by (apply wrap_id; lra).
  assert (Hwb : wrap (29 / 10) = 29 / 10) by (apply wrap_id; lra).
  assert (Hd : so2_diff (-29 / 10) (29 / 10) = 58 / 10 - 2 * PI).
  { unfold so2_diff. cbv zeta. rewrite Hwa, Hwb.
    destruct (Rlt_dec PI (29 / 10 - -29 / 10)) as [H1 | H1]; [lra | exfalso; lra]. }
  assert (Hi : so2_interp (-29 / 10) (29 / 10) (1 / 2) = - PI).
  { unfold so2_interp. rewrite Hd.
    replace (-29 / 10 + (58 / 10 - 2 * PI) * (1 / 2)) with (- PI) by field.
    apply wrap_id. lra. }
  exists (-3), 3, (-29 / 10), (29 / 10), (1 / 2).
  unfold so2_in. rewrite Hwa, Hwb, Hi, (wrap_id (- PI)) by lra.
  repeat split; try lra.
Qed.

Print Assumptions so2_dist_triangle.
Print Assumptions so2_interp_dist_from.
