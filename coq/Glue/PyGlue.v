(* Model of the Python callback glue (oxmpl-py/src/base/{state_validity_checker,goal}.rs):
   what the planner sees of a Python callback's outcome.  The fallback values are regenerated from
   the source on every run (Glue/GluePolicy.v). *)
From Coq Require Import ZArith List Bool.
From OX Require Import Glue.GluePolicy.
Import ListNotations.

Inductive pyval := PyBool (b : bool) | PyNone | PyInt (z : Z) | PyOther.     (* what the callback returned *)
Inductive py_result := PyOk (v : pyval) | PyRaise.                         (* ... or that it raised *)

(* `result.extract::<bool>()`: only a Python bool extracts; everything else (None, ints, lists, strings)
   is an extraction error and takes the error branch *)
Definition py_is_valid (r : py_result) : bool :=
  match r with PyOk (PyBool b) => b | _ => py_on_err_valid end.
Definition py_is_satisfied (r : py_result) : bool :=
  match r with PyOk (PyBool b) => b | _ => py_on_err_goal end.

Definition failed (r : py_result) : Prop := match r with PyOk (PyBool _) => False | _ => True end.
