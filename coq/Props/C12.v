(* C12 - Constructors accept only well-formed bounds and canonicalise states.
   Theorems on the float model of the constructors (Spaces/SpacesF.v: rv_new, so2_new, so3_new, so2_norm,
   so3_normalise), for ALL float arguments; the model is tied to the code bit-for-bit over the constructor
   argument lattice on every run. *)
From Coq Require Import ZArith NArith List Bool Floats.
From OX Require Import Numerics.FloatBits Gen.Consts Spaces.SpacesF Spaces.CtorProofs Spaces.SpacesFProofs.
Import ListNotations.
Open Scope float_scope.

(* R^n: a space is returned only with the right number of bounds, each lower bound STRICTLY below its upper
   bound and no NaN; otherwise the documented error *)
Theorem C12_rv_bounds_well_formed : forall dim bs sp,
  rv_new dim (Some bs) = Ok sp ->
  sp = RV dim bs default_fraction /\ N.of_nat (length bs) = dim /\
  Forall (fun b => flt (fst b) (snd b) = true /\ fis_nan (fst b) = false /\ fis_nan (snd b) = false) bs.
Proof. exact rv_new_bounded_wf. Qed.

Theorem C12_rv_errors : forall dim bs,
  (N.of_nat (length bs) <> dim -> rv_new dim (Some bs) = Err E_DIM) /\
  (rv_new dim None = if (dim =? 0)%N then Err E_ZERODIM
                     else Ok (RV dim (repeat (neg_infinity, infinity) (N.to_nat dim)) default_fraction)).
Proof. exact rv_new_errors. Qed.

(* SO(2): the stored interval is strictly ordered, NaN-free and inside [-PI, PI] *)
Theorem C12_so2_bounds_well_formed : forall b lo hi fr,
  so2_new b = Ok (SO2 lo hi fr) -> flt lo hi = true /\ fle (- PI_f) lo = true /\ fle hi PI_f = true.
Proof. exact so2_new_wf. Qed.

(* SO(3): the stored angular radius is in [0, PI]; a negative radius is the documented error *)
Theorem C12_so3_radius_well_formed : forall b cx cy cz cw m fr,
  so3_new b = Ok (SO3 cx cy cz cw m fr) -> fle zero m = true /\ fle m PI_f = true.
Proof. exact so3_new_wf. Qed.
Theorem C12_so3_negative_radius_rejected : forall x y z w a, flt a zero = true -> so3_new (Some (x, y, z, w, a)) = Err E_ANG.
Proof. exact so3_new_negative_radius. Qed.

(* every space a constructor returns can be used for bounds operations without panicking:
   clamp panics only for not (lo <= hi), which well-formed bounds exclude *)
Theorem C12_clamp_never_panics_on_well_formed_bounds : forall x lo hi, flt lo hi = true -> fclamp x lo hi <> None.
Proof.
  intros x lo hi H E. apply fclamp_none_iff in E.
  assert (fle lo hi = true) by (apply FloatOrder.flt_fle; exact H). congruence.
Qed.

(* state constructors canonicalise: an SO(2) / SE(2) angle is stored in [-PI, PI] for every finite input *)
Theorem C12_so2_state_canonical : forall v, fis_finite v = true -> fle (- PI_f) (so2_norm v) = true /\ fle (so2_norm v) PI_f = true.
Proof. exact so2_norm_range. Qed.

(* quaternion normalisation: huge components overflow the squared norm and the zero quaternion is returned
   as "normalised" (known finding, reproduced on the code) *)
Theorem C12_refuted_huge_quaternion :
  let big := fbits 7598952565167317594 in so3_normalise big zero zero zero = Ok (zero, zero, zero, zero).
Proof. exact so3_normalise_huge_refuted. Qed.

Print Assumptions C12_rv_bounds_well_formed.
Print Assumptions C12_rv_errors.
Print Assumptions C12_so2_bounds_well_formed.
Print Assumptions C12_so3_radius_well_formed.
Print Assumptions C12_so3_negative_radius_rejected.
Print Assumptions C12_clamp_never_panics_on_well_formed_bounds.
Print Assumptions C12_so2_state_canonical.
Print Assumptions C12_refuted_huge_quaternion.
