(* C11 - Sampling, enforcing and checking bounds agree.
   Exact float-level theorems (all float inputs, via Flocq) for R^n and for rand's range sampler; the
   classes in which the property FAILS on the code are proved as refutation witnesses on the float model
   (= the known findings).  SO(3) / compound behaviour is covered by the bit-exact correspondence and the
   enforce -> satisfies / idempotence oracle on the lattice. *)
From Coq Require Import ZArith NArith List Bool Floats.
From OX Require Import Numerics.FloatBits Gen.Consts Spaces.SpacesF Spaces.SpacesFProofs Spaces.CompoundN.
Import ListNotations.
Open Scope float_scope.

(* f64::clamp lands inside [lo, hi], is idempotent and leaves in-range values alone; it panics iff not (lo <= hi) *)
Theorem C11_clamp_in_range : forall x lo hi y, fis_nan x = false -> fclamp x lo hi = Some y -> fle lo y = true /\ fle y hi = true.
Proof. exact fclamp_in_range. Qed.
Theorem C11_clamp_idempotent : forall x lo hi y, fclamp x lo hi = Some y -> fclamp y lo hi = Some y.
Proof. exact fclamp_idem. Qed.
Theorem C11_clamp_fixes_in_range : forall x lo hi, fle lo x = true -> fle x hi = true -> fclamp x lo hi = Some x.
Proof. exact fclamp_fixed. Qed.
Theorem C11_clamp_panics_iff : forall x lo hi, fclamp x lo hi = None <-> fle lo hi = false.
Proof. exact fclamp_none_iff. Qed.

(* R^n: after enforce_bounds the bounds check accepts the state; enforcing is idempotent *)
Theorem C11_rv_enforce_then_satisfies : forall dim bs a a',
  Forall (fun '(lo, hi) => fle lo hi = true) bs -> Forall (fun x => fis_nan x = false) a ->
  N.of_nat (length bs) = dim -> rv_enforce dim bs a = Ok a' -> rv_satisfies dim bs a' = Ok true.
Proof. exact rv_satisfies_enforce. Qed.
Theorem C11_rv_enforce_idempotent : forall dim bs a a',
  Forall (fun '(lo, hi) => fle lo hi = true) bs -> Forall (fun x => fis_nan x = false) a ->
  N.of_nat (length bs) = dim -> rv_enforce dim bs a = Ok a' -> rv_enforce dim bs a' = Ok a'.
Proof. exact rv_enforce_idem. Qed.

(* rand 0.9.1 random_range(lo..hi): the result is in [lo, hi] - INCLUSIVE: hi itself can be returned by
   rounding, which is the root of the SO(2) 'upper end' finding below *)
Theorem C11_sample_in_closed_range : forall u lo hi x, (u < 2^64)%N -> rand_range u lo hi = Ok x -> fle lo x = true /\ fle x hi = true.
Proof. exact rand_range_in. Qed.

(* SO2State::new / normalise lands in [-PI, PI] for every finite input *)
Theorem C11_so2_normalise_range : forall v, fis_finite v = true -> fle (- PI_f) (so2_norm v) = true /\ fle (so2_norm v) PI_f = true.
Proof. exact so2_norm_range. Qed.

(* ---- refutation witnesses (known findings), evaluated on the float model ---- *)
Definition three : F := fbits 4613937818241073152.

(* bounds (3.0, PI): enforce_bounds snaps -3.0 to PI, which satisfies_bounds normalises to -PI and rejects *)
Theorem C11_refuted_so2_upper_pi : so2_satisfies three PI_f (so2_enforce three PI_f (- three)) = false.
Proof. vm_compute. reflexivity. Qed.

(* bounds (3.0, PI), generator output all ones: the sample is exactly PI, outside after normalisation *)
Theorem C11_refuted_sample_upper_end :
  exists x, rand_range 18446744073709551615%N three PI_f = Ok x /\ feqb_bits x PI_f = true /\ so2_satisfies three PI_f x = false.
Proof. eexists. split; [vm_compute; reflexivity|]. split; vm_compute; reflexivity. Qed.

(* finite bounds of infinite width: rand rejects the range, sample_uniform panics *)
Theorem C11_refuted_infinite_width :
  rand_range 12345%N (fbits 18441750990357478262) (fbits 9218378953502702454) = Panic.   (* (-1.7e308, 1.7e308) *)
Proof. vm_compute. reflexivity. Qed.

(* compound spaces, any width and nesting: if every component space obeys "what enforce returns, satisfies
   accepts" on a class P of states closed under taking components, so does the compound (Spaces/CompoundN.v);
   instance: every compound tree whose leaves are well-formed boxes, on NaN-free states *)
Theorem C11_compound_enforce_then_satisfies : forall acosF sinF (P : st -> Prop),
  (forall xs, P (VC xs) -> Forall P xs) ->
  forall subs, Forall (fun sw => enf_sat_law acosF sinF P (fst sw)) subs -> enf_sat_law acosF sinF P (CS subs).
Proof. exact compound_enforce_then_satisfies. Qed.
Theorem C11_box_tree_enforce_then_satisfies : forall acosF sinF s x r,
  rv_tree s -> st_no_nan x -> enforce acosF sinF s x = Ok r -> satisfies acosF s r = Ok true.
Proof. intros acosF sinF s x r Hs Hx. exact (rv_tree_law acosF sinF s Hs x r Hx). Qed.
(* and the sampling half: component samples that pass their own check make a compound sample that passes *)
Theorem C11_compound_sample_then_satisfies : forall acosF fuel (Q : list N -> Prop) subs,
  Forall (fun sw => smp_sat_law acosF fuel Q (fst sw)) subs -> smp_sat_law acosF fuel Q (CS subs).
Proof. exact compound_sample_then_satisfies. Qed.
(* closed instance: in R^n and in every compound tree of boxes (any width, any nesting), every state that
   sample_uniform returns from a stream of u64 words passes satisfies_bounds *)
Theorem C11_box_tree_sample_then_satisfies : forall acosF fuel s us x rest,
  box_tree s -> Forall (fun u => (u < 2^64)%N) us ->
  sample acosF fuel s us = (Some (Ok x), rest) -> satisfies acosF s x = Ok true.
Proof. intros acosF fuel s us x rest Hs Hu H. exact (proj1 (box_tree_sample_law acosF fuel s Hs us x rest Hu H)). Qed.
(* enforcing twice = enforcing once: lifted to compounds of any width, closed (no side condition at all) for
   every compound tree of boxes *)
Theorem C11_compound_enforce_idempotent : forall acosF sinF subs,
  Forall (fun sw => enf_idem_law acosF sinF (fst sw)) subs -> enf_idem_law acosF sinF (CS subs).
Proof. exact compound_enforce_idempotent. Qed.
Theorem C11_box_tree_enforce_idempotent : forall acosF sinF s x r,
  box_tree s -> enforce acosF sinF s x = Ok r -> enforce acosF sinF s r = Ok r.
Proof. intros acosF sinF s x r Hs. exact (box_tree_idem acosF sinF s Hs x r). Qed.

Print Assumptions C11_compound_enforce_idempotent.
Print Assumptions C11_box_tree_enforce_idempotent.
Print Assumptions C11_box_tree_sample_then_satisfies.

Print Assumptions C11_compound_sample_then_satisfies.
Print Assumptions C11_compound_enforce_then_satisfies.
Print Assumptions C11_box_tree_enforce_then_satisfies.
Print Assumptions C11_clamp_in_range.
Print Assumptions C11_clamp_idempotent.
Print Assumptions C11_clamp_fixes_in_range.
Print Assumptions C11_clamp_panics_iff.
Print Assumptions C11_rv_enforce_then_satisfies.
Print Assumptions C11_rv_enforce_idempotent.
Print Assumptions C11_sample_in_closed_range.
Print Assumptions C11_so2_normalise_range.
Print Assumptions C11_refuted_so2_upper_pi.
Print Assumptions C11_refuted_sample_upper_end.
Print Assumptions C11_refuted_infinite_width.
