(* C17 - RRT* choose-parent and rewiring only ever shorten cost-to-come. *)
From Coq Require Import ZArith NArith List Bool Floats.
From OX Require Import Numerics.FloatBits Planners.Model Proofs.ValidInv Proofs.TreeInv Proofs.StarInv Proofs.StarSpec Proofs.TreeFinal.
From OX Require Spaces.SpacesF Spaces.DistSane.
Import ListNotations.

Section C17.
Context {S V P : Type}.
Variable dist : S -> S -> F.
Variable interp : S -> S -> F -> S.
Variable lvs : F.
Variable valid : V -> S -> bool.
Variable goal : P -> S -> bool.
Variable starts : P -> list S.
Variable u64_at : gen -> N -> N.
Variable usample : gen -> N -> option S * N.
Variable gsample : P -> gen -> N -> option S * N.
Variables maxd bias radius : F.

(* the only assumption: distances are >= 0 and not NaN (C09); float arithmetic is exact IEEE-754 *)
Hypothesis Hd : forall a b, fle zero (dist a b) = true.

(* In every reachable state of RRT* (SInv): costs are >= 0; for every node,
   cost(parent) + dist(node, parent) <= cost(node) ("parents only get cheaper"); the root has cost 0 and is
   never re-parented; every node reaches the root. *)
Theorem C17_cost_invariant : forall seeded cs s rs,
  run (rrtstar_step dist interp lvs valid goal starts u64_at usample gsample maxd bias radius) (new_planner seeded) cs = (s, rs) ->
  SInv dist (tree s).
Proof. exact (rrtstar_reachable_SInv dist interp lvs valid goal starts u64_at usample gsample maxd bias radius Hd). Qed.

(* the recorded cost is an upper bound on the true length of the node's branch *)
Theorem C17_cost_bounds_branch : forall t, SInv dist t -> forall i L, branch_len dist t i L ->
  forall n, nth_error t i = Some n -> fle zero L = true /\ fle L (cost n) = true.
Proof. exact (cost_bounds_branch dist Hd). Qed.

(* the new node is linked to a cheapest candidate among the nearest node and all neighbours with a valid motion *)
Theorem C17_choose_parent_min : forall v t qn nbs best bc b' c',
  SInv dist t -> PrimFloat.is_nan bc = false ->
  choose_parent dist interp lvs valid v t qn nbs best bc = Some (b', c') ->
  fle c' bc = true /\
  forall j nj, In j nbs -> nth_error t j = Some nj -> check_motion dist interp lvs valid v (st nj) qn = true ->
               fle c' (cost_via dist qn nj) = true.
Proof. exact (choose_parent_min dist interp lvs valid Hd). Qed.

(* rewiring re-parents exactly the neighbours (other than the new node's parent) that become strictly
   cheaper through the new node by a valid motion; every other node is bit-identical *)
Theorem C17_rewire_exact : forall v nbs t newi nw t',
  nth_error t newi = Some nw -> NoDup nbs -> (forall j, In j nbs -> j <> newi) ->
  rewire dist interp lvs valid v t newi nbs = Some t' ->
  forall k,
    (~ In k nbs -> nth_error t' k = nth_error t k) /\
    (In k nbs -> forall nk, nth_error t k = Some nk ->
       nth_error t' k = Some (if rewired dist interp lvs valid v nw k nk
                              then mkNode S (st nk) (Some newi) (cost_via dist (st nk) nw) else nk)).
Proof. exact (rewire_spec dist interp lvs valid). Qed.

(* RRT* shadows RRT: fed the same samples they hold the same node states after every iteration, consume
   the same random stream and stop in the same iteration with the same kind of answer *)
Theorem C17_same_states_as_rrt : forall fuel p v t1 t2 g pos t1' pos1 r1 t2' pos2 r2,
  states t1 = states t2 ->
  rrt_loop dist interp lvs valid goal u64_at usample gsample maxd bias fuel p v t1 g pos = (t1', pos1, r1) ->
  rrtstar_loop dist interp lvs valid goal u64_at usample gsample maxd bias radius fuel p v t2 g pos = (t2', pos2, r2) ->
  states t1' = states t2' /\ pos1 = pos2 /\ same_verdict r1 r2.
Proof. exact (shadow_loop dist interp lvs valid goal u64_at usample gsample maxd bias radius). Qed.

(* ... and the cost RRT* records for a node never exceeds the length of RRT's branch to the same node
   (preserved by every iteration; with C17_cost_bounds_branch: true RRT* length <= RRT* cost <= RRT length) *)
Theorem C17_no_longer_than_rrt : forall v t1 t2 q t1' r1 t2' r2,
  SInv dist t2 -> par_in_range t1 -> states t1 = states t2 -> cost_le dist t1 t2 ->
  extend dist interp lvs valid maxd v t1 q = (t1', r1) ->
  rrtstar_iter dist interp lvs valid maxd radius v t2 q = (t2', r2) -> cost_le dist t1' t2'.
Proof. exact (shadow_iter_cost dist interp lvs valid maxd radius Hd). Qed.

End C17.

(* The one assumption of this file (and of C15's acyclicity), "distances are >= 0 and not NaN", holds of the
   executable float model of every state space (R^n, SO(2), SO(3), weighted compounds of them, to any depth),
   for all arguments on which it can hold: no NaN coordinate difference in an R^n leaf, a finite angle
   difference in an SO(2) leaf, finite non-zero weights; nothing is asked of quaternions; acos is an oracle
   assumed non-negative and not NaN on [0,1].  (DistSane.v also proves these conditions necessary.) *)
Theorem C17_float_distances_are_sane : forall acosF : F -> F,
  (forall x, fle zero x = true -> fle x one = true -> fle zero (acosF x) = true) ->
  forall (sp : SpacesF.space) (a b : SpacesF.st) (d : F),
  DistSane.sane_args sp a b -> SpacesF.distance acosF sp a b = SpacesF.Ok d -> fle zero d = true.
Proof. exact DistSane.distance_sane. Qed.

Print Assumptions C17_float_distances_are_sane.
Print Assumptions C17_cost_invariant.
Print Assumptions C17_cost_bounds_branch.
Print Assumptions C17_choose_parent_min.
Print Assumptions C17_rewire_exact.
Print Assumptions C17_same_states_as_rrt.
Print Assumptions C17_no_longer_than_rrt.
