(* C01 - Every state on a returned path is valid.
   Statements only; each proof is `exact <lemma>`.  Generic: for EVERY state type, space
   (dist/interp/resolution), validity checker, goal, start list, sampler behaviour, random
   stream, parameter values, seededness and EVERY finite history of API calls. *)
From Coq Require Import ZArith NArith List Bool Floats.
From OX Require Import Numerics.FloatBits Planners.Model Planners.Exec Proofs.ApiValid.
Import ListNotations.

Section C01.
Context {S V P : Type}.
Variable dist : S -> S -> F.
Variable interp : S -> S -> F -> S.
Variable lvs : F.
Variable valid : V -> S -> bool.
Variable goal : P -> S -> bool.
Variable starts : P -> list S.
Variable u64_at : gen -> N -> N.
Variable usample : gen -> N -> option S * N.
Variable gsample : P -> gen -> N -> option S * N.
Variables maxd bias radius : F.

(* whatever the history [cs] of API calls, if the next call [c] answers with a path then every
   state on it is accepted by the checker installed by the most recent setup ([vc s]) *)
Definition paths_valid (step : @pstate S V P -> @call V P -> @pstate S V P * response S) : Prop :=
  forall (seeded : bool) (cs : list call) s rs c s' r,
    run step (new_planner seeded) cs = (s, rs) -> step s c = (s', r) ->
    forall path, r = RPath path ->
    exists v, vc s = Some v /\ Forall (fun x => valid v x = true) path.

Theorem C01_rrt : paths_valid (rrt_step dist interp lvs valid goal starts u64_at usample gsample maxd bias).
Proof. exact (rrt_paths_valid dist interp lvs valid goal starts u64_at usample gsample maxd bias). Qed.

Theorem C01_rrtstar : paths_valid (rrtstar_step dist interp lvs valid goal starts u64_at usample gsample maxd bias radius).
Proof. exact (rrtstar_paths_valid dist interp lvs valid goal starts u64_at usample gsample maxd bias radius). Qed.

Theorem C01_rrtconnect : paths_valid (rrtc_step dist interp lvs valid goal starts u64_at usample gsample maxd bias).
Proof. exact (rrtc_paths_valid dist interp lvs valid goal starts u64_at usample gsample maxd bias). Qed.

Theorem C01_prm : paths_valid (prm_step dist interp lvs valid goal starts usample radius).
Proof. exact (prm_paths_valid dist interp lvs valid goal starts usample radius). Qed.

(* a start state the checker rejects is reported as InvalidStartState (in ANY planner state
   in which that problem and checker are installed; PRM additionally needs a sampled roadmap,
   otherwise it reports UnsampledStateSpace first) *)
Definition rejected (s : @pstate S V P) : Prop :=
  exists p v s0 rest, pd s = Some p /\ vc s = Some v /\ starts p = s0 :: rest /\ valid v s0 = false.

Theorem C01_rrt_invalid_start : forall s b, rejected s ->
  snd (rrt_step dist interp lvs valid goal starts u64_at usample gsample maxd bias s (CSolve b)) = RErr EInvalidStart.
Proof. exact (rrt_invalid_start dist interp lvs valid goal starts u64_at usample gsample maxd bias). Qed.

Theorem C01_rrtstar_invalid_start : forall s b, rejected s ->
  snd (rrtstar_step dist interp lvs valid goal starts u64_at usample gsample maxd bias radius s (CSolve b)) = RErr EInvalidStart.
Proof. exact (rrtstar_invalid_start dist interp lvs valid goal starts u64_at usample gsample maxd bias radius). Qed.

Theorem C01_rrtconnect_invalid_start : forall s b, rejected s ->
  snd (rrtc_step dist interp lvs valid goal starts u64_at usample gsample maxd bias s (CSolve b)) = RErr EInvalidStart.
Proof. exact (rrtc_invalid_start dist interp lvs valid goal starts u64_at usample gsample maxd bias). Qed.

Theorem C01_prm_invalid_start : forall s b, rejected s -> roadmap s <> [] ->
  snd (prm_step dist interp lvs valid goal starts usample radius s (CSolve b)) = RErr EInvalidStart.
Proof. exact (prm_invalid_start dist interp lvs valid goal starts usample radius). Qed.

End C01.

Print Assumptions C01_rrt.
Print Assumptions C01_rrtstar.
Print Assumptions C01_rrtconnect.
Print Assumptions C01_prm.
Print Assumptions C01_rrt_invalid_start.
Print Assumptions C01_rrtstar_invalid_start.
Print Assumptions C01_rrtconnect_invalid_start.
Print Assumptions C01_prm_invalid_start.
