(* C07 - Seeded planning is reproducible.
   The model makes the provenance of every random draw explicit: GSeed = the planner's own seeded
   generator, GForeign = any OS-/thread-seeded generator.  Two runs whose oracles agree on GSeed
   (the same seed, deterministic callbacks) but differ ARBITRARILY on GForeign give identical states
   and responses for every call history, provided no call panicked (see C08 for panics). *)
From Coq Require Import ZArith NArith List Bool Floats.
From OX Require Import Numerics.FloatBits Planners.Model Proofs.Repro.
Import ListNotations.

Section C07.
Context {S V P : Type}.
Variable dist : S -> S -> F.
Variable interp : S -> S -> F -> S.
Variable lvs : F.
Variable valid : V -> S -> bool.
Variable goal : P -> S -> bool.
Variable starts : P -> list S.
Variables maxd bias radius : F.
Variables u1 u2 : gen -> N -> N.
Variables us1 us2 : gen -> N -> option S * N.
Variables gs1 gs2 : P -> gen -> N -> option S * N.

Definition same_seeded_stream : Prop :=
  (forall pos, u1 GSeed pos = u2 GSeed pos) /\
  (forall pos, us1 GSeed pos = us2 GSeed pos) /\
  (forall p pos, gs1 p GSeed pos = gs2 p GSeed pos).

Definition returned_normally (r : response S) : Prop := is_panic r = false.

Definition reproducible (step1 step2 : @pstate S V P -> @call V P -> @pstate S V P * response S) : Prop :=
  forall cs s rs,
    run step1 (new_planner true) cs = (s, rs) -> Forall returned_normally rs ->
    run step2 (new_planner true) cs = (s, rs).

Theorem C07_rrt : same_seeded_stream ->
  reproducible (rrt_step dist interp lvs valid goal starts u1 us1 gs1 maxd bias)
               (rrt_step dist interp lvs valid goal starts u2 us2 gs2 maxd bias).
Proof. intros (A & B & C). exact (rrt_reproducible dist interp lvs valid goal starts maxd bias u1 u2 us1 us2 gs1 gs2 A B C). Qed.

Theorem C07_rrtstar : same_seeded_stream ->
  reproducible (rrtstar_step dist interp lvs valid goal starts u1 us1 gs1 maxd bias radius)
               (rrtstar_step dist interp lvs valid goal starts u2 us2 gs2 maxd bias radius).
Proof. intros (A & B & C). exact (rrtstar_reproducible dist interp lvs valid goal starts maxd bias radius u1 u2 us1 us2 gs1 gs2 A B C). Qed.

Theorem C07_rrtconnect : same_seeded_stream ->
  reproducible (rrtc_step dist interp lvs valid goal starts u1 us1 gs1 maxd bias)
               (rrtc_step dist interp lvs valid goal starts u2 us2 gs2 maxd bias).
Proof. intros (A & B & C). exact (rrtc_reproducible dist interp lvs valid goal starts maxd bias u1 u2 us1 us2 gs1 gs2 A B C). Qed.

Theorem C07_prm : same_seeded_stream ->
  reproducible (prm_step dist interp lvs valid goal starts us1 radius)
               (prm_step dist interp lvs valid goal starts us2 radius).
Proof. intros (A & B & C). exact (prm_reproducible dist interp lvs valid goal starts radius us1 us2 B). Qed.

(* Wall-clock time only decides how many iterations complete: a run with a larger iteration budget
   continues exactly where the run with the smaller budget timed out (same decisions, same draws). *)
Theorem C07_rrt_clock_prefix : forall n k p v t g pos t' pos',
  rrt_loop dist interp lvs valid goal u1 us1 gs1 maxd bias n p v t g pos = (t', pos', RErr ETimeout) ->
  rrt_loop dist interp lvs valid goal u1 us1 gs1 maxd bias (n + k) p v t g pos =
  rrt_loop dist interp lvs valid goal u1 us1 gs1 maxd bias k p v t' g pos'.
Proof. exact (rrt_loop_prefix dist interp lvs valid goal u1 us1 gs1 maxd bias). Qed.

Theorem C07_rrtstar_clock_prefix : forall n k p v t g pos t' pos',
  rrtstar_loop dist interp lvs valid goal u1 us1 gs1 maxd bias radius n p v t g pos = (t', pos', RErr ETimeout) ->
  rrtstar_loop dist interp lvs valid goal u1 us1 gs1 maxd bias radius (n + k) p v t g pos =
  rrtstar_loop dist interp lvs valid goal u1 us1 gs1 maxd bias radius k p v t' g pos'.
Proof. exact (rrtstar_loop_prefix dist interp lvs valid goal u1 us1 gs1 maxd bias radius). Qed.

Theorem C07_prm_clock_prefix : forall n k v rm g pos rm' pos',
  prm_build dist interp lvs valid us1 radius n v rm g pos = (rm', pos', RUnit) ->
  prm_build dist interp lvs valid us1 radius (n + k) v rm g pos =
  prm_build dist interp lvs valid us1 radius k v rm' g pos'.
Proof. exact (prm_build_prefix dist interp lvs valid us1 radius). Qed.

End C07.

Print Assumptions C07_rrt.
Print Assumptions C07_rrtstar.
Print Assumptions C07_rrtconnect.
Print Assumptions C07_prm.
Print Assumptions C07_rrt_clock_prefix.
Print Assumptions C07_rrtstar_clock_prefix.
Print Assumptions C07_prm_clock_prefix.
