(* C19 - Python planners and spaces return exactly what the Rust core returns.
   The Python layer is dispatch and conversion; this property is decided by TRANSLATION VALIDATION: every
   generated scenario is run through the Python API (oxmpl_py built from the current tree, callbacks with
   bit-identical arithmetic) and through the Rust core under the logging wrappers; paths must be equal bit
   for bit and the complete validity-callback traces (arguments and answers, in order) must be equal; the
   Rust run is in turn replayed on the proved planner model (C01-C18).  Wrapper constructors / distances /
   canonicalised values are compared with the core over the C12 lattice.  The small model below fixes what
   "the same state" means across the boundary. *)
From Coq Require Import ZArith List Bool Floats.
From OX Require Import Numerics.FloatBits Spaces.SpacesF.
Import ListNotations.

(* flattening used on both sides of the comparison: a state is the list of its f64 components in a fixed order *)
Fixpoint flatten (s : st) : list F :=
  match s with
  | VRV l => l
  | VSO2 v => [v]
  | VSO3 x y z w => [x; y; z; w]
  | VC l => flat_map flatten l
  end.

(* two states of the same leaf kind with the same flattened bits are the same state: comparing flattened bit
   patterns loses nothing (per problem variant the kind / layout is fixed) *)
Theorem C19_flatten_injective_rv : forall a b, flatten (VRV a) = flatten (VRV b) -> VRV a = VRV b.
Proof. intros a b H; cbn in H; subst; reflexivity. Qed.
Theorem C19_flatten_injective_so2 : forall a b, flatten (VSO2 a) = flatten (VSO2 b) -> VSO2 a = VSO2 b.
Proof. intros a b H; cbn in H; inversion H; reflexivity. Qed.
Theorem C19_flatten_injective_so3 : forall a1 a2 a3 a4 b1 b2 b3 b4,
  flatten (VSO3 a1 a2 a3 a4) = flatten (VSO3 b1 b2 b3 b4) -> VSO3 a1 a2 a3 a4 = VSO3 b1 b2 b3 b4.
Proof. intros; cbn in H; inversion H; reflexivity. Qed.
Theorem C19_flatten_injective_se2 : forall x y t x' y' t',
  flatten (VC [VRV [x; y]; VSO2 t]) = flatten (VC [VRV [x'; y']; VSO2 t']) -> VC [VRV [x; y]; VSO2 t] = VC [VRV [x'; y']; VSO2 t'].
Proof. intros; cbn in H; inversion H; reflexivity. Qed.
Theorem C19_flatten_injective_se3 : forall x y z a b c d x' y' z' a' b' c' d',
  flatten (VC [VRV [x; y; z]; VSO3 a b c d]) = flatten (VC [VRV [x'; y'; z']; VSO3 a' b' c' d']) ->
  VC [VRV [x; y; z]; VSO3 a b c d] = VC [VRV [x'; y'; z']; VSO3 a' b' c' d'].
Proof. intros; cbn in H; inversion H; reflexivity. Qed.

Print Assumptions C19_flatten_injective_rv.
Print Assumptions C19_flatten_injective_so2.
Print Assumptions C19_flatten_injective_so3.
Print Assumptions C19_flatten_injective_se2.
Print Assumptions C19_flatten_injective_se3.
