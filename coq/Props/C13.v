(* C13 - Compound spaces compose their components by the documented law.
   The float model of a compound space (Spaces/SpacesF.v: distance / interpolate / enforce / satisfies /
   lvs / sample on [CS subs]) IS the law, folded over the component models in the order the code folds;
   that the CODE follows it is the bit-exact correspondence of every operation of
   CompoundStateSpace / SE2StateSpace / SE3StateSpace on all generated layouts, plus the direct oracle that
   recombines the real component results.  The theorems below make the law explicit and lift the metric /
   interpolation properties from the components. *)
From Coq Require Import ZArith NArith List Bool Floats Reals.
From OX Require Import Numerics.FloatBits Gen.Consts Spaces.SpacesF Spaces.SpacesR Spaces.SpacesR_RV Spaces.CompoundN.
Import ListNotations.

Section Law.
Variable acosF sinF : F -> F.
Open Scope float_scope.

(* distance = sqrt of the sum of squared weight-scaled component distances, accumulated from 0.0 in order *)
Theorem C13_distance_law_2 : forall s1 w1 s2 w2 x1 x2 y1 y2 d1 d2,
  distance acosF s1 x1 y1 = Ok d1 -> distance acosF s2 x2 y2 = Ok d2 ->
  distance acosF (CS [(s1, w1); (s2, w2)]) (VC [x1; x2]) (VC [y1; y2]) =
  Ok (PrimFloat.sqrt (zero + fsq (d1 * w1) + fsq (d2 * w2))).
Proof. intros s1 w1 s2 w2 x1 x2 y1 y2 d1 d2 H1 H2. cbn. rewrite H1, H2. reflexivity. Qed.

(* the resolution is the same weighted combination of the component resolutions *)
Theorem C13_resolution_law_2 : forall s1 w1 s2 w2,
  lvs (CS [(s1, w1); (s2, w2)]) = PrimFloat.sqrt (zero + fsq (lvs s1 * w1) + fsq (lvs s2 * w2)).
Proof. reflexivity. Qed.

(* interpolation, bounds enforcement and the bounds check act component by component *)
Theorem C13_interpolate_componentwise_2 : forall s1 w1 s2 w2 x1 x2 y1 y2 o1 o2 t r1 r2,
  interpolate acosF sinF s1 x1 y1 t o1 = Ok r1 -> interpolate acosF sinF s2 x2 y2 t o2 = Ok r2 ->
  interpolate acosF sinF (CS [(s1, w1); (s2, w2)]) (VC [x1; x2]) (VC [y1; y2]) t (VC [o1; o2]) = Ok (VC [r1; r2]).
Proof. intros. cbn. rewrite H, H0. reflexivity. Qed.

Theorem C13_enforce_componentwise_2 : forall s1 w1 s2 w2 x1 x2 r1 r2,
  enforce acosF sinF s1 x1 = Ok r1 -> enforce acosF sinF s2 x2 = Ok r2 ->
  enforce acosF sinF (CS [(s1, w1); (s2, w2)]) (VC [x1; x2]) = Ok (VC [r1; r2]).
Proof. intros. cbn. rewrite H, H0. reflexivity. Qed.

Theorem C13_satisfies_componentwise_2 : forall s1 w1 s2 w2 x1 x2 b1 b2,
  satisfies acosF s1 x1 = Ok b1 -> satisfies acosF s2 x2 = Ok b2 ->
  satisfies acosF (CS [(s1, w1); (s2, w2)]) (VC [x1; x2]) = Ok (b1 && b2).
Proof. intros s1 w1 s2 w2 x1 x2 b1 b2 H1 H2. cbn. rewrite H1. destruct b1; [rewrite H2; destruct b2; reflexivity|reflexivity]. Qed.

(* a mismatched layout is the panic the downcast unwrap() raises *)
Theorem C13_mismatched_layout_panics : forall lo hi fr x y, distance acosF (SO2 lo hi fr) (VRV x) y = Panic.
Proof. reflexivity. Qed.
End Law.

(* SE(2) / SE(3) are the compounds of their translation and rotation spaces with weights (1, w) *)
Theorem C13_se2_is_compound : forall w b0 b1 b2 sp,
  se2_new w (Some [b0; b1; b2]) = Ok sp ->
  exists r2 s2, rv_new 2 (Some [b0; b1]) = Ok r2 /\ so2_new (Some b2) = Ok s2 /\ sp = CS [(r2, one); (s2, w)].
Proof.
  intros w b0 b1 b2 sp. unfold se2_new.
  destruct (rv_new 2 (Some [b0; b1])) as [r2| |e]; try discriminate.
  destruct (so2_new (Some b2)) as [s2| |e]; try discriminate.
  intros H; inversion H; subst. exists r2, s2. repeat split.
Qed.

Theorem C13_se3_is_compound : forall w b0 b1 b2 sp,
  se3_new w (Some [b0; b1; b2]) = Ok sp ->
  exists r3, rv_new 3 (Some [b0; b1; b2]) = Ok r3 /\ sp = CS [(r3, one); (SO3 zero zero zero one PI_f default_fraction, w)].
Proof.
  intros w b0 b1 b2 sp. unfold se3_new.
  destruct (rv_new 3 (Some [b0; b1; b2])) as [r3| |e]; try discriminate.
  intros H; inversion H; subst. exists r3. split; reflexivity.
Qed.

Open Scope R_scope.
(* lifting: the weighted l2 combination of component (pseudo-)metrics is a (pseudo-)metric, and scales with them *)
Theorem C13_metric_lifts : forall w x y z,
  length w = length x -> length x = length y -> length y = length z ->
  Forall (fun wi => 0 <= wi) w -> Forall (fun v => 0 <= v) x -> Forall (fun v => 0 <= v) y -> Forall (fun v => 0 <= v) z ->
  Forall2 (fun zi xy => zi <= fst xy + snd xy) z (combine x y) ->
  cmp_dist w z <= cmp_dist w x + cmp_dist w y.
Proof. exact cmp_dist_triangle. Qed.
Theorem C13_speed_lifts : forall w d t, 0 <= t -> cmp_dist w (map (fun x => t * x) d) = t * cmp_dist w d.
Proof. exact cmp_dist_scale. Qed.
Theorem C13_monotone : forall w x y, length w = length x -> length x = length y -> Forall (fun v => 0 <= v) x ->
  Forall2 (fun xi yi => xi <= yi) x y -> cmp_dist w x <= cmp_dist w y.
Proof. exact cmp_dist_mono. Qed.

(* the same law for ANY number of components and any nesting (Spaces/CompoundN.v): the compound result is the
   documented fold of the component results, whatever the width *)
Theorem C13_distance_law_n : forall acosF subs xs ys ds, comp_dist acosF subs xs ys ds ->
  distance acosF (CS subs) (VC xs) (VC ys) = Ok (cs_dist_of ds (map snd subs)).
Proof. exact distance_CS_n. Qed.
Theorem C13_resolution_law_n : forall subs,
  lvs (CS subs) = cs_dist_of (map (fun sw => lvs (fst sw)) subs) (map snd subs).
Proof. exact lvs_CS_n. Qed.
Theorem C13_interpolate_componentwise_n : forall acosF sinF t subs xs ys os rs, comp_int acosF sinF t subs xs ys os rs ->
  interpolate acosF sinF (CS subs) (VC xs) (VC ys) t (VC os) = Ok (VC rs).
Proof. exact interpolate_CS_n. Qed.
Theorem C13_enforce_componentwise_n : forall acosF sinF subs xs rs, comp_enf acosF sinF subs xs rs ->
  enforce acosF sinF (CS subs) (VC xs) = Ok (VC rs).
Proof. exact enforce_CS_n. Qed.
Theorem C13_satisfies_componentwise_n : forall acosF subs xs bs, comp_sat acosF subs xs bs ->
  satisfies acosF (CS subs) (VC xs) = Ok (forallb (fun b => b) bs).
Proof. exact satisfies_CS_n. Qed.
Theorem C13_satisfies_first_false : forall acosF s w subs x xs,
  satisfies acosF s x = Ok false -> satisfies acosF (CS ((s, w) :: subs)) (VC (x :: xs)) = Ok false.
Proof. exact satisfies_CS_first_false. Qed.
Theorem C13_sample_componentwise_n : forall acosF fuel subs us xs rest, comp_smp acosF fuel subs us xs rest ->
  sample acosF fuel (CS subs) us = (Some (Ok (VC xs)), rest).
Proof. exact sample_CS_n. Qed.

Print Assumptions C13_sample_componentwise_n.
Print Assumptions C13_distance_law_n.
Print Assumptions C13_resolution_law_n.
Print Assumptions C13_interpolate_componentwise_n.
Print Assumptions C13_enforce_componentwise_n.
Print Assumptions C13_satisfies_componentwise_n.
Print Assumptions C13_satisfies_first_false.
Print Assumptions C13_distance_law_2.
Print Assumptions C13_resolution_law_2.
Print Assumptions C13_interpolate_componentwise_2.
Print Assumptions C13_enforce_componentwise_2.
Print Assumptions C13_satisfies_componentwise_2.
Print Assumptions C13_se2_is_compound.
Print Assumptions C13_se3_is_compound.
Print Assumptions C13_metric_lifts.
