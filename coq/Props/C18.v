(* C18 - PRM roadmap is a faithful graph and queries are complete on it. *)
From Coq Require Import ZArith NArith List Bool Floats.
From OX Require Import Numerics.FloatBits Planners.Model Proofs.ValidInv Proofs.TreeInv Proofs.PrmInv Proofs.ApiStruct Proofs.PrmComplete Proofs.PrmMinimal.
Import ListNotations.

Section C18.
Context {S V P : Type}.
Variable dist : S -> S -> F.
Variable interp : S -> S -> F -> S.
Variable lvs : F.
Variable valid : V -> S -> bool.
Variable goal : P -> S -> bool.
Variable starts : P -> list S.
Variable usample : gen -> N -> option S * N.
Variable radius : F.

Notation prm_step := (prm_step dist interp lvs valid goal starts usample radius).
Notation plink := (plink dist interp lvs valid radius).

(* RmInv v rm: every adjacency list is duplicate-free; every listed neighbour j of i is in range,
   j <> i, lists i back (symmetry), and the newer of the two milestones is closer than the radius to
   the older one with a motion accepted by check_motion (plink newer older).
   It holds in every state reachable by any API history. *)
Theorem C18_roadmap_is_a_graph : forall seeded cs s rs,
  run prm_step (new_planner seeded) cs = (s, rs) ->
  match vc s with
  | Some v => RmInv dist interp lvs valid radius v (roadmap s)
  | None => roadmap s = []
  end.
Proof. exact (prm_roadmap_inv dist interp lvs valid goal starts usample radius). Qed.

(* the roadmap contains exactly the valid samples drawn, in order *)
Theorem C18_roadmap_holds_valid_samples : forall fuel v rm g pos rm' pos' r,
  prm_build dist interp lvs valid usample radius fuel v rm g pos = (rm', pos', r) ->
  mstates rm' = mstates rm ++ filter (valid v) (drawn usample fuel g pos).
Proof. exact (prm_build_states dist interp lvs valid usample radius). Qed.

(* repeated construction is the identity; replacing the problem changes only the problem *)
Theorem C18_construct_twice : forall (s : @pstate S V P) b p v,
  pd s = Some p -> vc s = Some v -> roadmap s <> [] -> prm_step s (CConstruct b) = (s, RUnit).
Proof. exact (construct_twice_identity dist interp lvs valid goal starts usample radius). Qed.

Theorem C18_set_problem_definition : forall (s : @pstate S V P) p,
  prm_step s (CSetPd p) = (mkPS (Some p) (vc s) (tree s) (gtree s) (roadmap s) (rng s) (spos s) (fpos s), RUnit).
Proof. exact (set_pd_only_pd dist interp lvs valid goal starts usample radius). Qed.

(* soundness of a successful query: start :: walk in the roadmap from a start connection (plink start m)
   along roadmap edges to a milestone satisfying the goal *)
Theorem C18_query_sound : forall b p v rm path,
  RmInv dist interp lvs valid radius v rm ->
  prm_query dist interp lvs valid goal starts radius b p v rm = RPath path ->
  exists s0 rest chain_,
    starts p = s0 :: rest /\ path = s0 :: chain_ /\
    chain (fun a b => plink v a b \/ plink v b a) path /\
    (exists l x, path = l ++ [x] /\ goal p x = true).
Proof. exact (prm_query_sound dist interp lvs valid goal starts radius). Qed.

(* completeness: NoSolutionFound means no start connection, no goal milestone, or no goal milestone
   graph-connected to a start connection *)
Theorem C18_query_complete : forall b p v rm s0 rest,
  starts p = s0 :: rest ->
  prm_query dist interp lvs valid goal starts radius b p v rm = RErr ENoSolution ->
  let sc := start_conns dist interp lvs valid radius v s0 rm 0 in
  let gi := goal_idxs goal p rm 0 in
  sc = [] \/ gi = [] \/ forall g, connected rm sc g -> mem_nat g gi = false.
Proof. exact (prm_query_complete dist interp lvs valid goal starts radius). Qed.

(* hop-minimality: the returned chain has no more milestones than ANY directed walk of the roadmap graph
   from a start connection to a goal milestone (BFS level invariant; the doubly seeded queue is harmless) *)
Theorem C18_query_minimal : forall b p v rm s0 rest path,
  starts p = s0 :: rest ->
  prm_query dist interp lvs valid goal starts radius b p v rm = RPath path ->
  forall (l : list nat) a g,
    hd_error l = Some a -> In a (start_conns dist interp lvs valid radius v s0 rm 0) ->
    last l a = g -> mem_nat g (goal_idxs goal p rm 0) = true ->
    gwalk rm l ->
    length path <= Datatypes.S (length l).
Proof. exact (prm_query_minimal dist interp lvs valid goal starts radius). Qed.

End C18.

Print Assumptions C18_roadmap_is_a_graph.
Print Assumptions C18_roadmap_holds_valid_samples.
Print Assumptions C18_construct_twice.
Print Assumptions C18_set_problem_definition.
Print Assumptions C18_query_sound.
Print Assumptions C18_query_complete.
Print Assumptions C18_query_minimal.
