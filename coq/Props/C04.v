(* C04 - Returned paths stay within the state-space bounds. *)
From Coq Require Import ZArith NArith List Bool Floats Reals.
From OX Require Import Numerics.FloatBits Planners.Model Proofs.BoundsInv
  Spaces.SpacesR Spaces.SpacesR_RV Spaces.SpacesR_SO2 Spaces.SpacesR_SO3 Spaces.SO3Cone.
Import ListNotations.

Section C04.
Context {S V P : Type}.
Variable dist : S -> S -> F.
Variable interp : S -> S -> F -> S.
Variable lvs : F.
Variable valid : V -> S -> bool.
Variable goal : P -> S -> bool.
Variable starts : P -> list S.
Variable u64_at : gen -> N -> N.
Variable usample : gen -> N -> option S * N.
Variable gsample : P -> gen -> N -> option S * N.
Variables maxd bias radius : F.
Variable B : S -> Prop.        (* "satisfies the bounds" *)

(* hypotheses of the property: start states, goal samples and uniform samples lie in B; B is closed under
   the steering step interpolate(a, q, max/d) (convexity of the region under the space's interpolation) *)
Definition premises : Prop :=
  (forall p s0, In s0 (starts p) -> B s0) /\
  (forall g pos q c, usample g pos = (Some q, c) -> B q) /\
  (forall p g pos q c, gsample p g pos = (Some q, c) -> B q) /\
  (forall a q, B a -> B q -> fgt (dist a q) maxd = true -> B (interp a q (maxd / dist a q)%float)).

Definition stays_in_bounds (step : @pstate S V P -> @call V P -> @pstate S V P * response S) : Prop :=
  forall seeded cs s rs c s' r,
    run step (new_planner seeded) cs = (s, rs) -> step s c = (s', r) ->
    forall path, r = RPath path -> Forall B path.

Theorem C04_rrt : premises -> stays_in_bounds (rrt_step dist interp lvs valid goal starts u64_at usample gsample maxd bias).
Proof. intros (A & B0 & C & D). exact (rrt_paths_in_bounds dist interp lvs valid goal starts u64_at usample gsample maxd bias B A B0 C D). Qed.
Theorem C04_rrtstar : premises -> stays_in_bounds (rrtstar_step dist interp lvs valid goal starts u64_at usample gsample maxd bias radius).
Proof. intros (A & B0 & C & D). exact (rrtstar_paths_in_bounds dist interp lvs valid goal starts u64_at usample gsample maxd bias radius B A B0 C D). Qed.
Theorem C04_rrtconnect : premises -> stays_in_bounds (rrtc_step dist interp lvs valid goal starts u64_at usample gsample maxd bias).
Proof. intros (A & B0 & C & D). exact (rrtc_paths_in_bounds dist interp lvs valid goal starts u64_at usample gsample maxd bias B A B0 C D). Qed.
Theorem C04_prm : premises -> stays_in_bounds (prm_step dist interp lvs valid goal starts usample radius).
Proof. intros (A & B0 & C & D). exact (prm_paths_in_bounds dist interp lvs valid goal starts usample radius B A B0). Qed.
End C04.

Open Scope R_scope.
(* which regions are closed under interpolation (real model) *)
Theorem C04_box_convex : forall bs a b t, rv_in_box bs a -> rv_in_box bs b -> 0 <= t <= 1 -> rv_in_box bs (rv_interp a b t).
Proof. exact rv_box_convex. Qed.
Theorem C04_so2_interval_convex_up_to_span_pi : forall lo hi a b t,
  - PI <= lo -> hi <= PI -> hi - lo <= PI -> so2_in lo hi a -> so2_in lo hi b -> 0 <= t <= 1 -> so2_in lo hi (so2_interp a b t).
Proof. exact so2_interval_convex. Qed.
(* ... and the two classes for which the property as stated FAILS (known findings): *)
Theorem C04_refuted_so2_span_gt_pi : exists lo hi a b t,
  - PI <= lo /\ hi <= PI /\ so2_in lo hi a /\ so2_in lo hi b /\ 0 <= t <= 1 /\ ~ so2_in lo hi (so2_interp a b t).
Proof. exact so2_span_gt_pi_not_convex. Qed.
Theorem C04_refuted_so3_cone : exists c p q t,
  qunit c /\ qunit p /\ qunit q /\ so3_dist c p <= 2 /\ so3_dist c q <= 2 /\ 0 <= t <= 1 /\ Rabs (qdot p q) < 1 /\
  ~ so3_dist c (so3_slerp p q t) <= 2.
Proof. exact so3_cone_not_convex. Qed.
(* ... while rotation cones of radius < PI/2 ARE convex under both branches of the library's interpolation
   (SLERP and normalised LERP, with its q / -q sign choice): the boundary between the two classes is exact *)
Theorem C04_so3_cone_convex_slerp : forall c p q t m,
  qunit c -> qunit p -> qunit q -> 0 <= m < PI / 2 ->
  so3_dist c p <= m -> so3_dist c q <= m -> 0 <= t <= 1 -> Rabs (qdot p q) < 1 ->
  so3_dist c (so3_slerp p q t) <= m.
Proof. exact so3_cone_convex_slerp. Qed.
Theorem C04_so3_cone_convex_nlerp : forall c p q t m,
  qunit c -> qunit p -> qunit q -> 0 <= m < PI / 2 ->
  so3_dist c p <= m -> so3_dist c q <= m -> 0 <= t <= 1 ->
  so3_dist c (so3_nlerp p q t) <= m.
Proof. exact so3_cone_convex_nlerp. Qed.

Print Assumptions C04_rrt.
Print Assumptions C04_rrtstar.
Print Assumptions C04_rrtconnect.
Print Assumptions C04_prm.
Print Assumptions C04_box_convex.
Print Assumptions C04_so2_interval_convex_up_to_span_pi.
Print Assumptions C04_refuted_so2_span_gt_pi.
Print Assumptions C04_refuted_so3_cone.
Print Assumptions C04_so3_cone_convex_slerp.
Print Assumptions C04_so3_cone_convex_nlerp.
