(* C16 - Each iteration extends from the nearest node, toward the sample, by one step. *)
From Coq Require Import ZArith NArith List Bool Floats.
From OX Require Import Numerics.FloatBits Planners.Model Proofs.IterSpec.
Import ListNotations.

Section C16.
Context {S V P : Type}.
Variable dist : S -> S -> F.
Variable interp : S -> S -> F -> S.
Variable lvs : F.
Variable valid : V -> S -> bool.
Variable goal : P -> S -> bool.
Variable u64_at : gen -> N -> N.
Variable usample : gen -> N -> option S * N.
Variable gsample : P -> gen -> N -> option S * N.
Variables maxd bias radius : F.

(* first_min t q i d: node i is at distance d from q, no node is closer (d <= every distance) and
   every EARLIER node is strictly farther (the first minimum wins) *)
Theorem C16_nearest : (forall a b, PrimFloat.is_nan (dist a b) = false) ->
  forall t q i d, nearest dist t q = Some (i, d) -> first_min dist t q i d.
Proof. exact (nearest_is_first_min dist). Qed.

(* one extension (RRT's iteration, each of RRT-Connect's two extends): at most one node is appended,
   as a child of the nearest node; it is the sample itself when within max_distance, else the
   interpolated point at parameter max/d; nothing is appended when the motion is rejected; existing
   nodes are untouched *)
Theorem C16_extend : (forall a b, PrimFloat.is_nan (dist a b) = false) ->
  forall v t q t' r,
  extend dist interp lvs valid maxd v t q = (t', r) ->
  match r with
  | ExtPanic => t = [] /\ t' = t
  | ExtNone => t' = t /\
      exists i d nn, first_min dist t q i d /\ nth_error t i = Some nn /\
        check_motion dist interp lvs valid v (st nn) (fst (steer interp maxd (st nn) q d)) = false
  | ExtAdded re idx qn =>
      exists i d nn, first_min dist t q i d /\ nth_error t i = Some nn /\
        t' = t ++ [mkNode S qn (Some i) zero] /\ idx = length t /\
        (qn, re) = steer interp maxd (st nn) q d /\ check_motion dist interp lvs valid v (st nn) qn = true
  end.
Proof. exact (extend_step_spec dist interp lvs valid maxd). Qed.

Theorem C16_steer : forall near q d,
  steer interp maxd near q d = if fgt d maxd then (interp near q (maxd / d)%float, false) else (q, true).
Proof. exact (steer_spec interp maxd). Qed.

(* goal bias: one u64 against floor(p * 2^64) *)
Theorem C16_goal_bias : forall g pos,
  random_bool u64_at g pos bias =
  if (if fle zero bias then flt bias one else false)
  then Some (N.ltb (u64_at g pos) (to_usize (bias * two64)%float), (pos + 1)%N)
  else if PrimFloat.eqb bias one then Some (true, pos) else None.
Proof. exact (goal_bias_spec u64_at bias). Qed.

(* RRT-Connect: the start tree grows first iff it is not larger than the goal tree; then exactly one
   extend of the other tree toward the new node *)
Theorem C16_rrtconnect_iteration : forall f p v ts tg g pos,
  rrtc_loop dist interp lvs valid goal u64_at usample gsample maxd bias (Datatypes.S f) p v ts tg g pos =
  match draw u64_at usample gsample bias p g pos with
  | (None, pos') => (ts, tg, pos', RPanic)
  | (Some q, pos') =>
      if Nat.leb (length ts) (length tg) then
        match extend dist interp lvs valid maxd v ts q with
        | (ts', ExtPanic) => (ts', tg, pos', RPanic)
        | (ts', ExtNone) => rrtc_loop dist interp lvs valid goal u64_at usample gsample maxd bias f p v ts' tg g pos'
        | (ts', ExtAdded _ ia qn) =>
            if goal p qn then (ts', tg, pos', resp_of_path (reconstruct ts' ia))
            else match extend dist interp lvs valid maxd v tg qn with
                 | (tg', ExtPanic) => (ts', tg', pos', RPanic)
                 | (tg', ExtAdded true ib _) => (ts', tg', pos', join_paths (reconstruct ts' ia) (reconstruct tg' ib))
                 | (tg', _) => rrtc_loop dist interp lvs valid goal u64_at usample gsample maxd bias f p v ts' tg' g pos'
                 end
        end
      else
        match extend dist interp lvs valid maxd v tg q with
        | (tg', ExtPanic) => (ts, tg', pos', RPanic)
        | (tg', ExtNone) => rrtc_loop dist interp lvs valid goal u64_at usample gsample maxd bias f p v ts tg' g pos'
        | (tg', ExtAdded _ ia qn) =>
            match extend dist interp lvs valid maxd v ts qn with
            | (ts', ExtPanic) => (ts', tg', pos', RPanic)
            | (ts', ExtAdded true ib _) => (ts', tg', pos', join_paths (reconstruct ts' ib) (reconstruct tg' ia))
            | (ts', _) => rrtc_loop dist interp lvs valid goal u64_at usample gsample maxd bias f p v ts' tg' g pos'
            end
        end
  end.
Proof. reflexivity. Qed.

End C16.

(* never the goal sampler for bias 0, always (and without a draw) for bias 1 *)
Theorem C16_bias_zero : forall (u : gen -> N -> N) g pos, random_bool u g pos zero = Some (false, (pos + 1)%N).
Proof. exact goal_bias_zero_never. Qed.
Theorem C16_bias_one : forall (u : gen -> N -> N) g pos, random_bool u g pos one = Some (true, pos).
Proof. exact goal_bias_one_always. Qed.

Print Assumptions C16_nearest.
Print Assumptions C16_extend.
Print Assumptions C16_steer.
Print Assumptions C16_goal_bias.
Print Assumptions C16_rrtconnect_iteration.
Print Assumptions C16_bias_zero.
Print Assumptions C16_bias_one.
