(* C08 - API misuse and sampler failures surface as errors, never panics or stale answers. *)
From Coq Require Import ZArith NArith List Bool Floats.
From OX Require Import Numerics.FloatBits Planners.Model Proofs.NoPanic Proofs.ApiStruct Proofs.Final Proofs.PrmInv Proofs.PrmTotal Proofs.StarNoHang Proofs.PrmNoPanic.
Import ListNotations.

Section C08.
Context {S V P : Type}.
Variable dist : S -> S -> F.
Variable interp : S -> S -> F -> S.
Variable lvs : F.
Variable valid : V -> S -> bool.
Variable goal : P -> S -> bool.
Variable starts : P -> list S.
Variable u64_at : gen -> N -> N.
Variable usample : gen -> N -> option S * N.
Variable gsample : P -> gen -> N -> option S * N.
Variables maxd bias radius : F.

Notation rrt_step := (rrt_step dist interp lvs valid goal starts u64_at usample gsample maxd bias).
Notation rrtstar_step := (rrtstar_step dist interp lvs valid goal starts u64_at usample gsample maxd bias radius).
Notation rrtc_step := (rrtc_step dist interp lvs valid goal starts u64_at usample gsample maxd bias).
Notation prm_step := (prm_step dist interp lvs valid goal starts usample radius).

(* solving before setup reports PlannerUninitialised, in ANY state without an installed problem *)
Theorem C08_rrt_uninitialised : forall (s : @pstate S V P) b, pd s = None -> rrt_step s (CSolve b) = (s, RErr EUninit).
Proof. exact (rrt_uninit dist interp lvs valid goal starts u64_at usample gsample maxd bias). Qed.
Theorem C08_rrtstar_uninitialised : forall (s : @pstate S V P) b, pd s = None -> rrtstar_step s (CSolve b) = (s, RErr EUninit).
Proof. exact (rrtstar_uninit dist interp lvs valid goal starts u64_at usample gsample maxd bias radius). Qed.
Theorem C08_rrtconnect_uninitialised : forall (s : @pstate S V P) b, pd s = None -> rrtc_step s (CSolve b) = (s, RErr EUninit).
Proof. exact (rrtc_uninit dist interp lvs valid goal starts u64_at usample gsample maxd bias). Qed.
Theorem C08_prm_uninitialised : forall (s : @pstate S V P) b, pd s = None \/ vc s = None ->
  prm_step s (CSolve b) = (s, RErr EUninit) /\ prm_step s (CConstruct b) = (s, RErr EUninit).
Proof.
  intros s b H. split.
  - exact (prm_uninit_solve dist interp lvs valid goal starts usample radius s b H).
  - exact (prm_uninit_construct dist interp lvs valid goal starts usample radius s b H).
Qed.
(* a PRM query before roadmap construction reports UnsampledStateSpace *)
Theorem C08_prm_unsampled : forall (s : @pstate S V P) b p v, pd s = Some p -> vc s = Some v -> roadmap s = [] ->
  prm_step s (CSolve b) = (s, RErr EUnsampled).
Proof. exact (prm_unsampled dist interp lvs valid goal starts usample radius). Qed.

(* well-formed inputs: samplers that never fail, goal bias in [0,1], a non-empty start list.
   Then for EVERY call history no call of RRT / RRT-Connect panics or fails to return. *)
Definition well_formed : Prop :=
  ((forall g pos, exists q c, usample g pos = (Some q, c)) /\
   (forall p g pos, exists q c, gsample p g pos = (Some q, c))) /\
  ((if fle zero bias then flt bias one else false) = true \/ PrimFloat.eqb bias one = true) /\
  (forall p, starts p <> []).

Definition returns_normally (r : response S) : Prop := r <> RPanic /\ r <> RHang.

Theorem C08_rrt_never_panics : well_formed ->
  forall seeded cs s rs, run rrt_step (new_planner seeded) cs = (s, rs) -> Forall returns_normally rs.
Proof. intros (A & B & C). exact (rrt_never_panics dist interp lvs valid goal starts u64_at usample gsample maxd bias A B C). Qed.

Theorem C08_rrtconnect_never_panics : well_formed ->
  forall seeded cs s rs, run rrtc_step (new_planner seeded) cs = (s, rs) -> Forall returns_normally rs.
Proof. intros (A & B & C). exact (rrtc_never_panics dist interp lvs valid goal starts u64_at usample gsample maxd bias A B C). Qed.

(* RRT*: no call ever panics (unwrap / index); that extraction also terminates: next theorem *)
Theorem C08_rrtstar_never_panics : well_formed ->
  forall seeded cs s rs, run rrtstar_step (new_planner seeded) cs = (s, rs) -> Forall (fun r => r <> RPanic) rs.
Proof. intros (A & B & C). exact (rrtstar_never_panics dist interp lvs valid goal starts u64_at usample gsample maxd bias radius A B C). Qed.

(* ... and no call ever fails to return: rewiring cannot close a parent cycle, so path extraction terminates -
   for every sampler behaviour (failing samplers included), given only distances that are >= 0 and not NaN *)
Theorem C08_rrtstar_never_hangs : (forall a b, fle zero (dist a b) = true) ->
  forall seeded cs s rs, run rrtstar_step (new_planner seeded) cs = (s, rs) -> Forall (fun r => r <> RHang) rs.
Proof. exact (rrtstar_never_hangs dist interp lvs valid goal starts u64_at usample gsample maxd bias radius). Qed.

(* PRM: a query on a well-formed roadmap (C18 invariant, which holds in every reachable state) always returns -
   a path or an error, never a panic (index, missing parent-map key) and never a non-terminating extraction *)
Theorem C08_prm_query_always_returns : forall b p v rm,
  RmInv dist interp lvs valid radius v rm -> starts p <> [] ->
  prm_query dist interp lvs valid goal starts radius b p v rm <> RPanic /\
  prm_query dist interp lvs valid goal starts radius b p v rm <> RHang.
Proof. exact (prm_query_total dist interp lvs valid goal starts radius). Qed.

(* ... and over whole histories: with a total uniform sampler and non-empty start lists no PRM call (setup,
   set_problem_definition, construct_roadmap, solve) ever panics or fails to return *)
Theorem C08_prm_never_panics :
  (forall g pos, exists q c, usample g pos = (Some q, c)) -> (forall p, starts p <> []) ->
  forall seeded cs s rs, run prm_step (new_planner seeded) cs = (s, rs) -> Forall returns_normally rs.
Proof. exact (prm_never_panics dist interp lvs valid goal starts usample radius). Qed.

End C08.

(* Outside [well_formed] the faithful model (and the code) panics: the three classes recorded as
   known findings.  Concrete witnesses, evaluated on the model: *)
Definition w_dist (a b : nat) : F := one.
Definition w_interp (a b : nat) (t : F) : nat := b.
Definition w_step (us : gen -> N -> option nat * N) (gs : unit -> gen -> N -> option nat * N) (st : unit -> list nat) (bias : F) :=
  rrt_step (S:=nat) (V:=unit) (P:=unit) w_dist w_interp one (fun _ _ => true) (fun _ _ => false) st
           (fun _ _ => 0%N) us gs one bias.

Theorem C08_refuted_sampler_fault :
  snd (run (w_step (fun _ _ => (None, 1%N)) (fun _ _ _ => (Some 1, 1%N)) (fun _ => [0]) zero)
           (new_planner true) [CSetup tt tt; CSolve 3]) = [RUnit; RPanic].
Proof. vm_compute. reflexivity. Qed.

Theorem C08_refuted_bias_out_of_range :
  snd (run (w_step (fun _ _ => (Some 1, 1%N)) (fun _ _ _ => (Some 1, 1%N)) (fun _ => [0]) (fbits 4609434218613702656))
           (new_planner true) [CSetup tt tt; CSolve 3]) = [RUnit; RPanic].
Proof. vm_compute. reflexivity. Qed.

Theorem C08_refuted_empty_start :
  snd (run (w_step (fun _ _ => (Some 1, 1%N)) (fun _ _ _ => (Some 1, 1%N)) (fun _ => []) zero)
           (new_planner true) [CSetup tt tt; CSolve 3]) = [RPanic; RPanic].
Proof. vm_compute. reflexivity. Qed.

Print Assumptions C08_rrt_uninitialised.
Print Assumptions C08_rrtstar_uninitialised.
Print Assumptions C08_rrtconnect_uninitialised.
Print Assumptions C08_prm_uninitialised.
Print Assumptions C08_prm_unsampled.
Print Assumptions C08_rrt_never_panics.
Print Assumptions C08_rrtconnect_never_panics.
Print Assumptions C08_rrtstar_never_panics.
Print Assumptions C08_rrtstar_never_hangs.
Print Assumptions C08_prm_query_always_returns.
Print Assumptions C08_prm_never_panics.
Print Assumptions C08_refuted_sampler_fault.
Print Assumptions C08_refuted_bias_out_of_range.
Print Assumptions C08_refuted_empty_start.
