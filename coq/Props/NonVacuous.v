(* Non-vacuity: concrete worlds on which the hypotheses of the property theorems are met and the
   planners really return paths / errors / panics (evaluated by the kernel's VM on the model). *)
From Coq Require Import ZArith NArith List Bool Floats.
From OX Require Import Numerics.FloatBits Planners.Model.
Import ListNotations.

(* a line of integer positions; distance |a-b|; "interpolation" jumps to the target; everything valid *)
Definition nv_dist (a b : Z) : F := of_Zint (Z.abs (a - b)).
Definition nv_interp (a b : Z) (t : F) : Z := if flt t (fbits 4602678819172646912) then a else b.
Definition nv_lvs : F := fbits 4636737291354636288.       (* 100.0 *)
Definition nv_valid (wall : Z) (_ : unit) (s : Z) : bool := negb (Z.eqb s wall).
Definition nv_goal (_ : unit) (s : Z) : bool := Z.eqb s 3.
Definition nv_starts (_ : unit) : list Z := [0%Z].
Definition nv_u64 (_ : gen) (_ : N) : N := 0%N.
Definition nv_us (_ : gen) (pos : N) : option Z * N := (Some (Z.of_N (pos mod 5)), 1%N).
Definition nv_gs (_ : unit) (_ : gen) (_ : N) : option Z * N := (Some 3%Z, 0%N).
Definition ten : F := fbits 4621819117588971520.
Definition half : F := fbits 4602678819172646912.

Definition nv_script : list (@call unit unit) := [CSetup tt tt; CSolve 20].

(* RRT, RRT*, RRT-Connect return a path from 0 to the goal 3; PRM builds a roadmap and answers a query *)
Example nv_rrt_returns_a_path :
  snd (run (rrt_step nv_dist nv_interp nv_lvs (nv_valid 9) nv_goal nv_starts nv_u64 nv_us nv_gs ten half) (new_planner true) nv_script)
  = [RUnit; RPath [0%Z; 3%Z]].
Proof. vm_compute. reflexivity. Qed.

Example nv_rrtstar_returns_a_path :
  snd (run (rrtstar_step nv_dist nv_interp nv_lvs (nv_valid 9) nv_goal nv_starts nv_u64 nv_us nv_gs ten half ten) (new_planner true) nv_script)
  = [RUnit; RPath [0%Z; 3%Z]].
Proof. vm_compute. reflexivity. Qed.

Example nv_rrtconnect_returns_a_path :
  snd (run (rrtc_step nv_dist nv_interp nv_lvs (nv_valid 9) nv_goal nv_starts nv_u64 nv_us nv_gs ten half) (new_planner true) nv_script)
  = [RUnit; RPath [0%Z; 3%Z]].
Proof. vm_compute. reflexivity. Qed.

Example nv_prm_returns_a_path :
  snd (run (prm_step nv_dist nv_interp nv_lvs (nv_valid 9) nv_goal nv_starts nv_us ten) (new_planner true)
           [CSetup tt tt; CConstruct 6; CSolve 50])
  = [RUnit; RUnit; RPath [0%Z; 3%Z]].
Proof. vm_compute. reflexivity. Qed.

(* a wall at the goal: no false success (C06), an invalid start is reported (C01) *)
Example nv_sealed_goal_times_out :
  snd (run (rrt_step nv_dist nv_interp nv_lvs (nv_valid 3) nv_goal nv_starts nv_u64 nv_us nv_gs ten half) (new_planner true) nv_script)
  = [RUnit; RErr ETimeout].
Proof. vm_compute. reflexivity. Qed.

Example nv_invalid_start_reported :
  snd (run (rrt_step nv_dist nv_interp nv_lvs (nv_valid 0) nv_goal nv_starts nv_u64 nv_us nv_gs ten half) (new_planner true) nv_script)
  = [RUnit; RErr EInvalidStart].
Proof. vm_compute. reflexivity. Qed.

(* the well-formedness premises of C08 are met by this world *)
Example nv_well_formed :
  ((forall g pos, exists q c, nv_us g pos = (Some q, c)) /\ (forall p g pos, exists q c, nv_gs p g pos = (Some q, c))) /\
  ((if fle zero half then flt half one else false) = true \/ PrimFloat.eqb half one = true) /\
  (forall p, nv_starts p <> []).
Proof.
  split; [split|split].
  - intros g pos. eexists _, _. reflexivity.
  - intros p g pos. eexists _, _. reflexivity.
  - left. vm_compute. reflexivity.
  - intros p; discriminate.
Qed.
