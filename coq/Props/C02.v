(* C02 - A returned path starts at the start state and ends in the goal.
   For every space, world, sampler behaviour, parameters and EVERY history of API calls. *)
From Coq Require Import ZArith NArith List Bool Floats.
From OX Require Import Numerics.FloatBits Planners.Model Proofs.ApiStruct Proofs.Final.
Import ListNotations.

Section C02.
Context {S V P : Type}.
Variable dist : S -> S -> F.
Variable interp : S -> S -> F -> S.
Variable lvs : F.
Variable valid : V -> S -> bool.
Variable goal : P -> S -> bool.
Variable starts : P -> list S.
Variable u64_at : gen -> N -> N.
Variable usample : gen -> N -> option S * N.
Variable gsample : P -> gen -> N -> option S * N.
Variables maxd bias radius : F.

(* path = s0 :: _ where s0 is the first start state of problem p (the SAME value, hence the same
   bits), and path = _ ++ [x] with goal p x *)
Definition starts_and_ends (p : P) (path : list S) : Prop :=
  (exists s0 rest tl_, starts p = s0 :: rest /\ path = s0 :: tl_) /\
  (exists l x, path = l ++ [x] /\ goal p x = true).

(* [installed cs] = the problem given by the most recent setup (or, for PRM, set_problem_definition) *)
Definition c02 (step : @pstate S V P -> @call V P -> @pstate S V P * response S)
           (installed : list (@call V P) -> option P * option V -> option P * option V) : Prop :=
  forall seeded cs s rs c s' r path,
    run step (new_planner seeded) cs = (s, rs) -> step s c = (s', r) -> r = RPath path ->
    exists p, fst (installed cs (None, None)) = Some p /\ starts_and_ends p path.

Theorem C02_rrt : c02 (rrt_step dist interp lvs valid goal starts u64_at usample gsample maxd bias) installed_tree.
Proof. exact (c02_rrt dist interp lvs valid goal starts u64_at usample gsample maxd bias). Qed.

Theorem C02_rrtstar : c02 (rrtstar_step dist interp lvs valid goal starts u64_at usample gsample maxd bias radius) installed_tree.
Proof. exact (c02_rrtstar dist interp lvs valid goal starts u64_at usample gsample maxd bias radius). Qed.

(* RRT-Connect ends at its goal-tree root = a value returned by the user's goal sampler; the goal
   predicate holds there provided the sampler only returns goal states *)
Theorem C02_rrtconnect :
  (forall p g pos x c, gsample p g pos = (Some x, c) -> goal p x = true) ->
  c02 (rrtc_step dist interp lvs valid goal starts u64_at usample gsample maxd bias) installed_tree.
Proof. intros H. exact (fun sd cs s rs c s' r path => c02_rrtconnect dist interp lvs valid goal starts u64_at usample gsample maxd bias sd cs s rs c s' r path H). Qed.

Theorem C02_prm : c02 (prm_step dist interp lvs valid goal starts usample radius) installed_prm.
Proof. exact (c02_prm dist interp lvs valid goal starts usample radius). Qed.

End C02.

Print Assumptions C02_rrt.
Print Assumptions C02_rrtstar.
Print Assumptions C02_rrtconnect.
Print Assumptions C02_prm.
