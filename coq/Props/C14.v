(* C14 - Uniform sampling is uniform.  PARTIAL.
   A distributional claim; no measure-theory library is installed, so Haar-uniformity itself is not a
   theorem here.  What is proved / checked:
   (a) the sampler as an exact function of the u64 stream (Spaces/SpacesF.v: rand 0.9.1's
       random_range map, the per-coordinate / per-component consumption order, the SO(3) ball rejection
       and cone test) - tied to the code bit-for-bit under a scripted generator by the correspondence;
   (b) the map u -> lo + u (hi - lo) is affine and strictly monotone with range [lo, hi): each coordinate /
       angle is the image of the uniform grid {k / 2^52} (theorems below, over R);
   (c) SO(3): an accepted point of the 4-ball is normalised to a unit quaternion (theorem below); that a
       rotation-invariant law on S^3 is the Haar measure is cited, not proved;
   (d) goodness-of-fit statistics on the real sampler (KS at significance 1e-9) as supporting evidence. *)
From Coq Require Import List ZArith NArith Floats.
From OX Require Import Numerics.FloatBits Spaces.SpacesF.
From Coq Require Import Reals Lra.
From OX Require Import Spaces.SpacesR Spaces.SpacesR_SO3.
Import ListNotations.
Open Scope R_scope.

Theorem C14_affine_range : forall lo hi u, lo < hi -> 0 <= u < 1 -> lo <= lo + u * (hi - lo) < hi.
Proof. intros lo hi u H [H0 H1]. split; nra. Qed.

Theorem C14_affine_strictly_monotone : forall lo hi u v, lo < hi -> u < v -> lo + u * (hi - lo) < lo + v * (hi - lo).
Proof. intros lo hi u v H Huv. nra. Qed.

(* hence #{k < 2^52 | lo + (k/2^52)(hi-lo) <= x} is determined by x alone: the law of a coordinate is the
   uniform law on the 2^52-point grid of [lo, hi) *)
Theorem C14_grid_cdf : forall lo hi (k : Z) x, lo < hi -> 
  (lo + (IZR k / 4503599627370496) * (hi - lo) <= x <-> IZR k <= (x - lo) / (hi - lo) * 4503599627370496).
Proof.
  intros lo hi k x H. assert (Hd : 0 < hi - lo) by lra. split; intros H1.
  - apply (Rmult_le_reg_r ((hi - lo) / 4503599627370496)); [apply Rdiv_lt_0_compat; lra|].
    replace ((x - lo) / (hi - lo) * 4503599627370496 * ((hi - lo) / 4503599627370496)) with (x - lo) by (field; lra).
    replace (IZR k * ((hi - lo) / 4503599627370496)) with (IZR k / 4503599627370496 * (hi - lo)) by (field; lra). lra.
  - apply (Rmult_le_compat_r ((hi - lo) / 4503599627370496)) in H1; [|apply Rlt_le, Rdiv_lt_0_compat; lra].
    replace ((x - lo) / (hi - lo) * 4503599627370496 * ((hi - lo) / 4503599627370496)) with (x - lo) in H1 by (field; lra).
    replace (IZR k * ((hi - lo) / 4503599627370496)) with (IZR k / 4503599627370496 * (hi - lo)) in H1 by (field; lra). lra.
Qed.

(* SO(3): normalising an accepted (non-zero) point gives a unit quaternion *)
Theorem C14_normalised_is_unit : forall l, 0 < qdot l l -> qunit (qscale (/ sqrt (qdot l l)) l).
Proof. exact qunit_normalize. Qed.

(* the sampler consumes the stream component by component: disjoint draws for different components *)
Theorem C14_components_use_disjoint_draws : forall acosF fuel s1 w1 s2 w2 us x1 rest1 x2 rest2,
  sample acosF fuel s1 us = (Some (Ok x1), rest1) -> sample acosF fuel s2 rest1 = (Some (Ok x2), rest2) ->
  sample acosF fuel (CS [(s1, w1); (s2, w2)]) us = (Some (Ok (VC [x1; x2])), rest2).
Proof. intros acosF fuel s1 w1 s2 w2 us x1 rest1 x2 rest2 H1 H2. cbn. rewrite H1, H2. reflexivity. Qed.

Print Assumptions C14_affine_range.
Print Assumptions C14_affine_strictly_monotone.
Print Assumptions C14_grid_cdf.
Print Assumptions C14_normalised_is_unit.
Print Assumptions C14_components_use_disjoint_draws.
