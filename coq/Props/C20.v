(* C20 - Python callbacks fail closed. *)
From Coq Require Import ZArith NArith List Bool Floats FunctionalExtensionality.
From OX Require Import Numerics.FloatBits Planners.Model Glue.GluePolicy Glue.PyGlue Proofs.ApiValid.
Import ListNotations.

(* the fallback of EVERY error branch found in the current source is `false` (re-extracted on every run) *)
Theorem C20_policy_fail_closed : py_on_err_valid = false /\ py_on_err_goal = false.
Proof. split; vm_compute; reflexivity. Qed.

(* a state counts as valid only if the callback really returned the Python bool True *)
Theorem C20_valid_only_if_true : forall r, py_is_valid r = true -> r = PyOk (PyBool true).
Proof.
  intros r. unfold py_is_valid. destruct r as [[b| | |]|]; try (replace py_on_err_valid with false by (vm_compute; reflexivity); discriminate).
  destruct b; [reflexivity|discriminate].
Qed.

Theorem C20_satisfied_only_if_true : forall r, py_is_satisfied r = true -> r = PyOk (PyBool true).
Proof.
  intros r. unfold py_is_satisfied. destruct r as [[b| | |]|]; try (replace py_on_err_goal with false by (vm_compute; reflexivity); discriminate).
  destruct b; [reflexivity|discriminate].
Qed.

(* raising / returning None / returning a non-bool is seen exactly as returning False *)
Theorem C20_failure_is_false : forall r, failed r -> py_is_valid r = false /\ py_is_satisfied r = false.
Proof.
  intros r H. destruct r as [[b| | |]|]; cbn in H; try contradiction; split; vm_compute; reflexivity.
Qed.

Section Congruence.
Context {S V P : Type}.
Variable dist : S -> S -> F.
Variable interp : S -> S -> F -> S.
Variable lvs : F.
Variable goal : P -> S -> bool.
Variable starts : P -> list S.
Variable u64_at : gen -> N -> N.
Variable usample : gen -> N -> option S * N.
Variable gsample : P -> gen -> N -> option S * N.
Variables maxd bias radius : F.

(* The planners see a callback only through the glue: two callback behaviours with the same glue answers on
   every state (in particular "raises / None / non-bool on region X" vs "returns False on X") give the same
   planner function - hence identical results for every call history. *)
Theorem C20_same_answers_same_planner : forall (c c' : V -> S -> py_result),
  (forall v s, py_is_valid (c v s) = py_is_valid (c' v s)) ->
  rrt_step dist interp lvs (fun v s => py_is_valid (c v s)) goal starts u64_at usample gsample maxd bias =
  rrt_step dist interp lvs (fun v s => py_is_valid (c' v s)) goal starts u64_at usample gsample maxd bias /\
  rrtstar_step dist interp lvs (fun v s => py_is_valid (c v s)) goal starts u64_at usample gsample maxd bias radius =
  rrtstar_step dist interp lvs (fun v s => py_is_valid (c' v s)) goal starts u64_at usample gsample maxd bias radius /\
  rrtc_step dist interp lvs (fun v s => py_is_valid (c v s)) goal starts u64_at usample gsample maxd bias =
  rrtc_step dist interp lvs (fun v s => py_is_valid (c' v s)) goal starts u64_at usample gsample maxd bias /\
  prm_step dist interp lvs (fun v s => py_is_valid (c v s)) goal starts usample radius =
  prm_step dist interp lvs (fun v s => py_is_valid (c' v s)) goal starts usample radius.
Proof.
  intros c c' H.
  assert (E : (fun v s => py_is_valid (c v s)) = (fun v s => py_is_valid (c' v s))).
  { apply functional_extensionality; intros v. apply functional_extensionality; intros s. apply H. }
  rewrite E. repeat split.
Qed.

(* a failing callback never yields a path through a state on which it failed (with C01) *)
Theorem C20_no_path_through_failure : forall (c : V -> S -> py_result) seeded cs s rs cl s' r path,
  let step := rrt_step dist interp lvs (fun v x => py_is_valid (c v x)) goal starts u64_at usample gsample maxd bias in
  run step (new_planner seeded) cs = (s, rs) -> step s cl = (s', r) -> r = RPath path ->
  exists v, vc s = Some v /\ Forall (fun x => c v x = PyOk (PyBool true)) path.
Proof.
  intros c seeded cs s rs cl s' r path step Hrun Hstep Hr.
  destruct (rrt_paths_valid dist interp lvs (fun v x => py_is_valid (c v x)) goal starts u64_at usample gsample maxd bias
              _ _ _ _ _ _ _ Hrun Hstep path Hr) as (v & Hv & Hall).
  exists v. split; [exact Hv|]. eapply Forall_impl; [|exact Hall]. intros x Hx. apply C20_valid_only_if_true. exact Hx.
Qed.
End Congruence.

Print Assumptions C20_policy_fail_closed.
Print Assumptions C20_valid_only_if_true.
Print Assumptions C20_satisfied_only_if_true.
Print Assumptions C20_failure_is_false.
Print Assumptions C20_same_answers_same_planner.
Print Assumptions C20_no_path_through_failure.
