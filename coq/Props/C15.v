(* C15 - Search trees are well-formed after every iteration (in every reachable state of every
   API history, whether the last call ended in success, timeout or an error). *)
From Coq Require Import ZArith NArith List Bool Floats.
From OX Require Import Numerics.FloatBits Planners.Model Proofs.ValidInv Proofs.TreeInv Proofs.Links Proofs.ApiValid
  Proofs.ApiStruct Proofs.StarInv Proofs.TreeFinal Proofs.StarFuel.
Import ListNotations.

Section C15.
Context {S V P : Type}.
Variable dist : S -> S -> F.
Variable interp : S -> S -> F -> S.
Variable lvs : F.
Variable valid : V -> S -> bool.
Variable goal : P -> S -> bool.
Variable starts : P -> list S.
Variable u64_at : gen -> N -> N.
Variable usample : gen -> N -> option S * N.
Variable gsample : P -> gen -> N -> option S * N.
Variables maxd bias radius : F.

Notation rrt_step := (rrt_step dist interp lvs valid goal starts u64_at usample gsample maxd bias).
Notation rrtstar_step := (rrtstar_step dist interp lvs valid goal starts u64_at usample gsample maxd bias radius).
Notation rrtc_step := (rrtc_step dist interp lvs valid goal starts u64_at usample gsample maxd bias).
Notation link_rrt := (link_rrt dist interp lvs valid maxd).
Notation link_star := (link_star dist interp lvs valid maxd radius).

(* link_rrt v a b  = check_motion v a b accepted /\ (not (dist a b > max) \/ b is the steered point)
   link_star v a b = the same, or dist < search radius (choose-parent / rewiring)
   LinkInv R t     = node 0 is the only parentless node; every other node's parent index is in range
                     and the parent -> child link satisfies R
   OrdInv t        = every parent is older than its child (hence no cycles)
   InvT            = node 0 holds the installed problem's start state; every other node is valid *)

Theorem C15_rrt : forall seeded cs s rs,
  run rrt_step (new_planner seeded) cs = (s, rs) ->
  InvT valid starts s /\
  match vc s with
  | Some v => LinkInv (link_rrt v) (tree s) /\ OrdInv (tree s)
  | None => tree s = []
  end.
Proof. exact (rrt_reachable_inv dist interp lvs valid goal starts u64_at usample gsample maxd bias). Qed.

Theorem C15_rrtconnect : forall seeded cs s rs,
  run rrtc_step (new_planner seeded) cs = (s, rs) ->
  InvT valid starts s /\
  match pd s, vc s with
  | Some p, Some v =>
      (LinkInv (link_rrt v) (tree s) /\ OrdInv (tree s)) /\
      (LinkInv (link_rrt v) (gtree s) /\ OrdInv (gtree s)) /\
      match gtree s with [] => True | g0 :: _ => exists g pos c, gsample p g pos = (Some (st g0), c) end
  | None, None => tree s = [] /\ gtree s = []
  | _, _ => False
  end.
Proof. exact (rrtc_reachable_inv dist interp lvs valid goal starts u64_at usample gsample maxd bias). Qed.

Theorem C15_rrtstar_links : forall seeded cs s rs,
  run rrtstar_step (new_planner seeded) cs = (s, rs) ->
  InvT valid starts s /\
  match vc s with
  | Some v => LinkInv (link_star v) (tree s)
  | None => tree s = []
  end.
Proof. exact (rrtstar_reachable_inv dist interp lvs valid goal starts u64_at usample gsample maxd bias radius). Qed.

(* RRT* re-parents nodes to YOUNGER nodes, so "parent older than child" is not available; acyclicity
   comes from the cost invariant, for every space whose distances are >= 0 and not NaN (C09),
   zero-length edges and equal costs included: every node has a finite parent chain to the root. *)
Theorem C15_rrtstar_acyclic : (forall a b, fle zero (dist a b) = true) ->
  forall seeded cs s rs,
  run rrtstar_step (new_planner seeded) cs = (s, rs) -> SInv dist (tree s).
Proof. exact (rrtstar_reachable_SInv dist interp lvs valid goal starts u64_at usample gsample maxd bias radius). Qed.

(* extracting a path from ANY node terminates at the root and yields a chain of checked links *)
Theorem C15_extraction_terminates_ordered : forall (t : list (node S)) i, OrdInv t -> (i < length t)%nat ->
  exists p, reconstruct t i = Some (Some p).
Proof. exact reconstruct_ord_terminates. Qed.

Theorem C15_extraction_terminates_rrtstar : forall (t : list (node S)) i, reach t i ->
  forall acc, exists fuel p, walk t fuel i acc = Some (Some p).
Proof. exact reach_walk_terminates. Qed.

(* ... and the bound |tree|+1 that the code's implicit "a chain cannot be longer than the tree" gives the
   model suffices (pigeonhole): from no node of a reachable RRT* tree does extraction hang or panic *)
Theorem C15_extraction_never_hangs_rrtstar : (forall a b, fle zero (dist a b) = true) ->
  forall seeded cs s rs i,
  run rrtstar_step (new_planner seeded) cs = (s, rs) -> (i < length (tree s))%nat ->
  exists p, reconstruct (tree s) i = Some (Some p).
Proof.
  intros Hd seeded cs s rs i Hrun Hi.
  exact (reconstruct_SInv_terminates dist (tree s) i
           (rrtstar_reachable_SInv dist interp lvs valid goal starts u64_at usample gsample maxd bias radius Hd seeded cs s rs Hrun) Hi).
Qed.

Theorem C15_extracted_path_sound : forall (R : S -> S -> Prop) (t : list (node S)) i p,
  LinkInv R t -> reconstruct t i = Some (Some p) ->
  chain R p /\
  (exists n0 rest, nth_error t 0 = Some n0 /\ p = st n0 :: rest) /\
  (exists n l, nth_error t i = Some n /\ p = l ++ [st n]).
Proof. exact reconstruct_chain. Qed.

End C15.

Print Assumptions C15_rrt.
Print Assumptions C15_rrtconnect.
Print Assumptions C15_rrtstar_links.
Print Assumptions C15_rrtstar_acyclic.
Print Assumptions C15_extraction_terminates_ordered.
Print Assumptions C15_extraction_terminates_rrtstar.
Print Assumptions C15_extraction_never_hangs_rrtstar.
Print Assumptions C15_extracted_path_sound.
