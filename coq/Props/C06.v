(* C06 - solve honours its timeout and never claims an unreachable goal (the part that is logic).
   The wall clock is an oracle: [budget] = the number of loop-top deadline checks that pass. *)
From Coq Require Import ZArith NArith List Bool Floats.
From OX Require Import Numerics.FloatBits Gen.Consts Planners.Model Proofs.TreeInv Proofs.Repro Proofs.Final Proofs.NoPanic Proofs.ApiStruct.
Import ListNotations.

Section C06.
Context {S V P : Type}.
Variable dist : S -> S -> F.
Variable interp : S -> S -> F -> S.
Variable lvs : F.
Variable valid : V -> S -> bool.
Variable goal : P -> S -> bool.
Variable starts : P -> list S.
Variable u64_at : gen -> N -> N.
Variable usample : gen -> N -> option S * N.
Variable gsample : P -> gen -> N -> option S * N.
Variables maxd bias radius : F.

(* (i) deadline state machine: when the first deadline check already fails (timeout 0) the call answers
   Timeout without sampling or touching the tree; with budget n+k it performs exactly the iterations of
   budget n and then continues: the deadline is consulted once per iteration, so an expired deadline is
   noticed after at most the iteration in flight *)
Theorem C06_timeout_zero_rrt : forall p v t g pos,
  rrt_loop dist interp lvs valid goal u64_at usample gsample maxd bias 0 p v t g pos = (t, pos, RErr ETimeout).
Proof. reflexivity. Qed.
Theorem C06_timeout_zero_rrtstar : forall p v t g pos,
  rrtstar_loop dist interp lvs valid goal u64_at usample gsample maxd bias radius 0 p v t g pos = (t, pos, RErr ETimeout).
Proof. reflexivity. Qed.
Theorem C06_timeout_zero_rrtconnect : forall p v ts tg g pos,
  rrtc_loop dist interp lvs valid goal u64_at usample gsample maxd bias 0 p v ts tg g pos = (ts, tg, pos, RErr ETimeout).
Proof. reflexivity. Qed.
Theorem C06_build_time_zero_prm : forall v rm g pos,
  prm_build dist interp lvs valid usample radius 0 v rm g pos = (rm, pos, RUnit).
Proof. reflexivity. Qed.

Theorem C06_one_check_per_iteration_rrt : forall n k p v t g pos t' pos',
  rrt_loop dist interp lvs valid goal u64_at usample gsample maxd bias n p v t g pos = (t', pos', RErr ETimeout) ->
  rrt_loop dist interp lvs valid goal u64_at usample gsample maxd bias (n + k) p v t g pos =
  rrt_loop dist interp lvs valid goal u64_at usample gsample maxd bias k p v t' g pos'.
Proof. exact (rrt_loop_prefix dist interp lvs valid goal u64_at usample gsample maxd bias). Qed.

(* (ii) no false success: whatever the world - sealed goal, sealed start, invalid goal region - a path is
   only ever returned if it is sound: so when no sound path exists the answer is an error *)
Definition sound_path (v : V) (p : P) (path : list S) : Prop :=
  (exists s0 rest tl_, starts p = s0 :: rest /\ path = s0 :: tl_) /\
  (exists l x, path = l ++ [x] /\ goal p x = true) /\
  chain (fun a b => check_motion dist interp lvs valid v a b = true \/ check_motion dist interp lvs valid v b a = true) path.

Theorem C06_no_false_success_rrt : forall seeded cs s rs c s' r,
  run (rrt_step dist interp lvs valid goal starts u64_at usample gsample maxd bias) (new_planner seeded) cs = (s, rs) ->
  rrt_step dist interp lvs valid goal starts u64_at usample gsample maxd bias s c = (s', r) ->
  (forall v p path, vc s = Some v -> pd s = Some p -> ~ sound_path v p path) ->
  forall path, r <> RPath path.
Proof.
  intros sd cs s rs c s' r Hrun Hstep Hnone path Hr.
  destruct (rrt_paths_sound dist interp lvs valid goal starts u64_at usample gsample maxd bias _ _ _ _ _ _ _ Hrun Hstep path Hr)
    as (p & v & s0 & rest & Ep & Ev & Es & (tl_ & Hhd) & Hlast & Hc).
  apply (Hnone v p path Ev Ep). split; [exists s0, rest, tl_; split; assumption|]. split; [exact Hlast|].
  eapply chain_impl; [|exact Hc]. intros a b [H _]; left; exact H.
Qed.

(* (iii) each iteration is finite when the resolution is positive: the number of validity queries of one
   motion check is num_steps, a finite usize; path extraction terminates (C15).  With the resolution
   fraction set to 0 the length lvs is 0, d/(0*factor) = +inf, `as usize` saturates: ONE motion check needs
   2^64-1 validity queries - the call practically never returns (known finding, reproduced on the code) *)
End C06.

Theorem C06_refuted_zero_resolution :
  num_steps (S:=nat) (fun _ _ => one) zero 0 1 = usize_max.
Proof. vm_compute. reflexivity. Qed.

Print Assumptions C06_timeout_zero_rrt.
Print Assumptions C06_timeout_zero_rrtstar.
Print Assumptions C06_timeout_zero_rrtconnect.
Print Assumptions C06_build_time_zero_prm.
Print Assumptions C06_one_check_per_iteration_rrt.
Print Assumptions C06_no_false_success_rrt.
Print Assumptions C06_refuted_zero_resolution.
