(* C06 - solve honours its timeout and never claims an unreachable goal (the part that is logic).
   The wall clock is an oracle: [budget] = the number of loop-top deadline checks that pass. *)
From Coq Require Import ZArith NArith List Bool Floats.
From OX Require Import Numerics.FloatBits Gen.Consts Planners.Model Proofs.TreeInv Proofs.Repro Proofs.Final Proofs.NoPanic Proofs.ApiStruct Proofs.NoFalse.
Import ListNotations.

Section C06.
Context {S V P : Type}.
Variable dist : S -> S -> F.
Variable interp : S -> S -> F -> S.
Variable lvs : F.
Variable valid : V -> S -> bool.
Variable goal : P -> S -> bool.
Variable starts : P -> list S.
Variable u64_at : gen -> N -> N.
Variable usample : gen -> N -> option S * N.
Variable gsample : P -> gen -> N -> option S * N.
Variables maxd bias radius : F.

(* (i) deadline state machine: when the first deadline check already fails (timeout 0) the call answers
   Timeout without sampling or touching the tree; with budget n+k it performs exactly the iterations of
   budget n and then continues: the deadline is consulted once per iteration, so an expired deadline is
   noticed after at most the iteration in flight *)
Theorem C06_timeout_zero_rrt : forall p v t g pos,
  rrt_loop dist interp lvs valid goal u64_at usample gsample maxd bias 0 p v t g pos = (t, pos, RErr ETimeout).
Proof. reflexivity. Qed.
Theorem C06_timeout_zero_rrtstar : forall p v t g pos,
  rrtstar_loop dist interp lvs valid goal u64_at usample gsample maxd bias radius 0 p v t g pos = (t, pos, RErr ETimeout).
Proof. reflexivity. Qed.
Theorem C06_timeout_zero_rrtconnect : forall p v ts tg g pos,
  rrtc_loop dist interp lvs valid goal u64_at usample gsample maxd bias 0 p v ts tg g pos = (ts, tg, pos, RErr ETimeout).
Proof. reflexivity. Qed.
Theorem C06_build_time_zero_prm : forall v rm g pos,
  prm_build dist interp lvs valid usample radius 0 v rm g pos = (rm, pos, RUnit).
Proof. reflexivity. Qed.

Theorem C06_one_check_per_iteration_rrt : forall n k p v t g pos t' pos',
  rrt_loop dist interp lvs valid goal u64_at usample gsample maxd bias n p v t g pos = (t', pos', RErr ETimeout) ->
  rrt_loop dist interp lvs valid goal u64_at usample gsample maxd bias (n + k) p v t g pos =
  rrt_loop dist interp lvs valid goal u64_at usample gsample maxd bias k p v t' g pos'.
Proof. exact (rrt_loop_prefix dist interp lvs valid goal u64_at usample gsample maxd bias). Qed.

Theorem C06_one_check_per_iteration_rrtstar : forall n k p v t g pos t' pos',
  rrtstar_loop dist interp lvs valid goal u64_at usample gsample maxd bias radius n p v t g pos = (t', pos', RErr ETimeout) ->
  rrtstar_loop dist interp lvs valid goal u64_at usample gsample maxd bias radius (n + k) p v t g pos =
  rrtstar_loop dist interp lvs valid goal u64_at usample gsample maxd bias radius k p v t' g pos'.
Proof. exact (rrtstar_loop_prefix dist interp lvs valid goal u64_at usample gsample maxd bias radius). Qed.

Theorem C06_one_check_per_iteration_rrtconnect : forall n k p v ts tg g pos ts' tg' pos',
  rrtc_loop dist interp lvs valid goal u64_at usample gsample maxd bias n p v ts tg g pos = (ts', tg', pos', RErr ETimeout) ->
  rrtc_loop dist interp lvs valid goal u64_at usample gsample maxd bias (n + k) p v ts tg g pos =
  rrtc_loop dist interp lvs valid goal u64_at usample gsample maxd bias k p v ts' tg' g pos'.
Proof. exact (rrtc_loop_prefix dist interp lvs valid goal u64_at usample gsample maxd bias). Qed.

Theorem C06_one_check_per_iteration_prm_build : forall n k v rm g pos rm' pos',
  prm_build dist interp lvs valid usample radius n v rm g pos = (rm', pos', RUnit) ->
  prm_build dist interp lvs valid usample radius (n + k) v rm g pos =
  prm_build dist interp lvs valid usample radius k v rm' g pos'.
Proof. exact (prm_build_prefix dist interp lvs valid usample radius). Qed.

(* (ii) no false success: whatever the world - sealed goal, sealed start, invalid goal region - a path is
   only ever returned if it is sound (NoFalse.sound_path: head = first start, last state in the goal
   region, every segment accepted by a motion check): so when no sound path exists the answer is an
   error, for every API history, sampler behaviour and iteration budget *)
Theorem C06_no_false_success_rrt :
  no_false_success dist interp lvs valid goal starts (rrt_step dist interp lvs valid goal starts u64_at usample gsample maxd bias).
Proof. exact (no_false_success_rrt dist interp lvs valid goal starts u64_at usample gsample maxd bias). Qed.

Theorem C06_no_false_success_rrtstar :
  no_false_success dist interp lvs valid goal starts (rrtstar_step dist interp lvs valid goal starts u64_at usample gsample maxd bias radius).
Proof. exact (no_false_success_rrtstar dist interp lvs valid goal starts u64_at usample gsample maxd bias radius). Qed.

Theorem C06_no_false_success_rrtconnect :
  goal_sampler_sound goal gsample ->
  no_false_success dist interp lvs valid goal starts (rrtc_step dist interp lvs valid goal starts u64_at usample gsample maxd bias).
Proof. exact (no_false_success_rrtconnect dist interp lvs valid goal starts u64_at usample gsample maxd bias). Qed.

Theorem C06_no_false_success_prm :
  no_false_success dist interp lvs valid goal starts (prm_step dist interp lvs valid goal starts usample radius).
Proof. exact (no_false_success_prm dist interp lvs valid goal starts usample radius). Qed.

(* (iii) each iteration is finite when the resolution is positive: the number of validity queries of one
   motion check is num_steps, a finite usize; path extraction terminates (C15).  With the resolution
   fraction set to 0 the length lvs is 0, d/(0*factor) = +inf, `as usize` saturates: ONE motion check needs
   2^64-1 validity queries - the call practically never returns (known finding, reproduced on the code) *)
End C06.

Theorem C06_refuted_zero_resolution :
  num_steps (S:=nat) (fun _ _ => one) zero 0 1 = usize_max.
Proof. vm_compute. reflexivity. Qed.

Print Assumptions C06_timeout_zero_rrt.
Print Assumptions C06_timeout_zero_rrtstar.
Print Assumptions C06_timeout_zero_rrtconnect.
Print Assumptions C06_build_time_zero_prm.
Print Assumptions C06_one_check_per_iteration_rrt.
Print Assumptions C06_one_check_per_iteration_rrtstar.
Print Assumptions C06_one_check_per_iteration_rrtconnect.
Print Assumptions C06_one_check_per_iteration_prm_build.
Print Assumptions C06_no_false_success_rrt.
Print Assumptions C06_no_false_success_rrtstar.
Print Assumptions C06_no_false_success_rrtconnect.
Print Assumptions C06_no_false_success_prm.
Print Assumptions C06_refuted_zero_resolution.
