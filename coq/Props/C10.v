(* C10 - Interpolation traces the shortest path at constant speed (real-number model). *)
From Coq Require Import Reals List.
From OX Require Import Spaces.SpacesR Spaces.SpacesR_RV Spaces.SpacesR_SO2 Spaces.SpacesR_SO3.
Import ListNotations.
Open Scope R_scope.

(* R^n *)
Theorem C10_rv_at_0 : forall a b, length a = length b -> rv_interp a b 0 = a. Proof. exact rv_interp_0. Qed.
Theorem C10_rv_at_1 : forall a b, length a = length b -> rv_interp a b 1 = b. Proof. exact rv_interp_1. Qed.
Theorem C10_rv_from : forall a b t, length a = length b -> 0 <= t -> rv_dist a (rv_interp a b t) = t * rv_dist a b.
Proof. exact rv_interp_dist_from. Qed.
Theorem C10_rv_to : forall a b t, length a = length b -> t <= 1 -> rv_dist (rv_interp a b t) b = (1 - t) * rv_dist a b.
Proof. exact rv_interp_dist_to. Qed.
Theorem C10_rv_reverse : forall a b t, length a = length b -> rv_interp b a (1 - t) = rv_interp a b t.
Proof. exact rv_interp_reverse. Qed.

(* SO(2): including seam crossings, non-canonical inputs and the antipodal tie *)
Theorem C10_so2_canonical : forall a b t, - PI <= so2_interp a b t < PI. Proof. exact so2_interp_range. Qed.
Theorem C10_so2_at_0 : forall a b, so2_interp a b 0 = wrap a. Proof. exact so2_interp_0. Qed.
Theorem C10_so2_at_1 : forall a b, so2_dist (so2_interp a b 1) b = 0. Proof. exact so2_interp_1. Qed.
Theorem C10_so2_from : forall a b t, 0 <= t <= 1 -> so2_dist a (so2_interp a b t) = t * so2_dist a b.
Proof. exact so2_interp_dist_from. Qed.
Theorem C10_so2_to : forall a b t, 0 <= t <= 1 -> so2_dist (so2_interp a b t) b = (1 - t) * so2_dist a b.
Proof. exact so2_interp_dist_to. Qed.
Theorem C10_so2_reverse : forall a b t, 0 <= t <= 1 -> so2_dist a b < PI ->
  so2_dist (so2_interp b a (1 - t)) (so2_interp a b t) = 0.
Proof. exact so2_interp_reverse. Qed.

(* SO(3): SLERP branch (dot <= threshold), unit quaternions, not parallel *)
Theorem C10_so3_slerp_unit : forall p q t, qunit p -> qunit q -> Rabs (qdot p q) < 1 -> qunit (so3_slerp p q t).
Proof. exact so3_slerp_unit. Qed.
Theorem C10_so3_slerp_at_0 : forall p q, qunit p -> qunit q -> Rabs (qdot p q) < 1 -> so3_slerp p q 0 = p.
Proof. exact so3_slerp_0. Qed.
Theorem C10_so3_slerp_at_1 : forall p q, qunit p -> qunit q -> Rabs (qdot p q) < 1 -> so3_slerp p q 1 = qscale (so3_sign p q) q.
Proof. exact so3_slerp_1. Qed.
Theorem C10_so3_slerp_from : forall p q t, qunit p -> qunit q -> Rabs (qdot p q) < 1 -> 0 <= t <= 1 ->
  so3_dist p (so3_slerp p q t) = t * so3_dist p q.
Proof. exact so3_slerp_dist_from. Qed.
(* normalised-LERP branch (dot > threshold): unit result with exact end points; its speed deviates from
   constant by at most 1.1e-6 in arc length - a sampled bound (so3_lerp_speed_partial), not a theorem *)
Theorem C10_so3_nlerp_unit : forall p q t, qunit p -> qunit q -> 0 <= t <= 1 -> 0 < qdot p q * so3_sign p q -> qunit (so3_nlerp p q t).
Proof. exact so3_nlerp_unit. Qed.
Theorem C10_so3_nlerp_at_0 : forall p q, qunit p -> qunit q -> so3_nlerp p q 0 = p. Proof. exact so3_nlerp_0. Qed.
Theorem C10_so3_nlerp_at_1 : forall p q, qunit p -> qunit q -> so3_nlerp p q 1 = qscale (so3_sign p q) q. Proof. exact so3_nlerp_1. Qed.

(* compounds: if every component distance scales by t, so does the compound distance *)
Theorem C10_compound_scales : forall w d t, 0 <= t -> cmp_dist w (map (fun x => t * x) d) = t * cmp_dist w d.
Proof. exact cmp_dist_scale. Qed.

Print Assumptions C10_rv_from.
Print Assumptions C10_so2_from.
Print Assumptions C10_so3_slerp_from.
Print Assumptions C10_so3_nlerp_unit.
Print Assumptions C10_compound_scales.
