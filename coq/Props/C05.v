(* C05 - Consecutive path states are no farther apart than the configured step. *)
From Coq Require Import ZArith NArith List Bool Floats Reals Lra.
From OX Require Import Numerics.FloatBits Planners.Model Proofs.TreeInv Proofs.Final
  Spaces.SpacesR Spaces.SpacesR_RV Spaces.SpacesR_SO2 Spaces.SpacesR_SO3.
Import ListNotations.

Section C05.
Context {S V P : Type}.
Variable dist : S -> S -> F.
Variable interp : S -> S -> F -> S.
Variable lvs : F.
Variable valid : V -> S -> bool.
Variable goal : P -> S -> bool.
Variable starts : P -> list S.
Variable u64_at : gen -> N -> N.
Variable usample : gen -> N -> option S * N.
Variable gsample : P -> gen -> N -> option S * N.
Variables maxd bias radius : F.

(* exact float-level facts, straight from the branch conditions of the code *)
Definition short (a b : S) : Prop := fgt (dist a b) maxd = false.             (* not (d > max_distance) *)
Definition steered (a b : S) : Prop :=                                        (* b = the steered point toward some q *)
  exists q, fgt (dist a q) maxd = true /\ b = interp a q (maxd / dist a q)%float.
Definition within (a b : S) : Prop := flt (dist a b) radius = true.           (* d < radius *)
Definition either (R : S -> S -> Prop) (a b : S) : Prop := R a b \/ R b a.

Definition c05 (step : @pstate S V P -> @call V P -> @pstate S V P * response S) (R : S -> S -> Prop) : Prop :=
  forall seeded cs s rs c s' r path,
    run step (new_planner seeded) cs = (s, rs) -> step s c = (s', r) -> r = RPath path -> chain R path.

Theorem C05_rrt : c05 (rrt_step dist interp lvs valid goal starts u64_at usample gsample maxd bias)
                      (fun a b => short a b \/ steered a b).
Proof. exact (c05_rrt dist interp lvs valid goal starts u64_at usample gsample maxd bias). Qed.

Theorem C05_rrtstar : c05 (rrtstar_step dist interp lvs valid goal starts u64_at usample gsample maxd bias radius)
                          (fun a b => short a b \/ steered a b \/ within b a \/ within a b).
Proof. exact (c05_rrtstar dist interp lvs valid goal starts u64_at usample gsample maxd bias radius). Qed.

Theorem C05_rrtconnect : c05 (rrtc_step dist interp lvs valid goal starts u64_at usample gsample maxd bias)
                             (either (fun a b => short a b \/ steered a b)).
Proof. exact (c05_rrtconnect dist interp lvs valid goal starts u64_at usample gsample maxd bias). Qed.

Theorem C05_prm : c05 (prm_step dist interp lvs valid goal starts usample radius) (either within).
Proof. exact (c05_prm dist interp lvs valid goal starts usample radius). Qed.

(* with the space law "the steered point is no farther than [bound]" (bound = max(1+eps)) *)
Theorem C05_rrt_bound : forall bound,
  (forall a q, fgt (dist a q) maxd = true -> fgt (dist a (interp a q (maxd / dist a q)%float)) bound = false) ->
  (forall a b, short a b -> fgt (dist a b) bound = false) ->
  c05 (rrt_step dist interp lvs valid goal starts u64_at usample gsample maxd bias)
      (fun a b => fgt (dist a b) bound = false).
Proof. exact (c05_rrt_bound dist interp lvs valid goal starts u64_at usample gsample maxd bias). Qed.

End C05.

Open Scope R_scope.
(* the space law in the real model: steering by t = max/d along a constant-speed geodesic lands
   exactly at distance max (the float deviation is the sampled tolerance of DESIGN section 3.3) *)
Theorem C05_rv_steer_exact : forall a b m, length a = length b -> 0 < m < rv_dist a b ->
  rv_dist a (rv_interp a b (m / rv_dist a b)) = m.
Proof.
  intros a b m Hl [H0 H1]. rewrite rv_interp_dist_from; [field; lra|exact Hl|].
  apply Rlt_le. apply Rdiv_lt_0_compat; lra.
Qed.
Theorem C05_so2_steer_exact : forall a b m, 0 < m < so2_dist a b ->
  so2_dist a (so2_interp a b (m / so2_dist a b)) = m.
Proof.
  intros a b m [H0 H1]. rewrite so2_interp_dist_from; [field; lra|].
  split; [apply Rlt_le, Rdiv_lt_0_compat; lra|]. apply (Rmult_le_reg_r (so2_dist a b)); [lra|].
  unfold Rdiv. rewrite Rmult_assoc, Rinv_l by lra. lra.
Qed.
Theorem C05_so3_steer_exact : forall p q m, qunit p -> qunit q -> Rabs (qdot p q) < 1 -> 0 < m < so3_dist p q ->
  so3_dist p (so3_slerp p q (m / so3_dist p q)) = m.
Proof.
  intros p q m Hp Hq Hd [H0 H1]. rewrite so3_slerp_dist_from; try assumption; [field; lra|].
  split; [apply Rlt_le, Rdiv_lt_0_compat; lra|]. apply (Rmult_le_reg_r (so3_dist p q)); [lra|].
  unfold Rdiv. rewrite Rmult_assoc, Rinv_l by lra. lra.
Qed.

Print Assumptions C05_rrt.
Print Assumptions C05_rrtstar.
Print Assumptions C05_rrtconnect.
Print Assumptions C05_prm.
Print Assumptions C05_rrt_bound.
Print Assumptions C05_rv_steer_exact.
Print Assumptions C05_so2_steer_exact.
Print Assumptions C05_so3_steer_exact.
