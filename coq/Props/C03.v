(* C03 - Every path segment was motion-checked at the space's resolution. *)
From Coq Require Import ZArith NArith List Bool Floats Reals Lra.
From OX Require Import Numerics.FloatBits Gen.Consts Planners.Model Proofs.TreeInv Proofs.Final
  Spaces.SpacesR Spaces.SpacesR_RV Spaces.SpacesR_SO2 Spaces.SpacesR_SO3.
Import ListNotations.

Section C03.
Context {S V P : Type}.
Variable dist : S -> S -> F.
Variable interp : S -> S -> F -> S.
Variable lvs : F.
Variable valid : V -> S -> bool.
Variable goal : P -> S -> bool.
Variable starts : P -> list S.
Variable u64_at : gen -> N -> N.
Variable usample : gen -> N -> option S * N.
Variable gsample : P -> gen -> N -> option S * N.
Variables maxd bias radius : F.

Notation check_motion := (check_motion dist interp lvs valid).

(* consecutive path states (a, b): check_motion accepted a -> b or b -> a (goal-side RRT-Connect
   edges, RRT* rewired edges and PRM edges are traversed against the direction they were checked in) *)
Definition seg_checked (v : V) (a b : S) : Prop := check_motion v a b = true \/ check_motion v b a = true.

Definition c03 (step : @pstate S V P -> @call V P -> @pstate S V P * response S) : Prop :=
  forall seeded cs s rs c s' r path,
    run step (new_planner seeded) cs = (s, rs) -> step s c = (s', r) -> r = RPath path ->
    exists v, vc s = Some v /\ chain (seg_checked v) path.

Theorem C03_rrt : c03 (rrt_step dist interp lvs valid goal starts u64_at usample gsample maxd bias).
Proof. exact (c03_rrt dist interp lvs valid goal starts u64_at usample gsample maxd bias). Qed.
Theorem C03_rrtstar : c03 (rrtstar_step dist interp lvs valid goal starts u64_at usample gsample maxd bias radius).
Proof. exact (c03_rrtstar dist interp lvs valid goal starts u64_at usample gsample maxd bias radius). Qed.
Theorem C03_rrtconnect : c03 (rrtc_step dist interp lvs valid goal starts u64_at usample gsample maxd bias).
Proof. exact (c03_rrtconnect dist interp lvs valid goal starts u64_at usample gsample maxd bias). Qed.
Theorem C03_prm : c03 (prm_step dist interp lvs valid goal starts usample radius).
Proof. exact (c03_prm dist interp lvs valid goal starts usample radius). Qed.

(* an accepted motion: the checker accepted b and every interior point i/n, 1 <= i < n,
   n = (dist a b / (lvs * factor)).ceil() as usize *)
Theorem C03_accepted_motion : forall v a b, check_motion v a b = true ->
  let n := num_steps dist lvs a b in
  valid v b = true /\ forall i, (1 <= i < n)%N -> valid v (interp a b (step_param i n)) = true.
Proof. exact (c03_check_motion_unfold dist interp lvs valid). Qed.

End C03.

(* the factor(s) extracted from the four check_motion copies in /repo lie in (0, 1]: the check
   points are then at most factor * lvs <= lvs apart (re-checked against the source on every run) *)
Theorem C03_factor_ok :
  forallb (fun f => flt zero f && fle f one) motion_factors = true.
Proof. vm_compute. reflexivity. Qed.

Open Scope R_scope.
(* spacing arithmetic: n >= d / (lvs * f) steps of a segment of length d are each <= lvs long *)
Theorem C03_gap_le_resolution : forall d lvs f n : R,
  0 <= d -> 0 < lvs -> 0 < f <= 1 -> 1 <= n -> d / (lvs * f) <= n -> d / n <= lvs.
Proof.
  intros d lvs f n Hd Hl [Hf0 Hf1] Hn H.
  assert (Hlf : 0 < lvs * f) by (apply Rmult_lt_0_compat; assumption).
  assert (Hd' : d <= n * (lvs * f)).
  { apply (Rmult_le_compat_r (lvs * f)) in H; [|lra]. unfold Rdiv in H. rewrite Rmult_assoc, Rinv_l in H by lra. lra. }
  assert (Hn0 : 0 < n) by lra.
  apply (Rmult_le_reg_r n); [exact Hn0|]. unfold Rdiv. rewrite Rmult_assoc, Rinv_l by lra.
  assert (lvs * f <= lvs) by nra. nra.
Qed.

(* on the real spaces the interior points i/n are equally spaced along the segment *)
Theorem C03_rv_equal_spacing : forall a b s t, length a = length b -> s <= t ->
  rv_dist (rv_interp a b s) (rv_interp a b t) = (t - s) * rv_dist a b.
Proof. exact rv_points_spacing. Qed.
Theorem C03_so2_constant_speed : forall a b t, 0 <= t <= 1 -> so2_dist a (so2_interp a b t) = t * so2_dist a b.
Proof. exact so2_interp_dist_from. Qed.
Theorem C03_so3_constant_speed : forall p q t, qunit p -> qunit q -> Rabs (qdot p q) < 1 -> 0 <= t <= 1 ->
  so3_dist p (so3_slerp p q t) = t * so3_dist p q.
Proof. exact so3_slerp_dist_from. Qed.

Print Assumptions C03_rrt.
Print Assumptions C03_rrtstar.
Print Assumptions C03_rrtconnect.
Print Assumptions C03_prm.
Print Assumptions C03_accepted_motion.
Print Assumptions C03_factor_ok.
Print Assumptions C03_gap_le_resolution.
Print Assumptions C03_rv_equal_spacing.
Print Assumptions C03_so2_constant_speed.
Print Assumptions C03_so3_constant_speed.
