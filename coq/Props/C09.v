(* C09 - Distance is a metric on each state space.  Theorems on the real-number model of the six
   spaces (all inputs); the float implementation is tied to this model bit-exactly through
   Spaces/SpacesF.v + the correspondence check, and numerically through the sampled tolerance oracle. *)
From Coq Require Import Reals List.
From OX Require Import Spaces.SpacesR Spaces.SpacesR_RV Spaces.SpacesR_SO2 Spaces.SpacesR_SO3.
Import ListNotations.
Open Scope R_scope.

(* R^n *)
Theorem C09_rv_nonneg : forall a b, 0 <= rv_dist a b. Proof. exact rv_dist_nonneg. Qed.
Theorem C09_rv_identity : forall a, rv_dist a a = 0. Proof. exact rv_dist_refl. Qed.
Theorem C09_rv_zero_iff_equal : forall a b, length a = length b -> rv_dist a b = 0 -> a = b. Proof. exact rv_dist_zero_eq. Qed.
Theorem C09_rv_symmetric : forall a b, rv_dist a b = rv_dist b a. Proof. exact rv_dist_sym. Qed.
Theorem C09_rv_triangle : forall a b c, length a = length b -> length b = length c -> rv_dist a c <= rv_dist a b + rv_dist b c.
Proof. exact rv_dist_triangle. Qed.

(* SO(2) *)
Theorem C09_so2_nonneg : forall a b, 0 <= so2_dist a b. Proof. exact so2_dist_nonneg. Qed.
Theorem C09_so2_identity : forall a, so2_dist a a = 0. Proof. exact so2_dist_refl. Qed.
Theorem C09_so2_symmetric : forall a b, so2_dist a b = so2_dist b a. Proof. exact so2_dist_sym. Qed.
Theorem C09_so2_triangle : forall a b c, so2_dist a c <= so2_dist a b + so2_dist b c. Proof. exact so2_dist_triangle. Qed.
Theorem C09_so2_diameter : forall a b, so2_dist a b <= PI. Proof. exact so2_dist_le_PI. Qed.
Theorem C09_so2_same_for_equivalent_angles : forall a b (k : Z), so2_dist (a + 2 * PI * IZR k) b = so2_dist a b.
Proof. exact so2_dist_period. Qed.
Theorem C09_so2_zero_iff_congruent : forall a b, so2_dist a b = 0 -> exists k : Z, a = b + 2 * PI * IZR k.
Proof. exact so2_dist_zero_congr. Qed.

(* SO(3), unit quaternions *)
Theorem C09_so3_nonneg : forall p q, 0 <= so3_dist p q. Proof. exact so3_dist_nonneg. Qed.
Theorem C09_so3_identity : forall p, qunit p -> so3_dist p p = 0. Proof. exact so3_dist_refl. Qed.
Theorem C09_so3_symmetric : forall p q, so3_dist p q = so3_dist q p. Proof. exact so3_dist_sym. Qed.
Theorem C09_so3_triangle : forall p q r, qunit p -> qunit q -> qunit r -> so3_dist p r <= so3_dist p q + so3_dist q r.
Proof. exact so3_dist_triangle. Qed.
Theorem C09_so3_diameter : forall p q, so3_dist p q <= PI. Proof. exact so3_dist_le_PI. Qed.
Theorem C09_so3_q_and_minus_q : forall p q, so3_dist (qneg p) q = so3_dist p q. Proof. exact so3_dist_neg. Qed.
Theorem C09_so3_zero_iff_same_rotation : forall p q, qunit p -> qunit q -> so3_dist p q = 0 -> p = q \/ p = qneg q.
Proof. exact so3_dist_zero. Qed.

(* compound / SE(2) / SE(3): weighted l2 of component distances *)
Theorem C09_compound_nonneg : forall w d, 0 <= cmp_dist w d. Proof. exact cmp_dist_nonneg. Qed.
Theorem C09_compound_identity : forall w d, Forall (fun x => x = 0) d -> cmp_dist w d = 0. Proof. exact cmp_dist_zero. Qed.
Theorem C09_compound_triangle : forall w x y z,
  length w = length x -> length x = length y -> length y = length z ->
  Forall (fun wi => 0 <= wi) w -> Forall (fun v => 0 <= v) x -> Forall (fun v => 0 <= v) y -> Forall (fun v => 0 <= v) z ->
  Forall2 (fun zi xy => zi <= fst xy + snd xy) z (combine x y) ->
  cmp_dist w z <= cmp_dist w x + cmp_dist w y.
Proof. exact cmp_dist_triangle. Qed.

(* float level, bit-exact: d(x,y) and d(y,x) are the SAME double (or the same panic) on R^n, and symmetry lifts
   from the components to compounds of any width and nesting (Spaces/CompoundN.v) *)
From OX Require Spaces.SpacesF Spaces.SpacesFProofs Spaces.CompoundN.
Theorem C09_float_rv_symmetric : forall dim a b, SpacesF.rv_dist dim a b = SpacesF.rv_dist dim b a.
Proof. exact SpacesFProofs.rv_dist_sym. Qed.
Theorem C09_float_compound_symmetric : forall acosF subs,
  Forall (fun sw => CompoundN.dist_sym_law acosF (fst sw)) subs -> CompoundN.dist_sym_law acosF (SpacesF.CS subs).
Proof. exact CompoundN.compound_distance_symmetric. Qed.
Theorem C09_float_box_tree_symmetric : forall acosF s x y,
  CompoundN.box_tree s -> SpacesF.distance acosF s x y = SpacesF.distance acosF s y x.
Proof. intros acosF s x y Hs. exact (CompoundN.box_tree_sym acosF s Hs x y). Qed.
(* SO(3) leaves too (IEEE multiplication commutes, so the quaternion dot product is symmetric bit for bit, for any acos
   oracle): every compound tree over R^n and SO(3) leaves - SE(3) among them - has a bit-exactly symmetric distance *)
Theorem C09_float_so3_symmetric : forall acosF ax ay az aw bx by_ bz bw,
  SpacesF.so3_dist acosF ax ay az aw bx by_ bz bw = SpacesF.so3_dist acosF bx by_ bz bw ax ay az aw.
Proof. exact CompoundN.so3_dist_float_sym. Qed.
Theorem C09_float_rv_so3_tree_symmetric : forall acosF s x y,
  CompoundN.rv_so3_tree s -> SpacesF.distance acosF s x y = SpacesF.distance acosF s y x.
Proof. intros acosF s x y Hs. exact (CompoundN.rv_so3_tree_sym acosF s Hs x y). Qed.

Print Assumptions C09_float_so3_symmetric.
Print Assumptions C09_float_rv_so3_tree_symmetric.
Print Assumptions C09_float_rv_symmetric.
Print Assumptions C09_float_compound_symmetric.
Print Assumptions C09_float_box_tree_symmetric.
Print Assumptions C09_rv_triangle.
Print Assumptions C09_so2_triangle.
Print Assumptions C09_so3_triangle.
Print Assumptions C09_compound_triangle.
Print Assumptions C09_so3_zero_iff_same_rotation.
