(* Order facts about Coq's primitive floats (binary64), via Flocq. *)
From Coq Require Import ZArith Reals Floats Lra Lia Bool.
From Flocq Require Import Core IEEE754.BinarySingleNaN IEEE754.PrimFloat.

(* F, flt, fle are the definitions of Numerics/FloatBits.v (same bodies as in the original
   stand-alone development: PrimFloat.float, PrimFloat.ltb, PrimFloat.leb) *)
From OX Require Numerics.FloatBits.
Notation F := FloatBits.F.
Notation flt := FloatBits.flt.
Notation fle := FloatBits.fle.
Definition fnan (a : F) : bool := PrimFloat.is_nan a.
Definition fadd (a b : F) : F := PrimFloat.add a b.
Definition fzero : F := PrimFloat.zero.

(* ------------------------------------------------------------------ *)
(* Generic part: binary_float prec emax, embedded into R with the two  *)
(* infinities sent to +/- 2^emax.                                      *)
(* ------------------------------------------------------------------ *)
Section BOrder.

Variables prec emax : Z.
Context (prec_gt_0_ : Prec_gt_0 prec).
Context (prec_lt_emax_ : Prec_lt_emax prec emax).

Notation bf := (binary_float prec emax).
Notation emin := (SpecFloat.emin prec emax).
Notation fexp := (FLT_exp emin prec).
Notation M := (bpow radix2 emax).
Notation rnd := (round radix2 fexp ZnearestE).

Definition Bord (x : bf) : R :=
  match x with
  | B754_infinity false => M
  | B754_infinity true => (- M)%R
  | _ => B2R x
  end.

Lemma M_pos : (0 < M)%R.
Proof. apply bpow_gt_0. Qed.

Lemma B2R_bounds : forall x : bf, (- M < B2R x < M)%R.
Proof.
intros x. destruct (Rabs_def2 _ _ (abs_B2R_lt_emax prec emax x)). now split.
Qed.

Lemma Bord_finite : forall x : bf, is_finite x = true -> Bord x = B2R x.
Proof. intros [s|s| |s m e H]; try easy. Qed.

Lemma Bord_le_M : forall x : bf, (Bord x <= M)%R.
Proof.
intros x. generalize (B2R_bounds x) M_pos.
destruct x as [s|[|]| |s m e H]; simpl; intros; lra.
Qed.

Lemma generic_M : generic_format radix2 fexp M.
Proof.
apply generic_format_FLT_bpow; auto.
generalize (emin_lt_emax prec emax _ _). lia.
Qed.

Lemma generic_Bord : forall x : bf, generic_format radix2 fexp (Bord x).
Proof.
intros x.
destruct x as [s|[|]| |s m e H];
  try (apply (generic_format_B2R prec emax)).
- apply generic_format_opp, generic_M.
- apply generic_M.
Qed.

Lemma Bcompare_ord :
  forall x y : bf, is_nan x = false -> is_nan y = false ->
  Bcompare x y = Some (Rcompare (Bord x) (Bord y)).
Proof.
intros x y Nx Ny.
destruct (is_finite x) eqn:Fx; destruct (is_finite y) eqn:Fy.
- rewrite Bcompare_correct by assumption.
  now rewrite !Bord_finite.
- generalize (B2R_bounds x).
  rewrite (Bord_finite x Fx).
  destruct x as [sx|sx| |sx mx ex Hx]; try discriminate;
  destruct y as [sy|[|]| |sy my ey Hy]; try discriminate;
  intros B; unfold Bcompare; simpl B2SF; unfold SFcompare; unfold Bord;
  apply f_equal; symmetry;
  solve [ apply Rcompare_Gt; lra | apply Rcompare_Lt; lra ].
- generalize (B2R_bounds y).
  rewrite (Bord_finite y Fy).
  destruct y as [sy|sy| |sy my ey Hy]; try discriminate;
  destruct x as [sx|[|]| |sx mx ex Hx]; try discriminate;
  intros B; unfold Bcompare; simpl B2SF; unfold SFcompare; unfold Bord;
  apply f_equal; symmetry;
  solve [ apply Rcompare_Gt; lra | apply Rcompare_Lt; lra ].
- generalize M_pos; intros HM.
  destruct x as [sx|[|]| |sx mx ex Hx]; try discriminate;
  destruct y as [sy|[|]| |sy my ey Hy]; try discriminate;
  unfold Bcompare; simpl; apply f_equal; symmetry;
  solve [ apply Rcompare_Gt; lra | apply Rcompare_Lt; lra
        | apply Rcompare_Eq; lra ].
Qed.

Lemma Bltb_ord :
  forall x y : bf, is_nan x = false -> is_nan y = false ->
  Bltb x y = Rlt_bool (Bord x) (Bord y).
Proof.
intros x y Nx Ny.
generalize (Bcompare_ord x y Nx Ny).
unfold Bltb, SFltb, Bcompare.
intros ->.
case Rcompare_spec; intro H; case Rlt_bool_spec; intro H';
  try reflexivity; lra.
Qed.

Lemma Bleb_ord :
  forall x y : bf, is_nan x = false -> is_nan y = false ->
  Bleb x y = Rle_bool (Bord x) (Bord y).
Proof.
intros x y Nx Ny.
generalize (Bcompare_ord x y Nx Ny).
unfold Bleb, SFleb, Bcompare.
intros ->.
case Rcompare_spec; intro H; case Rle_bool_spec; intro H';
  try reflexivity; lra.
Qed.

Lemma Bltb_nan_l : forall x y : bf, is_nan x = true -> Bltb x y = false.
Proof. intros [s|s| |s m e H] y; try discriminate. reflexivity. Qed.

Lemma Bltb_nan_r : forall x y : bf, is_nan y = true -> Bltb x y = false.
Proof.
intros x [s|s| |s m e H]; try discriminate.
now destruct x.
Qed.

Lemma Bleb_nan_l : forall x y : bf, is_nan x = true -> Bleb x y = false.
Proof. intros [s|s| |s m e H] y; try discriminate. reflexivity. Qed.

Lemma Bleb_nan_r : forall x y : bf, is_nan y = true -> Bleb x y = false.
Proof.
intros x [s|s| |s m e H]; try discriminate.
now destruct x.
Qed.

Lemma Bltb_not_nan :
  forall x y : bf, Bltb x y = true -> is_nan x = false /\ is_nan y = false.
Proof.
intros x y H.
destruct (is_nan x) eqn:Nx. { now rewrite Bltb_nan_l in H. }
destruct (is_nan y) eqn:Ny. { now rewrite Bltb_nan_r in H. }
now split.
Qed.

Lemma Bleb_not_nan :
  forall x y : bf, Bleb x y = true -> is_nan x = false /\ is_nan y = false.
Proof.
intros x y H.
destruct (is_nan x) eqn:Nx. { now rewrite Bleb_nan_l in H. }
destruct (is_nan y) eqn:Ny. { now rewrite Bleb_nan_r in H. }
now split.
Qed.

(* Characterisations by the embedding *)
Lemma Bltb_true_iff :
  forall x y : bf,
  Bltb x y = true <->
  (is_nan x = false /\ is_nan y = false /\ (Bord x < Bord y)%R).
Proof.
intros x y. split.
- intros H. destruct (Bltb_not_nan _ _ H) as [Nx Ny].
  rewrite (Bltb_ord _ _ Nx Ny) in H.
  repeat split; try assumption.
  revert H. case Rlt_bool_spec; easy.
- intros (Nx & Ny & H). rewrite (Bltb_ord _ _ Nx Ny).
  now apply Rlt_bool_true.
Qed.

Lemma Bleb_true_iff :
  forall x y : bf,
  Bleb x y = true <->
  (is_nan x = false /\ is_nan y = false /\ (Bord x <= Bord y)%R).
Proof.
intros x y. split.
- intros H. destruct (Bleb_not_nan _ _ H) as [Nx Ny].
  rewrite (Bleb_ord _ _ Nx Ny) in H.
  repeat split; try assumption.
  revert H. case Rle_bool_spec; easy.
- intros (Nx & Ny & H). rewrite (Bleb_ord _ _ Nx Ny).
  now apply Rle_bool_true.
Qed.

(* Non-negative (non-NaN) values *)
Lemma Bnonneg_cases :
  forall x : bf, Bleb (B754_zero false) x = true ->
  x = B754_infinity false \/
  (is_finite x = true /\ (0 <= B2R x)%R /\ (Bsign x = true -> B2R x = 0%R)).
Proof.
intros [s|[|]| |[|] m e H]; try discriminate; intros _.
- right. simpl. repeat split; lra.
- now left.
- right. simpl. repeat split; try easy.
  now apply F2R_ge_0.
Qed.

Lemma Bnonneg_ord :
  forall x : bf, Bleb (B754_zero false) x = true -> (0 <= Bord x)%R.
Proof.
intros x H. apply Bleb_true_iff in H. simpl in H. tauto.
Qed.

Lemma rnd_ge_0 : forall r, (0 <= r)%R -> (0 <= rnd r)%R.
Proof.
intros r Hr. apply round_ge_generic; auto with typeclass_instances.
apply generic_format_0.
Qed.

Lemma rnd_ge_M : forall r, (M <= r)%R -> (M <= rnd r)%R.
Proof.
intros r Hr. apply round_ge_generic; auto with typeclass_instances.
apply generic_M.
Qed.

(* Main characterisation of addition on non-negative values *)
Lemma Bplus_ord :
  forall x d : bf,
  Bleb (B754_zero false) x = true -> Bleb (B754_zero false) d = true ->
  is_nan (Bplus mode_NE x d) = false /\
  Bord (Bplus mode_NE x d) = Rmin M (rnd (Bord x + Bord d)).
Proof.
intros x d Hx Hd.
generalize (Bnonneg_ord x Hx) (Bnonneg_ord d Hd) M_pos. intros Ox Od HM.
destruct (Bnonneg_cases x Hx) as [Ex|(Fx & Px & Sx)];
destruct (Bnonneg_cases d Hd) as [Ed|(Fd & Pd & Sd)].
- subst x d. split. reflexivity.
  simpl. symmetry. apply Rmin_left. apply rnd_ge_M. lra.
- subst x.
  assert (E : Bplus mode_NE (B754_infinity false) d = B754_infinity false).
  { destruct d as [s|s| |s m e H]; try discriminate; reflexivity. }
  rewrite E. split. reflexivity.
  symmetry. apply Rmin_left. apply rnd_ge_M. simpl Bord at 1. simpl in Ox. lra.
- subst d.
  assert (E : Bplus mode_NE x (B754_infinity false) = B754_infinity false).
  { destruct x as [s|s| |s m e H]; try discriminate; reflexivity. }
  rewrite E. split. reflexivity.
  symmetry. apply Rmin_left. apply rnd_ge_M. simpl Bord at 2. simpl in Od. lra.
- rewrite (Bord_finite x Fx), (Bord_finite d Fd).
  generalize (Bplus_correct prec emax _ _ mode_NE x d Fx Fd).
  simpl round_mode.
  case Rlt_bool_spec; intros Hov.
  + intros (H1 & H2 & _).
    split.
    { destruct (Bplus mode_NE x d); try discriminate; reflexivity. }
    rewrite (Bord_finite _ H2), H1.
    symmetry. apply Rmin_right.
    apply Rabs_def2 in Hov. lra.
  + intros (H1 & H2).
    unfold binary_overflow, overflow_to_inf in H1. simpl in H1.
    destruct (Bsign x) eqn:Sgx.
    * exfalso.
      rewrite (Sx eq_refl) in Hov.
      rewrite (Sd (eq_sym H2)) in Hov.
      rewrite Rplus_0_r, round_0, Rabs_R0 in Hov; auto with typeclass_instances.
      lra.
    * assert (E : Bplus mode_NE x d = B754_infinity false).
      { destruct (Bplus mode_NE x d) as [s|s| |s m e H]; try discriminate.
        simpl in H1. now inversion H1. }
      rewrite E. split. reflexivity.
      simpl. symmetry. apply Rmin_left.
      assert (0 <= rnd (B2R x + B2R d))%R by (apply rnd_ge_0; lra).
      rewrite Rabs_pos_eq in Hov; assumption.
Qed.

Lemma Bplus_nonneg_le :
  forall x d : bf,
  Bleb (B754_zero false) x = true -> Bleb (B754_zero false) d = true ->
  Bleb x (Bplus mode_NE x d) = true.
Proof.
intros x d Hx Hd.
destruct (Bplus_ord x d Hx Hd) as [N E].
apply Bleb_true_iff. repeat split; try assumption.
- apply Bleb_true_iff in Hx. tauto.
- rewrite E. apply Rmin_glb.
  + apply Bord_le_M.
  + apply round_ge_generic; auto with typeclass_instances.
    apply generic_Bord.
    generalize (Bnonneg_ord d Hd). lra.
Qed.

Lemma Bplus_nonneg_nonneg :
  forall x d : bf,
  Bleb (B754_zero false) x = true -> Bleb (B754_zero false) d = true ->
  Bleb (B754_zero false) (Bplus mode_NE x d) = true.
Proof.
intros x d Hx Hd.
destruct (Bplus_ord x d Hx Hd) as [N E].
apply Bleb_true_iff. repeat split; try assumption.
rewrite E. simpl Bord. apply Rmin_glb.
- generalize M_pos; lra.
- apply rnd_ge_0.
  generalize (Bnonneg_ord x Hx) (Bnonneg_ord d Hd). lra.
Qed.

Lemma Bplus_mono_l :
  forall x y d : bf,
  Bleb (B754_zero false) x = true -> Bleb x y = true ->
  Bleb (B754_zero false) d = true ->
  Bleb (Bplus mode_NE x d) (Bplus mode_NE y d) = true.
Proof.
intros x y d Hx Hxy Hd.
assert (Hy : Bleb (B754_zero false) y = true).
{ apply Bleb_true_iff in Hx. apply Bleb_true_iff in Hxy.
  apply Bleb_true_iff. repeat split; try tauto.
  destruct Hx as (_ & _ & Hx). destruct Hxy as (_ & _ & Hxy). lra. }
destruct (Bplus_ord x d Hx Hd) as [Nx Ex].
destruct (Bplus_ord y d Hy Hd) as [Ny Ey].
apply Bleb_true_iff. repeat split; try assumption.
rewrite Ex, Ey.
apply Rle_min_compat_l.
apply round_le; auto with typeclass_instances.
apply Bleb_true_iff in Hxy. destruct Hxy as (_ & _ & Hxy). lra.
Qed.

End BOrder.

(* ------------------------------------------------------------------ *)
(* Instantiation at binary64 / primitive floats                        *)
(* ------------------------------------------------------------------ *)

Local Instance Hprec : FLX.Prec_gt_0 prec := eq_refl _.
Local Instance Hmax : Prec_lt_emax prec emax := eq_refl _.

Definition ford (a : F) : R := Bord prec emax (Prim2B a).

Lemma flt_iff :
  forall a b, flt a b = true <->
  (fnan a = false /\ fnan b = false /\ (ford a < ford b)%R).
Proof.
intros a b. unfold flt, fnan, ford.
rewrite ltb_equiv, !is_nan_equiv.
apply Bltb_true_iff; exact _.
Qed.

Lemma fle_iff :
  forall a b, fle a b = true <->
  (fnan a = false /\ fnan b = false /\ (ford a <= ford b)%R).
Proof.
intros a b. unfold fle, fnan, ford.
rewrite leb_equiv, !is_nan_equiv.
apply Bleb_true_iff; exact _.
Qed.

Lemma flt_false_iff :
  forall a b, fnan a = false -> fnan b = false ->
  (flt a b = false <-> (ford b <= ford a)%R).
Proof.
intros a b Na Nb.
generalize (flt_iff a b). destruct (flt a b).
- intros [H _]. destruct (H eq_refl) as (_ & _ & H'). split; [easy | lra].
- intros [_ H]. split; [|easy]. intros _.
  destruct (Rle_or_lt (ford b) (ford a)) as [L|L]; [exact L|].
  now discriminate H.
Qed.

Lemma Prim2B_fzero : Prim2B fzero = B754_zero false.
Proof.
unfold fzero. rewrite zero_equiv. apply Prim2B_B2Prim.
Qed.

(* 1 *)
Lemma flt_irrefl : forall a, flt a a = false.
Proof.
intros a. destruct (flt a a) eqn:H; [|reflexivity].
apply flt_iff in H. destruct H as (_ & _ & H). lra.
Qed.

(* 2 *)
Lemma flt_trans :
  forall a b c, flt a b = true -> flt b c = true -> flt a c = true.
Proof.
intros a b c H1 H2. apply flt_iff in H1, H2. apply flt_iff.
destruct H1 as (? & ? & ?), H2 as (? & ? & ?). repeat split; try assumption. lra.
Qed.

(* 3 *)
Lemma flt_fle : forall a b, flt a b = true -> fle a b = true.
Proof.
intros a b H. apply flt_iff in H. apply fle_iff.
destruct H as (? & ? & ?). repeat split; try assumption. lra.
Qed.

(* 4 *)
Lemma fle_trans :
  forall a b c, fle a b = true -> fle b c = true -> fle a c = true.
Proof.
intros a b c H1 H2. apply fle_iff in H1, H2. apply fle_iff.
destruct H1 as (? & ? & ?), H2 as (? & ? & ?). repeat split; try assumption. lra.
Qed.

(* 5 *)
Lemma fle_flt_trans :
  forall a b c, fle a b = true -> flt b c = true -> flt a c = true.
Proof.
intros a b c H1 H2. apply fle_iff in H1. apply flt_iff in H2. apply flt_iff.
destruct H1 as (? & ? & ?), H2 as (? & ? & ?). repeat split; try assumption. lra.
Qed.

(* 6 *)
Lemma flt_fle_trans :
  forall a b c, flt a b = true -> fle b c = true -> flt a c = true.
Proof.
intros a b c H1 H2. apply flt_iff in H1. apply fle_iff in H2. apply flt_iff.
destruct H1 as (? & ? & ?), H2 as (? & ? & ?). repeat split; try assumption. lra.
Qed.

(* 7 *)
Lemma flt_not_fle : forall a b, flt a b = true -> fle b a = false.
Proof.
intros a b H. apply flt_iff in H. destruct H as (_ & _ & H).
destruct (fle b a) eqn:H'; [|reflexivity].
apply fle_iff in H'. destruct H' as (_ & _ & H'). lra.
Qed.

(* 8 *)
Lemma fle_refl : forall a, fnan a = false -> fle a a = true.
Proof.
intros a N. apply fle_iff. repeat split; try assumption. lra.
Qed.

(* 9 *)
Lemma fle_not_nan :
  forall a b, fle a b = true -> fnan a = false /\ fnan b = false.
Proof. intros a b H. apply fle_iff in H. tauto. Qed.

Lemma flt_not_nan :
  forall a b, flt a b = true -> fnan a = false /\ fnan b = false.
Proof. intros a b H. apply flt_iff in H. tauto. Qed.

(* 10 *)
Lemma fle_total :
  forall a b, fnan a = false -> fnan b = false ->
  fle a b = true \/ flt b a = true.
Proof.
intros a b Na Nb.
destruct (Rle_or_lt (ford a) (ford b)) as [H|H].
- left. apply fle_iff. now repeat split.
- right. apply flt_iff. now repeat split.
Qed.

(* 11 *)
Lemma flt_false_fle :
  forall a b, fnan a = false -> fnan b = false ->
  flt a b = false -> fle b a = true.
Proof.
intros a b Na Nb H. apply (flt_false_iff a b Na Nb) in H.
apply fle_iff. now repeat split.
Qed.

(* 12 *)
Lemma fadd_nonneg_le :
  forall x d, fle fzero x = true -> fle fzero d = true ->
  fle x (fadd x d) = true.
Proof.
intros x d. unfold fle, fadd.
rewrite !leb_equiv, add_equiv, Prim2B_fzero.
apply Bplus_nonneg_le.
Qed.

Lemma fadd_nonneg_nonneg :
  forall x d, fle fzero x = true -> fle fzero d = true ->
  fle fzero (fadd x d) = true.
Proof.
intros x d. unfold fle, fadd.
rewrite !leb_equiv, add_equiv, Prim2B_fzero.
apply Bplus_nonneg_nonneg.
Qed.

(* 13 *)
Lemma fadd_mono_l :
  forall x y d, fle fzero x = true -> fle x y = true -> fle fzero d = true ->
  fle (fadd x d) (fadd y d) = true.
Proof.
intros x y d. unfold fle, fadd.
rewrite !leb_equiv, !add_equiv, Prim2B_fzero.
apply Bplus_mono_l.
Qed.

(* 14 *)
Lemma fadd_nonneg_not_lt :
  forall x d, fle fzero x = true -> fle fzero d = true ->
  flt (fadd x d) x = false.
Proof.
intros x d Hx Hd.
generalize (fadd_nonneg_le x d Hx Hd). intros H.
destruct (flt (fadd x d) x) eqn:E; [|reflexivity].
apply flt_not_fle in E. congruence.
Qed.

Print Assumptions flt_trans.
Print Assumptions fadd_nonneg_le.
