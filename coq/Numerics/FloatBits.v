(* Executable IEEE-754 binary64 helpers on Coq's primitive floats: bit patterns, the
   Rust/std operations Coq lacks (ceil, fmod, rem_euclid, `as usize`, `usize as f64`,
   min/max/clamp).  Model only; no proofs here. *)
From Coq Require Import ZArith NArith Floats Bool.
Open Scope Z_scope.

Definition F := PrimFloat.float.

(* ---- bit patterns ------------------------------------------------------------------ *)
Definition sf_of_bits (z : Z) : spec_float :=
  let s := Z.testbit z 63 in
  let e := Z.land (Z.shiftr z 52) 2047 in
  let m := Z.land z (2^52 - 1) in
  if e =? 2047 then (if m =? 0 then S754_infinity s else S754_nan)
  else if e =? 0 then (match m with Zpos p => S754_finite s p (-1074) | _ => S754_zero s end)
  else match (m + 2^52) with Zpos p => S754_finite s p (e - 1075) | _ => S754_nan end.

Definition fbits (z : Z) : F := SF2Prim (sf_of_bits z).

Definition sign_bit (s : bool) : Z := if s then 2^63 else 0.

(* all NaNs map to the canonical quiet NaN *)
Definition bits_of_sf (x : spec_float) : Z :=
  match x with
  | S754_nan => 9221120237041090560            (* 0x7ff8000000000000 *)
  | S754_zero s => sign_bit s
  | S754_infinity s => sign_bit s + 9218868437227405312  (* 0x7ff0000000000000 *)
  | S754_finite s m e =>
      if Zpos m <? 2^52 then sign_bit s + Zpos m
      else sign_bit s + (e + 1075) * 2^52 + (Zpos m - 2^52)
  end.

Definition bits_of (f : F) : Z := bits_of_sf (Prim2SF f).

(* bitwise equality: distinguishes -0.0 from +0.0, identifies all NaNs *)
Definition feqb_bits (a b : F) : bool := bits_of a =? bits_of b.

(* ---- comparisons as Rust writes them ------------------------------------------------ *)
Definition flt (a b : F) : bool := PrimFloat.ltb a b.      (* a <  b *)
Definition fle (a b : F) : bool := PrimFloat.leb a b.      (* a <= b *)
Definition fgt (a b : F) : bool := PrimFloat.ltb b a.      (* a >  b *)
Definition fge (a b : F) : bool := PrimFloat.leb b a.      (* a >= b *)
Definition fis_nan (a : F) : bool := PrimFloat.is_nan a.
Definition fis_finite (a : F) : bool := negb (PrimFloat.is_nan a) && negb (PrimFloat.is_infinity a).

(* ---- integer conversions -------------------------------------------------------------- *)
Definition usize_max : N := 18446744073709551615%N.

(* `f as usize` on a 64-bit target: saturating, NaN -> 0 *)
Definition to_usize (f : F) : N :=
  match Prim2SF f with
  | S754_nan => 0%N
  | S754_zero _ => 0%N
  | S754_infinity s => if s then 0%N else usize_max
  | S754_finite true _ _ => 0%N
  | S754_finite false m e =>
      if 64 <? e then usize_max
      else let v := if 0 <=? e then Zpos m * 2^e else Zpos m / 2^(-e) in
           N.min (Z.to_N v) usize_max
  end.

(* `n as f64` for an unsigned integer: round to nearest even *)
Definition of_Zint (z : Z) : F := SF2Prim (binary_normalize prec emax z 0 false).
Definition of_usize (n : N) : F := of_Zint (Z.of_N n).

(* ---- ceil ------------------------------------------------------------------------------- *)
Definition fceil (f : F) : F :=
  match Prim2SF f with
  | S754_finite s m e =>
      if 0 <=? e then f
      else
        let d := 2^(-e) in
        let q := Zpos m / d in
        let r := Zpos m mod d in
        if s then (if q =? 0 then neg_zero else SF2Prim (binary_normalize prec emax (- q) 0 true))
        else of_Zint (if r =? 0 then q else q + 1)
  | _ => f
  end.

(* ---- fmod (Rust's `%` on f64) and rem_euclid --------------------------------------------- *)
Definition ffmod (x y : F) : F :=
  match Prim2SF x, Prim2SF y with
  | S754_nan, _ | _, S754_nan => nan
  | S754_infinity _, _ => nan
  | _, S754_zero _ => nan
  | S754_zero _, _ => x
  | _, S754_infinity _ => x
  | S754_finite sx mx ex, S754_finite _ my ey =>
      let e := Z.min ex ey in
      let X := Zpos mx * 2^(ex - e) in
      let Y := Zpos my * 2^(ey - e) in
      let R := X mod Y in
      if R =? 0 then (if sx then neg_zero else zero)
      else SF2Prim (binary_normalize prec emax (if sx then - R else R) e false)
  end.

Definition frem_euclid (x y : F) : F :=
  let r := ffmod x y in
  if flt r zero then (r + abs y)%float else r.

(* ---- min / max / clamp -------------------------------------------------------------------- *)
Definition fmin (a b : F) : F :=
  if fis_nan a then b else if fis_nan b then a else if flt b a then b else a.
Definition fmax (a b : F) : F :=
  if fis_nan a then b else if fis_nan b then a else if flt a b then b else a.

(* f64::clamp panics unless min <= max; None = panic *)
Definition fclamp (x lo hi : F) : option F :=
  if fle lo hi then Some (if flt x lo then lo else if fgt x hi then hi else x) else None.

Definition fsq (x : F) : F := (x * x)%float.       (* powi(2) *)
