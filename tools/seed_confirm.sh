#!/bin/sh
# Confirms a seeded change in its scratch worktree: demo fails with the change, passes without, existing suite passes with it.
# usage: seed_confirm.sh <worktree>
W=$1
cd "$W" || exit 2
export CARGO_NET_OFFLINE=true
echo "== demo WITH change"; cargo test -p oxmpl --offline --test mutation_demo 2>&1 | grep -E "^test |test result|error" | tail -8
git stash push -q -- oxmpl/src oxmpl-py/src
echo "== demo WITHOUT change"; cargo test -p oxmpl --offline --test mutation_demo 2>&1 | grep -E "^test |test result|error" | tail -8
git stash pop -q
echo "== existing suite WITH change"
mv oxmpl/tests/mutation_demo.rs /tmp/$(basename $W)_demo.rs.keep
cargo test --workspace --offline --no-fail-fast 2>&1 | grep -E "test result|FAILED|failed|panicked" | sort | uniq -c | tail -12
mv /tmp/$(basename $W)_demo.rs.keep oxmpl/tests/mutation_demo.rs
