#!/bin/sh
# Confirms a seeded change in its scratch worktree: demo fails with the change, passes without, existing suite passes with it.
# usage: seed_confirm.sh <worktree>     (no git stash: refs/stash is shared between worktrees)
W=$1
cd "$W" || exit 2
export CARGO_NET_OFFLINE=true
P=$W/MUTATION/patch.diff
echo "== worktree diff equals MUTATION/patch.diff?"
git diff -- oxmpl/src oxmpl-py/src | diff -q - "$P" && echo same
echo "== demo WITH change"; cargo test -p oxmpl --offline --test mutation_demo 2>&1 | grep -E "^test |test result|error" | tail -8
git apply -R "$P" || exit 3
echo "== demo WITHOUT change"; cargo test -p oxmpl --offline --test mutation_demo 2>&1 | grep -E "^test |test result|error" | tail -8
git apply "$P" || exit 3
echo "== existing suite WITH change"
mv oxmpl/tests/mutation_demo.rs $W/MUTATION/.demo.keep
cargo test --workspace --offline --no-fail-fast 2>&1 | grep -E "test result|FAILED|failed|panicked" | sort | uniq -c | tail -12
mv $W/MUTATION/.demo.keep oxmpl/tests/mutation_demo.rs
