#!/usr/bin/env python3
"""Regenerates the table of seeded changes at the end of DESIGN.md from seeded/*/meta.json."""
import json, glob, os, re
ROOT = os.path.dirname(os.path.dirname(os.path.abspath(__file__)))
p = os.path.join(ROOT, "DESIGN.md")
s = open(p).read()
tab = ['| seed | breaks | what the change is / what it needs to manifest | result of `./check <id>` (quick tier) with the change applied |', '|---|---|---|---|']
for d in sorted(glob.glob(os.path.join(ROOT, "seeded", "S*"))):
    m = json.load(open(os.path.join(d, "meta.json")))
    res = []
    for pid, r in m["check_results"].items():
        if r["exit"] == 0:
            res.append(f"{pid}: not detected")
            continue
        l = [x for x in r["lines"] if x.startswith("VIOLATION")]
        nf = l and l[0].endswith("no-failing-input-found")
        first = [x for x in r["lines"] if x.startswith("[check] violation")]
        cls = "implementation run crashed / did not return"
        if first:
            mm = re.match(r"\[check\] violation: (C\d\d/[^ ]+?):? ", first[0])
            if mm:
                cls = mm.group(1).rstrip(":")
            elif "correspondence" in first[0]:
                cls = "correspondence"
        res.append(f"{pid}: VIOLATION ({'correspondence broken, no-failing-input-found' if nf else 'failing input, ' + cls})")
    tab.append(f"| {os.path.basename(d)} | {m['breaks_property']} | {m['needs_to_manifest']} | {'; '.join(res)} |")
a = s.index("| seed | breaks |")
s = s[:a] + "\n".join(tab) + "\n"
open(p, "w").write(s)
print(len(tab) - 2, "rows")
