"""Per-property configuration of the check driver: Coq targets, harness stages, relevance filters."""
import os

ROOT = os.path.dirname(os.path.dirname(os.path.abspath(__file__)))

TRUSTED_BASE = [
    "Coq 8.16.1 kernel; vm_compute (model evaluation, primitive floats evaluated by the host FPU); no native_compute",
    "tools/gen_consts.py (anchored-regex extraction of constants and glue fallbacks into coq/Gen, coq/Glue)",
    "correspondence harness: harness/ (logging wrappers, interning by bit pattern, provenance of RNG draws), "
    "flat-integer case encoding + coq/Planners/Decode.v, tools/run_cases.py differ",
    "modelled, not verified: rand 0.9.1 Bernoulli/UniformFloat algorithms, StdRng (ChaCha12) as an opaque stream, "
    "libm acos/sin, Rust f64 = IEEE-754 binary64 without contraction, Instant as a monotone clock oracle",
]

DEFAULT_RULE = ("cases are deterministic functions of (VERIF_SEED, family, index, flags); a case is non-trivial when a tree/roadmap "
                "grew to >= 2 nodes with at least one rejected validity query, or some call answered with a path, an error other than "
                "Timeout, or a panic; distinct = distinct (world, parameters, script, planner) by SHA-1")

PLANNER_COQ = ["Planners/Exec.v", "Planners/Decode.v", "Props/NonVacuous.v"]

def planner_prop(props_files, finding_props, diff_fields=None, level="proof", **kw):
    d = {
        "coq_targets": PLANNER_COQ + props_files,
        "props_files": props_files,
        "finding_props": finding_props,
        "diff_fields": diff_fields,
        "level": level,
    }
    d.update(kw)
    return d

SP_HEADER = """From Coq Require Import ZArith NArith List Bool Uint63 PArray.
From OX Require Import Spaces.SpDecode.
Open Scope uint63_scope.
Open Scope array_scope.
"""

SPACE_COQ = ["Spaces/SpDecode.v"]

def space_prop(props_files, finding_props, **kw):
    d = {"coq_targets": SPACE_COQ + props_files, "props_files": props_files, "finding_props": finding_props,
         "diff_fields": None, "level": "proof",
         "rule": ("cases = operations of the six real spaces on a structured lattice of special values (0, +-pi, +-pi+-ulp, k pi/2, "
                  "non-canonical angles, antipodal / near-identical / threshold quaternions, large magnitudes, inexact decimals) plus "
                  "random inputs, deterministic in (VERIF_SEED, family, index); non-trivial = non-zero distance, t != 0, or any "
                  "bounds / constructor / sampling case; distinct by SHA-1 of the encoded case")}
    d.update(kw)
    return d

PROPS = {
    "C01": planner_prop(["Props/C01.v"], ["C01"]),
    "C02": planner_prop(["Props/C02.v"], ["C02"]),
    "C03": planner_prop(["Props/C03.v"], ["C03"]),
    "C05": planner_prop(["Props/C05.v"], ["C05"]),
    "C07": planner_prop(["Props/C07.v"], ["C07"]),
    "C08": planner_prop(["Props/C08.v"], ["C08"]),
    "C06": planner_prop(["Props/C06.v"], ["C06", "C01", "C02", "C03"],
                        explanation="level is 'proof' for the deadline state machine, no-false-success and the finite-iteration argument on the model; "
                                    "the wall-clock part is measured exploration (stage 'timing': real timeouts 0..100 ms, feasible and sealed-goal worlds, "
                                    "no iteration budget) and labelled partial: the model cannot exhibit scheduler delays or the cost of user callbacks"),
    "C18": planner_prop(["Props/C18.v"], ["C18"]),
    "C04": planner_prop(["Props/C04.v"], ["C04"]),
    "C09": space_prop(["Props/C09.v"], ["C09"]),
    "C10": space_prop(["Props/C10.v"], ["C10"]),
    "C11": space_prop(["Props/C11.v"], ["C11"]),
    "C12": space_prop(["Props/C12.v"], ["C12"]),
    "C13": space_prop(["Props/C13.v"], ["C13"]),
    "C14": space_prop(["Props/C14.v"], ["C14", "C11"]),
    "C19": planner_prop(["Props/C19.v", "Spaces/SpDecode.v"], ["C19"], level="translation_validation",
                        explanation="programs = Python-API scenarios executed on both sides; disagreements_checked = scenarios compared"),
    "C20": planner_prop(["Props/C20.v"], ["C20", "C19"]),
    "C15": planner_prop(["Props/C15.v"], ["C15"]),
    "C16": planner_prop(["Props/C16.v"], ["C16"]),
    "C17": planner_prop(["Props/C17.v"], ["C17"]),
}

FAMS_QUICK = "table:600,rv:24,so2:12,so3:12,se2:12,se3:10,css:10"
FAMS_THOROUGH = "table:8000,rv:300,so2:150,so3:150,se2:150,se3:120,css:120"

SPACE_STAGES = {
    "C03": [("interp:spacing", ["interp"], False, False), ("compound:resolution", ["compound"], False, False)],
    "C05": [("interp:steer", ["interp"], False, False)],
    "C06": [("compound:resolution", ["compound"], False, False)],
    "C15": [("interp:steer", ["interp"], False, False)],
    "C16": [("interp:steer", ["interp"], False, False)],
    "C18": [("metric:radius-test", ["metric"], False, False), ("compound:resolution", ["compound"], False, False)],
    "C04": [("interp:convexity", ["interp"], False, False)],
    "C09": [("metric", ["metric"], True, False), ("metric:malformed", ["metric"], False, True)],
    "C10": [("interp", ["interp"], True, False), ("interp:malformed", ["interp"], False, True)],
    "C11": [("bounds+sampling", ["bounds", "sampling"], False, False)],
    "C12": [("constructors", ["ctor"], False, False)],
    "C13": [("compound", ["compound"], False, False), ("compound:malformed", ["compound"], False, True)],
    "C14": [("sampling+gof", ["sampling", "gof"], False, False)],
}

def stages(pid, tier, seed, replay):
    """list of harness invocations for this property"""
    if replay:
        import json
        d = json.load(open(replay))
        cid = d.get("id")
        if cid:
            return [{"name": "replay", "kind": "planners", "args": ["--case", cid]}]
    st = []
    corpus = os.path.join(ROOT, "corpus", f"{pid}.txt")
    common = os.path.join(ROOT, "corpus", "planners.txt")
    for f in (corpus, common):
        if os.path.exists(f):
            cst = {"name": "corpus:" + os.path.basename(f), "kind": "planners", "args": ["--cases-file", f]}
            if pid in ("C19", "C20") and f == corpus:
                cst["py"] = "planners" if pid == "C19" else "faults"
                cst["args"] += ["--threads", "8"] + (["--faults"] if pid == "C20" else [])
            st.append(cst)
    if pid in SPACE_STAGES:
        for name, fams_, ref, malformed in SPACE_STAGES[pid]:
            count = (500 if tier == "quick" else 6000) // (3 if malformed else 1)
            args = ["--seed", str(seed), "--families", ",".join(fams_), "--count", str(count)]
            if malformed:
                args.append("--malformed")
            if tier != "quick":
                args += ["--gof-n", "200000"]
            st.append({"name": name, "kind": "spaces", "args": args, "header": SP_HEADER, "fn": "check_space_array", "ref": ref})
    if pid in ("C19", "C20"):
        n = 14 if tier == "quick" else 60
        # SO(2) worlds are solved in two or three states: many more of them are needed for a path to contain a raw
        # uniform sample (and they cost next to nothing)
        pyf = ",".join(f"py-{v}:{n * (20 if v == 'so2' and pid == 'C19' else 1)}" for v in ("rv", "so2", "so3", "se2", "se3", "css"))
        if pid == "C19":
            st.append({"name": "python-vs-core:planners", "kind": "planners", "py": "planners",
                       "args": ["--seed", str(seed), "--families", pyf, "--threads", "8"]})
            st.append({"name": "python-vs-core:wrappers", "kind": "spaces", "py": "wrappers", "header": SP_HEADER, "fn": "check_space_array",
                       "args": ["--seed", str(seed), "--families", "ctor,metric", "--count", "300" if tier == "quick" else "3000"]})
        else:
            st.append({"name": "python-faults", "kind": "planners", "py": "faults",
                       "args": ["--seed", str(seed), "--families", pyf, "--threads", "8", "--faults"]})
        return st
    fams = FAMS_QUICK if tier == "quick" else FAMS_THOROUGH
    if pid in PLANNER_STAGE_FLAGS:
        for name, flags in PLANNER_STAGE_FLAGS[pid]:
            f2 = fams
            model = True
            if "--dense" in flags:
                f2 = "table:2500" if tier == "quick" else "table:25000"
            if "--timing" in flags:
                # real-clock runs: implementation only, real spaces only
                f2 = "rv:40,so2:12,so3:12,se2:12,se3:10,css:10" if tier == "quick" else "rv:300,so2:100,so3:100,se2:100,se3:80,css:80"
                model = False
            st.append({"name": name, "kind": "planners", "model": model, "args": ["--seed", str(seed), "--families", f2] + flags})
    return st

PLANNER_STAGE_FLAGS = {
    "C01": [("planners", [])],
    "C02": [("planners+histories", ["--misuse"])],
    "C03": [("planners", [])],
    "C05": [("planners", [])],
    "C07": [("planners+histories", ["--misuse"])],
    "C08": [("planners+faults+misuse", ["--faults", "--misuse"])],
    "C06": [("planners", []), ("timing", ["--timing", "--threads", "4"])],
    "C18": [("prm", ["--only-planner", "prm"]), ("prm:obstacle-free", ["--only-planner", "prm", "--free"])],
    "C04": [("planners", []), ("planners:obstacle-free", ["--free"])],
    "C15": [("planners:snapshots", []), ("per-iteration:snapshots", ["--per-iteration"])],
    "C16": [("per-iteration", ["--per-iteration"]), ("planners:multi-iteration", [])],
    "C17": [("rrtstar", ["--only-planner", "rrtstar"]), ("rrtstar:obstacle-free", ["--only-planner", "rrtstar", "--free"]),
            ("rrtstar:dense-tables", ["--only-planner", "rrtstar", "--dense"])],
}


SEARCH_FAMS = "table:4000,rv:500,so2:300,so3:300,se2:300,se3:200,css:200"

def search_stages(pid, tier, seed):
    st = []
    for name, fams_, ref, malformed in SPACE_STAGES.get(pid, []):
        if malformed:
            continue
        for j in range(2 if tier == "quick" else 6):
            st.append({"name": f"search:{name}:{j}", "kind": "spaces", "model": False,
                       "args": ["--seed", str(seed + 1000 + j), "--families", ",".join(f for f in fams_ if f != "gof"), "--count", "20000"]})
    for k, (name, flags) in enumerate(PLANNER_STAGE_FLAGS.get(pid, [])):
        for j in range(3 if tier == "quick" else 10):
            st.append({"name": f"search:{name}:{j}", "kind": "planners", "model": False,
                       "args": ["--seed", str(seed + 1000 + j), "--families", SEARCH_FAMS] + flags})
    return st
