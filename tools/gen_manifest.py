#!/usr/bin/env python3
"""Writes MANIFEST.json from tools/manifest_data.py (kept in one place so it stays valid)."""
import json, os, sys
ROOT = os.path.dirname(os.path.dirname(os.path.abspath(__file__)))
sys.path.insert(0, os.path.join(ROOT, "tools"))
import manifest_data as M

props = [json.loads(l)["id"] for l in open(os.path.join(ROOT, "properties.jsonl"))]
checks = []
for pid in props:
    if pid in M.CHECKS:
        c = M.CHECKS[pid]
        checks.append({
            "property_id": pid,
            "quick_cmd": f"./check {pid} --tier quick",
            "thorough_cmd": f"./check {pid} --tier thorough",
            "evidence_file": f"evidence/{pid}.json",
            "replay_cmd_template": f"./check {pid} --replay {{path}}",
            "engine": "coq-model+correspondence",
            "level_claimed": {"category": c["category"], "text": c["text"], "design_ref": c["design_ref"]},
            "level_note": c["note"],
            "technique": c["technique"],
        })
na = [{"property_id": pid, "reason": M.NOT_APPLICABLE.get(pid, "check not built yet in this revision of /verif (work in progress; see DESIGN.md section 7)")}
      for pid in props if pid not in M.CHECKS]
manifest = {
    "version": 1,
    "setup_cmd": "./setup.sh",
    "hooks": {
        "guard": "oxmpl_verif",
        "enable": "RUSTFLAGS=\"--cfg oxmpl_verif\" cargo build --release --offline  (harness/ depends on /repo/oxmpl by path)",
        "baseline_off_cmd": "cd /repo && cargo nextest run --workspace --no-fail-fast --tool-config-file pb:/w/lib/nextest.toml --profile pb --test-threads 8 --offline",
        "source_commits": M.HOOK_COMMITS,
        "add_only": True,
    },
    "engines": [{
        "name": "coq-model+correspondence",
        "path": "coq/ harness/ tools/ check",
        "serves_properties": [c["property_id"] for c in checks],
        "kind_free_text": "machine-checked proof in Coq 8.16.1 about an executable Gallina model; the model is tied to /repo on every run by a differential correspondence check (vm_compute vs. the real implementation under logging wrappers) plus a regenerated constants fragment",
    }],
    "checks": checks,
    "not_applicable": na,
    "notes": M.NOTES,
}
json.dump(manifest, open(os.path.join(ROOT, "MANIFEST.json"), "w"), indent=1)
print(f"{len(checks)} checks, {len(na)} not claimed")
