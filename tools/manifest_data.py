HOOK_COMMITS = ["6e09526", "e02e23f"]
NOTES = ("All checks share one driver (./check <id>). Genuine defects repaired in /repo are the 'fix:' commits listed in "
         "known_findings.txt (fixed: lines); recorded, unrepaired defects are its 'known:' lines.")

PLANNER_NOTE = ("Trusted: Coq kernel + vm_compute; the hand-written planner model (coq/Planners/Model.v) is tied to the code by the "
                "differential correspondence run on every check (all four planners, six real spaces + adversarial table spaces), "
                "not by a translator; rand/ChaCha/libm/Instant are modelled as oracles. Theorems are generic in the space, world, "
                "samplers, parameters and API history.")

CHECKS = {
    "C01": {
        "category": "proof",
        "text": "Theorems C01_* (coq/Props/C01.v): for every state type, space, checker, goal, sampler behaviour, parameter value and every "
                "finite API history, a solve that answers with a path answers only with states accepted by the checker of the latest setup; "
                "a rejected start yields InvalidStartState. Proved by induction over iterations and histories (invariant: every stored "
                "non-root node was the end of an accepted motion; roots are validated at solve). The model is validated against the real "
                "planners on every run (responses must agree on all generated cases) and the property is evaluated directly on real runs.",
        "design_ref": "DESIGN.md section 7 C01, sections 3.4, 4, 6",
        "note": PLANNER_NOTE,
        "technique": "Coq proof (invariant by induction over iterations and API histories) + model/implementation correspondence by vm_compute",
    },
}
NOT_APPLICABLE = {}
