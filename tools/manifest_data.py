HOOK_COMMITS = ["6e09526", "e02e23f"]
NOTES = ("All checks share one driver (./check <id>). Genuine defects repaired in /repo are the 'fix:' commits listed in "
         "known_findings.txt (fixed: lines); recorded, unrepaired defects are its 'known:' lines.")

SPACE_NOTE = 'Trusted: Coq kernel + vm_compute; the real-number model (coq/Spaces/SpacesR.v) carries the theorems; the executable float model (coq/Spaces/SpacesF.v, line-by-line transcription on primitive binary64 floats, libm acos/sin as oracle tables supplied by the implementation run) is tied to the code bit-for-bit on every run; float vs real is a sampled link within the stated tolerances (rational/60-digit reference), not a global error theorem. Standard-library real-number axioms (ClassicalDedekindReals.sig_forall_dec, sig_not_dec, functional_extensionality_dep, Classical_Prop.classic).'

PLANNER_NOTE = ("Trusted: Coq kernel + vm_compute; the hand-written planner model (coq/Planners/Model.v) is tied to the code by the "
                "differential correspondence run on every check (all four planners, six real spaces + adversarial table spaces), "
                "not by a translator; rand/ChaCha/libm/Instant are modelled as oracles. Theorems are generic in the space, world, "
                "samplers, parameters and API history.")

CHECKS = {
    "C01": {
        "category": "proof",
        "text": "Theorems C01_* (coq/Props/C01.v): for every state type, space, checker, goal, sampler behaviour, parameter value and every "
                "finite API history, a solve that answers with a path answers only with states accepted by the checker of the latest setup; "
                "a rejected start yields InvalidStartState. Proved by induction over iterations and histories (invariant: every stored "
                "non-root node was the end of an accepted motion; roots are validated at solve). The model is validated against the real "
                "planners on every run (responses must agree on all generated cases) and the property is evaluated directly on real runs.",
        "design_ref": "DESIGN.md section 7 C01, sections 3.4, 4, 6",
        "note": PLANNER_NOTE,
        "technique": "Coq proof (invariant by induction over iterations and API histories) + model/implementation correspondence by vm_compute",
    },
    "C02": {
        "category": "proof",
        "text": "Theorems C02_* (coq/Props/C02.v): over every API history, a returned path is s0 :: _ with s0 the first start state of the "
                "problem installed by the most recent setup / set_problem_definition (the same value, hence bit-identical) and ends in a "
                "state satisfying that problem's goal (RRT-Connect: or the state its goal sampler returned, hence the explicit "
                "sampler-soundness hypothesis). Proof: link invariant of the trees + reconstruct lemma (head = root, last = goal node), "
                "RRT-Connect join lemma, PRM BFS parent-map invariant. Correspondence on random call histories (repeated setup / solve / "
                "problem replacement) ties the model to the code; endpoint oracle on every real run.",
        "design_ref": "DESIGN.md section 7 C02",
        "note": PLANNER_NOTE,
        "technique": "Coq proof (tree/roadmap invariants over API histories) + model/implementation correspondence by vm_compute",
    },
    "C03": {
        "category": "proof",
        "text": "Theorems C03_* (coq/Props/C03.v): every pair of consecutive states of a returned path was accepted by check_motion in one "
                "direction (extension, RRT* choose-parent and rewiring, RRT-Connect connection, PRM links and start connections: one lemma "
                "per edge kind); an accepted motion means the checker accepted the end state and all interior points i/n with "
                "n = ceil(d/(lvs*factor)); factor (regenerated from the four check_motion copies in /repo on every run) is in (0,1] so gaps "
                "are <= lvs; equal spacing of the i/n points is proved in the real model of R^n, SO(2), SO(3)-SLERP. Direct oracle on real "
                "runs: every point of every returned segment lies within lvs/2 of an accepted state.",
        "design_ref": "DESIGN.md section 7 C03",
        "note": PLANNER_NOTE + " Float spacing along a segment is tied to the real-model theorems only by the sampled oracle.",
        "technique": "Coq proof (link invariant + unfolding of check_motion + real-space spacing theorems) + correspondence by vm_compute",
    },
    "C05": {
        "category": "proof",
        "text": "Theorems C05_* (coq/Props/C05.v): each consecutive pair of a returned path satisfies an exact float-level branch fact: "
                "not(d > max_distance), or it is the steered point max/d toward a sample, or d < radius (RRT* choose-parent/rewire, PRM); "
                "with the space law 'steering lands within the bound' (proved exactly, eps = 0, in the real model of R^n, SO(2), "
                "SO(3)-SLERP) every link obeys the bound. Direct oracle on real runs measures every returned segment in the space's metric.",
        "design_ref": "DESIGN.md section 7 C05",
        "note": PLANNER_NOTE + " The float-level steer law (eps) is a sampled bound, the SO(3) LERP branch deviates by up to 1.1e-6.",
        "technique": "Coq proof (link invariant carrying step-length facts) + correspondence by vm_compute",
    },
    "C07": {
        "category": "proof",
        "text": "Theorems C07_* (coq/Props/C07.v): the model makes the provenance of every random draw explicit (seeded generator vs. any "
                "OS-/thread-seeded one). For every call history, two runs whose oracles agree on the seeded stream but differ arbitrarily on "
                "all other generators yield identical states and responses (until a call panics); iteration budgets (the wall clock) only "
                "truncate the same decision sequence (prefix lemmas). The tie to the code: every observed draw of the real planners is located "
                "in the reference StdRng stream and must be where the model predicts (a hidden rand::rng()/from_os_rng() or a generator that "
                "is not handed back shows as a foreign draw); plus a two-instance differential on every seeded case.",
        "design_ref": "DESIGN.md section 7 C07",
        "note": PLANNER_NOTE + " ChaCha12/StdRng is an opaque deterministic stream read from the real crate; hash-order dependence would show only as divergent traces.",
        "technique": "Coq proof (oracle-independence over API histories) + draw-provenance correspondence + two-instance differential",
    },
    "C08": {
        "category": "proof",
        "text": "Theorems C08_* (coq/Props/C08.v): in any state without an installed problem solve answers PlannerUninitialised (PRM: also "
                "construct_roadmap), a PRM query on an empty roadmap answers UnsampledStateSpace, invalid starts answer InvalidStartState "
                "(C01) and successful solves answer the latest problem (C02); for well-formed inputs (total samplers, goal bias in [0,1], "
                "non-empty start list) no call of RRT / RRT-Connect / RRT* ever panics or fails to return, for every call history (panics are "
                "first-class outcomes of the model: unwrap, index, random_bool; RRT* never hangs for ANY sampler behaviour given distances "
                ">= 0, not NaN), and no PRM call (setup, set_problem_definition, construct_roadmap, solve) ever panics or hangs. Outside well-formedness the model - and the code - "
                "panic: C08_refuted_* witnesses = the known findings. Correspondence on call scripts with sampler faults at the k-th call, "
                "out-of-range bias and empty start lists: panic/no-panic and error kind must match the model.",
        "design_ref": "DESIGN.md section 7 C08, section 8 row 7",
        "note": PLANNER_NOTE + " All four planners have a never-panics / always-returns theorem over whole API histories under well-formedness (total samplers, goal bias in [0,1], non-empty start lists).",
        "technique": "Coq proof (panics as outcomes; invariant over API histories) + correspondence on fault-injected call scripts",
    },
    "C15": {
        "category": "proof",
        "text": "Theorems C15_* (coq/Props/C15.v): in every state reachable by any API history (success, timeout or error), each search "
                "tree of RRT / RRT-Connect / RRT* satisfies: node 0 is the only parentless node and holds the start (goal-tree: the sampled "
                "goal) state, every other node is valid, has an in-range parent and the link was accepted by check_motion with the recorded "
                "step-length fact; RRT/RRT-Connect parents are older than children (no cycles); for RRT* - where rewiring re-parents to "
                "younger nodes - acyclicity is proved from the cost invariant at float level (Flocq) for every space with distances >= 0, "
                "not NaN, zero-length edges and equal costs included; path extraction from any node terminates at the root and yields a "
                "chain of checked links. Correspondence: full tree snapshots (states, parents, cost bits) after every call must equal the "
                "model's, bounded-depth per-iteration runs included; snapshot oracle on every real run.",
        "design_ref": "DESIGN.md section 7 C15",
        "note": PLANNER_NOTE + " The code's extraction loop is unbounded; the model's fuel |tree|+1 is proved sufficient on every reachable RRT* tree (pigeonhole on the acyclic parent chain), so the model never reports a hang where the code would terminate.",
        "technique": "Coq proof (tree invariants incl. float-level acyclicity of RRT* rewiring) + snapshot correspondence by vm_compute",
    },
    "C16": {
        "category": "proof",
        "text": "Theorems C16_* (coq/Props/C16.v): for any tree and any sample, the extension step picks the FIRST node at minimal distance "
                "(no node closer, every earlier node strictly farther; float-order proof under non-NaN distances), appends at most one node "
                "(the sample itself if not (d > max), else interpolate(near, sample, max/d)), nothing when the motion is rejected, leaves all "
                "existing nodes untouched; goal sampler used iff u64 < floor(p*2^64) (never for p = 0, always and without a draw for p = 1); "
                "RRT-Connect grows the start tree iff it is not larger, then extends the other tree once toward the new node. "
                "Correspondence: per-iteration runs (every solve has budget 1) compare consecutive tree snapshots and the sampler-kind trace "
                "with the model; direct oracle re-derives nearest / step from the real metric.",
        "design_ref": "DESIGN.md section 7 C16",
        "note": PLANNER_NOTE + " 'At exactly the maximum step' on the real spaces is the real-model steer law of C05/C10; the float deviation is a sampled tolerance.",
        "technique": "Coq proof (one-iteration specification, float order via Flocq) + per-iteration snapshot correspondence",
    },
    "C17": {
        "category": "proof",
        "text": "Theorems C17_* (coq/Props/C17.v), exact in IEEE-754 arithmetic for every space with distances >= 0, not NaN: in every "
                "reachable RRT* state cost(parent) + dist(node,parent) <= cost(node), costs >= 0, the root keeps cost 0, the recorded cost "
                "bounds the root-to-leaf length of the branch; choose-parent links to a cheapest candidate among the nearest node and the "
                "neighbours with a valid motion; rewiring re-parents exactly the neighbours that get strictly cheaper (others bit-identical); "
                "RRT* fed the same samples as RRT holds the same node states at every iteration and stops in the same iteration, and its "
                "recorded cost never exceeds RRT's branch length. Correspondence: snapshots with cost bits; direct oracles: cost invariant "
                "on every snapshot, RRT vs RRT* on equal seeds (same end state, not longer). The assumption itself is a theorem about the float "
                "model of the spaces (C17_float_distances_are_sane: R^n, SO(2), SO(3), compounds to any depth; acos an oracle assumed "
                ">= 0 on [0,1]; the side conditions - no NaN coordinate difference, finite angle difference, finite non-zero weights - "
                "are proved necessary).",
        "design_ref": "DESIGN.md section 7 C17",
        "note": PLANNER_NOTE + " 'No longer than RRT' is the float statement for root-to-leaf left-fold sums with edges measured dist(child,parent); symmetry of dist is C09.",
        "technique": "Coq proof (float-level cost invariants via Flocq, simulation RRT ~ RRT*) + snapshot correspondence by vm_compute",
    },
    "C06": {
        "category": "proof",
        "text": "Partial. Proved on the model (coq/Props/C06.v): the deadline is consulted exactly once per iteration, at the loop top "
                "(budget 0 answers Timeout without sampling; a budget n+k run is the budget-n run continued: an expired deadline is noticed "
                "after at most the iteration in flight; RRT, RRT*, RRT-Connect and PRM construction); no false success for every world, "
                "history and planner (all four): a returned path is sound (starts at the start, ends in the goal, every segment motion-checked), so sealed goals / sealed "
                "starts / invalid goal regions can only produce errors; one motion check costs num_steps validity queries, finite for a "
                "positive resolution; C06_refuted_zero_resolution: resolution fraction 0 makes it 2^64-1 (known finding). Measured, not "
                "proved: wall-clock overrun on real runs with time limits 0-100 ms (feasible and sealed-goal worlds, all planners and spaces).",
        "design_ref": "DESIGN.md section 7 C06",
        "note": PLANNER_NOTE + " Instant is a monotone clock oracle; scheduler delays, clock behaviour and the cost of user callbacks are outside the model.",
        "technique": "Coq proof (deadline state machine, no-false-success) + correspondence + measured real-clock exploration",
    },
    "C18": {
        "category": "proof",
        "text": "Theorems C18_* (coq/Props/C18.v): in every reachable state the roadmap is a graph (adjacency in range, irreflexive, symmetric, "
                "duplicate-free; every edge joins milestones closer than the radius with a motion accepted by check_motion, newer -> older); "
                "its milestones are exactly the valid samples drawn, in order; a second construct_roadmap is the identity and "
                "set_problem_definition changes only the problem; a successful query returns start :: walk along roadmap edges from a start "
                "connection to a goal milestone; NoSolutionFound means no start connection, no goal milestone, or no goal milestone "
                "graph-connected to a start connection (BFS completeness with the doubly seeded queue); the returned chain has no more "
                "milestones than ANY directed walk of the roadmap from a start connection to a goal milestone (C18_query_minimal, BFS "
                "level invariant); an independent multi-source BFS re-checks hop-minimality on every real obstacle-free roadmap. "
                "Correspondence: roadmap snapshots (states, adjacency lists in stored order) after every call.",
        "design_ref": "DESIGN.md section 7 C18",
        "note": PLANNER_NOTE + " HashMap is used only for keyed lookups (modelled as an association list).",
        "technique": "Coq proof (roadmap invariant, BFS soundness, completeness and hop-minimality) + snapshot correspondence by vm_compute",
    },
    "C04": {
        "category": "proof",
        "text": "Partial. Theorems C04_* (coq/Props/C04.v): for every region B containing the start states, all goal samples and all "
                "uniform samples and closed under the steering step interpolate(a, q, max/d), every state of every returned path of all four "
                "planners lies in B, for every API history (invariant: every stored node is in B). Real-model space theorems: boxes are convex "
                "under linear interpolation; SO(2) intervals of span <= PI are convex under short-arc interpolation. The property as stated "
                "('intervals of any span, rotation cones') is FALSE of the code: C04_refuted_so2_span_gt_pi and C04_refuted_so3_cone are proved "
                "witnesses; the SO(2) class is reproduced on the real planners (known finding). SO(3) cones of radius < PI/2 are proved convex "
                "under both branches of the library's interpolation (SLERP and normalised LERP, with the q / -q sign choice). Direct oracles: satisfies_bounds (+1e-9) on every state of every real path; at the level of one space, interpolation "
                "between two in-bounds states of a box / SO(2) interval of span <= PI stays inside (grid of interval ends incl. exact "
                "half-turn ties + random), with the float interpolation tied bit-for-bit to the model.",
        "design_ref": "DESIGN.md section 7 C04, section 8 row 4",
        "note": PLANNER_NOTE + " 'Up to rounding': the float steering step is tied to the real convexity theorems only by the sampled oracle.",
        "technique": "Coq proof (region invariant over API histories + real-model convexity theorems, refutation witnesses) + correspondence",
    },
    "C09": {
        "category": "proof",
        "text": "Theorems C09_* (coq/Props/C09.v) on the real-number model of the spaces, for ALL inputs: non-negativity, d(a,a)=0, symmetry, "
                "triangle inequality for R^n (Minkowski), SO(2) (|wrap(a-b)| = acos cos, acos-triangle lemma), SO(3) (Gram / Cauchy-Schwarz "
                "on unit quaternions) and weighted-l2 compounds; invariance under +2k pi and q -> -q; d <= pi on SO(2)/SO(3); zero distance "
                "iff same configuration. Float level, bit-exact (C09_float_*): d(x,y) and d(y,x) are the same double on R^n, on SO(3) for any acos "
                "oracle, and on every compound tree over such leaves (any width / nesting, SE(3) included). The implementation is tied to the executable float model bit-for-bit on an exhaustive special-value "
                "lattice + random states (all dimensions / weights / layouts, malformed stream separate) and checked against an independent "
                "60-digit evaluation of the real model within the stated tolerances; metric axioms evaluated on all generated triples.",
        "design_ref": "DESIGN.md section 7 C09, section 3.3",
        "note": SPACE_NOTE,
        "technique": "Coq proof on a real-number model + bit-exact float-model correspondence by vm_compute + sampled float/real link",
    },
    "C10": {
        "category": "proof",
        "text": "Theorems C10_* (coq/Props/C10.v), real-number model, all inputs: interp(a,b,0)=a, interp(a,b,1)=b (SO(2): same angle mod 2pi; "
                "SO(3): q or -q), d(a,interp)=t d(a,b) and d(interp,b)=(1-t) d(a,b) for t in [0,1] (R^n; SO(2) incl. seam crossings, "
                "non-canonical inputs and the antipodal tie; SO(3) SLERP), canonical results (angle in [-pi,pi), unit quaternion), reversal; "
                "compounds lift by homogeneity of the weighted l2 norm. The normalised-LERP branch (dot > 0.9995) is proved unit with exact "
                "end points; its speed deviation (<= 1.1e-6 arc length) is a sampled bound, not a theorem. Bit-exact float-model "
                "correspondence on the lattice (seams, antipodes, dots around 0 / 0.9995 / negative) + 60-digit reference + law oracle.",
        "design_ref": "DESIGN.md section 7 C10, section 3.3",
        "note": SPACE_NOTE,
        "technique": "Coq proof on a real-number model + bit-exact float-model correspondence by vm_compute + sampled float/real link",
    },
    "C11": {
        "category": "proof",
        "text": "Exact float-level theorems C11_* (coq/Props/C11.v; Flocq, all float inputs): f64::clamp lands in [lo,hi], is idempotent, "
                "fixes in-range values and panics iff not(lo<=hi); for R^n satisfies_bounds(enforce_bounds(s)) holds and enforce_bounds is "
                "idempotent; rand's random_range(lo..hi) returns a value in the CLOSED interval [lo,hi] for every u64 (hi attainable by "
                "rounding); SO(2) normalisation lands in [-PI,PI] for every finite input. Compound spaces of ANY width and nesting "
                "(coq/Spaces/CompoundN.v, induction over the space tree): enforce->satisfies, sample->satisfies and enforce idempotence lift "
                "from the components, and are closed for every compound tree of boxes (C11_box_tree_*). Where the property fails on the code the failure is "
                "a proved witness on the float model and a known finding (SO(2) upper bound PI, upper-end sample, infinite-width bounds) or a "
                "reproduced known finding (SO(3) projection lands max_angle +- ulp). Bit-exact correspondence of enforce / satisfies / "
                "sample_uniform (scripted generator, incl. all-ones and all-zeros streams) on the lattice (far outside, on the boundary, "
                "non-canonical, zero quaternion); enforce->satisfies / idempotence / canonical-form oracle on every case.",
        "design_ref": "DESIGN.md section 7 C11, section 8 rows 8, 9, 11, 12",
        "note": SPACE_NOTE + " SO(3) enforce/satisfy has no float-level theorem (libm oracle): covered by correspondence + oracle only.",
        "technique": "Coq proof (exact IEEE-754 theorems via Flocq) + bit-exact float-model correspondence by vm_compute",
    },
    "C12": {
        "category": "proof",
        "text": "Theorems C12_* (coq/Props/C12.v) on the float model of the constructors, for ALL float arguments: RealVectorStateSpace::new "
                "returns a space only with the right arity and every lower bound strictly below its upper bound, no NaN (documented errors "
                "otherwise); SO2StateSpace::new stores a strictly ordered, NaN-free interval inside [-PI,PI]; SO3StateSpace::new stores a "
                "radius in [0,PI] and rejects negative radii; clamp cannot panic on well-formed bounds; SO2State::new / SE2 yaw land in "
                "[-PI,PI] for every finite input (Flocq proof through the exact fmod model). C12_refuted_huge_quaternion: normalise(1e200,0,0,0) "
                "= Ok(0,0,0,0) (known finding). Bit-exact correspondence over the constructor lattice (all orderings/signs of bound pairs over "
                "+-PI, beyond, +-inf, NaN, equal; arity combinations; angles tiny..1e300; quaternions zero/tiny/huge) + constructed-space "
                "usability oracle.",
        "design_ref": "DESIGN.md section 7 C12, section 8 rows 10, 13",
        "note": SPACE_NOTE + " Congruence of SO2State::new to the input modulo the REAL 2 pi is a sampled oracle for |v| <= 1e6 and outside the claim beyond.",
        "technique": "Coq proof (constructor theorems for all float arguments, Flocq) + bit-exact correspondence by vm_compute",
    },
    "C13": {
        "category": "proof",
        "text": "The float model of a compound space IS the documented law (fold of the component models: weighted l2 for distance and "
                "resolution, component-wise interpolate / sample / enforce / satisfies; SE(2)/SE(3) = compound with weights (1,w)): theorems "
                "C13_* (coq/Props/C13.v) make the law explicit for two components and (C13_*_n, coq/Spaces/CompoundN.v) for any number of "
                "components and any nesting depth, incl. the single random stream threaded left to right by sample_uniform; they prove SE(2)/SE(3) constructors return exactly that compound, and lift the "
                "metric / constant-speed / monotonicity properties from the components (real model). That the CODE follows the law is the "
                "bit-exact correspondence of every operation of CompoundStateSpace / SE2StateSpace / SE3StateSpace on all generated layouts "
                "(1-4 components from R^n, SO(2), SO(3); weights 0, tiny, 1, large; mismatched layouts must panic) plus a direct oracle that "
                "recombines the real component spaces' results bit-for-bit.",
        "design_ref": "DESIGN.md section 7 C13",
        "note": SPACE_NOTE,
        "technique": "Coq proof (law + lifting theorems) + bit-exact float-model correspondence by vm_compute",
    },
    "C14": {
        "category": "proof",
        "text": "Partial (explicitly): Haar-uniformity is a measure-theoretic statement and no measure library is installed. Proved / checked: "
                "(a) the sampler as an exact function of the u64 stream (rand's random_range map, consumption order, SO(3) ball rejection and "
                "cone test) - bit-exact against the code under a scripted generator; (b) over R the map u -> lo + u(hi-lo) is affine, strictly "
                "monotone with range [lo,hi), hence each coordinate/angle follows the uniform law of the 2^52 grid (counting lemma); "
                "(c) normalising an accepted ball point gives a unit quaternion; components use disjoint draws; (d) goodness-of-fit (KS at "
                "significance 1e-9: coordinates, angle, rotation angle (theta - sin theta)/pi, axis direction, cone-conditioned angle, "
                "independence) on the real sampler as supporting evidence - a test, not a proof.",
        "design_ref": "DESIGN.md section 7 C14",
        "note": SPACE_NOTE + " 'Rotation-invariant law on S^3 = Haar measure' is cited, not proved.",
        "technique": "Coq proof of the sampler's structure + bit-exact correspondence under a scripted generator + statistical exploration",
    },
    "C19": {
        "category": "translation_validation",
        "text": "Three-way translation validation with the proved Coq planner model as the reference: every generated scenario (6 problem "
                "variants x 4 planners x worlds x parameters x seeds) is executed through the Python API (oxmpl_py built from the current "
                "tree; callbacks use only comparisons and the space's own distance, so their arithmetic is bit-identical) and through the "
                "Rust core under the logging wrappers; RRT / RRT-Connect / RRT* paths must be equal bit for bit AND the complete sequence of "
                "validity-callback arguments and answers must be equal (order-sensitive hash); the Rust run is replayed on the Coq model "
                "(C01-C18 hold of it); Python PRM paths are checked for soundness w.r.t. the Python callbacks. Wrapper constructors, "
                "maximum extents, canonicalised SO(2) values and distances are compared with the core over the C12 constructor lattice "
                "(ValueError exactly where the core returns Err). The universally quantified part is inherited from C01-C18; the Python "
                "layer itself is covered only on the generated scenarios.",
        "design_ref": "DESIGN.md section 7 C19",
        "note": PLANNER_NOTE + " PyO3 argument conversion and the Python interpreter are trusted; time limits differ between the two sides only in how many iterations complete (cases where the core timed out are not compared).",
        "technique": "translation validation: Python API vs Rust core vs proved Coq model on generated scenarios",
    },
    "C20": {
        "category": "proof",
        "text": "Theorems C20_* (coq/Props/C20.v) on the glue model with fallbacks RE-EXTRACTED from oxmpl-py/src/base/{state_validity_checker,"
                "goal}.rs on every run: every error branch returns false (C20_policy_fail_closed fails to compile if one is flipped); a state "
                "is valid / satisfying only if the callback returned the Python bool True; raising, None and non-bools are seen exactly as "
                "False; the planner functions depend on a callback only through those answers (congruence, via functional extensionality), so "
                "'fails on region X' and 'returns False on X' give identical results for every call history; with C01 no returned path "
                "contains a state on which the callback failed. Correspondence: Python runs with raise / None / non-bool / string faults on a "
                "region, against Python runs returning False there, against the Rust mirror and the model; faults at the k-th call "
                "(k in 1,2,3,5,8) are covered by the Python differential only (a callback that depends on the call number is not a function "
                "of the state). The JS glue cannot be executed here; its fallbacks are extracted and reported only.",
        "design_ref": "DESIGN.md section 7 C20",
        "note": PLANNER_NOTE + " Axiom used: FunctionalExtensionality.functional_extensionality_dep (standard library).",
        "technique": "Coq proof (glue model with regenerated policy, congruence) + Python fault-injection differential",
    },
}
NOT_APPLICABLE = {}
