#!/usr/bin/env python3
"""Re-runs every kept seeded change against the checks recorded for it (quick tier), with the current machinery.
   usage: seed_reeval.py [seed-id-prefix ...]      /repo must be clean; it is reverted after each change."""
import sys, os, json, subprocess, time, glob
ROOT = os.path.dirname(os.path.dirname(os.path.abspath(__file__)))
want = sys.argv[1:]
for d in sorted(glob.glob(os.path.join(ROOT, "seeded", "S*"))):
    sid = os.path.basename(d)
    if want and not any(sid.startswith(w) for w in want):
        continue
    meta = json.load(open(os.path.join(d, "meta.json")))
    props = list(meta.get("check_results", {}).keys()) or [meta["breaks_property"]]
    assert subprocess.run(["git", "-C", "/repo", "status", "--porcelain", "--untracked-files=no"], capture_output=True, text=True).stdout.strip() == "", "/repo not clean"
    r = subprocess.run(["git", "-C", "/repo", "apply", os.path.join(d, "patch.diff")], capture_output=True, text=True)
    assert r.returncode == 0, r.stderr
    results = {}
    try:
        for p in props:
            t = time.time()
            q = subprocess.run([os.path.join(ROOT, "check"), p], capture_output=True, text=True, cwd=ROOT)
            lines = [l for l in q.stdout.splitlines() if l.startswith("VIOLATION") or l.startswith("[check] violation")]
            results[p] = {"exit": q.returncode, "lines": lines[:6], "wall_s": round(time.time() - t, 1)}
            print(sid, p, q.returncode, (lines[-1] if lines else "")[:160], flush=True)
    finally:
        subprocess.run(["git", "-C", "/repo", "checkout", "--", "."], check=True)
    meta["check_results"] = results
    json.dump(meta, open(os.path.join(d, "meta.json"), "w"), indent=1)
