#!/bin/sh
# Confirms a seeded change to the Python layer in its scratch worktree.
# usage: seed_confirm_py.sh <worktree> [patch file inside the worktree, default MUTATION/patch.diff]
W=$1; cd $W || exit 2
export CARGO_NET_OFFLINE=true
P=${2:-$W/MUTATION/patch.diff}
git diff -- oxmpl/src oxmpl-py/src | diff -q - $P && echo "worktree diff same as patch"
run() { cargo build -p oxmpl-py --offline 2>&1 | grep -E "^error|Finished"; mkdir -p $W/pyconf && cp target/debug/liboxmpl_py.so $W/pyconf/oxmpl_py.so; PYTHONPATH=$W/pyconf timeout 900 python3 $W/MUTATION/mutation_demo.py > $W/pyconf/out.txt 2>&1; echo "exit=$?"; tail -3 $W/pyconf/out.txt; }
echo "== demo WITH change"; run
git apply -R $P || exit 3
echo "== demo WITHOUT change"; run
git apply $P || exit 3
echo "== cargo test oxmpl WITH change"; cargo test -p oxmpl --offline --no-fail-fast 2>&1 | grep -E "test result|FAILED" | sort | uniq -c | tail -8
