#!/usr/bin/env python3
"""Evaluates harness cases on the Coq model: shards cases.coq into cases_<k>.v files, runs coqc on
them in parallel (vm_compute inside check_case), and collects per-case difference codes."""
import os, re, subprocess, sys, json, concurrent.futures, time

COQ = os.path.join(os.path.dirname(os.path.abspath(__file__)), "..", "coq")

HEADER = """From Coq Require Import ZArith NArith List Bool Uint63 PArray.
From OX Require Import Planners.Exec Planners.Decode.
Open Scope uint63_scope.
Open Scope array_scope.
"""

def run_shard(args):
    k, items, outdir, header, fn = args
    path = os.path.join(outdir, f"cases_{k}.v")
    with open(path, "w") as f:
        f.write(header or HEADER)
        for n, (cid, coq) in items:
            f.write(f"Definition a{n} : array int := [| {'; '.join(coq.split())} | 0 |].\n")
        f.write("Import ListNotations.\n")
        for n, (cid, coq) in items:
            f.write(f"Eval vm_compute in ({n}%N, {fn} a{n}).\n")
    t = time.time()
    p = subprocess.run(["coqc", "-noglob", "-Q", COQ, "OX", path], capture_output=True, text=True, timeout=3000)
    out = p.stdout
    res = {}
    for m in re.finditer(r"=\s*\((\d+)%N,\s*(\[[^\]]*\])\)", out, re.S):
        n = int(m.group(1))
        codes = [int(x) for x in re.findall(r"(\d+)%N", m.group(2))]
        res[n] = codes
    return k, res, p.returncode, p.stderr[-2000:], time.time() - t

def evaluate(cases_coq, outdir, shards=16, header=None, fn="check_array"):
    items = []
    with open(cases_coq) as f:
        for n, line in enumerate(f):
            cid, coq = line.rstrip("\n").split("\t", 1)
            if coq.strip() == "0":
                continue          # the harness marked this case as too large for model evaluation
            items.append((n, (cid, coq)))
    os.makedirs(outdir, exist_ok=True)
    # balance shards by size
    items_sorted = sorted(items, key=lambda x: -len(x[1][1]))
    buckets = [[] for _ in range(shards)]
    sizes = [0] * shards
    for it in items_sorted:
        i = sizes.index(min(sizes))
        buckets[i].append(it)
        sizes[i] += len(it[1][1])
    results = {}
    errors = []
    with concurrent.futures.ThreadPoolExecutor(max_workers=shards) as ex:
        for k, res, rc, err, dt in ex.map(run_shard, [(k, b, outdir, header, fn) for k, b in enumerate(buckets) if b]):
            results.update(res)
            if rc != 0:
                errors.append(f"shard {k}: coqc exit {rc}: {err}")
    out = []
    for n, (cid, _) in items:
        out.append({"id": cid, "codes": results.get(n), "evaluated": n in results})
    return out, errors

if __name__ == "__main__":
    res, errs = evaluate(sys.argv[1], sys.argv[2], int(sys.argv[3]) if len(sys.argv) > 3 else 16)
    bad = [r for r in res if r["codes"] != []]
    print(json.dumps({"n": len(res), "diff": bad[:20], "n_diff": len(bad), "errors": errs}, indent=1))
