#!/usr/bin/env python3
"""Independent reference for C09 / C10 (run with python3-vt: needs mpmath): evaluates the REAL-number model
of distance / interpolation (coq/Spaces/SpacesR.v) at 60 digits on the exact binary inputs of the harness
cases and compares the float results of the implementation within the tolerances stated in DESIGN 3.3.
This is validation of the float implementation against the real model on sampled inputs, not a proof."""
import sys, json, struct
from mpmath import mp, mpf, sqrt, pi, acos, sin, floor, fabs

mp.dps = 60

def f(h):
    return struct.unpack("<d", struct.pack("<Q", int(h, 16)))[0]

def wrap(x):
    return x - 2 * pi * floor((x + pi) / (2 * pi))

def ang_diff(x, y):
    d = fabs(wrap(x - y))
    return min(d, 2 * pi - d)

def check(case):
    ref = case["case"].get("ref")
    if not ref:
        return None
    kind = ref["kind"]
    sts = [[f(h) for h in s] for s in ref["states"]]
    vals = [x for s in sts for x in s]
    if any(v != v or v in (float("inf"), float("-inf")) for v in vals):
        return None
    op = case["case"]["op"]
    if op == "distance":
        if ref.get("d") is None:
            return None
        d = f(ref["d"])
        a, b = sts
        if kind == "rv":
            if len(a) != len(b):
                return None
            true = sqrt(sum((mpf(x) - mpf(y)) ** 2 for x, y in zip(a, b)))
            if d == float("inf") or true > mpf("1e300") or (true != 0 and true < mpf("1e-150")):
                return None      # overflow / underflow of the squared terms: excluded and listed
            tol = mpf("1e-12") * true
        elif kind == "so2":
            if max(abs(a[0]), abs(b[0])) > 1e6:
                return None
            true = fabs(wrap(mpf(a[0]) - mpf(b[0])))
            tol = mpf("1e-9")
        else:
            na = sqrt(sum(mpf(x) ** 2 for x in a)); nb = sqrt(sum(mpf(x) ** 2 for x in b))
            if fabs(na - 1) > mpf("1e-9") or fabs(nb - 1) > mpf("1e-9"):
                return None
            dot = fabs(sum(mpf(x) * mpf(y) for x, y in zip(a, b)))
            true = 2 * acos(min(dot, mpf(1)))
            tol = mpf("2e-7")
        if fabs(mpf(d) - true) > tol:
            return f"distance: implementation {d!r}, real model {mp.nstr(true, 20)} (tolerance {mp.nstr(tol, 3)})"
    elif op == "interpolate":
        a, b, o = sts
        t = f(ref["t"])
        if not (0.0 <= t <= 1.0):
            return None
        if kind == "rv":
            if len(a) != len(b) or len(o) != len(a):
                return None
            for x, y, z in zip(a, b, o):
                true = mpf(x) + (mpf(y) - mpf(x)) * mpf(t)
                scale = max(fabs(mpf(x)), fabs(mpf(y)), mpf("1e-300"))
                if scale > mpf("1e300"):
                    return None
                if fabs(mpf(z) - true) > mpf("1e-12") * scale:
                    return f"interpolate: component {z!r}, real model {mp.nstr(true, 20)}"
        elif kind == "so2":
            if max(abs(a[0]), abs(b[0])) > 1e6:
                return None
            d = wrap(mpf(b[0])) - wrap(mpf(a[0]))
            if fabs(fabs(d) - pi) < mpf("1e-9"):
                return None      # the antipodal tie: either direction is a shortest path
            if d > pi:
                d -= 2 * pi
            elif d < -pi:
                d += 2 * pi
            true = mpf(a[0]) + d * mpf(t)
            if ang_diff(mpf(o[0]), true) > mpf("1e-9"):
                return f"interpolate: angle {o[0]!r}, real model {mp.nstr(wrap(true), 20)}"
        else:
            na = sqrt(sum(mpf(x) ** 2 for x in a)); nb = sqrt(sum(mpf(x) ** 2 for x in b))
            if fabs(na - 1) > mpf("1e-9") or fabs(nb - 1) > mpf("1e-9"):
                return None
            dot = sum(mpf(x) * mpf(y) for x, y in zip(a, b))
            sg = -1 if dot < 0 else 1
            dot *= sg
            if fabs(dot - mpf("0.9995")) < mpf("1e-9") or dot > 1 - mpf("1e-12") and False:
                return None      # within rounding of the LERP/SLERP switch: either branch is admissible
            if dot > mpf("0.9995"):
                l = [mpf(x) + mpf(t) * (mpf(y) * sg - mpf(x)) for x, y in zip(a, b)]
                n = sqrt(sum(v * v for v in l))
                true = [v / n for v in l]
            else:
                th = acos(min(dot, mpf(1)))
                if th == 0:
                    return None
                s0 = sin((1 - mpf(t)) * th) / sin(th)
                s1 = sin(mpf(t) * th) / sin(th) * sg
                true = [mpf(x) * s0 + mpf(y) * s1 for x, y in zip(a, b)]
            for z, tv in zip(o, true):
                if fabs(mpf(z) - tv) > mpf("1e-9"):
                    return f"interpolate: quaternion component {z!r}, real model {mp.nstr(tv, 20)}"
    return None

def main():
    path = sys.argv[1]
    out = []
    n = 0
    for line in open(path):
        c = json.loads(line)
        try:
            r = check(c)
        except Exception as e:   # never let the reference tool decide by crashing
            r = None
        if r is not None or (c["case"].get("ref") and c["case"]["op"] in ("distance", "interpolate")):
            n += 1
        if r:
            out.append({"id": c["id"], "what": r, "case": c["case"]})
    json.dump({"checked": n, "mismatches": out}, sys.stdout)

if __name__ == "__main__":
    main()
