#!/usr/bin/env python3
"""Applies a confirmed seeded change to /repo, runs the given checks, reverts, and records the outcome.
   usage: seed_eval.py <seed-id> <property> <worktree> [extra properties...]"""
import sys, os, json, subprocess, shutil, time
ROOT = os.path.dirname(os.path.dirname(os.path.abspath(__file__)))
sid, prop, wt = sys.argv[1], sys.argv[2], sys.argv[3]
extra = sys.argv[4:]
d = os.path.join(ROOT, "seeded", sid)
os.makedirs(d, exist_ok=True)
mut = os.path.join(wt, "MUTATION")
for f in os.listdir(mut):
    shutil.copy(os.path.join(mut, f), os.path.join(d, f if f != "NOTES.md" else "agent_notes.md"))
patch = os.path.join(d, "patch.diff")
assert subprocess.run(["git", "-C", "/repo", "status", "--porcelain", "--untracked-files=no"], capture_output=True, text=True).stdout.strip() == "", "/repo not clean"
r = subprocess.run(["git", "-C", "/repo", "apply", patch], capture_output=True, text=True)
assert r.returncode == 0, r.stderr
results = {}
try:
    for p in [prop] + extra:
        t = time.time()
        q = subprocess.run([os.path.join(ROOT, "check"), p], capture_output=True, text=True, cwd=ROOT)
        lines = [l for l in q.stdout.splitlines() if l.startswith("VIOLATION") or l.startswith("[check] violation")]
        results[p] = {"exit": q.returncode, "lines": lines[:6], "wall_s": round(time.time() - t, 1)}
        print(p, q.returncode, lines[:3], flush=True)
finally:
    subprocess.run(["git", "-C", "/repo", "checkout", "--", "."], check=True)
meta_path = os.path.join(d, "meta.json")
meta = json.load(open(meta_path)) if os.path.exists(meta_path) else {}
meta.update({"seed_id": sid, "breaks_property": prop, "check_results": results})
json.dump(meta, open(meta_path, "w"), indent=1)
