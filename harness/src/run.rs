//! Runs an API script against the real planners under the logging wrappers and turns the
//! observations into (a) the tables + expected outputs for the Coq model, (b) a JSON record.
use crate::json::J;
use crate::log::{self, Key, Log, SKind};
use crate::wrap::{LogChecker, LogGoal, LogSpace};
use oxmpl::base::{
    error::PlanningError,
    planner::{Planner, PlannerConfig},
    problem_definition::ProblemDefinition,
    space::StateSpace,
    state::State,
};
use oxmpl::geometric::{RRTConnect, RRTStar, PRM, RRT};
use rand::{rngs::StdRng, RngCore, SeedableRng};
use std::collections::HashMap;
use std::panic::{catch_unwind, AssertUnwindSafe};
use std::sync::Arc;
use std::time::Duration;

#[derive(Clone, Copy, Debug, PartialEq)]
pub enum PlannerKind {
    Rrt = 0,
    Star = 1,
    Conn = 2,
    Prm = 3,
}
impl PlannerKind {
    pub fn name(self) -> &'static str {
        match self {
            PlannerKind::Rrt => "RRT",
            PlannerKind::Star => "RRT*",
            PlannerKind::Conn => "RRT-Connect",
            PlannerKind::Prm => "PRM",
        }
    }
    pub fn from_index(i: u64) -> Self {
        match i % 4 {
            0 => PlannerKind::Rrt,
            1 => PlannerKind::Star,
            2 => PlannerKind::Conn,
            _ => PlannerKind::Prm,
        }
    }
}

#[derive(Clone, Debug)]
pub struct Params {
    pub kind: PlannerKind,
    pub maxd: f64,
    pub bias: f64,
    pub radius: f64,
    pub seed: Option<u64>,
    /// PRM roadmap construction time in seconds
    pub build_secs: f64,
}

#[derive(Clone, Debug, PartialEq)]
pub enum Call {
    Setup(usize, usize),
    Solve(u64),
    Construct(u64),
    SetPd(usize),
}

#[derive(Clone, Debug, PartialEq)]
pub enum Resp {
    Path(Vec<u32>),
    Err(u8),
    Unit,
    Panic(String),
}

#[derive(Clone, Debug, Default, PartialEq)]
pub struct Snap {
    pub tree: Vec<(u32, Option<usize>, u64)>,
    pub gtree: Vec<(u32, Option<usize>, u64)>,
    pub rm: Vec<(u32, Vec<usize>)>,
}

pub struct CallOut<S> {
    pub call: Call,
    pub resp: Resp,
    pub snap: Snap,
    pub ticks: u64,
    pub wall_ns: u128,
    /// when the last sampler call of this API call returned, in ms after the API call began (None: no sample drawn)
    pub last_sample_ms: Option<f64>,
    pub path: Option<Vec<S>>,
    pub tree_states: Vec<S>,
    pub gtree_states: Vec<S>,
    pub rm_states: Vec<S>,
}

pub fn err_code(e: &PlanningError) -> u8 {
    match e {
        PlanningError::Timeout => 0,
        PlanningError::NoSolutionFound => 1,
        PlanningError::PlannerUninitialised => 2,
        PlanningError::InvalidStartState => 3,
        PlanningError::UnsampledStateSpace => 4,
    }
}
pub fn err_name(c: u8) -> &'static str {
    ["Timeout", "NoSolutionFound", "PlannerUninitialised", "InvalidStartState", "UnsampledStateSpace"][c as usize]
}

type PD<S, SP> = ProblemDefinition<S, LogSpace<SP>, LogGoal<S>>;

enum AnyPlanner<S: State + Clone + Key, SP: StateSpace<StateType = S>> {
    Rrt(RRT<S, LogSpace<SP>, LogGoal<S>>),
    Star(RRTStar<S, LogSpace<SP>, LogGoal<S>>),
    Conn(RRTConnect<S, LogSpace<SP>, LogGoal<S>>),
    Prm(PRM<S, LogSpace<SP>, LogGoal<S>>),
}

pub struct Problem<S> {
    pub starts: Vec<S>,
    pub goal: Arc<LogGoal<S>>,
}

thread_local! {
    pub static LAST_PANIC: std::cell::RefCell<String> = const { std::cell::RefCell::new(String::new()) };
}

pub fn install_panic_hook() {
    std::panic::set_hook(Box::new(|info| {
        let loc = info
            .location()
            .map(|l| format!("{}:{}", l.file(), l.line()))
            .unwrap_or_default();
        let msg = if let Some(s) = info.payload().downcast_ref::<&str>() {
            s.to_string()
        } else if let Some(s) = info.payload().downcast_ref::<String>() {
            s.clone()
        } else {
            String::new()
        };
        LAST_PANIC.with(|p| *p.borrow_mut() = format!("{loc}: {msg}"));
    }));
}

#[allow(clippy::arc_with_non_send_sync)]
pub fn run_script<S, SP>(
    params: &Params,
    space: Arc<LogSpace<SP>>,
    problems: &[Problem<S>],
    checkers: &[Arc<LogChecker<S>>],
    script: &[Call],
    timeout: Duration,
) -> Vec<CallOut<S>>
where
    S: State + Clone + Key,
    SP: StateSpace<StateType = S> + 'static,
{
    let cfg = PlannerConfig { seed: params.seed };
    // The parameters are public fields: half of the runs (by the parity of the seed) construct the planner with
    // other values and then assign the real ones, as a user tuning a planner object would
    let assign_later = params.seed.map(|s| s % 2 == 1).unwrap_or(false);
    let mut pl: AnyPlanner<S, SP> = if !assign_later {
        match params.kind {
            PlannerKind::Rrt => AnyPlanner::Rrt(RRT::new(params.maxd, params.bias, &cfg)),
            PlannerKind::Star => AnyPlanner::Star(RRTStar::new(params.maxd, params.bias, params.radius, &cfg)),
            PlannerKind::Conn => AnyPlanner::Conn(RRTConnect::new(params.maxd, params.bias, &cfg)),
            PlannerKind::Prm => AnyPlanner::Prm(PRM::new(params.build_secs, params.radius, &cfg)),
        }
    } else {
        match params.kind {
            PlannerKind::Rrt => {
                let mut x = RRT::new(params.maxd * 16.0 + 1.0, 0.5, &cfg);
                x.max_distance = params.maxd;
                x.goal_bias = params.bias;
                AnyPlanner::Rrt(x)
            }
            PlannerKind::Star => {
                let mut x = RRTStar::new(params.maxd * 16.0 + 1.0, 0.5, params.radius * 0.25, &cfg);
                x.max_distance = params.maxd;
                x.goal_bias = params.bias;
                x.search_radius = params.radius;
                AnyPlanner::Star(x)
            }
            PlannerKind::Conn => {
                let mut x = RRTConnect::new(params.maxd * 16.0 + 1.0, 0.5, &cfg);
                x.max_distance = params.maxd;
                x.goal_bias = params.bias;
                AnyPlanner::Conn(x)
            }
            PlannerKind::Prm => {
                let mut x = PRM::new(params.build_secs * 0.5, params.radius * 4.0 + 1.0, &cfg);
                x.timeout = params.build_secs;
                x.connection_radius = params.radius;
                AnyPlanner::Prm(x)
            }
        }
    };
    let fresh_pd = |i: usize| -> Arc<PD<S, SP>> {
        Arc::new(ProblemDefinition {
            space: space.clone(),
            start_states: problems[i].starts.clone(),
            goal: problems[i].goal.clone(),
        })
    };
    // a user typically keeps ONE Arc per problem and hands clones of it to setup / set_problem_definition again
    // (pointer-equal problem definitions across calls); every fourth call gets a fresh object instead
    let kept: Vec<Arc<PD<S, SP>>> = (0..problems.len()).map(fresh_pd).collect();
    let call_no = std::cell::Cell::new(0usize);
    let mk_pd = |i: usize| -> Arc<PD<S, SP>> {
        let k = call_no.get();
        call_no.set(k + 1);
        if k % 4 == 3 { fresh_pd(i) } else { kept[i].clone() }
    };
    // intern the start states first so that they get small ids
    for p in problems {
        for s in &p.starts {
            log::intern(s);
        }
    }
    let mut outs = Vec::new();
    for (ci, call) in script.iter().enumerate() {
        log::with(|l| {
            l.cur_call = ci;
            l.n_interp_queries = 0;
        });
        oxmpl::verif::reset_ticks();
        let call_start_ns = log::with(|l| l.now_ns());
        let t0 = std::time::Instant::now();
        let r = catch_unwind(AssertUnwindSafe(|| -> Result<Option<Vec<S>>, PlanningError> {
            match call {
                Call::Setup(p, v) => {
                    let pd = mk_pd(*p);
                    let vc = checkers[*v].clone();
                    oxmpl::verif::set_budget(None);
                    match &mut pl {
                        AnyPlanner::Rrt(x) => x.setup(pd, vc),
                        AnyPlanner::Star(x) => x.setup(pd, vc),
                        AnyPlanner::Conn(x) => x.setup(pd, vc),
                        AnyPlanner::Prm(x) => x.setup(pd, vc),
                    }
                    Ok(None)
                }
                Call::Solve(b) => {
                    oxmpl::verif::set_budget(if *b == u64::MAX { None } else { Some(*b) });
                    let r = match &mut pl {
                        AnyPlanner::Rrt(x) => x.solve(timeout),
                        AnyPlanner::Star(x) => x.solve(timeout),
                        AnyPlanner::Conn(x) => x.solve(timeout),
                        AnyPlanner::Prm(x) => x.solve(timeout),
                    };
                    r.map(|p| Some(p.0))
                }
                Call::Construct(b) => {
                    oxmpl::verif::set_budget(if *b == u64::MAX { None } else { Some(*b) });
                    match &mut pl {
                        AnyPlanner::Prm(x) => x.construct_roadmap().map(|_| None),
                        _ => Ok(None),
                    }
                }
                Call::SetPd(p) => {
                    if let AnyPlanner::Prm(x) = &mut pl {
                        x.set_problem_definition(mk_pd(*p));
                    }
                    Ok(None)
                }
            }
        }));
        oxmpl::verif::set_budget(None);
        let wall_ns = t0.elapsed().as_nanos();
        let last_sample_ms = log::with(|l| {
            l.events.iter().rev().take_while(|e| e.call == ci).map(|e| e.at_ns).max().map(|t| t.saturating_sub(call_start_ns) as f64 / 1e6)
        });
        let ticks = oxmpl::verif::ticks();
        let mut path_states = None;
        let resp = match r {
            Ok(Ok(None)) => Resp::Unit,
            Ok(Ok(Some(p))) => {
                let ids = p.iter().map(log::intern).collect();
                path_states = Some(p);
                Resp::Path(ids)
            }
            Ok(Err(e)) => Resp::Err(err_code(&e)),
            Err(_) => Resp::Panic(LAST_PANIC.with(|p| p.borrow().clone())),
        };
        // snapshot
        let mut snap = Snap::default();
        let (mut ts, mut gs, mut rs) = (Vec::new(), Vec::new(), Vec::new());
        match &pl {
            AnyPlanner::Rrt(x) => {
                for (s, p) in x.verif_tree() {
                    snap.tree.push((log::intern(&s), p, 0));
                    ts.push(s);
                }
            }
            AnyPlanner::Star(x) => {
                for (s, p, c) in x.verif_tree() {
                    snap.tree.push((log::intern(&s), p, c.to_bits()));
                    ts.push(s);
                }
            }
            AnyPlanner::Conn(x) => {
                let (a, b) = x.verif_trees();
                for (s, p) in a {
                    snap.tree.push((log::intern(&s), p, 0));
                    ts.push(s);
                }
                for (s, p) in b {
                    snap.gtree.push((log::intern(&s), p, 0));
                    gs.push(s);
                }
            }
            AnyPlanner::Prm(x) => {
                for (s, e) in x.verif_roadmap() {
                    snap.rm.push((log::intern(&s), e));
                    rs.push(s);
                }
            }
        }
        outs.push(CallOut {
            call: call.clone(),
            resp,
            snap,
            ticks,
            wall_ns,
            last_sample_ms,
            path: path_states,
            tree_states: ts,
            gtree_states: gs,
            rm_states: rs,
        });
    }
    outs
}

// ------------------------------------------------------------------------------------------
// Randomness provenance: locate every observed draw in the seeded reference stream.

pub struct Provenance {
    /// (gen, pos, value) entries for the bias draws
    pub u64s: Vec<(u8, u64, u64)>,
    /// (gen, pos, result, consumed)
    pub us: Vec<(u8, u64, Option<u32>, u64)>,
    /// (p, gen, pos, result, consumed)
    pub gs: Vec<(u32, u8, u64, Option<u32>, u64)>,
    pub seeded_events: u64,
    pub foreign_events: u64,
    /// per event: (call index, gen, pos)
    pub trace: Vec<(usize, u8, u64)>,
}

pub fn provenance(params: &Params, script: &[Call], lg: &Log) -> Provenance {
    let mut pv = Provenance {
        u64s: vec![],
        us: vec![],
        gs: vec![],
        seeded_events: 0,
        foreign_events: 0,
        trace: vec![],
    };
    // reference stream
    let total: usize = lg.events.iter().map(|e| e.draws.len() + 2).sum::<usize>() + 16;
    let mut stream = Vec::new();
    let mut index: HashMap<u64, usize> = HashMap::new();
    if let Some(seed) = params.seed {
        let mut r = StdRng::seed_from_u64(seed);
        for i in 0..total {
            let v = r.next_u64();
            stream.push(v);
            index.entry(v).or_insert(i);
        }
    }
    let mut fpos: u64 = 0;
    // next expected position in the seeded stream (used only for samplers that draw nothing)
    let mut strack: usize = 0;
    for e in &lg.events {
        let has_bias = params.kind != PlannerKind::Prm
            && matches!(script.get(e.call), Some(Call::Solve(_)))
            && params.bias != 1.0;
        let n = e.draws.len();
        let mut seeded_at: Option<usize> = None;
        if n > 0 {
            if let Some(&p) = index.get(&e.draws[0]) {
                if p + n <= stream.len() && stream[p..p + n] == e.draws[..] {
                    seeded_at = Some(p);
                }
            }
        } else if params.seed.is_some() && strack + 1 < stream.len() {
            // a sampler that consumed no randomness cannot be located in the stream: it is placed where a
            // seeded planner would have called it (right after the bias draw, if any)
            seeded_at = Some(strack + has_bias as usize);
        }
        let is_goal = matches!(e.kind, SKind::Goal(_));
        let (g, pos) = match seeded_at {
            Some(p) => {
                pv.seeded_events += 1;
                if has_bias && p >= 1 {
                    pv.u64s.push((0, (p - 1) as u64, stream[p - 1]));
                }
                strack = p + n;
                (0u8, p as u64)
            }
            None => {
                pv.foreign_events += 1;
                if has_bias {
                    // the bias draw is unobservable for a foreign generator: fabricate a value
                    // consistent with which sampler was called
                    pv.u64s.push((1, fpos, if is_goal { 0 } else { u64::MAX }));
                    fpos += 1;
                }
                let p = fpos;
                fpos += n as u64;
                (1u8, p)
            }
        };
        pv.trace.push((e.call, g, pos));
        match e.kind {
            SKind::Uniform => pv.us.push((g, pos, e.result, n as u64)),
            SKind::Goal(p) => pv.gs.push((p, g, pos, e.result, n as u64)),
        }
    }
    pv
}

// ------------------------------------------------------------------------------------------
// Coq emission: one flat sequence of integers < 2^63 per case (decoded by coq/Planners/Decode.v)

struct Enc(Vec<u64>);
impl Enc {
    fn n(&mut self, x: u64) {
        self.0.push(x)
    }
    fn b(&mut self, x: bool) {
        self.0.push(x as u64)
    }
    fn w64(&mut self, x: u64) {
        self.0.push(x >> 32);
        self.0.push(x & 0xFFFF_FFFF);
    }
    fn f(&mut self, bits: u64) {
        let z = if f64::from_bits(bits).is_nan() { 0x7ff8000000000000u64 } else { bits };
        self.w64(z)
    }
    fn opt(&mut self, o: Option<u64>) {
        self.b(o.is_some());
        self.n(o.unwrap_or(0));
    }
}

fn enc_tree(e: &mut Enc, t: &[(u32, Option<usize>, u64)]) {
    e.n(t.len() as u64);
    for (s, p, c) in t {
        e.n(*s as u64);
        e.opt(p.map(|x| x as u64));
        e.f(*c);
    }
}

pub fn coq_case<S>(
    params: &Params,
    script: &[Call],
    starts: &[Vec<u32>],
    lg: &Log,
    pv: &Provenance,
    outs: &[CallOut<S>],
) -> String {
    let mut e = Enc(Vec::new());
    e.n(params.kind as u64);
    e.b(params.seed.is_some());
    e.f(params.maxd.to_bits());
    e.f(params.bias.to_bits());
    e.f(params.radius.to_bits());
    e.f(lg.lvs.unwrap_or(f64::NAN.to_bits()));
    let mut d: Vec<_> = lg.dist.iter().collect();
    d.sort();
    e.n(d.len() as u64);
    for ((a, b), z) in d {
        e.n(*a as u64);
        e.n(*b as u64);
        e.f(*z);
    }
    let mut i: Vec<_> = lg.interp.iter().collect();
    i.sort();
    e.n(i.len() as u64);
    for ((a, b, t), c) in i {
        e.n(*a as u64);
        e.n(*b as u64);
        e.f(*t);
        e.n(*c as u64);
    }
    let mut v: Vec<_> = lg.valid.iter().collect();
    v.sort();
    e.n(v.len() as u64);
    for ((a, b), x) in v {
        e.n(*a as u64);
        e.n(*b as u64);
        e.b(*x);
    }
    let mut g: Vec<_> = lg.goal.iter().collect();
    g.sort();
    e.n(g.len() as u64);
    for ((a, b), x) in g {
        e.n(*a as u64);
        e.n(*b as u64);
        e.b(*x);
    }
    e.n(starts.len() as u64);
    for (i, l) in starts.iter().enumerate() {
        e.n(i as u64 + 1);
        e.n(l.len() as u64);
        for x in l {
            e.n(*x as u64);
        }
    }
    e.n(pv.u64s.len() as u64);
    for (g, p, v) in &pv.u64s {
        e.n(*g as u64);
        e.n(*p);
        e.w64(*v);
    }
    e.n(pv.us.len() as u64);
    for (g, p, r, c) in &pv.us {
        e.n(*g as u64);
        e.n(*p);
        e.opt(r.map(|x| x as u64));
        e.n(*c);
    }
    e.n(pv.gs.len() as u64);
    for (pp, g, p, r, c) in &pv.gs {
        e.n(*pp as u64);
        e.n(*g as u64);
        e.n(*p);
        e.opt(r.map(|x| x as u64));
        e.n(*c);
    }
    e.n(script.len() as u64);
    for (ci, c) in script.iter().enumerate() {
        // an unlimited call (real clock): the model gets the number of iterations that actually ran
        let ran = |b: &u64| -> u64 {
            if *b != u64::MAX {
                return *b;
            }
            let o = &outs[ci];
            match (&o.resp, c) {
                (Resp::Err(0), _) => o.ticks.saturating_sub(1),
                (_, Call::Construct(_)) => o.ticks.saturating_sub(1),
                _ => o.ticks.max(1).min(1_000_000),
            }
        };
        match c {
            Call::Setup(p, v) => {
                e.n(0);
                e.n(*p as u64 + 1);
                e.n(*v as u64 + 1);
            }
            Call::Solve(b) => {
                e.n(1);
                e.n(ran(b));
                e.n(0);
            }
            Call::Construct(b) => {
                e.n(2);
                e.n(ran(b));
                e.n(0);
            }
            Call::SetPd(p) => {
                e.n(3);
                e.n(*p as u64 + 1);
                e.n(0);
            }
        }
    }
    e.n(outs.len() as u64);
    for o in outs {
        match &o.resp {
            Resp::Path(p) => {
                e.n(0);
                e.n(p.len() as u64);
                for x in p {
                    e.n(*x as u64);
                }
            }
            Resp::Err(c) => {
                e.n(1);
                e.n(*c as u64);
            }
            Resp::Unit => e.n(2),
            Resp::Panic(_) => e.n(3),
        }
        enc_tree(&mut e, &o.snap.tree);
        enc_tree(&mut e, &o.snap.gtree);
        e.n(o.snap.rm.len() as u64);
        for (s, ed) in &o.snap.rm {
            e.n(*s as u64);
            e.n(ed.len() as u64);
            for x in ed {
                e.n(*x as u64);
            }
        }
    }
    let v: Vec<String> = e.0.iter().map(|x| x.to_string()).collect();
    v.join(" ")
}

pub fn resp_json(r: &Resp) -> J {
    match r {
        Resp::Path(p) => J::obj(vec![("path", J::Arr(p.iter().map(|x| J::Int(*x as i128)).collect()))]),
        Resp::Err(e) => J::obj(vec![("err", J::Str(err_name(*e).into()))]),
        Resp::Unit => J::Str("ok".into()),
        Resp::Panic(m) => J::obj(vec![("panic", J::Str(m.clone()))]),
    }
}

pub fn call_json(c: &Call) -> J {
    match c {
        Call::Setup(p, v) => J::Str(format!("setup(P{},V{})", p + 1, v + 1)),
        Call::Solve(b) => J::Str(format!("solve(budget={b})")),
        Call::Construct(b) => J::Str(format!("construct_roadmap(budget={b})")),
        Call::SetPd(p) => J::Str(format!("set_problem_definition(P{})", p + 1)),
    }
}
