//! Deterministic generator for scenario construction (independent of `rand`).
#[derive(Clone)]
pub struct Sm(pub u64);
impl Sm {
    pub fn new(seed: u64, family: &str, index: u64) -> Sm {
        let mut h = seed ^ 0x9E37_79B9_7F4A_7C15;
        for b in family.bytes() {
            h = (h ^ b as u64).wrapping_mul(0x100_0000_01B3);
        }
        let mut s = Sm(h ^ index.wrapping_mul(0xD6E8_FEB8_6659_FD93));
        s.next();
        s.next();
        s
    }
    pub fn next(&mut self) -> u64 {
        self.0 = self.0.wrapping_add(0x9E37_79B9_7F4A_7C15);
        let mut z = self.0;
        z = (z ^ (z >> 30)).wrapping_mul(0xBF58_476D_1CE4_E5B9);
        z = (z ^ (z >> 27)).wrapping_mul(0x94D0_49BB_1331_11EB);
        z ^ (z >> 31)
    }
    pub fn below(&mut self, n: u64) -> u64 {
        if n == 0 {
            0
        } else {
            self.next() % n
        }
    }
    pub fn unit(&mut self) -> f64 {
        (self.next() >> 11) as f64 / (1u64 << 53) as f64
    }
    pub fn range(&mut self, lo: f64, hi: f64) -> f64 {
        lo + (hi - lo) * self.unit()
    }
    pub fn chance(&mut self, p: f64) -> bool {
        self.unit() < p
    }
    pub fn pick<'a, T>(&mut self, xs: &'a [T]) -> &'a T {
        &xs[self.below(xs.len() as u64) as usize]
    }
}
