//! Thread-local log of everything the real planner asked its space, goal, checker and samplers.
use oxmpl::base::state::{
    CompoundState, RealVectorState, SE2State, SE3State, SO2State, SO3State, State,
};
use std::any::Any;
use std::cell::RefCell;
use std::collections::HashMap;

/// Canonical key of a state: its f64 bit patterns (with structure tags for compounds).
pub trait Key {
    fn key(&self) -> Vec<u64>;
}

impl Key for RealVectorState {
    fn key(&self) -> Vec<u64> {
        let mut v = vec![0xA000_0000_0000_0000 + self.values.len() as u64];
        v.extend(self.values.iter().map(|x| x.to_bits()));
        v
    }
}
impl Key for SO2State {
    fn key(&self) -> Vec<u64> {
        vec![0xB000_0000_0000_0000, self.value.to_bits()]
    }
}
impl Key for SO3State {
    fn key(&self) -> Vec<u64> {
        vec![
            0xC000_0000_0000_0000,
            self.x.to_bits(),
            self.y.to_bits(),
            self.z.to_bits(),
            self.w.to_bits(),
        ]
    }
}
pub fn dyn_key(s: &dyn State) -> Vec<u64> {
    let a: &dyn Any = s.as_any();
    if let Some(x) = a.downcast_ref::<RealVectorState>() {
        x.key()
    } else if let Some(x) = a.downcast_ref::<SO2State>() {
        x.key()
    } else if let Some(x) = a.downcast_ref::<SO3State>() {
        x.key()
    } else if let Some(x) = a.downcast_ref::<CompoundState>() {
        x.key()
    } else if let Some(x) = a.downcast_ref::<SE2State>() {
        x.key()
    } else if let Some(x) = a.downcast_ref::<SE3State>() {
        x.key()
    } else if let Some(x) = a.downcast_ref::<crate::table::TState>() {
        x.key()
    } else {
        vec![0xFFFF_FFFF_FFFF_FFFF]
    }
}
impl Key for CompoundState {
    fn key(&self) -> Vec<u64> {
        let mut v = vec![0xD000_0000_0000_0000 + self.components.len() as u64];
        for c in &self.components {
            v.extend(dyn_key(&**c));
        }
        v
    }
}
impl Key for SE2State {
    fn key(&self) -> Vec<u64> {
        self.0.key()
    }
}
impl Key for SE3State {
    fn key(&self) -> Vec<u64> {
        self.0.key()
    }
}

#[derive(Clone, Debug, PartialEq)]
pub enum SKind {
    Uniform,
    Goal(u32),
}

#[derive(Clone, Debug)]
pub struct SampleEvent {
    pub kind: SKind,
    pub draws: Vec<u64>,
    pub result: Option<u32>,
    pub at_ns: u128,
    pub call: usize,
}

#[derive(Default)]
pub struct Log {
    pub intern: HashMap<Vec<u64>, u32>,
    pub keys: Vec<Vec<u64>>, // id-1 -> key
    pub dist: HashMap<(u32, u32), u64>,
    pub interp: HashMap<(u32, u32, u64), u32>,
    pub valid: HashMap<(u32, u32), bool>,
    pub goal: HashMap<(u32, u32), bool>,
    pub events: Vec<SampleEvent>,
    pub lvs: Option<u64>,
    pub inconsistent: Vec<String>,
    pub cur_call: usize,
    pub n_valid_queries: u64,
    pub n_dist_queries: u64,
    pub n_interp_queries: u64,
    pub u32_draws: u64,
    pub t0: Option<std::time::Instant>,
    /// id-1 -> a clone of the interned state (for the direct oracles)
    pub objs: Vec<Box<dyn Any>>,
}

thread_local! {
    pub static LOG: RefCell<Log> = RefCell::new(Log::default());
}

pub fn reset() {
    LOG.with(|l| *l.borrow_mut() = Log::default());
}
pub fn take() -> Log {
    LOG.with(|l| std::mem::take(&mut *l.borrow_mut()))
}
pub fn with<R>(f: impl FnOnce(&mut Log) -> R) -> R {
    LOG.with(|l| f(&mut l.borrow_mut()))
}

impl Log {
    pub fn intern_key(&mut self, k: Vec<u64>) -> u32 {
        if let Some(&id) = self.intern.get(&k) {
            return id;
        }
        self.keys.push(k.clone());
        let id = self.keys.len() as u32;
        self.intern.insert(k, id);
        id
    }
    pub fn now_ns(&mut self) -> u128 {
        let t0 = *self.t0.get_or_insert_with(std::time::Instant::now);
        t0.elapsed().as_nanos()
    }
}

pub fn intern<S: Key + Clone + 'static>(s: &S) -> u32 {
    let k = s.key();
    with(|l| {
        let n = l.keys.len();
        let id = l.intern_key(k);
        if l.keys.len() > n {
            l.objs.push(Box::new(s.clone()));
        }
        id
    })
}

impl Log {
    pub fn state_of<S: Clone + 'static>(&self, id: u32) -> Option<S> {
        self.objs
            .get(id as usize - 1)
            .and_then(|b| b.downcast_ref::<S>())
            .cloned()
    }
}

pub fn log_dist(a: u32, b: u32, bits: u64) {
    with(|l| {
        l.n_dist_queries += 1;
        if let Some(old) = l.dist.insert((a, b), bits) {
            if old != bits && !(f64::from_bits(old).is_nan() && f64::from_bits(bits).is_nan()) {
                l.inconsistent.push(format!("dist({a},{b})"));
            }
        }
    })
}
/// more interpolation queries than this within one case = a motion check that would (practically)
/// never finish; the case is aborted with a recognisable panic
pub const RUNAWAY_LIMIT: u64 = 3_000_000;

pub fn log_interp(a: u32, b: u32, t: u64, c: u32) {
    let runaway = with(|l| {
        l.n_interp_queries += 1;
        l.n_interp_queries > RUNAWAY_LIMIT
    });
    if runaway {
        with(|l| l.n_interp_queries = 0);
        panic!("oxh-runaway: more than {RUNAWAY_LIMIT} interpolation queries in one case");
    }
    with(|l| {
        if let Some(old) = l.interp.insert((a, b, t), c) {
            if old != c {
                l.inconsistent.push(format!("interp({a},{b},{t:#x})"));
            }
        }
    })
}
pub fn log_valid(v: u32, s: u32, ans: bool) {
    with(|l| {
        l.n_valid_queries += 1;
        if let Some(old) = l.valid.insert((v, s), ans) {
            if old != ans {
                l.inconsistent.push(format!("valid({v},{s})"));
            }
        }
    })
}
pub fn log_goal(p: u32, s: u32, ans: bool) {
    with(|l| {
        if let Some(old) = l.goal.insert((p, s), ans) {
            if old != ans {
                l.inconsistent.push(format!("goal({p},{s})"));
            }
        }
    })
}
