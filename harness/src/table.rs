//! A synthetic finite "space" with an adversarial metric given by tables: ties, zero distances
//! between distinct states, asymmetric or non-triangle entries, +inf, NaN.
use crate::log::Key;
use oxmpl::base::{error::StateSamplingError, space::StateSpace, state::State};
use rand::Rng;

#[derive(Clone, Debug, PartialEq)]
pub struct TState {
    pub id: u32,
}
impl State for TState {
    fn as_any(&self) -> &dyn std::any::Any {
        self
    }
}
impl Key for TState {
    fn key(&self) -> Vec<u64> {
        vec![0xE000_0000_0000_0000, self.id as u64]
    }
}

#[derive(Clone)]
pub struct TableSpace {
    pub k: usize,
    pub dist: Vec<Vec<f64>>,
    /// interpolate(a,b,t): a for t < 1/3, mid[a][b] for t < 2/3, b otherwise
    pub mid: Vec<Vec<u32>>,
    pub lvs: f64,
}
impl StateSpace for TableSpace {
    type StateType = TState;
    fn distance(&self, a: &TState, b: &TState) -> f64 {
        self.dist[a.id as usize][b.id as usize]
    }
    fn interpolate(&self, from: &TState, to: &TState, t: f64, out: &mut TState) {
        out.id = if t < 1.0 / 3.0 {
            from.id
        } else if t < 2.0 / 3.0 {
            self.mid[from.id as usize][to.id as usize]
        } else {
            to.id
        };
    }
    fn enforce_bounds(&self, _s: &mut TState) {}
    fn satisfies_bounds(&self, _s: &TState) -> bool {
        true
    }
    fn sample_uniform(&self, rng: &mut impl Rng) -> Result<TState, StateSamplingError> {
        let v: u64 = rng.next_u64();
        Ok(TState {
            id: (v % self.k as u64) as u32,
        })
    }
    fn get_longest_valid_segment_length(&self) -> f64 {
        self.lvs
    }
}
