//! Minimal JSON writer (no external crates).
use std::fmt;

#[derive(Clone, Debug)]
pub enum J {
    Null,
    Bool(bool),
    Int(i128),
    Num(f64),
    Str(String),
    Arr(Vec<J>),
    Obj(Vec<(String, J)>),
}
impl J {
    pub fn obj(v: Vec<(&str, J)>) -> J {
        J::Obj(v.into_iter().map(|(k, x)| (k.to_string(), x)).collect())
    }
    pub fn s(x: &str) -> J {
        J::Str(x.to_string())
    }
}
fn esc(s: &str, f: &mut fmt::Formatter<'_>) -> fmt::Result {
    write!(f, "\"")?;
    for c in s.chars() {
        match c {
            '"' => write!(f, "\\\"")?,
            '\\' => write!(f, "\\\\")?,
            '\n' => write!(f, "\\n")?,
            '\r' => write!(f, "\\r")?,
            '\t' => write!(f, "\\t")?,
            c if (c as u32) < 0x20 => write!(f, "\\u{:04x}", c as u32)?,
            c => write!(f, "{c}")?,
        }
    }
    write!(f, "\"")
}
impl fmt::Display for J {
    fn fmt(&self, f: &mut fmt::Formatter<'_>) -> fmt::Result {
        match self {
            J::Null => write!(f, "null"),
            J::Bool(b) => write!(f, "{b}"),
            J::Int(i) => write!(f, "{i}"),
            J::Num(x) => {
                if x.is_finite() {
                    write!(f, "{x:?}")
                } else {
                    esc(&format!("{x:?}"), f)
                }
            }
            J::Str(s) => esc(s, f),
            J::Arr(v) => {
                write!(f, "[")?;
                for (i, x) in v.iter().enumerate() {
                    if i > 0 {
                        write!(f, ",")?;
                    }
                    write!(f, "{x}")?;
                }
                write!(f, "]")
            }
            J::Obj(v) => {
                write!(f, "{{")?;
                for (i, (k, x)) in v.iter().enumerate() {
                    if i > 0 {
                        write!(f, ",")?;
                    }
                    esc(k, f)?;
                    write!(f, ":{x}")?;
                }
                write!(f, "}}")
            }
        }
    }
}
