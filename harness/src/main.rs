mod json;
mod log;
mod oracle;
mod prng;
mod run;
mod scen;
mod spaces;
mod spmain;
mod table;
mod wrap;

use json::J;
use log::Key;
use oxmpl::base::{space::StateSpace, state::State};
use prng::Sm;
use run::{call_json, coq_case, provenance, resp_json, run_script, PlannerKind, Resp};
use scen::{GenOpts, Scenario};
use std::io::Write;
use std::sync::{Arc, Mutex};
use std::time::Duration;

pub struct CaseOut {
    pub id: String,
    pub json: J,
    pub coq: String,
}

fn exec_case<S, SP>(mut scn: Scenario<S, SP>, mut twin: Scenario<S, SP>, mut rrt_twin: Scenario<S, SP>, free: bool, id: &str) -> CaseOut
where
    S: State + Clone + Key,
    SP: StateSpace<StateType = S> + 'static,
{
    let tmo = match scn.timeout_ms {
        Some(ms) if !scn.keep_seed => {
            scn.params.build_secs = ms as f64 / 1000.0;
            twin.params.build_secs = scn.params.build_secs;
            // real-clock runs are not repeatable: no twin comparisons
            twin.params.seed = None;
            scn.params.seed = None;
            Duration::from_millis(ms)
        }
        Some(ms) => Duration::from_millis(ms),
        None => Duration::from_secs(3600),
    };
    let py_mode = scn.keep_seed;
    if std::env::var("OXH_TRACE").is_ok() {
        eprintln!("TRACE {id} params={:?} script={:?} world={}", scn.params, scn.script, scn.desc);
    }
    // C07: a second, identically constructed and identically driven instance
    let twin_keys: Option<Vec<(Resp, Vec<Vec<u64>>)>> = if scn.params.seed.is_some() && !py_mode {
        log::reset();
        let outs2 = run_script(
            &twin.params,
            twin.space.clone(),
            &twin.problems,
            &twin.checkers,
            &twin.script,
            tmo,
        );
        Some(
            outs2
                .iter()
                .map(|o| {
                    (
                        match &o.resp {
                            Resp::Path(_) => Resp::Path(vec![]),
                            r => r.clone(),
                        },
                        o.path.as_ref().map(|p| p.iter().map(|s| s.key()).collect()).unwrap_or_default(),
                    )
                })
                .collect(),
        )
    } else {
        None
    };
    // C17: the same problem, seed and calls given to plain RRT
    let rrt_paths: Option<Vec<Option<Vec<S>>>> = if scn.params.kind == PlannerKind::Star && scn.params.seed.is_some() && !py_mode {
        log::reset();
        rrt_twin.params.kind = PlannerKind::Rrt;
        let o3 = run_script(
            &rrt_twin.params,
            rrt_twin.space.clone(),
            &rrt_twin.problems,
            &rrt_twin.checkers,
            &rrt_twin.script,
            tmo,
        );
        Some(o3.into_iter().map(|o| o.path).collect())
    } else {
        None
    };
    log::reset();
    let outs = run_script(
        &scn.params,
        scn.space.clone(),
        &scn.problems,
        &scn.checkers,
        &scn.script,
        tmo,
    );
    // the validity-callback trace of the planner run itself (the oracles below call the predicates again)
    let trace_snapshot = scn.trace.as_ref().map(|t| *t.lock().unwrap());
    let mut findings = oracle::check_all(&scn, &outs);
    if let Some(tk) = &twin_keys {
        let mut panicked = false;
        for (ci, (o, (r2, k2))) in outs.iter().zip(tk.iter()).enumerate() {
            let r1 = match &o.resp {
                Resp::Path(_) => Resp::Path(vec![]),
                r => r.clone(),
            };
            let k1: Vec<Vec<u64>> = o.path.as_ref().map(|p| p.iter().map(|s| s.key()).collect()).unwrap_or_default();
            let same = match (&r1, r2) {
                (Resp::Panic(_), Resp::Panic(_)) => true,
                (a, b) => a == b,
            } && &k1 == k2;
            if !same && !panicked {
                findings.push(oracle::Finding {
                    property: "C07",
                    class: "seeded_runs_differ".into(),
                    what: format!("two planners with the same seed and the same calls differ at call {ci}"),
                    call: ci,
                });
                break;
            }
            if matches!(o.resp, Resp::Panic(_)) {
                panicked = true;
            }
        }
    }
    let starts: Vec<Vec<u32>> = scn
        .problems
        .iter()
        .map(|p| p.starts.iter().map(log::intern).collect())
        .collect();
    let lg = log::take();
    findings.extend(oracle::check_iter(&scn, &outs, &lg));
    findings.extend(oracle::check_star(&scn, &outs, &lg));
    findings.extend(oracle::check_prm(&scn, &outs, free));
    if let Some(rp) = &rrt_paths {
        let sp = &scn.space.inner;
        let dist_ok = !lg.dist.values().any(|b| {
            let d = f64::from_bits(*b);
            d.is_nan() || d < 0.0
        });
        // compare up to the first call where either planner stopped with a path (later calls start
        // from different trees)
        for (ci, (o, p1)) in outs.iter().zip(rp.iter()).enumerate() {
            if matches!(o.resp, Resp::Panic(_)) {
                break; // a panic drops the seeded generator: later calls are not comparable
            }
            match (&o.path, p1) {
                (Some(ps), Some(pr)) => {
                    if ps.last().map(|s| s.key()) != pr.last().map(|s| s.key()) {
                        findings.push(oracle::Finding {
                            property: "C17",
                            class: "end_state_differs_from_rrt".into(),
                            what: "RRT* and RRT (same seed, problem, calls) end at different states".into(),
                            call: ci,
                        });
                    } else if dist_ok {
                        // root-to-leaf left fold, each edge measured as dist(child, parent)
                        let len = |p: &Vec<S>| p.windows(2).fold(0.0f64, |acc, w| acc + sp.distance(&w[1], &w[0]));
                        let (ls, lr) = (len(ps), len(pr));
                        if !(ls <= lr) {
                            findings.push(oracle::Finding {
                                property: "C17",
                                class: "longer_than_rrt".into(),
                                what: format!("RRT* path length {ls} exceeds RRT's {lr} for the same seed and problem"),
                                call: ci,
                            });
                        }
                    }
                    break;
                }
                (None, None) => {}
                _ => {
                    if !matches!(o.resp, Resp::Panic(_)) {
                        findings.push(oracle::Finding {
                            property: "C17",
                            class: "stops_at_different_iteration_than_rrt".into(),
                            what: "only one of RRT* / RRT (same seed, problem, calls) returned a path from this call".into(),
                            call: ci,
                        });
                    }
                    break;
                }
            }
        }
    }
    let pv = provenance(&scn.params, &scn.script, &lg);
    if scn.params.seed.is_some() {
        // every draw of a seeded planner must come from its seeded stream (until a call panics)
        let first_panic = outs.iter().position(|o| matches!(o.resp, Resp::Panic(_))).unwrap_or(usize::MAX);
        if let Some((call, _, _)) = pv.trace.iter().find(|(call, g, _)| *g == 1 && *call <= first_panic) {
            findings.push(oracle::Finding {
                property: "C07",
                class: "foreign_randomness".into(),
                what: format!("a seeded planner drew from a generator other than its seeded one during call {call}"),
                call: *call,
            });
        }
    }
    // very large runs (real-clock scenarios that ran long) are compared Python-vs-Rust only
    let cap: usize = std::env::var("OXH_MODEL_CAP").ok().and_then(|s| s.parse().ok()).unwrap_or(1500);
    let too_big = lg.keys.len() > cap || lg.interp.len() > cap * 14;
    let coq = if too_big { "0".to_string() } else { coq_case(&scn.params, &scn.script, &starts, &lg, &pv, &outs).replace('\n', " ") };
    let max_nodes = outs
        .iter()
        .map(|o| o.snap.tree.len().max(o.snap.gtree.len()).max(o.snap.rm.len()))
        .max()
        .unwrap_or(0);
    let n_rejected = lg.valid.values().filter(|b| !**b).count();
    let kinds: Vec<String> = outs
        .iter()
        .map(|o| match &o.resp {
            Resp::Path(p) => format!("path{}", p.len().min(9)),
            Resp::Err(e) => run::err_name(*e).to_string(),
            Resp::Unit => "ok".into(),
            Resp::Panic(_) => "panic".into(),
        })
        .collect();
    let interesting = kinds.iter().any(|k| k != "ok" && k != "Timeout");
    let nontrivial = (max_nodes >= 2 && n_rejected >= 1) || interesting;
    let json = J::obj(vec![
        ("id", J::s(id)),
        ("family", J::Str(scn.family.clone())),
        ("planner", J::s(scn.params.kind.name())),
        (
            "params",
            J::obj(vec![
                ("max_distance", J::Num(scn.params.maxd)),
                ("goal_bias", J::Num(scn.params.bias)),
                ("radius", J::Num(scn.params.radius)),
                ("seed", scn.params.seed.map(|s| J::Int(s as i128)).unwrap_or(J::Null)),
            ]),
        ),
        ("classes", J::Arr(scn.classes.iter().map(|c| J::Str(c.clone())).collect())),
        ("world", scn.desc.clone()),
        ("script", J::Arr(scn.script.iter().map(call_json).collect())),
        ("responses", J::Arr(outs.iter().map(|o| resp_json(&o.resp)).collect())),
        ("kinds", J::Arr(kinds.iter().map(|k| J::Str(k.clone())).collect())),
        ("ticks", J::Arr(outs.iter().map(|o| J::Int(o.ticks as i128)).collect())),
        ("wall_ms", J::Arr(outs.iter().map(|o| J::Num(o.wall_ns as f64 / 1e6)).collect())),
        ("final_snapshot", outs.last().map(|o| oracle::snap_json(&o.snap)).unwrap_or(J::Null)),
        ("py_mirror", match (&trace_snapshot, &scn.flat) {
            (Some(t), Some(flat)) => J::obj(vec![
                ("valid_trace_hash", J::Str(format!("{:016x}", t.0))),
                ("valid_calls", J::Int(t.1 as i128)),
                ("paths", J::Arr(outs.iter().map(|o| match &o.path {
                    Some(p) => J::Arr(p.iter().map(|s| J::Arr(flat(s).iter().map(|x| J::Str(format!("{:016x}", x.to_bits()))).collect())).collect()),
                    None => J::Null,
                }).collect())),
            ]),
            _ => J::Null,
        }),
        ("max_nodes", J::Int(max_nodes as i128)),
        ("rejected_states", J::Int(n_rejected as i128)),
        ("valid_queries", J::Int(lg.n_valid_queries as i128)),
        ("dist_queries", J::Int(lg.n_dist_queries as i128)),
        ("states", J::Int(lg.keys.len() as i128)),
        ("seeded_events", J::Int(pv.seeded_events as i128)),
        ("foreign_events", J::Int(pv.foreign_events as i128)),
        ("u32_draws", J::Int(lg.u32_draws as i128)),
        ("inconsistent", J::Arr(lg.inconsistent.iter().map(|s| J::Str(s.clone())).collect())),
        ("nontrivial", J::Bool(nontrivial)),
        ("no_model", J::Bool(too_big)),
        ("findings", J::Arr(findings.iter().map(|f| f.json()).collect())),
    ]);
    CaseOut {
        id: id.to_string(),
        json,
        coq,
    }
}

fn opts_of_flags(flags: &str) -> GenOpts {
    GenOpts {
        only_planner: if flags.contains('R') {
            Some(PlannerKind::Rrt)
        } else if flags.contains('S') {
            Some(PlannerKind::Star)
        } else if flags.contains('C') {
            Some(PlannerKind::Conn)
        } else if flags.contains('Q') {
            Some(PlannerKind::Prm)
        } else {
            None
        },
        faults: flags.contains('f'),
        misuse: flags.contains('m'),
        per_iteration: flags.contains('i'),
        free: flags.contains('o'),
        timing: flags.contains('t'),
        dense: flags.contains('d'),
    }
}

/// case id = family:seed:index:flags  (flags: f faults, m misuse, i per-iteration, R/S/C/Q planner)
fn run_family(family: &str, seed: u64, index: u64, flags: &str) -> CaseOut {
    let o = &opts_of_flags(flags);
    let id = format!("{family}:{seed}:{index}:{flags}");
    let mut r = Sm::new(seed, &format!("{family}/{flags}"), index);
    let mut r2 = r.clone();
    let mut r3 = r.clone();
    let fr = o.free;
    match family {
        "table" => exec_case(scen::build_table(&mut r, o), scen::build_table(&mut r2, o), scen::build_table(&mut r3, o), fr, &id),
        "rv" => exec_case(scen::build_rv(&mut r, o), scen::build_rv(&mut r2, o), scen::build_rv(&mut r3, o), fr, &id),
        "so2" => exec_case(scen::build_so2(&mut r, o), scen::build_so2(&mut r2, o), scen::build_so2(&mut r3, o), fr, &id),
        "so3" => exec_case(scen::build_so3(&mut r, o), scen::build_so3(&mut r2, o), scen::build_so3(&mut r3, o), fr, &id),
        "se2" => exec_case(scen::build_se2(&mut r, o), scen::build_se2(&mut r2, o), scen::build_se2(&mut r3, o), fr, &id),
        "se3" => exec_case(scen::build_se3(&mut r, o), scen::build_se3(&mut r2, o), scen::build_se3(&mut r3, o), fr, &id),
        "css" => exec_case(scen::build_css(&mut r, o), scen::build_css(&mut r2, o), scen::build_css(&mut r3, o), fr, &id),
        "py-rv" => exec_case(scen::build_py_rv(&mut r, o), scen::build_py_rv(&mut r2, o), scen::build_py_rv(&mut r3, o), fr, &id),
        "py-so2" => exec_case(scen::build_py_so2(&mut r, o), scen::build_py_so2(&mut r2, o), scen::build_py_so2(&mut r3, o), fr, &id),
        "py-so3" => exec_case(scen::build_py_so3(&mut r, o), scen::build_py_so3(&mut r2, o), scen::build_py_so3(&mut r3, o), fr, &id),
        "py-se2" => exec_case(scen::build_py_se2(&mut r, o), scen::build_py_se2(&mut r2, o), scen::build_py_se2(&mut r3, o), fr, &id),
        "py-se3" => exec_case(scen::build_py_se3(&mut r, o), scen::build_py_se3(&mut r2, o), scen::build_py_se3(&mut r3, o), fr, &id),
        "py-css" => exec_case(scen::build_py_css(&mut r, o), scen::build_py_css(&mut r2, o), scen::build_py_css(&mut r3, o), fr, &id),
        _ => panic!("unknown family {family}"),
    }
}

fn parse_id(id: &str) -> (String, u64, u64, String) {
    let parts: Vec<&str> = id.trim().split(':').collect();
    (
        parts[0].to_string(),
        parts[1].parse().unwrap(),
        parts[2].parse().unwrap(),
        parts.get(3).unwrap_or(&"").to_string(),
    )
}

fn arg<'a>(args: &'a [String], name: &str) -> Option<&'a str> {
    args.iter().position(|a| a == name).and_then(|i| args.get(i + 1)).map(|s| s.as_str())
}

fn main() {
    let args: Vec<String> = std::env::args().collect();
    let cmd = args.get(1).map(|s| s.as_str()).unwrap_or("");
    match cmd {
        "planners" => planners(&args),
        "spaces" => spmain::main(&args),
        _ => {
            eprintln!("usage: oxh planners --seed S --families table:100,rv:10 --out DIR [--only-planner rrt|rrtstar|rrtconnect|prm] [--faults] [--misuse] [--per-iteration] [--case ID]");
            std::process::exit(2);
        }
    }
}

fn planners(args: &[String]) {
    run::install_panic_hook();
    let seed: u64 = arg(args, "--seed").and_then(|s| s.parse().ok()).unwrap_or(0);
    let out = arg(args, "--out").unwrap_or("out").to_string();
    let threads: usize = arg(args, "--threads").and_then(|s| s.parse().ok()).unwrap_or(8);
    let mut flags = String::new();
    if args.iter().any(|a| a == "--faults") {
        flags.push('f');
    }
    if args.iter().any(|a| a == "--misuse") {
        flags.push('m');
    }
    if args.iter().any(|a| a == "--per-iteration") {
        flags.push('i');
    }
    if args.iter().any(|a| a == "--free") {
        flags.push('o');
    }
    if args.iter().any(|a| a == "--timing") {
        flags.push('t');
    }
    if args.iter().any(|a| a == "--dense") {
        flags.push('d');
    }
    match arg(args, "--only-planner") {
        Some("rrt") => flags.push('R'),
        Some("rrtstar") => flags.push('S'),
        Some("rrtconnect") => flags.push('C'),
        Some("prm") => flags.push('Q'),
        _ => {}
    }
    std::fs::create_dir_all(&out).unwrap();
    // work list
    let mut work: Vec<(String, u64, u64, String)> = Vec::new();
    if let Some(id) = arg(args, "--case") {
        work.push(parse_id(id));
    }
    if let Some(f) = arg(args, "--cases-file") {
        if let Ok(txt) = std::fs::read_to_string(f) {
            for line in txt.lines() {
                let line = line.split('#').next().unwrap().trim();
                if !line.is_empty() {
                    work.push(parse_id(line));
                }
            }
        }
    }
    if let Some(fams) = arg(args, "--families") {
        for spec in fams.split(',') {
            let (fam, n) = spec.split_once(':').unwrap();
            let n: u64 = n.parse().unwrap();
            for i in 0..n {
                work.push((fam.to_string(), seed, i, flags.clone()));
            }
        }
    }
    let work = Arc::new(Mutex::new(work.into_iter().enumerate().collect::<Vec<_>>()));
    let results: Arc<Mutex<Vec<(usize, CaseOut)>>> = Arc::new(Mutex::new(Vec::new()));
    let mut handles = vec![];
    for th in 0..threads {
        let work = work.clone();
        let results = results.clone();
        let out = out.clone();
        handles.push(
            std::thread::Builder::new()
                .stack_size(64 << 20)
                .spawn(move || loop {
                    let item = work.lock().unwrap().pop();
                    let Some((n, (fam, seed, idx, fl))) = item else { break };
                    let marker = format!("{out}/inflight_{th}.txt");
                    std::fs::write(&marker, format!("{fam}:{seed}:{idx}:{fl}\n")).ok();
                    let c = run_family(&fam, seed, idx, &fl);
                    std::fs::remove_file(&marker).ok();
                    results.lock().unwrap().push((n, c));
                })
                .unwrap(),
        );
    }
    for h in handles {
        h.join().unwrap();
    }
    let mut res = std::mem::take(&mut *results.lock().unwrap());
    res.sort_by_key(|(n, _)| *n);
    let mut fj = std::io::BufWriter::new(std::fs::File::create(format!("{out}/cases.jsonl")).unwrap());
    let mut fc = std::io::BufWriter::new(std::fs::File::create(format!("{out}/cases.coq")).unwrap());
    for (_, c) in &res {
        writeln!(fj, "{}", c.json).unwrap();
        writeln!(fc, "{}\t{}", c.id, c.coq).unwrap();
    }
    fj.flush().unwrap();
    fc.flush().unwrap();
    eprintln!("oxh: {} cases written to {out}", res.len());
}
