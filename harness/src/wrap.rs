//! Logging wrappers around the real space / goal / checker types (no patching of oxmpl needed:
//! the planners are generic over these traits).
use crate::log::{self, Key, SKind, SampleEvent};
use oxmpl::base::{
    error::StateSamplingError,
    goal::{Goal, GoalRegion, GoalSampleableRegion},
    space::StateSpace,
    state::State,
    validity::StateValidityChecker,
};
use rand::{Rng, RngCore};
use std::cell::{Cell, RefCell};

/// Records every u64 the wrapped generator hands out.
pub struct CountingRng<'a> {
    pub inner: &'a mut dyn RngCore,
    pub draws: Vec<u64>,
}
impl<'a> RngCore for CountingRng<'a> {
    fn next_u32(&mut self) -> u32 {
        log::with(|l| l.u32_draws += 1);
        self.inner.next_u32()
    }
    fn next_u64(&mut self) -> u64 {
        let v = self.inner.next_u64();
        self.draws.push(v);
        v
    }
    fn fill_bytes(&mut self, dest: &mut [u8]) {
        log::with(|l| l.u32_draws += 1);
        self.inner.fill_bytes(dest)
    }
}

struct DynRng<'a, R: Rng + ?Sized>(&'a mut R);
impl<'a, R: Rng + ?Sized> RngCore for DynRng<'a, R> {
    fn next_u32(&mut self) -> u32 {
        self.0.next_u32()
    }
    fn next_u64(&mut self) -> u64 {
        self.0.next_u64()
    }
    fn fill_bytes(&mut self, dest: &mut [u8]) {
        self.0.fill_bytes(dest)
    }
}

fn push_event(kind: SKind, draws: Vec<u64>, result: Option<u32>) {
    log::with(|l| {
        let at_ns = l.now_ns();
        let call = l.cur_call;
        l.events.push(SampleEvent {
            kind,
            draws,
            result,
            at_ns,
            call,
        })
    });
}

/// A scripted sampler entry: a state, or a failure.
pub type Script<S> = Vec<Option<S>>;

pub struct LogSpace<SP: StateSpace> {
    pub inner: SP,
    /// When present, sample_uniform draws one u64 (to keep the generator's provenance observable)
    /// and returns the next scripted entry; after the script is exhausted the real sampler is used.
    pub script: RefCell<Option<Script<SP::StateType>>>,
    pub script_pos: Cell<usize>,
    /// artificial delay per distance call (C06 amplification), nanoseconds
    pub slow_ns: Cell<u64>,
}

impl<SP: StateSpace> LogSpace<SP> {
    pub fn new(inner: SP) -> Self {
        LogSpace {
            inner,
            script: RefCell::new(None),
            script_pos: Cell::new(0),
            slow_ns: Cell::new(0),
        }
    }
}

impl<SP> StateSpace for LogSpace<SP>
where
    SP: StateSpace,
    SP::StateType: Key + Clone,
{
    type StateType = SP::StateType;

    fn distance(&self, a: &Self::StateType, b: &Self::StateType) -> f64 {
        let d = self.inner.distance(a, b);
        let (ia, ib) = (log::intern(a), log::intern(b));
        log::log_dist(ia, ib, d.to_bits());
        d
    }

    fn interpolate(&self, from: &Self::StateType, to: &Self::StateType, t: f64, out: &mut Self::StateType) {
        self.inner.interpolate(from, to, t, out);
        let (ia, ib, ic) = (log::intern(from), log::intern(to), log::intern(out));
        log::log_interp(ia, ib, t.to_bits(), ic);
    }

    fn enforce_bounds(&self, state: &mut Self::StateType) {
        self.inner.enforce_bounds(state)
    }

    fn satisfies_bounds(&self, state: &Self::StateType) -> bool {
        self.inner.satisfies_bounds(state)
    }

    fn sample_uniform(&self, rng: &mut impl Rng) -> Result<Self::StateType, StateSamplingError> {
        let mut dynr = DynRng(rng);
        let mut c = CountingRng {
            inner: &mut dynr,
            draws: Vec::new(),
        };
        let scripted: Option<Option<Self::StateType>> = {
            let s = self.script.borrow();
            match &*s {
                Some(sc) if self.script_pos.get() < sc.len() => {
                    let e = sc[self.script_pos.get()].clone();
                    self.script_pos.set(self.script_pos.get() + 1);
                    Some(e)
                }
                _ => None,
            }
        };
        let res = match scripted {
            Some(entry) => {
                let _ = c.next_u64();
                entry.ok_or(StateSamplingError::ZeroVolume)
            }
            None => self.inner.sample_uniform(&mut c),
        };
        let id = res.as_ref().ok().map(log::intern);
        push_event(SKind::Uniform, c.draws, id);
        res
    }

    fn get_longest_valid_segment_length(&self) -> f64 {
        let l = self.inner.get_longest_valid_segment_length();
        log::with(|lg| {
            if let Some(old) = lg.lvs {
                if old != l.to_bits() {
                    lg.inconsistent.push("lvs".into());
                }
            }
            lg.lvs = Some(l.to_bits())
        });
        l
    }
}

pub type Pred<S> = Box<dyn Fn(&S) -> bool>;
pub type GoalSampler<S> = Box<dyn Fn(&mut dyn RngCore) -> Result<S, StateSamplingError>>;

pub struct LogGoal<S> {
    pub id: u32,
    pub pred: Pred<S>,
    pub sampler: GoalSampler<S>,
}
impl<S: State + Key + Clone> Goal<S> for LogGoal<S> {
    fn is_satisfied(&self, s: &S) -> bool {
        let ans = (self.pred)(s);
        log::log_goal(self.id, log::intern(s), ans);
        ans
    }
}
impl<S: State + Key + Clone> GoalRegion<S> for LogGoal<S> {
    fn distance_goal(&self, _s: &S) -> f64 {
        0.0
    }
}
impl<S: State + Key + Clone> GoalSampleableRegion<S> for LogGoal<S> {
    fn sample_goal(&self, rng: &mut impl Rng) -> Result<S, StateSamplingError> {
        let mut dynr = DynRng(rng);
        let mut c = CountingRng {
            inner: &mut dynr,
            draws: Vec::new(),
        };
        let res = (self.sampler)(&mut c);
        let id = res.as_ref().ok().map(log::intern);
        push_event(SKind::Goal(self.id), c.draws, id);
        res
    }
}

pub struct LogChecker<S> {
    pub id: u32,
    pub pred: Pred<S>,
    pub slow_ns: u64,
    /// every distinct state the checker accepted (for the C03 / C15 direct oracles)
    pub accepted: RefCell<Vec<S>>,
    pub accepted_ids: RefCell<std::collections::HashSet<u32>>,
}
impl<S> LogChecker<S> {
    pub fn new(id: u32, pred: Pred<S>) -> Self {
        LogChecker {
            id,
            pred,
            slow_ns: 0,
            accepted: RefCell::new(Vec::new()),
            accepted_ids: RefCell::new(Default::default()),
        }
    }
}
impl<S: State + Key + Clone> StateValidityChecker<S> for LogChecker<S> {
    fn is_valid(&self, s: &S) -> bool {
        if self.slow_ns > 0 {
            let t = std::time::Instant::now();
            while (t.elapsed().as_nanos() as u64) < self.slow_ns {}
        }
        let ans = (self.pred)(s);
        let id = log::intern(s);
        log::log_valid(self.id, id, ans);
        if ans && self.accepted_ids.borrow_mut().insert(id) {
            self.accepted.borrow_mut().push(s.clone());
        }
        ans
    }
}
