//! `oxh spaces --family metric|interp|bounds|ctor|compound|sampling --seed S --count N --out DIR`
use crate::json::J;
use crate::oracle::Finding;
use crate::prng::Sm;
use crate::spaces::*;
use oxmpl::base::space::StateSpace;
use rand::{rngs::StdRng, SeedableRng};
use std::f64::consts::PI;
use std::io::Write;

fn all_leaf_spaces(r: &mut Sm) -> Vec<Sp> {
    let mut v = rv_spaces(r);
    v.extend(so2_spaces(r));
    v.extend(so3_spaces(r));
    v
}

fn push(cases: &mut Vec<SpCase>, c: Option<SpCase>, extra: Vec<Finding>) {
    if let Some(mut c) = c {
        c.findings.extend(extra);
        cases.push(c);
    }
}

pub fn gen_family(family: &str, seed: u64, count: usize, malformed: bool) -> Vec<SpCase> {
    let mut r = Sm::new(seed, family, 0);
    let mut cases: Vec<SpCase> = vec![];
    let mut n = 0usize;
    let mut next_id = |fam: &str| {
        n += 1;
        format!("sp-{fam}:{seed}:{n}")
    };
    let mut spaces = all_leaf_spaces(&mut r);
    spaces.extend(compound_spaces(&mut r, 12));
    match family {
        "metric" => {
            // deterministic grid first (not in the malformed stream): every unordered pair of the special angles /
            // quaternions (seam, antipodes, equal and nearly equal rotations), with a third state for the triangle
            if !malformed {
                let so2 = Sp::So2 { bounds: None, frac: None };
                let so3 = Sp::So3 { bounds: None, frac: None };
                let angs = angles(&mut r, false);
                let qs = quats(&mut r, false);
                let mut grid: Vec<(Sp, St, St, St)> = vec![];
                for i in 0..angs.len() {
                    for j in i..angs.len() {
                        grid.push((so2.clone(), St::So2(angs[i]), St::So2(angs[j]), St::So2(angs[(i + 2 * j + 1) % angs.len()])));
                    }
                }
                for i in 0..qs.len() {
                    for j in i..qs.len() {
                        grid.push((so3.clone(), St::So3(qs[i]), St::So3(qs[j]), St::So3(qs[(i + 2 * j + 1) % qs.len()])));
                    }
                }
                for (sp, a, b, c) in grid {
                    let Ok(real) = build(&sp) else { continue };
                    let mut f = vec![];
                    oracle_metric(&sp, &real, &a, &b, &c, &mut f);
                    push(&mut cases, case_dist(next_id(family), &sp, &a, &b), f);
                }
            }
            let count = count + cases.len();
            while cases.len() < count {
                let sp = r.pick(&spaces).clone();
                let Ok(real) = build(&sp) else { continue };
                let (a, b, c) = (state_for(&sp, &mut r, malformed), state_for(&sp, &mut r, malformed), state_for(&sp, &mut r, malformed));
                let mut f = vec![];
                if !malformed {
                    oracle_metric(&sp, &real, &a, &b, &c, &mut f);
                }
                push(&mut cases, case_dist(next_id(family), &sp, &a, &b), f);
                push(&mut cases, case_dist(next_id(family), &sp, &a, &a), vec![]);
                push(&mut cases, case_dist(next_id(family), &sp, &b, &c), vec![]);
            }
        }
        "interp" => {
            // deterministic grid first: bounded SO(2) / SE(2) / box spaces between the ends and the middle of their
            // intervals (exact half-turn ties, motions along the boundary)
            for sp in spaces.clone() {
                let Ok(real) = build(&sp) else { continue };
                let ends = |lo: f64, hi: f64| vec![lo, hi, lo + (hi - lo) / 2.0, lo + (hi - lo) / 3.0];
                let sts: Vec<St> = match &sp {
                    Sp::So2 { bounds: Some((lo, hi)), .. } => ends(lo.max(-PI), hi.min(PI)).into_iter().map(St::So2).collect(),
                    Sp::Se2 { bounds: Some(b), .. } if b.len() == 3 => ends(b[2].0.max(-PI), b[2].1.min(PI)).into_iter().map(|a| St::C(vec![St::Rv(vec![b[0].0, b[1].1]), St::So2(a)])).collect(),
                    Sp::Rv { bounds: Some(b), dim, .. } if *dim > 0 && b.iter().all(|(l, h)| l.is_finite() && h.is_finite()) => {
                        vec![St::Rv(b.iter().map(|x| x.0).collect()), St::Rv(b.iter().map(|x| x.1).collect()), St::Rv(b.iter().map(|x| x.0 + (x.1 - x.0) / 3.0).collect())]
                    }
                    _ => vec![],
                };
                for a in &sts {
                    for b in &sts {
                        for t in [0.5, 0.25, 1.0 / 3.0, 0.9] {
                            let mut f = vec![];
                            oracle_interp(&sp, &real, a, b, t, &mut f);
                            oracle_convex(&sp, &real, a, b, t, &mut f);
                            push(&mut cases, case_interp(next_id(family), &sp, a, b, t, a), f);
                        }
                    }
                }
            }
            let count = count + cases.len();
            while cases.len() < count {
                let sp = r.pick(&spaces).clone();
                let Ok(real) = build(&sp) else { continue };
                let (a, b) = (state_for(&sp, &mut r, malformed), state_for(&sp, &mut r, malformed));
                let t = { let tmp_ = ts(&mut r, malformed); *r.pick(&tmp_) };
                let mut f = vec![];
                if !malformed {
                    oracle_interp(&sp, &real, &a, &b, t, &mut f);
                    oracle_convex(&sp, &real, &a, &b, t, &mut f);
                }
                push(&mut cases, case_interp(next_id(family), &sp, &a, &b, t, &a), f);
                push(&mut cases, case_dist(next_id(family), &sp, &a, &b), vec![]);
            }
        }
        "bounds" => {
            // deterministic grid first: every leaf space against every special state of its kind (zero / tiny /
            // huge / non-unit quaternions, angles on and around the seam, coordinates on and beyond the bounds),
            // and the SE(2)/SE(3)/compound spaces against a handful each
            for sp in spaces.clone() {
                let Ok(real) = build(&sp) else { continue };
                let sts: Vec<St> = match &sp {
                    Sp::So2 { .. } => angles(&mut r, true).into_iter().map(St::So2).collect(),
                    Sp::So3 { .. } => quats(&mut r, true).into_iter().map(St::So3).collect(),
                    Sp::Se3 { .. } => quats(&mut r, true).into_iter().map(|q| {
                        let pool = reals(&mut r, false);
                        St::C(vec![St::Rv(vec![*r.pick(&pool), *r.pick(&pool), *r.pick(&pool)]), St::So3(q)])
                    }).collect(),
                    Sp::Se2 { .. } => angles(&mut r, true).into_iter().map(|a| {
                        let pool = reals(&mut r, false);
                        St::C(vec![St::Rv(vec![*r.pick(&pool), *r.pick(&pool)]), St::So2(a)])
                    }).collect(),
                    _ => (0..8).map(|_| state_for(&sp, &mut r, true)).collect(),
                };
                for s in sts {
                    let mut f = vec![];
                    oracle_bounds(&sp, &real, &s, &mut f);
                    push(&mut cases, case_enforce(next_id(family), &sp, &s), f);
                }
            }
            let count = count + cases.len();
            while cases.len() < count {
                let sp = r.pick(&spaces).clone();
                let Ok(real) = build(&sp) else { continue };
                let s = state_for(&sp, &mut r, true);
                let mut f = vec![];
                oracle_bounds(&sp, &real, &s, &mut f);
                push(&mut cases, case_enforce(next_id(family), &sp, &s), f);
                push(&mut cases, case_satisfies(next_id(family), &sp, &s), vec![]);
                if r.chance(0.4) {
                    let us: Vec<u64> = if r.chance(0.15) { vec![u64::MAX; 40] } else if r.chance(0.1) { vec![0; 40] } else { (0..40).map(|_| r.next()).collect() };
                    push(&mut cases, case_sample(next_id(family), &sp, &us), vec![]);
                }
            }
        }
        "ctor" => {
            let vals = [PI, -PI, 4.0, -4.0, 5.0, 1.0, -1.0, 0.0, f64::INFINITY, f64::NEG_INFINITY, f64::NAN, 3.0];
            for lo in vals {
                for hi in vals {
                    cases.push(case_ctor(next_id(family), &Sp::So2 { bounds: Some((lo, hi)), frac: None }));
                    cases.push(case_ctor(next_id(family), &Sp::Rv { dim: 1, bounds: Some(vec![(lo, hi)]), frac: None }));
                    cases.push(case_ctor(next_id(family), &Sp::Rv { dim: 2, bounds: Some(vec![(0.0, 1.0), (lo, hi)]), frac: None }));
                    for dim in 0..3usize {
                        for len in 0..3usize {
                            if (lo.to_bits() ^ hi.to_bits()) % 5 == (dim + len) as u64 % 5 {
                                cases.push(case_ctor(next_id(family), &Sp::Rv { dim, bounds: Some(vec![(lo, hi); len]), frac: None }));
                            }
                        }
                    }
                    if (lo.to_bits() ^ hi.to_bits()) % 7 == 0 {
                        cases.push(case_ctor(next_id(family), &Sp::Se2 { w: 1.0, bounds: Some(vec![(0.0, 1.0), (0.0, 1.0), (lo, hi)]) }));
                        cases.push(case_ctor(next_id(family), &Sp::Se2 { w: 0.5, bounds: Some(vec![(lo, hi), (0.0, 1.0), (-1.0, 1.0)]) }));
                        cases.push(case_ctor(next_id(family), &Sp::Se3 { w: 1.0, bounds: Some(vec![(lo, hi), (0.0, 1.0), (-1.0, 1.0)]) }));
                    }
                }
            }
            cases.push(case_ctor(next_id(family), &Sp::So2 { bounds: None, frac: None }));
            for dim in 0..4usize {
                cases.push(case_ctor(next_id(family), &Sp::Rv { dim, bounds: None, frac: None }));
            }
            for m in [-1.0, -0.0, 0.0, 1e-10, 1.0, PI, 4.0, f64::INFINITY, f64::NAN, f64::NEG_INFINITY] {
                for q in quats(&mut r, true).iter().take(6) {
                    cases.push(case_ctor(next_id(family), &Sp::So3 { bounds: Some((*q, m)), frac: None }));
                }
            }
            cases.push(case_ctor(next_id(family), &Sp::So3 { bounds: None, frac: None }));
            for len in 0..5usize {
                cases.push(case_ctor(next_id(family), &Sp::Se2 { w: 1.0, bounds: Some(vec![(0.0, 1.0); len]) }));
                cases.push(case_ctor(next_id(family), &Sp::Se3 { w: 1.0, bounds: Some(vec![(0.0, 1.0); len]) }));
            }
            cases.push(case_ctor(next_id(family), &Sp::Se2 { w: 1.0, bounds: None }));
            cases.push(case_ctor(next_id(family), &Sp::Se3 { w: 1.0, bounds: None }));
            let mut angs = angles(&mut r, true);
            angs.extend([1e300, -1e300, 1e-320, 123456.789, -7.0e15, 2.0f64.powi(60)]);
            for _ in 0..60 {
                let e = r.range(-300.0, 300.0);
                angs.push(10f64.powf(e) * if r.chance(0.5) { 1.0 } else { -1.0 });
            }
            for v in angs {
                cases.push(case_so2new(next_id(family), v));
            }
            let mut qs = quats(&mut r, true);
            qs.extend([[1e-200, 0.0, 0.0, 0.0], [3e-10, 4e-10, 0.0, 0.0], [1e154, 1e154, 0.0, 0.0], [5e-324, 0.0, 0.0, 0.0], [0.0, 0.0, 0.0, -3.0]]);
            for q in qs {
                cases.push(case_so3norm(next_id(family), &q));
            }
            // fraction setter through the resolution
            for sp in all_leaf_spaces(&mut r) {
                for f in fracs() {
                    let sp2 = match &sp {
                        Sp::Rv { dim, bounds, .. } => Sp::Rv { dim: *dim, bounds: bounds.clone(), frac: f },
                        Sp::So2 { bounds, .. } => Sp::So2 { bounds: *bounds, frac: f },
                        Sp::So3 { bounds, .. } => Sp::So3 { bounds: *bounds, frac: f },
                        o => o.clone(),
                    };
                    if r.chance(0.3) {
                        push(&mut cases, case_lvs(next_id(family), &sp2), vec![]);
                    }
                }
            }
        }
        "compound" => {
            let comps = compound_spaces(&mut r, 40);
            while cases.len() < count {
                let sp = r.pick(&comps).clone();
                let Ok(real) = build(&sp) else { continue };
                let (a, b) = (state_for(&sp, &mut r, malformed), state_for(&sp, &mut r, malformed));
                let t = { let tmp_ = ts(&mut r, false); *r.pick(&tmp_) };
                let mut f = vec![];
                if !malformed {
                    oracle_compound(&sp, &real, &a, &b, t, &mut f);
                }
                push(&mut cases, case_dist(next_id(family), &sp, &a, &b), f);
                push(&mut cases, case_interp(next_id(family), &sp, &a, &b, t, &a), vec![]);
                push(&mut cases, case_enforce(next_id(family), &sp, &a), vec![]);
                push(&mut cases, case_satisfies(next_id(family), &sp, &a), vec![]);
                push(&mut cases, case_lvs(next_id(family), &sp), vec![]);
                let us: Vec<u64> = (0..60).map(|_| r.next()).collect();
                push(&mut cases, case_sample(next_id(family), &sp, &us), vec![]);
            }
        }
        "sampling" => {
            while cases.len() < count {
                let sp = r.pick(&spaces).clone();
                let us: Vec<u64> = (0..80).map(|_| r.next()).collect();
                push(&mut cases, case_sample(next_id(family), &sp, &us), vec![]);
            }
        }
        _ => panic!("unknown spaces family {family}"),
    }
    cases
}

// ------------------------------------------------------------------------------------------
// C14: goodness of fit (supporting evidence; a test, not a proof)

fn ks(mut xs: Vec<f64>, cdf: impl Fn(f64) -> f64) -> f64 {
    xs.sort_by(|a, b| a.partial_cmp(b).unwrap());
    let n = xs.len() as f64;
    let mut d = 0.0f64;
    for (i, x) in xs.iter().enumerate() {
        let f = cdf(*x);
        d = d.max((f - i as f64 / n).abs()).max(((i + 1) as f64 / n - f).abs());
    }
    d
}

pub fn gof(seed: u64, n: usize) -> (Vec<Finding>, J) {
    let mut out = vec![];
    let mut stats = vec![];
    // KS critical value at significance 1e-9
    let crit = ((2.0e9f64).ln() / (2.0 * n as f64)).sqrt();
    let mut rng = StdRng::seed_from_u64(seed);
    // R^2 box
    let rv = oxmpl::base::space::RealVectorStateSpace::new(2, Some(vec![(-3.0, 5.0), (10.0, 10.5)])).unwrap();
    let mut c0 = vec![];
    let mut c1 = vec![];
    let mut prod = vec![];
    for _ in 0..n {
        let s = rv.sample_uniform(&mut rng).unwrap();
        c0.push(s.values[0]);
        c1.push(s.values[1]);
        // independence: the product of the two uniform marginals on [0,1]^2 has cdf z - z ln z
        prod.push(((s.values[0] + 3.0) / 8.0) * ((s.values[1] - 10.0) / 0.5));
    }
    let tests: Vec<(&str, f64)> = vec![
        ("rv.coord0", ks(c0, |x| ((x + 3.0) / 8.0).clamp(0.0, 1.0))),
        ("rv.coord1", ks(c1, |x| ((x - 10.0) / 0.5).clamp(0.0, 1.0))),
        ("rv.independence", ks(prod, |z| if z <= 0.0 { 0.0 } else if z >= 1.0 { 1.0 } else { z - z * z.ln() })),
    ];
    for (name, d) in tests {
        stats.push((name.to_string(), d));
        if d > crit {
            out.push(finding("C14", "not_uniform:rv", format!("{name}: KS distance {d} > {crit} (n = {n})")));
        }
    }
    // SO(2)
    let so2 = oxmpl::base::space::SO2StateSpace::new(Some((-1.0, 2.0))).unwrap();
    let a: Vec<f64> = (0..n).map(|_| so2.sample_uniform(&mut rng).unwrap().value).collect();
    let d = ks(a, |x| ((x + 1.0) / 3.0).clamp(0.0, 1.0));
    stats.push(("so2.angle".into(), d));
    if d > crit {
        out.push(finding("C14", "not_uniform:so2", format!("so2.angle: KS distance {d} > {crit}")));
    }
    // a box whose first and last intervals coincide: every axis uniform on ITS OWN interval
    let rv3 = oxmpl::base::space::RealVectorStateSpace::new(3, Some(vec![(-1.0, 1.0), (-5.0, 5.0), (-1.0, 1.0)])).unwrap();
    let mut m0 = vec![];
    let mut m1 = vec![];
    let mut m2 = vec![];
    for _ in 0..n {
        let s = rv3.sample_uniform(&mut rng).unwrap();
        m0.push(s.values[0]);
        m1.push(s.values[1]);
        m2.push(s.values[2]);
    }
    for (name, d) in [
        ("rv3.coord0", ks(m0, |x| ((x + 1.0) / 2.0).clamp(0.0, 1.0))),
        ("rv3.coord1", ks(m1, |x| ((x + 5.0) / 10.0).clamp(0.0, 1.0))),
        ("rv3.coord2", ks(m2, |x| ((x + 1.0) / 2.0).clamp(0.0, 1.0))),
    ] {
        stats.push((name.to_string(), d));
        if d > crit {
            out.push(finding("C14", "not_uniform:rv_box", format!("{name}: KS distance {d} > {crit} (n = {n})")));
        }
    }
    // SO(2) bounds reaching beyond the circle are clamped by the constructor: uniform on the CLAMPED interval
    for (lo, hi) in [(-4.0f64, 4.0f64), (1.0, 5.0), (-7.0, -2.0)] {
        let sp = oxmpl::base::space::SO2StateSpace::new(Some((lo, hi))).unwrap();
        let (clo, chi) = (lo.max(-PI), hi.min(PI));
        let a: Vec<f64> = (0..n).map(|_| sp.sample_uniform(&mut rng).unwrap().value).collect();
        let d = ks(a, |x| ((x - clo) / (chi - clo)).clamp(0.0, 1.0));
        stats.push((format!("so2.clamped({lo},{hi})"), d));
        if d > crit {
            out.push(finding("C14", "not_uniform:so2_clamped_bounds", format!("so2 bounds ({lo},{hi}) clamped to ({clo},{chi}): KS distance {d} > {crit}")));
        }
    }
    // SO(3): rotation angle law (theta - sin theta)/pi, and uniform axis direction (z-coordinate uniform on [-1,1])
    let so3 = oxmpl::base::space::SO3StateSpace::new(None).unwrap();
    let mut th = vec![];
    let mut az = vec![];
    let mut ax = vec![];
    for _ in 0..n {
        let q = so3.sample_uniform(&mut rng).unwrap();
        let w = q.w.abs().min(1.0);
        let theta = 2.0 * w.acos();
        th.push(theta);
        let s = (1.0 - w * w).sqrt();
        if s > 1e-9 {
            let sg = if q.w < 0.0 { -1.0 } else { 1.0 };
            az.push(q.z * sg / s);
            ax.push(q.x * sg / s);
        }
    }
    for (name, d) in [
        ("so3.rotation_angle", ks(th, |t| ((t - t.sin()) / PI).clamp(0.0, 1.0))),
        ("so3.axis_z", ks(az, |z| ((z + 1.0) / 2.0).clamp(0.0, 1.0))),
        ("so3.axis_x", ks(ax, |z| ((z + 1.0) / 2.0).clamp(0.0, 1.0))),
    ] {
        stats.push((name.to_string(), d));
        if d > crit {
            out.push(finding("C14", "not_uniform:so3", format!("{name}: KS distance {d} > {crit} (n = {n})")));
        }
    }
    // SO(3) cone: conditioned on the cone the angle law is (theta - sin theta)/(m - sin m)
    let m = 1.2;
    let cone = oxmpl::base::space::SO3StateSpace::new(Some((oxmpl::base::state::SO3State::identity(), m))).unwrap();
    let thc: Vec<f64> = (0..n / 4).map(|_| { let q = cone.sample_uniform(&mut rng).unwrap(); 2.0 * q.w.abs().min(1.0).acos() }).collect();
    let critc = ((2.0e9f64).ln() / (2.0 * (n / 4) as f64)).sqrt();
    let d = ks(thc, |t| ((t - t.sin()) / (m - m.sin())).clamp(0.0, 1.0));
    stats.push(("so3.cone_angle".into(), d));
    if d > critc {
        out.push(finding("C14", "not_uniform:so3_cone", format!("so3.cone_angle: KS distance {d} > {critc}")));
    }
    // a narrow cone away from the identity (rejection sampling accepts ~4e-4 of the draws): same conditional law
    let m2 = 0.2;
    let c2 = { let mut c = oxmpl::base::state::SO3State::new(0.3, -0.2, 0.5, 0.7); let k = (c.x * c.x + c.y * c.y + c.z * c.z + c.w * c.w).sqrt(); c.x /= k; c.y /= k; c.z /= k; c.w /= k; c };
    let cone2 = oxmpl::base::space::SO3StateSpace::new(Some((c2.clone(), m2))).unwrap();
    let n2 = (n / 8).max(2500);
    let thn: Vec<f64> = (0..n2).map(|_| { let q = cone2.sample_uniform(&mut rng).unwrap(); cone2.distance(&c2, &q) }).collect();
    let critn = ((2.0e9f64).ln() / (2.0 * n2 as f64)).sqrt();
    let d = ks(thn, |t| ((t - t.sin()) / (m2 - m2.sin())).clamp(0.0, 1.0));
    stats.push(("so3.narrow_cone_angle".into(), d));
    if d > critn {
        out.push(finding("C14", "not_uniform:so3_narrow_cone", format!("so3.narrow_cone_angle: KS distance {d} > {critn} (n = {n2})")));
    }
    // a cone around a half-turn (centre quaternion with w = 0): relative to the centre, the rotation angle follows the
    // same conditional law and the rotation axis is uniform on the sphere
    let m3 = 1.0;
    let c3 = oxmpl::base::state::SO3State::new(0.0, 0.0, 1.0, 0.0);
    let cone3 = oxmpl::base::space::SO3StateSpace::new(Some((c3.clone(), m3))).unwrap();
    let n3 = (n / 8).max(2500);
    let mut th3 = vec![];
    let mut az3 = vec![];
    let mut ax3 = vec![];
    for _ in 0..n3 {
        let q = cone3.sample_uniform(&mut rng).unwrap();
        // rel = conj(c3) * q
        let (cx, cy, cz, cw) = (-c3.x, -c3.y, -c3.z, c3.w);
        let mut x = cw * q.x + cx * q.w + cy * q.z - cz * q.y;
        let mut y = cw * q.y - cx * q.z + cy * q.w + cz * q.x;
        let mut z = cw * q.z + cx * q.y - cy * q.x + cz * q.w;
        let mut w = cw * q.w - cx * q.x - cy * q.y - cz * q.z;
        if w < 0.0 {
            x = -x; y = -y; z = -z; w = -w;
        }
        let w = w.min(1.0);
        th3.push(2.0 * w.acos());
        let s = (1.0 - w * w).sqrt();
        if s > 1e-9 {
            az3.push(z / s);
            ax3.push(x / s);
        }
        let _ = y;
    }
    let crit3 = ((2.0e9f64).ln() / (2.0 * n3 as f64)).sqrt();
    for (name, d) in [
        ("so3.half_turn_cone_angle", ks(th3, |t| ((t - t.sin()) / (m3 - m3.sin())).clamp(0.0, 1.0))),
        ("so3.half_turn_cone_axis_z", ks(az3, |z| ((z + 1.0) / 2.0).clamp(0.0, 1.0))),
        ("so3.half_turn_cone_axis_x", ks(ax3, |z| ((z + 1.0) / 2.0).clamp(0.0, 1.0))),
    ] {
        stats.push((name.to_string(), d));
        if d > crit3 {
            out.push(finding("C14", "not_uniform:so3_half_turn_cone", format!("{name}: KS distance {d} > {crit3} (n = {n3})")));
        }
    }
    // SE(2): components independent: x uniform, yaw uniform
    let se2 = oxmpl::base::space::SE2StateSpace::new(1.0, Some(vec![(0.0, 1.0), (0.0, 1.0), (-PI, PI)])).unwrap();
    let mut pr = vec![];
    for _ in 0..n {
        let s = se2.sample_uniform(&mut rng).unwrap();
        pr.push(s.get_x() * ((s.get_yaw() + PI) / (2.0 * PI)));
    }
    let d = ks(pr, |z| if z <= 0.0 { 0.0 } else if z >= 1.0 { 1.0 } else { z - z * z.ln() });
    stats.push(("se2.x_yaw_independence".into(), d));
    if d > crit {
        out.push(finding("C14", "not_uniform:se2", format!("se2.x_yaw_independence: KS distance {d} > {crit}")));
    }
    let js = J::obj(vec![
        ("n", J::Int(n as i128)),
        ("critical_value_alpha_1e-9", J::Num(crit)),
        ("ks", J::Obj(stats.into_iter().map(|(k, v)| (k, J::Num(v))).collect())),
    ]);
    (out, js)
}

pub fn main(args: &[String]) {
    crate::run::install_panic_hook();
    let get = |name: &str| args.iter().position(|a| a == name).and_then(|i| args.get(i + 1)).cloned();
    let seed: u64 = get("--seed").and_then(|s| s.parse().ok()).unwrap_or(0);
    let out = get("--out").unwrap_or("out".into());
    let count: usize = get("--count").and_then(|s| s.parse().ok()).unwrap_or(300);
    let fams = get("--families").unwrap_or("metric".into());
    let malformed = args.iter().any(|a| a == "--malformed");
    std::fs::create_dir_all(&out).unwrap();
    let mut cases = vec![];
    for f in fams.split(',') {
        if f == "gof" {
            continue;
        }
        cases.extend(gen_family(f, seed, count, malformed));
    }
    let mut fj = std::io::BufWriter::new(std::fs::File::create(format!("{out}/cases.jsonl")).unwrap());
    let mut fc = std::io::BufWriter::new(std::fs::File::create(format!("{out}/cases.coq")).unwrap());
    for c in &cases {
        let j = J::obj(vec![
            ("id", J::Str(c.id.clone())),
            ("family", J::s("spaces")),
            ("planner", J::s("-")),
            ("case", c.json.clone()),
            ("kinds", J::Arr(vec![match &c.json { J::Obj(v) => v.iter().find(|(k, _)| k == "op").map(|(_, x)| x.clone()).unwrap_or(J::Null), _ => J::Null }])),
            ("nontrivial", J::Bool(c.nontrivial)),
            ("findings", J::Arr(c.findings.iter().map(|f| f.json()).collect())),
        ]);
        writeln!(fj, "{j}").unwrap();
        let v: Vec<String> = c.enc.iter().map(|x| x.to_string()).collect();
        writeln!(fc, "{}\t{}", c.id, v.join(" ")).unwrap();
    }
    if fams.split(',').any(|f| f == "gof") {
        let n: usize = get("--gof-n").and_then(|s| s.parse().ok()).unwrap_or(20000);
        let (fs, js) = gof(seed, n);
        let j = J::obj(vec![
            ("id", J::Str(format!("sp-gof:{seed}:{n}"))),
            ("family", J::s("spaces")),
            ("planner", J::s("-")),
            ("case", js),
            ("kinds", J::Arr(vec![J::s("goodness-of-fit")])),
            ("nontrivial", J::Bool(true)),
            ("no_model", J::Bool(true)),
            ("findings", J::Arr(fs.iter().map(|f| f.json()).collect())),
        ]);
        writeln!(fj, "{j}").unwrap();
    }
    fj.flush().unwrap();
    fc.flush().unwrap();
    eprintln!("oxh spaces: {} cases written to {out}", cases.len());
}
