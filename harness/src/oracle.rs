//! Direct property oracles: the property text evaluated literally on real executions.
//! They never consult the Coq model; they are the search for a concrete failing input.
use crate::json::J;
use crate::log::Key;
use crate::run::{Call, CallOut, Params, PlannerKind, Resp, Snap};
use crate::scen::Scenario;
use oxmpl::base::{space::StateSpace, state::State};

#[derive(Clone, Debug)]
pub struct Finding {
    pub property: &'static str,
    /// stable class used to match entries of known_findings.txt
    pub class: String,
    pub what: String,
    pub call: usize,
}
impl Finding {
    pub fn json(&self) -> J {
        J::obj(vec![
            ("property", J::s(self.property)),
            ("class", J::Str(self.class.clone())),
            ("what", J::Str(self.what.clone())),
            ("call", J::Int(self.call as i128)),
        ])
    }
}

pub const REL_TOL: f64 = 1e-9;
/// arc-length allowance for the SO(3) normalised-LERP branch (DESIGN section 3.3)
pub const LERP_TOL: f64 = 1.1e-6;

pub fn step_bound(p: &Params) -> f64 {
    match p.kind {
        PlannerKind::Rrt | PlannerKind::Conn => p.maxd,
        PlannerKind::Star => p.maxd.max(p.radius),
        PlannerKind::Prm => p.radius,
    }
}

/// C03 semantic oracle: along the segment a->b, accepted states lie within lvs/2 of every point,
/// so no gap between checked-and-accepted states exceeds the longest valid segment length.
fn segment_covered<S, SP>(sp: &SP, a: &S, b: &S, accepted: &[S], lvs: f64) -> Option<String>
where
    S: State + Clone,
    SP: StateSpace<StateType = S>,
{
    let d = sp.distance(a, b);
    if !(lvs > 0.0) || !d.is_finite() {
        return None;
    }
    let m = ((d / (lvs / 8.0)).ceil() as usize).clamp(1, 2000);
    let mut p = a.clone();
    for j in 0..=m {
        let t = j as f64 / m as f64;
        sp.interpolate(a, b, t, &mut p);
        let mut best = f64::INFINITY;
        for q in accepted {
            let dq = sp.distance(&p, q);
            if dq < best {
                best = dq;
                if best <= lvs / 2.0 {
                    break;
                }
            }
        }
        if !(best <= lvs / 2.0 + LERP_TOL) {
            return Some(format!(
                "no accepted state within lvs/2={} of the point at t={} (nearest {})",
                lvs / 2.0,
                t,
                best
            ));
        }
    }
    None
}

fn tree_acyclic(t: &[(u32, Option<usize>, u64)]) -> Option<String> {
    if t.is_empty() {
        return None;
    }
    if t[0].1.is_some() {
        return Some("node 0 has a parent".into());
    }
    for i in 1..t.len() {
        let mut cur = i;
        let mut steps = 0;
        loop {
            match t[cur].1 {
                None => {
                    if cur != 0 {
                        return Some(format!("node {i}: chain ends at parentless node {cur} != 0"));
                    }
                    break;
                }
                Some(p) => {
                    if p >= t.len() {
                        return Some(format!("node {cur}: parent {p} out of range"));
                    }
                    cur = p;
                }
            }
            steps += 1;
            if steps > t.len() {
                return Some(format!("node {i}: parent chain does not reach the root (cycle)"));
            }
        }
    }
    None
}

pub struct OracleCtx {
    pub check_c03_gap: bool,
}

/// Runs all generic oracles over the outputs of one script.
pub fn check_all<S, SP>(scn: &Scenario<S, SP>, outs: &[CallOut<S>]) -> Vec<Finding>
where
    S: State + Clone + Key,
    SP: StateSpace<StateType = S>,
{
    let mut f = Vec::new();
    let sp = &scn.space.inner;
    let lvs = sp.get_longest_valid_segment_length();
    let bound = step_bound(&scn.params);
    let mut cur_p: Option<usize> = None;
    let mut cur_v: Option<usize> = None;
    let well_formed = scn.classes.is_empty();
    for (ci, o) in outs.iter().enumerate() {
        match &o.call {
            Call::Setup(p, v) => {
                cur_p = Some(*p);
                cur_v = Some(*v);
            }
            Call::SetPd(p) => {
                if scn.params.kind == PlannerKind::Prm {
                    cur_p = Some(*p);
                }
            }
            _ => {}
        }
        // ---- C08: panics
        if let Resp::Panic(msg) = &o.resp {
            let class = if scn.classes.iter().any(|c| c == "bias_out_of_range") && msg.contains("outside range") {
                "panic:bias_out_of_range"
            } else if scn.classes.iter().any(|c| c == "empty_start") && msg.contains("index out of bounds") {
                "panic:empty_start"
            } else if scn.classes.iter().any(|c| c == "sampler_fault") && msg.contains("unwrap()") {
                "panic:sampler_fault"
            } else if msg.contains("index out of bounds") && scn.classes.iter().any(|c| c == "sampler_fault" || c == "empty_start") {
                // follow-up of an earlier panic that left the planner half set up
                "panic:after_earlier_panic"
            } else if well_formed {
                "panic:well_formed_input"
            } else {
                "panic:other"
            };
            f.push(Finding {
                property: "C08",
                class: class.into(),
                what: format!("{} panicked: {}", crate::run::call_json(&o.call), msg),
                call: ci,
            });
        }
        // ---- C08: uninitialised / unsampled errors
        if let Call::Solve(_) = &o.call {
            if cur_p.is_none() || cur_v.is_none() {
                if o.resp != Resp::Err(2) && !matches!(o.resp, Resp::Panic(_)) {
                    f.push(Finding {
                        property: "C08",
                        class: "solve_before_setup".into(),
                        what: format!("solve before setup answered {:?}", o.resp),
                        call: ci,
                    });
                }
            } else if scn.params.kind == PlannerKind::Prm && o.snap.rm.is_empty() && o.resp != Resp::Err(4) {
                f.push(Finding {
                    property: "C08",
                    class: "prm_unsampled".into(),
                    what: format!("PRM query on an empty roadmap answered {:?}", o.resp),
                    call: ci,
                });
            }
        }
        let (Some(p), Some(v)) = (cur_p, cur_v) else { continue };
        let prob = &scn.problems[p];
        let chk = &scn.checkers[v];
        // ---- invalid start must be reported (C01 second sentence / C08)
        if let (Call::Solve(_), Some(s0)) = (&o.call, prob.starts.first()) {
            let start_ok = (chk.pred)(s0);
            let unsampled = scn.params.kind == PlannerKind::Prm && o.snap.rm.is_empty();
            if !start_ok && !unsampled && o.resp != Resp::Err(3) && !matches!(o.resp, Resp::Panic(_)) {
                f.push(Finding {
                    property: "C01",
                    class: "invalid_start_not_reported".into(),
                    what: format!("start rejected by the checker but solve answered {:?}", o.resp),
                    call: ci,
                });
            }
        }
        // ---- path oracles
        if let (Resp::Path(_), Some(path)) = (&o.resp, &o.path) {
            if path.is_empty() {
                f.push(Finding {
                    property: "C02",
                    class: "empty_path".into(),
                    what: "empty path".into(),
                    call: ci,
                });
                continue;
            }
            for (i, s) in path.iter().enumerate() {
                if !(chk.pred)(s) {
                    let class = if i == 0 {
                        "path_start_invalid"
                    } else if i + 1 == path.len() {
                        "path_last_invalid"
                    } else {
                        "path_interior_invalid"
                    };
                    f.push(Finding {
                        property: "C01",
                        class: class.into(),
                        what: format!("path state {i}/{} is rejected by the validity checker", path.len()),
                        call: ci,
                    });
                }
            }
            if let Some(s0) = prob.starts.first() {
                if path[0].key() != s0.key() {
                    f.push(Finding {
                        property: "C02",
                        class: "path_start_differs".into(),
                        what: "first path state is not bit-identical to the current start".into(),
                        call: ci,
                    });
                }
            }
            if !(prob.goal.pred)(path.last().unwrap()) {
                f.push(Finding {
                    property: "C02",
                    class: "path_end_not_goal".into(),
                    what: "last path state does not satisfy the current goal".into(),
                    call: ci,
                });
            }
            if scn.real_metric {
                let acc = chk.accepted.borrow();
                for i in 0..path.len() - 1 {
                    let (a, b) = (&path[i], &path[i + 1]);
                    if let Some(why) = segment_covered(sp, a, b, &acc, lvs) {
                        f.push(Finding {
                            property: "C03",
                            class: "segment_not_checked".into(),
                            what: format!("segment {i}: {why}"),
                            call: ci,
                        });
                    }
                    let d = sp.distance(a, b).min(sp.distance(b, a));
                    if !(d <= bound * (1.0 + REL_TOL) + LERP_TOL) {
                        f.push(Finding {
                            property: "C05",
                            class: "step_too_long".into(),
                            what: format!("segment {i}: distance {d} exceeds the bound {bound}"),
                            call: ci,
                        });
                    }
                }
                if scn.preconds_c04 {
                    for (i, s) in path.iter().enumerate() {
                        if !sp.satisfies_bounds(s) {
                            let mut e = s.clone();
                            sp.enforce_bounds(&mut e);
                            let dev = sp.distance(s, &e);
                            if !(dev <= 1e-9) {
                                let class = if scn.classes.iter().any(|c| c == "so2_span_gt_pi") {
                                    "out_of_bounds:so2_span_gt_pi"
                                } else {
                                    "out_of_bounds"
                                };
                                f.push(Finding {
                                    property: "C04",
                                    class: class.into(),
                                    what: format!("path state {i} violates the space bounds by {dev}"),
                                    call: ci,
                                });
                            }
                        }
                    }
                }
            }
        }
        // ---- C15: snapshot invariants
        for (which, t, states) in [("tree", &o.snap.tree, &o.tree_states), ("goal tree", &o.snap.gtree, &o.gtree_states)] {
            if let Some(why) = tree_acyclic(t) {
                f.push(Finding {
                    property: "C15",
                    class: "tree_malformed".into(),
                    what: format!("{which}: {why}"),
                    call: ci,
                });
                continue;
            }
            // a solve that ran (valid roots) leaves only valid nodes
            let ran = matches!(o.call, Call::Solve(_)) && !matches!(o.resp, Resp::Err(2) | Resp::Err(3) | Resp::Panic(_));
            let goal_root_rejected = o.resp == Resp::Err(1) && scn.params.kind == PlannerKind::Conn;
            if ran && !goal_root_rejected {
                for (i, s) in states.iter().enumerate() {
                    if !(chk.pred)(s) {
                        f.push(Finding {
                            property: "C15",
                            class: "tree_node_invalid".into(),
                            what: format!("{which}: node {i} is rejected by the validity checker"),
                            call: ci,
                        });
                    }
                }
                if scn.real_metric {
                    let acc = chk.accepted.borrow();
                    for (i, n) in t.iter().enumerate() {
                        if let Some(pi) = n.1 {
                            let (a, b) = (&states[pi], &states[i]);
                            let d = sp.distance(a, b).min(sp.distance(b, a));
                            if !(d <= bound * (1.0 + REL_TOL) + LERP_TOL) {
                                f.push(Finding {
                                    property: "C15",
                                    class: "tree_edge_too_long".into(),
                                    what: format!("{which}: edge {pi}->{i} has length {d} > {bound}"),
                                    call: ci,
                                });
                            }
                            if t.len() <= 40 {
                                if let Some(why) = segment_covered(sp, a, b, &acc, lvs) {
                                    f.push(Finding {
                                        property: "C15",
                                        class: "tree_edge_not_checked".into(),
                                        what: format!("{which}: edge {pi}->{i}: {why}"),
                                        call: ci,
                                    });
                                }
                            }
                        }
                    }
                }
            }
        }
    }
    f
}

pub fn snap_json(s: &Snap) -> J {
    let t = |t: &Vec<(u32, Option<usize>, u64)>| {
        J::Arr(
            t.iter()
                .map(|(s, p, c)| {
                    J::Arr(vec![
                        J::Int(*s as i128),
                        p.map(|x| J::Int(x as i128)).unwrap_or(J::Null),
                        J::Num(f64::from_bits(*c)),
                    ])
                })
                .collect(),
        )
    };
    J::obj(vec![
        ("tree", t(&s.tree)),
        ("goal_tree", t(&s.gtree)),
        (
            "roadmap",
            J::Arr(
                s.rm.iter()
                    .map(|(s, e)| {
                        J::Arr(vec![
                            J::Int(*s as i128),
                            J::Arr(e.iter().map(|x| J::Int(*x as i128)).collect()),
                        ])
                    })
                    .collect(),
            ),
        ),
    ])
}
