//! Direct property oracles: the property text evaluated literally on real executions.
//! They never consult the Coq model; they are the search for a concrete failing input.
use crate::json::J;
use crate::log::Key;
use crate::run::{Call, CallOut, Params, PlannerKind, Resp, Snap};
use crate::scen::Scenario;
use oxmpl::base::{space::StateSpace, state::State};

#[derive(Clone, Debug)]
pub struct Finding {
    pub property: &'static str,
    /// stable class used to match entries of known_findings.txt
    pub class: String,
    pub what: String,
    pub call: usize,
}
impl Finding {
    pub fn json(&self) -> J {
        J::obj(vec![
            ("property", J::s(self.property)),
            ("class", J::Str(self.class.clone())),
            ("what", J::Str(self.what.clone())),
            ("call", J::Int(self.call as i128)),
        ])
    }
}

pub const REL_TOL: f64 = 1e-9;
/// arc-length allowance for the SO(3) normalised-LERP branch (DESIGN section 3.3)
pub const LERP_TOL: f64 = 1.1e-6;

pub fn step_bound(p: &Params) -> f64 {
    match p.kind {
        PlannerKind::Rrt | PlannerKind::Conn => p.maxd,
        PlannerKind::Star => p.maxd.max(p.radius),
        PlannerKind::Prm => p.radius,
    }
}

/// C03 semantic oracle: along the segment a->b, accepted states lie within lvs/2 of every point,
/// so no gap between checked-and-accepted states exceeds the longest valid segment length.
fn segment_covered<S, SP>(sp: &SP, a: &S, b: &S, accepted: &[S], lvs: f64) -> Option<String>
where
    S: State + Clone,
    SP: StateSpace<StateType = S>,
{
    let d = sp.distance(a, b);
    if !(lvs > 0.0) || !d.is_finite() {
        return None;
    }
    let m = ((d / (lvs / 8.0)).ceil() as usize).clamp(1, 2000);
    let mut p = a.clone();
    for j in 0..=m {
        let t = j as f64 / m as f64;
        sp.interpolate(a, b, t, &mut p);
        let mut best = f64::INFINITY;
        for q in accepted {
            let dq = sp.distance(&p, q);
            if dq < best {
                best = dq;
                if best <= lvs / 2.0 {
                    break;
                }
            }
        }
        if !(best <= lvs / 2.0 + LERP_TOL) {
            return Some(format!(
                "no accepted state within lvs/2={} of the point at t={} (nearest {})",
                lvs / 2.0,
                t,
                best
            ));
        }
    }
    None
}

fn tree_acyclic(t: &[(u32, Option<usize>, u64)]) -> Option<String> {
    if t.is_empty() {
        return None;
    }
    if t[0].1.is_some() {
        return Some("node 0 has a parent".into());
    }
    for i in 1..t.len() {
        let mut cur = i;
        let mut steps = 0;
        loop {
            match t[cur].1 {
                None => {
                    if cur != 0 {
                        return Some(format!("node {i}: chain ends at parentless node {cur} != 0"));
                    }
                    break;
                }
                Some(p) => {
                    if p >= t.len() {
                        return Some(format!("node {cur}: parent {p} out of range"));
                    }
                    cur = p;
                }
            }
            steps += 1;
            if steps > t.len() {
                return Some(format!("node {i}: parent chain does not reach the root (cycle)"));
            }
        }
    }
    None
}

pub struct OracleCtx {
    pub check_c03_gap: bool,
}

/// Runs all generic oracles over the outputs of one script.
pub fn check_all<S, SP>(scn: &Scenario<S, SP>, outs: &[CallOut<S>]) -> Vec<Finding>
where
    S: State + Clone + Key,
    SP: StateSpace<StateType = S>,
{
    let mut f = Vec::new();
    let sp = &scn.space.inner;
    let lvs = sp.get_longest_valid_segment_length();
    let bound = step_bound(&scn.params);
    let mut cur_p: Option<usize> = None;
    let mut cur_v: Option<usize> = None;
    let well_formed = scn.classes.is_empty();
    for (ci, o) in outs.iter().enumerate() {
        match &o.call {
            Call::Setup(p, v) => {
                cur_p = Some(*p);
                cur_v = Some(*v);
            }
            Call::SetPd(p) => {
                if scn.params.kind == PlannerKind::Prm {
                    cur_p = Some(*p);
                }
            }
            _ => {}
        }
        // ---- C08: panics
        if let Resp::Panic(msg) = &o.resp {
            if msg.contains("oxh-runaway") {
                f.push(Finding {
                    property: "C06",
                    class: if scn.classes.iter().any(|c| c == "zero_resolution") { "runaway:zero_resolution".into() } else { "runaway".into() },
                    what: format!("{} did not finish a motion check within {} validity queries", crate::run::call_json(&o.call), crate::log::RUNAWAY_LIMIT),
                    call: ci,
                });
                continue;
            }
            let class = if scn.classes.iter().any(|c| c == "bias_out_of_range") && msg.contains("outside range") {
                "panic:bias_out_of_range"
            } else if scn.classes.iter().any(|c| c == "empty_start") && msg.contains("index out of bounds") {
                "panic:empty_start"
            } else if scn.classes.iter().any(|c| c == "sampler_fault") && msg.contains("unwrap()") {
                "panic:sampler_fault"
            } else if msg.contains("index out of bounds") && scn.classes.iter().any(|c| c == "sampler_fault" || c == "empty_start") {
                // follow-up of an earlier panic that left the planner half set up
                "panic:after_earlier_panic"
            } else if well_formed {
                "panic:well_formed_input"
            } else {
                "panic:other"
            };
            f.push(Finding {
                property: "C08",
                class: class.into(),
                what: format!("{} panicked: {}", crate::run::call_json(&o.call), msg),
                call: ci,
            });
        }
        // ---- C08: uninitialised / unsampled errors
        if let Call::Solve(_) = &o.call {
            if cur_p.is_none() || cur_v.is_none() {
                if o.resp != Resp::Err(2) && !matches!(o.resp, Resp::Panic(_)) {
                    f.push(Finding {
                        property: "C08",
                        class: "solve_before_setup".into(),
                        what: format!("solve before setup answered {:?}", o.resp),
                        call: ci,
                    });
                }
            } else if scn.params.kind == PlannerKind::Prm && o.snap.rm.is_empty() && o.resp != Resp::Err(4) {
                f.push(Finding {
                    property: "C08",
                    class: "prm_unsampled".into(),
                    what: format!("PRM query on an empty roadmap answered {:?}", o.resp),
                    call: ci,
                });
            }
        }
        // ---- C06: real-clock runs
        if let Some(ms) = scn.timeout_ms {
            let limit_ms = match (&o.call, scn.params.kind) {
                (Call::Solve(_), _) | (Call::Construct(_), PlannerKind::Prm) => Some(ms as f64),
                _ => None,
            };
            if let Some(l) = limit_ms {
                let took = o.wall_ns as f64 / 1e6;
                // "T plus the cost of one planning iteration": every iteration begins with the deadline check followed
                // by one sampler call, so no sampler call may happen after T (+ scheduling noise) - however long the
                // iteration in flight then takes; calls that draw no sample (PRM queries) get a fixed allowance
                let late = match o.last_sample_ms {
                    Some(t) => t > l + 150.0,
                    None => took > l + 250.0,
                };
                if late && !matches!(o.resp, Resp::Panic(_)) {
                    f.push(Finding {
                        property: "C06",
                        class: "deadline_overrun".into(),
                        what: format!("{} took {took:.1} ms with a limit of {l} ms (last iteration began {} ms after the call)", crate::run::call_json(&o.call), o.last_sample_ms.map(|t| format!("{t:.1}")).unwrap_or("-".into())),
                        call: ci,
                    });
                }
            }
            if scn.classes.iter().any(|c| c == "infeasible") && cur_p == Some(0) && cur_v == Some(0) {
                if let Resp::Path(_) = &o.resp {
                    f.push(Finding {
                        property: "C06",
                        class: "path_in_infeasible_world".into(),
                        what: "a path was returned although the whole goal region is invalid".into(),
                        call: ci,
                    });
                }
            }
        }
        let (Some(p), Some(v)) = (cur_p, cur_v) else { continue };
        let prob = &scn.problems[p];
        let chk = &scn.checkers[v];
        // ---- invalid start must be reported (C01 second sentence / C08)
        if let (Call::Solve(_), Some(s0)) = (&o.call, prob.starts.first()) {
            let start_ok = (chk.pred)(s0);
            let unsampled = scn.params.kind == PlannerKind::Prm && o.snap.rm.is_empty();
            if !start_ok && !unsampled && o.resp != Resp::Err(3) && !matches!(o.resp, Resp::Panic(_)) {
                f.push(Finding {
                    property: "C01",
                    class: "invalid_start_not_reported".into(),
                    what: format!("start rejected by the checker but solve answered {:?}", o.resp),
                    call: ci,
                });
            }
        }
        // ---- path oracles
        if let (Resp::Path(_), Some(path)) = (&o.resp, &o.path) {
            if path.is_empty() {
                f.push(Finding {
                    property: "C02",
                    class: "empty_path".into(),
                    what: "empty path".into(),
                    call: ci,
                });
                continue;
            }
            for (i, s) in path.iter().enumerate() {
                if !(chk.pred)(s) {
                    let class = if i == 0 {
                        "path_start_invalid"
                    } else if i + 1 == path.len() {
                        "path_last_invalid"
                    } else {
                        "path_interior_invalid"
                    };
                    f.push(Finding {
                        property: "C01",
                        class: class.into(),
                        what: format!("path state {i}/{} is rejected by the validity checker", path.len()),
                        call: ci,
                    });
                }
            }
            if let Some(s0) = prob.starts.first() {
                if path[0].key() != s0.key() {
                    f.push(Finding {
                        property: "C02",
                        class: "path_start_differs".into(),
                        what: "first path state is not bit-identical to the current start".into(),
                        call: ci,
                    });
                    // C08: "a successful solve answers the problem installed by the latest setup / set_problem_definition"
                    f.push(Finding {
                        property: "C08",
                        class: "answers_a_stale_problem".into(),
                        what: "the returned path does not start at the start state of the most recently installed problem".into(),
                        call: ci,
                    });
                }
            }
            if !(prob.goal.pred)(path.last().unwrap()) {
                f.push(Finding {
                    property: "C02",
                    class: "path_end_not_goal".into(),
                    what: "last path state does not satisfy the current goal".into(),
                    call: ci,
                });
            }
            if let Some(eo) = &scn.edge_oracle {
                for i in 0..path.len() - 1 {
                    if let Some(why) = eo(v, &path[i], &path[i + 1]) {
                        f.push(Finding {
                            property: "C03",
                            class: "segment_through_invalid_state".into(),
                            what: format!("segment {i}: {why}"),
                            call: ci,
                        });
                    }
                }
            }
            if scn.real_metric {
                let acc = chk.accepted.borrow();
                for i in 0..path.len() - 1 {
                    let (a, b) = (&path[i], &path[i + 1]);
                    if let Some(why) = segment_covered(sp, a, b, &acc, lvs) {
                        f.push(Finding {
                            property: "C03",
                            class: "segment_not_checked".into(),
                            what: format!("segment {i}: {why}"),
                            call: ci,
                        });
                    }
                    let d = sp.distance(a, b).min(sp.distance(b, a));
                    if !(d <= bound * (1.0 + REL_TOL) + LERP_TOL) {
                        f.push(Finding {
                            property: "C05",
                            class: "step_too_long".into(),
                            what: format!("segment {i}: distance {d} exceeds the bound {bound}"),
                            call: ci,
                        });
                    }
                }
                if scn.preconds_c04 {
                    for (i, s) in path.iter().enumerate() {
                        if !sp.satisfies_bounds(s) {
                            let mut e = s.clone();
                            sp.enforce_bounds(&mut e);
                            let dev = sp.distance(s, &e);
                            if !(dev <= 1e-9) {
                                let class = if scn.classes.iter().any(|c| c == "so2_span_gt_pi") {
                                    "out_of_bounds:so2_span_gt_pi"
                                } else {
                                    "out_of_bounds"
                                };
                                f.push(Finding {
                                    property: "C04",
                                    class: class.into(),
                                    what: format!("path state {i} violates the space bounds by {dev}"),
                                    call: ci,
                                });
                            }
                        }
                    }
                }
            }
        }
        // ---- C15: snapshot invariants
        for (which, t, states) in [("tree", &o.snap.tree, &o.tree_states), ("goal tree", &o.snap.gtree, &o.gtree_states)] {
            if let Some(why) = tree_acyclic(t) {
                f.push(Finding {
                    property: "C15",
                    class: "tree_malformed".into(),
                    what: format!("{which}: {why}"),
                    call: ci,
                });
                continue;
            }
            // a solve that ran (valid roots) leaves only valid nodes
            let ran = matches!(o.call, Call::Solve(_)) && !matches!(o.resp, Resp::Err(2) | Resp::Err(3) | Resp::Panic(_));
            let goal_root_rejected = o.resp == Resp::Err(1) && scn.params.kind == PlannerKind::Conn;
            if ran && !goal_root_rejected {
                for (i, s) in states.iter().enumerate() {
                    if !(chk.pred)(s) {
                        f.push(Finding {
                            property: "C15",
                            class: "tree_node_invalid".into(),
                            what: format!("{which}: node {i} is rejected by the validity checker"),
                            call: ci,
                        });
                    }
                }
                if let Some(eo) = &scn.edge_oracle {
                    for (i, n) in t.iter().enumerate() {
                        if let Some(pi) = n.1 {
                            if let Some(why) = eo(v, &states[pi], &states[i]) {
                                f.push(Finding {
                                    property: "C15",
                                    class: "tree_edge_through_invalid_state".into(),
                                    what: format!("{which}: {why}"),
                                    call: ci,
                                });
                            }
                        }
                    }
                }
                // ---- C16 over whole runs (RRT / RRT-Connect never re-parent): a node's parent was the nearest of the
                // older nodes to the sample, and the new node lies on a shortest path from it towards the sample, so
                // (triangle inequality) no older node is closer to the new node than its parent is
                if scn.real_metric && scn.params.kind != PlannerKind::Star && t.len() <= 400 {
                    for (i, n) in t.iter().enumerate() {
                        if let Some(pi) = n.1 {
                            if pi >= i {
                                continue;
                            }
                            let dp = sp.distance(&states[i], &states[pi]);
                            if !dp.is_finite() {
                                continue;
                            }
                            for j in 0..i {
                                let dj = sp.distance(&states[i], &states[j]);
                                if dj + 1e-6 * (1.0 + dp) + LERP_TOL < dp {
                                    f.push(Finding {
                                        property: "C16",
                                        class: "parent_not_nearest".into(),
                                        what: format!("{which}: node {i} hangs off node {pi} at distance {dp} although the older node {j} is at distance {dj}"),
                                        call: ci,
                                    });
                                    break;
                                }
                            }
                        }
                    }
                }
                if scn.real_metric {
                    let acc = chk.accepted.borrow();
                    for (i, n) in t.iter().enumerate() {
                        if let Some(pi) = n.1 {
                            let (a, b) = (&states[pi], &states[i]);
                            let d = sp.distance(a, b).min(sp.distance(b, a));
                            if !(d <= bound * (1.0 + REL_TOL) + LERP_TOL) {
                                f.push(Finding {
                                    property: "C15",
                                    class: "tree_edge_too_long".into(),
                                    what: format!("{which}: edge {pi}->{i} has length {d} > {bound}"),
                                    call: ci,
                                });
                            }
                            if t.len() <= 40 {
                                if let Some(why) = segment_covered(sp, a, b, &acc, lvs) {
                                    f.push(Finding {
                                        property: "C15",
                                        class: "tree_edge_not_checked".into(),
                                        what: format!("{which}: edge {pi}->{i}: {why}"),
                                        call: ci,
                                    });
                                }
                            }
                        }
                    }
                }
            }
        }
    }
    f
}

pub fn snap_json(s: &Snap) -> J {
    let t = |t: &Vec<(u32, Option<usize>, u64)>| {
        J::Arr(
            t.iter()
                .map(|(s, p, c)| {
                    J::Arr(vec![
                        J::Int(*s as i128),
                        p.map(|x| J::Int(x as i128)).unwrap_or(J::Null),
                        J::Num(f64::from_bits(*c)),
                    ])
                })
                .collect(),
        )
    };
    J::obj(vec![
        ("tree", t(&s.tree)),
        ("goal_tree", t(&s.gtree)),
        (
            "roadmap",
            J::Arr(
                s.rm.iter()
                    .map(|(s, e)| {
                        J::Arr(vec![
                            J::Int(*s as i128),
                            J::Arr(e.iter().map(|x| J::Int(*x as i128)).collect()),
                        ])
                    })
                    .collect(),
            ),
        ),
    ])
}

// ------------------------------------------------------------------------------------------
// C16: one-iteration oracle (cases generated with per-iteration scripts: every solve has budget 1)

pub fn check_iter<S, SP>(scn: &Scenario<S, SP>, outs: &[CallOut<S>], lg: &crate::log::Log) -> Vec<Finding>
where
    S: State + Clone + Key,
    SP: StateSpace<StateType = S>,
{
    let mut f = Vec::new();
    if scn.params.kind == PlannerKind::Prm {
        return f;
    }
    let sp = &scn.space.inner;
    let tol = |x: f64| 1e-9 * x.abs() + 2.0 * LERP_TOL;
    for ci in 1..outs.len() {
        let (prev, cur) = (&outs[ci - 1], &outs[ci]);
        if !matches!(cur.call, Call::Solve(1)) || cur.ticks != 2 {
            continue; // not a single complete iteration (ticks: the one that passed + the one that stopped)
        }
        if matches!(cur.resp, Resp::Panic(_)) {
            continue;
        }
        let evs: Vec<_> = lg.events.iter().filter(|e| e.call == ci).collect();
        if evs.len() != 1 {
            continue;
        }
        let Some(qid) = evs[0].result else { continue };
        let Some(q) = lg.state_of::<S>(qid) else { continue };
        // sampler kind for bias 0 / 1
        let is_goal = matches!(evs[0].kind, crate::log::SKind::Goal(_));
        if scn.params.bias == 0.0 && is_goal {
            f.push(Finding { property: "C16", class: "goal_sampled_at_bias_0".into(), what: "goal sampler used with goal_bias = 0".into(), call: ci });
        }
        if scn.params.bias == 1.0 && !is_goal {
            f.push(Finding { property: "C16", class: "uniform_sampled_at_bias_1".into(), what: "uniform sampler used with goal_bias = 1".into(), call: ci });
        }
        let grew_s = cur.tree_states.len() as i64 - prev.tree_states.len() as i64;
        let grew_g = cur.gtree_states.len() as i64 - prev.gtree_states.len() as i64;
        if !(0..=1).contains(&grew_s) || !(0..=1).contains(&grew_g) {
            f.push(Finding { property: "C16", class: "more_than_one_node".into(), what: format!("one iteration changed the tree sizes by {grew_s} / {grew_g}"), call: ci });
            continue;
        }
        // existing nodes untouched (states)
        let same_prefix = |a: &Vec<S>, b: &Vec<S>| a.iter().zip(b.iter()).all(|(x, y)| x.key() == y.key());
        if !same_prefix(&prev.tree_states, &cur.tree_states) || !same_prefix(&prev.gtree_states, &cur.gtree_states) {
            f.push(Finding { property: "C16", class: "existing_node_changed".into(), what: "an existing node's state changed".into(), call: ci });
        }
        // which tree was extended toward the sample
        let (before, after, snap_after, which): (&Vec<S>, &Vec<S>, &Vec<(u32, Option<usize>, u64)>, &str) =
            if scn.params.kind == PlannerKind::Conn {
                let grow_start = prev.tree_states.len() <= prev.gtree_states.len();
                if grow_start {
                    if grew_g == 1 && grew_s == 0 {
                        f.push(Finding { property: "C16", class: "wrong_tree_grown".into(), what: "the goal tree grew although the start tree was not larger".into(), call: ci });
                    }
                    (&prev.tree_states, &cur.tree_states, &cur.snap.tree, "start")
                } else {
                    if grew_s == 1 && grew_g == 0 {
                        f.push(Finding { property: "C16", class: "wrong_tree_grown".into(), what: "the start tree grew although it was larger than the goal tree".into(), call: ci });
                    }
                    (&prev.gtree_states, &cur.gtree_states, &cur.snap.gtree, "goal")
                }
            } else {
                (&prev.tree_states, &cur.tree_states, &cur.snap.tree, "the")
            };
        if before.is_empty() || after.len() != before.len() + 1 || !scn.real_metric {
            continue;
        }
        let dists: Vec<f64> = before.iter().map(|s| sp.distance(s, &q)).collect();
        if dists.iter().any(|d| d.is_nan()) {
            continue;
        }
        let dmin = dists.iter().cloned().fold(f64::INFINITY, f64::min);
        let newn = &after[after.len() - 1];
        let par = snap_after[after.len() - 1].1;
        if scn.params.kind != PlannerKind::Star {
            // the parent is a nearest node
            if let Some(p) = par {
                if p >= before.len() || dists[p] > dmin {
                    f.push(Finding { property: "C16", class: "parent_not_nearest".into(),
                        what: format!("{which} tree: new node's parent {p} is at distance {} from the sample, the nearest node at {dmin}", dists.get(p).copied().unwrap_or(f64::NAN)), call: ci });
                }
            }
        }
        // the new state: the sample itself if within max_distance, else at max_distance on the way
        let near = dists.iter().position(|d| *d == dmin).unwrap();
        if dmin <= scn.params.maxd {
            if newn.key() != q.key() {
                f.push(Finding { property: "C16", class: "sample_not_used".into(),
                    what: format!("sample within max_distance ({dmin} <= {}) but the new node is not the sample", scn.params.maxd), call: ci });
            }
        } else {
            let d1 = sp.distance(&before[near], newn);
            let d2 = sp.distance(newn, &q);
            let ties = dists.iter().filter(|d| **d == dmin).count() > 1;
            if !ties && ((d1 - scn.params.maxd).abs() > tol(scn.params.maxd) || (d1 + d2 - dmin).abs() > tol(dmin)) {
                f.push(Finding { property: "C16", class: "bad_step".into(),
                    what: format!("new node at distance {d1} from the nearest node (max_distance {}), {d2} from the sample, nearest-to-sample {dmin}", scn.params.maxd), call: ci });
            }
        }
    }
    f
}

// ------------------------------------------------------------------------------------------
// C17: RRT* cost invariants on every snapshot (exact float comparisons, as the theorem states)

pub fn check_star<S, SP>(scn: &Scenario<S, SP>, outs: &[CallOut<S>], lg: &crate::log::Log) -> Vec<Finding>
where
    S: State + Clone + Key,
    SP: StateSpace<StateType = S>,
{
    let mut f = Vec::new();
    if scn.params.kind != PlannerKind::Star {
        return f;
    }
    // the theorem assumes distances >= 0 and not NaN
    if lg.dist.values().any(|b| { let d = f64::from_bits(*b); d.is_nan() || d < 0.0 }) {
        return f;
    }
    let sp = &scn.space.inner;
    for (ci, o) in outs.iter().enumerate() {
        let t = &o.snap.tree;
        for (i, n) in t.iter().enumerate() {
            let c = f64::from_bits(n.2);
            if !(c >= 0.0) {
                f.push(Finding { property: "C17", class: "negative_or_nan_cost".into(), what: format!("node {i} has cost {c}"), call: ci });
            }
            match n.1 {
                None => {
                    if i == 0 && c != 0.0 {
                        f.push(Finding { property: "C17", class: "root_cost".into(), what: format!("root cost {c}"), call: ci });
                    }
                }
                Some(p) if p < t.len() => {
                    let cp = f64::from_bits(t[p].2);
                    let d = sp.distance(&o.tree_states[i], &o.tree_states[p]);
                    if d.is_nan() || d < 0.0 {
                        continue;
                    }
                    if !(cp + d <= c) {
                        f.push(Finding { property: "C17", class: "cost_below_parent_plus_edge".into(),
                            what: format!("node {i}: cost {c} < parent cost {cp} + edge {d}"), call: ci });
                    }
                }
                _ => {}
            }
        }
    }
    f
}

// ------------------------------------------------------------------------------------------
// C18: roadmap structure on every snapshot; exact completeness / hop-minimality in obstacle-free worlds

pub fn check_prm<S, SP>(scn: &Scenario<S, SP>, outs: &[CallOut<S>], obstacle_free: bool) -> Vec<Finding>
where
    S: State + Clone + Key,
    SP: StateSpace<StateType = S>,
{
    let mut f = Vec::new();
    if scn.params.kind != PlannerKind::Prm {
        return f;
    }
    let sp = &scn.space.inner;
    let r = scn.params.radius;
    let mut cur_p: Option<usize> = None;
    let mut cur_v: Option<usize> = None;
    let mut prev_rm: Option<&Vec<(u32, Vec<usize>)>> = None;
    for (ci, o) in outs.iter().enumerate() {
        match &o.call {
            Call::Setup(p, v) => { cur_p = Some(*p); cur_v = Some(*v); }
            Call::SetPd(p) => cur_p = Some(*p),
            _ => {}
        }
        let rm = &o.snap.rm;
        let n = rm.len();
        // a second construct_roadmap / a query / set_problem_definition leave the roadmap unchanged
        if let Some(prev) = prev_rm {
            let unchanged_expected = match &o.call {
                Call::Solve(_) | Call::SetPd(_) => true,
                Call::Construct(_) => !prev.is_empty(),
                Call::Setup(_, _) => false,
            };
            if unchanged_expected && prev != rm {
                f.push(Finding { property: "C18", class: "roadmap_changed".into(), what: format!("{} changed the roadmap", crate::run::call_json(&o.call)), call: ci });
            }
        }
        prev_rm = Some(rm);
        for (i, (_, edges)) in rm.iter().enumerate() {
            let mut seen = std::collections::HashSet::new();
            for &j in edges {
                if j >= n || j == i {
                    f.push(Finding { property: "C18", class: "bad_edge_index".into(), what: format!("milestone {i} has edge to {j}"), call: ci });
                    continue;
                }
                if !seen.insert(j) {
                    f.push(Finding { property: "C18", class: "duplicate_edge".into(), what: format!("milestone {i} lists {j} twice"), call: ci });
                }
                if !rm[j].1.contains(&i) {
                    f.push(Finding { property: "C18", class: "asymmetric_edge".into(), what: format!("edge {i}->{j} without {j}->{i}"), call: ci });
                }
                if scn.real_metric {
                    let (a, b) = (i.max(j), i.min(j)); // newer -> older
                    let d = sp.distance(&o.rm_states[a], &o.rm_states[b]);
                    if !(d < r) {
                        f.push(Finding { property: "C18", class: "edge_not_within_radius".into(), what: format!("edge {a}-{b} has length {d} >= radius {r}"), call: ci });
                    }
                }
            }
        }
        if let Some(v) = cur_v {
            for (i, s) in o.rm_states.iter().enumerate() {
                if !(scn.checkers[v].pred)(s) {
                    f.push(Finding { property: "C18", class: "invalid_milestone".into(), what: format!("milestone {i} is rejected by the checker"), call: ci });
                }
            }
        }
        // exact query semantics in obstacle-free worlds
        if let (Call::Solve(b), Some(p), true) = (&o.call, cur_p, obstacle_free) {
            if *b < 1000 || n == 0 || cur_v.is_none() {
                continue;
            }
            let Some(s0) = scn.problems[p].starts.first() else { continue };
            let sc: Vec<usize> = (0..n).filter(|&i| sp.distance(s0, &o.rm_states[i]) < r).collect();
            let goals: Vec<usize> = (0..n).filter(|&i| (scn.problems[p].goal.pred)(&o.rm_states[i])).collect();
            // independent multi-source BFS
            let mut distv = vec![usize::MAX; n];
            let mut q = std::collections::VecDeque::new();
            for &i in &sc { distv[i] = 0; q.push_back(i); }
            while let Some(c) = q.pop_front() {
                for &j in &rm[c].1 {
                    if j < n && distv[j] == usize::MAX { distv[j] = distv[c] + 1; q.push_back(j); }
                }
            }
            let best = goals.iter().map(|&g| distv[g]).min().unwrap_or(usize::MAX);
            match &o.resp {
                Resp::Path(path) => {
                    if best == usize::MAX {
                        f.push(Finding { property: "C18", class: "path_without_connection".into(), what: "query succeeded although no start connection reaches a goal milestone".into(), call: ci });
                    } else if path.len() != best + 2 {
                        f.push(Finding { property: "C18", class: "not_hop_minimal".into(), what: format!("path visits {} milestones, the minimum is {}", path.len() - 1, best + 1), call: ci });
                    }
                }
                Resp::Err(1) => {
                    if best != usize::MAX {
                        f.push(Finding { property: "C18", class: "query_incomplete".into(), what: format!("NoSolutionFound although a goal milestone is {} hops from a start connection", best), call: ci });
                    }
                }
                _ => {}
            }
        }
    }
    f
}
