//! Scenario generators: every case is a deterministic function of (gen_seed, family, index).
use crate::json::J;
use crate::log::Key;
use crate::prng::Sm;
use crate::run::{Call, Params, PlannerKind, Problem};
use crate::table::{TState, TableSpace};
use crate::wrap::{GoalSampler, LogChecker, LogGoal, LogSpace, Pred};
use oxmpl::base::{
    error::StateSamplingError,
    space::{
        AnyStateSpace, CompoundStateSpace, RealVectorStateSpace, SE2StateSpace, SE3StateSpace,
        SO2StateSpace, SO3StateSpace, StateSpace,
    },
    state::{CompoundState, RealVectorState, SE2State, SE3State, SO2State, SO3State, State},
};
use std::f64::consts::PI;
use std::sync::Arc;

pub struct Scenario<S, SP: StateSpace<StateType = S>> {
    pub family: String,
    pub space: Arc<LogSpace<SP>>,
    pub problems: Vec<Problem<S>>,
    pub checkers: Vec<Arc<LogChecker<S>>>,
    pub params: Params,
    pub script: Vec<Call>,
    pub desc: J,
    /// one of the six real spaces: the metric oracles (C03 gap, C04, C05) apply
    pub real_metric: bool,
    /// classes used to match known findings (sampler_fault, bias_out_of_range, empty_start, ...)
    pub classes: Vec<String>,
    /// the bound on consecutive path states for C05 (None: not applicable)
    pub preconds_c04: bool,
    /// Some(T): solve is given the real time limit T and no iteration budget (C06 runs)
    pub timeout_ms: Option<u64>,
    /// real-clock run whose result is nevertheless a function of the seed (feasible worlds, generous limit)
    pub keep_seed: bool,
    /// order-sensitive hash of the validity-callback trace (py mirror scenarios)
    pub trace: Option<Arc<std::sync::Mutex<(u64, u64)>>>,
    /// flattening of a state into the float list the Python side sees (py mirror scenarios)
    pub flat: Option<Arc<dyn Fn(&S) -> Vec<f64>>>,
    /// synthetic spaces: semantic check of one edge a -- b against checker v (index): Some(reason) if the edge is
    /// longer than the resolution and passes, in both directions, through a state the checker rejects
    pub edge_oracle: Option<Arc<dyn Fn(usize, &S, &S) -> Option<String>>>,
}

fn u01(v: u64) -> f64 {
    (v >> 11) as f64 / (1u64 << 53) as f64
}

// ------------------------------------------------------------------------------------------
// scripts

pub fn tree_script(r: &mut Sm, misuse: bool, budgets: &[u64]) -> Vec<Call> {
    let mut s = Vec::new();
    if misuse {
        let n = 1 + r.below(5);
        for _ in 0..n {
            match r.below(5) {
                0 | 1 => s.push(Call::Setup(r.below(2) as usize, r.below(2) as usize)),
                _ => s.push(Call::Solve(*r.pick(budgets))),
            }
        }
    } else {
        s.push(Call::Setup(0, 0));
        let n = 1 + r.below(3);
        for _ in 0..n {
            s.push(Call::Solve(*r.pick(budgets)));
            if r.chance(0.2) {
                s.push(Call::Setup(r.below(2) as usize, r.below(2) as usize));
            }
        }
    }
    s
}

pub fn prm_script(r: &mut Sm, misuse: bool, budgets: &[u64]) -> Vec<Call> {
    let mut s = Vec::new();
    if misuse {
        let n = 1 + r.below(6);
        for _ in 0..n {
            match r.below(6) {
                0 => s.push(Call::Setup(r.below(2) as usize, r.below(2) as usize)),
                1 | 2 => s.push(Call::Construct(*r.pick(budgets))),
                3 => s.push(Call::SetPd(r.below(2) as usize)),
                _ => s.push(Call::Solve(if r.chance(0.2) { r.below(3) } else { 100000 })),
            }
        }
    } else {
        s.push(Call::Setup(0, 0));
        s.push(Call::Construct(*r.pick(budgets)));
        s.push(Call::Solve(100000));
        if r.chance(0.5) {
            s.push(Call::SetPd(1));
            s.push(Call::Solve(100000));
        }
        if r.chance(0.3) {
            s.push(Call::Construct(*r.pick(budgets)));
            s.push(Call::Solve(if r.chance(0.2) { r.below(4) } else { 100000 }));
        }
        // a second setup (new problem and / or new checker, same space object) on a planner that already holds a roadmap
        if r.chance(0.4) {
            s.push(Call::Setup(r.below(2) as usize, r.below(2) as usize));
            if r.chance(0.7) {
                s.push(Call::Construct(*r.pick(budgets)));
            }
            s.push(Call::Solve(100000));
        }
    }
    s
}

fn pick_kind(r: &mut Sm, only: Option<PlannerKind>) -> PlannerKind {
    only.unwrap_or_else(|| PlannerKind::from_index(r.below(4)))
}

// ------------------------------------------------------------------------------------------
// table family

pub struct GenOpts {
    pub only_planner: Option<PlannerKind>,
    /// allow sampler faults, out-of-range bias, empty start lists, API misuse
    pub faults: bool,
    pub misuse: bool,
    pub per_iteration: bool,
    /// obstacle-free worlds (exact optimality / completeness oracles of C17, C18)
    pub free: bool,
    /// real-clock runs (C06): no iteration budget, real timeouts, feasible and infeasible worlds
    pub timing: bool,
    /// dense RRT* stress (C17): long runs on small adversarial tables, everything within the radius
    pub dense: bool,
}

pub fn build_table(r: &mut Sm, o: &GenOpts) -> Scenario<TState, TableSpace> {
    let k = if o.dense { 5 + r.below(5) as usize } else { 3 + r.below(4) as usize };
    let vals = [0.0, 0.0, 0.5, 1.0, 1.0, 1.0, 2.0, 2.0, 3.0, 0.25];
    let mut dist = vec![vec![0.0; k]; k];
    let symmetric = r.chance(0.8);
    for i in 0..k {
        for j in 0..k {
            if i == j {
                dist[i][j] = if r.chance(0.97) { 0.0 } else { 0.5 };
            } else if j > i || !symmetric {
                let mut v = *r.pick(&vals);
                if r.chance(0.01) {
                    // "very far" (an infinite entry would make one motion check need usize::MAX steps)
                    v = 50.0;
                }
                if r.chance(0.003) {
                    v = f64::NAN;
                }
                dist[i][j] = v;
            } else {
                dist[i][j] = dist[j][i];
            }
        }
    }
    let mut mid = vec![vec![0u32; k]; k];
    for (i, row) in mid.iter_mut().enumerate() {
        for (j, m) in row.iter_mut().enumerate() {
            *m = match r.below(3) {
                0 => i as u32,
                1 => j as u32,
                _ => r.below(k as u64) as u32,
            };
        }
    }
    let mut lvs = *r.pick(&[2.0, 5.0, 10.0, 10.0, 40.0]);
    // dense mode: a designated "wall" state sits in the middle of many pairs, in BOTH directions, so that
    // motions are blocked symmetrically (as in a real space) and often
    let wall_state: Option<u32> = if o.dense && r.chance(0.7) { Some((k - 1) as u32) } else { None };
    if let Some(w) = wall_state {
        lvs = *r.pick(&[1.0, 2.0, 2.0]);
        for i in 0..k {
            for j in (i + 1)..k {
                if r.chance(0.5) {
                    mid[i][j] = w;
                    mid[j][i] = w;
                }
            }
        }
    }
    let space = TableSpace {
        k,
        dist: dist.clone(),
        mid: mid.clone(),
        lvs,
    };
    let kind = pick_kind(r, o.only_planner);
    let mut classes = vec![];
    // validity checkers
    let mut valids = vec![];
    for _ in 0..2 {
        let v: Vec<bool> = (0..k)
            .map(|i| if Some(i as u32) == wall_state { false } else { o.free || if i == 0 { r.chance(0.92) } else { r.chance(if o.dense { 0.9 } else { 0.75 }) } })
            .collect();
        valids.push(v);
    }
    let checkers: Vec<Arc<LogChecker<TState>>> = valids
        .iter()
        .enumerate()
        .map(|(i, v)| {
            let v = v.clone();
            let pred: Pred<TState> = Box::new(move |s: &TState| v[s.id as usize]);
            Arc::new(LogChecker::new(i as u32 + 1, pred))
        })
        .collect();
    // problems
    let mut problems = vec![];
    let mut goal_sets = vec![];
    let mut starts_desc = vec![];
    for pi in 0..2u32 {
        let mut gset: Vec<u32> = (0..k as u32).filter(|_| r.chance(0.3)).collect();
        if gset.is_empty() && r.chance(0.9) {
            gset.push(r.below(k as u64) as u32);
        }
        if o.dense && r.chance(0.75) {
            gset.clear(); // no goal: the tree keeps growing and rewiring until the budget ends
        }
        let start = if pi == 0 { 0 } else { r.below(k as u64) as u32 };
        let mut starts = vec![TState { id: start }];
        if r.chance(0.15) {
            starts.push(TState {
                id: r.below(k as u64) as u32,
            });
        }
        if o.faults && r.chance(0.04) {
            starts.clear();
            classes.push("empty_start".to_string());
        }
        let fail_at: Option<u64> = if o.faults && r.chance(0.12) {
            classes.push("sampler_fault".to_string());
            Some(r.below(4))
        } else {
            None
        };
        let gs = gset.clone();
        let gs2 = gset.clone();
        let pred: Pred<TState> = Box::new(move |s: &TState| gs.contains(&s.id));
        let ctr = std::sync::atomic::AtomicU64::new(0);
        let sampler: GoalSampler<TState> = Box::new(move |rng| {
            let v = rng.next_u64();
            let c = ctr.fetch_add(1, std::sync::atomic::Ordering::Relaxed);
            if Some(c) == fail_at || gs2.is_empty() {
                return Err(StateSamplingError::GoalRegionUnsatisfiable);
            }
            Ok(TState {
                id: gs2[(v % gs2.len() as u64) as usize],
            })
        });
        if gset.is_empty() {
            classes.push("sampler_fault".to_string());
        }
        starts_desc.push(J::Arr(starts.iter().map(|s| J::Int(s.id as i128)).collect()));
        goal_sets.push(J::Arr(gset.iter().map(|x| J::Int(*x as i128)).collect()));
        problems.push(Problem {
            starts,
            goal: Arc::new(LogGoal {
                id: pi + 1,
                pred,
                sampler,
            }),
        });
    }
    // uniform sampler script
    let lspace = LogSpace::new(space);
    let mut script_desc = J::Null;
    if r.chance(0.7) {
        let n = if o.dense { 30 + r.below(60) as usize } else { 2 + r.below(30) as usize };
        let mut sc = Vec::new();
        for _ in 0..n {
            if o.faults && r.chance(0.02) {
                sc.push(None);
                if !classes.contains(&"sampler_fault".to_string()) {
                    classes.push("sampler_fault".to_string());
                }
            } else {
                sc.push(Some(TState {
                    id: r.below(k as u64) as u32,
                }));
            }
        }
        script_desc = J::Arr(
            sc.iter()
                .map(|e| match e {
                    Some(s) => J::Int(s.id as i128),
                    None => J::Null,
                })
                .collect(),
        );
        *lspace.script.borrow_mut() = Some(sc);
    }
    let mut bias = if o.dense { 0.0 } else { *r.pick(&[0.0, 0.05, 0.3, 0.5, 1.0]) };
    if o.faults && r.chance(0.06) {
        bias = *r.pick(&[-0.1, 1.5, f64::NAN, 2.0]);
        classes.push("bias_out_of_range".to_string());
    }
    let params = Params {
        kind,
        maxd: if o.dense { *r.pick(&[2.0, 100.0, 100.0, 100.0]) } else { *r.pick(&[0.5, 1.0, 1.0, 2.0, 100.0]) },
        bias,
        radius: if o.dense { *r.pick(&[1.5, 3.0, 100.0, 100.0]) } else { *r.pick(&[0.5, 1.0, 1.5, 3.0, 100.0]) },
        seed: if r.chance(0.85) { Some(r.next() % 1000) } else { None },
        build_secs: 3600.0,
    };
    let budgets: Vec<u64> = if o.per_iteration { vec![1] } else if o.dense { vec![15, 25, 40, 60] } else { vec![0, 1, 2, 3, 5, 8, 12, 20] };
    let mis = o.misuse && r.chance(0.5);
    let mut script = if kind == PlannerKind::Prm {
        prm_script(r, mis, &budgets)
    } else {
        tree_script(r, mis, &budgets)
    };
    if o.per_iteration && kind != PlannerKind::Prm {
        script = vec![Call::Setup(0, 0)];
        for _ in 0..(3 + r.below(10)) {
            script.push(Call::Solve(1));
        }
    }
    let fmt_f = |x: f64| J::Num(x);
    let desc = J::obj(vec![
        ("space", J::s("table")),
        ("k", J::Int(k as i128)),
        (
            "dist",
            J::Arr(dist.iter().map(|row| J::Arr(row.iter().map(|x| fmt_f(*x)).collect())).collect()),
        ),
        (
            "mid",
            J::Arr(mid.iter().map(|row| J::Arr(row.iter().map(|x| J::Int(*x as i128)).collect())).collect()),
        ),
        ("lvs", J::Num(lvs)),
        (
            "valid",
            J::Arr(valids.iter().map(|v| J::Arr(v.iter().map(|b| J::Bool(*b)).collect())).collect()),
        ),
        ("starts", J::Arr(starts_desc)),
        ("goal_sets", J::Arr(goal_sets)),
        ("uniform_script", script_desc),
    ]);
    let (d2, m2, v2) = (dist.clone(), mid.clone(), valids.clone());
    let edge_oracle: Arc<dyn Fn(usize, &TState, &TState) -> Option<String>> = Arc::new(move |vi, a, b| {
        let (i, j) = (a.id as usize, b.id as usize);
        let (dab, dba) = (d2[i][j], d2[j][i]);
        // a segment longer than the resolution has an interior point that must have been checked: in a table space
        // the only interior state is mid; it is enough that ONE direction is fine (edges are checked in one direction)
        let bad = |d: f64, m: u32| d.is_finite() && d > lvs && !v2[vi][m as usize];
        if bad(dab, m2[i][j]) && bad(dba, m2[j][i]) {
            Some(format!("edge {i} -- {j} is longer than the resolution {lvs} (d = {dab} / {dba}) and its interior state {} / {} is rejected by the checker", m2[i][j], m2[j][i]))
        } else {
            None
        }
    });
    let mut sc_out = Scenario {
        family: "table".into(),
        space: Arc::new(lspace),
        problems,
        checkers,
        params,
        script,
        desc,
        real_metric: false,
        classes,
        preconds_c04: false,
        timeout_ms: None,
        keep_seed: false,
        trace: None,
        flat: None,
        edge_oracle: None,
    };
    sc_out.edge_oracle = Some(edge_oracle);
    sc_out
}

// ------------------------------------------------------------------------------------------
// real spaces: a small "kit" per space describing coordinates, obstacles and goals

#[derive(Clone, Debug)]
pub struct BoxObs {
    pub lo: Vec<f64>,
    pub hi: Vec<f64>,
}
impl BoxObs {
    fn contains(&self, c: &[f64]) -> bool {
        self.lo.iter().zip(&self.hi).zip(c).all(|((l, h), x)| x >= l && x <= h)
    }
    fn json(&self) -> J {
        J::obj(vec![
            ("lo", J::Arr(self.lo.iter().map(|x| J::Num(*x)).collect())),
            ("hi", J::Arr(self.hi.iter().map(|x| J::Num(*x)).collect())),
        ])
    }
}

fn gen_boxes(r: &mut Sm, dim: usize, lo: f64, hi: f64) -> Vec<BoxObs> {
    let n = r.below(4) as usize;
    let mut v = vec![];
    for _ in 0..n {
        let mut l = vec![];
        let mut h = vec![];
        // thin walls (thicker than the resolution, thinner than the step), slivers, blobs
        let style = r.below(3);
        for d in 0..dim {
            let c = r.range(lo, hi);
            let w = match (style, d) {
                (0, 0) => r.range(0.02, 0.3),
                (0, _) => r.range(1.0, 6.0),
                (1, _) => r.range(0.05, 0.5),
                _ => r.range(0.5, 2.5),
            };
            l.push(c - w / 2.0);
            h.push(c + w / 2.0);
        }
        v.push(BoxObs { lo: l, hi: h });
    }
    v
}

fn pick_fraction(r: &mut Sm) -> f64 {
    *r.pick(&[0.05, 0.05, 0.05, 0.01, 0.2, 1.0, 0.5])
}

fn real_params(r: &mut Sm, o: &GenOpts, extent: f64) -> Params {
    let kind = pick_kind(r, o.only_planner);
    let scale = *r.pick(&[0.02, 0.05, 0.1, 0.1, 0.2, 0.5, 3.0]);
    let rscale = *r.pick(&[0.05, 0.15, 0.3, 0.6, 3.0]);
    Params {
        kind,
        maxd: extent * scale,
        bias: *r.pick(&[0.0, 0.05, 0.05, 0.3, 1.0]),
        radius: extent * rscale,
        seed: if r.chance(0.9) { Some(r.next() % 100000) } else { None },
        build_secs: 3600.0,
    }
}

fn real_script(r: &mut Sm, kind: PlannerKind, o: &GenOpts) -> Vec<Call> {
    if o.per_iteration && kind != PlannerKind::Prm {
        let mut s = vec![Call::Setup(0, 0)];
        for _ in 0..(8 + r.below(25)) {
            s.push(Call::Solve(1));
        }
        return s;
    }
    if kind == PlannerKind::Prm {
        let mut s = vec![Call::Setup(0, 0), Call::Construct(10 + r.below(50)), Call::Solve(1000000)];
        if r.chance(0.4) {
            s.push(Call::SetPd(1));
            s.push(Call::Solve(1000000));
        }
        if r.chance(0.35) {
            s.push(Call::Setup(r.below(2) as usize, 1));
            if r.chance(0.7) {
                s.push(Call::Construct(10 + r.below(40)));
            }
            s.push(Call::Solve(1000000));
        }
        s
    } else {
        let mut s = vec![Call::Setup(0, 0), Call::Solve(10 + r.below(60))];
        if r.chance(0.3) {
            s.push(Call::Solve(5 + r.below(30)));
        }
        if r.chance(0.15) {
            s.push(Call::Setup(1, r.below(2) as usize));
            s.push(Call::Solve(5 + r.below(40)));
        }
        s
    }
}

/// Builds the problems/checkers for a space whose states expose "position" coordinates.
#[allow(clippy::too_many_arguments)]
fn real_world<S, SP>(
    r: &mut Sm,
    o: &GenOpts,
    family: &str,
    space: SP,
    extent: f64,
    coords: Arc<dyn Fn(&S) -> Vec<f64>>,
    mk_state: Arc<dyn Fn(&mut Sm) -> S>,
    near: Arc<dyn Fn(&S, f64, &[u64]) -> S>,
    obst_dim: usize,
    obst_lo: f64,
    obst_hi: f64,
    goal_radius: f64,
    mut space_desc: Vec<(&str, J)>,
    mut classes: Vec<String>,
) -> Scenario<S, SP>
where
    S: State + Clone + Key,
    SP: StateSpace<StateType = S> + Clone + 'static,
{
    let params = real_params(r, o, extent);
    // a quarter of the worlds have a wide goal region: goal samples then differ a lot from draw to draw, so the
    // node nearest to one goal sample is not the node nearest to the next
    let goal_radius = if r.chance(0.25) { goal_radius * 4.0 } else { goal_radius };
    let mut checkers = vec![];
    let mut obs_desc = vec![];
    for vi in 0..2u32 {
        let mut boxes = gen_boxes(r, obst_dim, obst_lo, obst_hi);
        if o.free {
            boxes.clear();
        }
        // "speckle": additionally reject a pseudo-random 1/m of all states, pointwise by bit
        // pattern - a state that was stored without being queried is then invalid with
        // probability 1/m, independently of its neighbours
        let mut speckle: Option<u64> = if r.chance(0.35) { Some(*r.pick(&[8u64, 16, 32])) } else { None };
        if o.free {
            speckle = None;
        }
        obs_desc.push(J::obj(vec![
            ("boxes", J::Arr(boxes.iter().map(|b| b.json()).collect())),
            ("speckle_modulus", speckle.map(|m| J::Int(m as i128)).unwrap_or(J::Null)),
        ]));
        let c = coords.clone();
        let pred: Pred<S> = Box::new(move |s: &S| {
            let x = c(s);
            if boxes.iter().any(|b| b.contains(&x[..b.lo.len()])) {
                return false;
            }
            match speckle {
                Some(m) => {
                    let mut h: u64 = 0xcbf29ce484222325;
                    for w in s.key() {
                        h = (h ^ w).wrapping_mul(0x100000001b3);
                        h ^= h >> 29;
                    }
                    h % m != 0
                }
                None => true,
            }
        });
        checkers.push(Arc::new(LogChecker::new(vi + 1, pred)));
    }
    // C06: in half of the timing worlds the whole goal region of problem 1 is invalid (sealed goal)
    let seal_goal = o.timing && r.chance(0.5);
    if seal_goal {
        classes.push("infeasible".into());
    }
    let mut problems = vec![];
    let mut pdesc = vec![];
    for pi in 0..2u32 {
        // start: usually valid for checker 1; sometimes deliberately anywhere
        let mut start = mk_state(r);
        for _ in 0..50 {
            if (checkers[0].pred)(&start) || r.chance(0.04) {
                break;
            }
            start = mk_state(r);
        }
        let target = mk_state(r);
        if seal_goal && pi == 0 {
            // rebuild checker 1: additionally reject everything within 1.5 goal radii of the target
            let old = checkers.remove(0);
            let sp0 = space.clone();
            let tg0 = target.clone();
            let pred0: Pred<S> = Box::new(move |s: &S| (old.pred)(s) && !(sp0.distance(s, &tg0) <= goal_radius * 1.5));
            checkers.insert(0, Arc::new(LogChecker::new(1, pred0)));
        }
        let sp = space.clone();
        let tg = target.clone();
        let pred: Pred<S> = Box::new(move |s: &S| sp.distance(s, &tg) <= goal_radius);
        let tg2 = target.clone();
        let nr = near.clone();
        let fixed = r.chance(0.4);
        let fail_at: Option<u64> = if o.faults && r.chance(0.1) {
            classes.push("sampler_fault".into());
            Some(r.below(3))
        } else {
            None
        };
        let ctr = std::sync::atomic::AtomicU64::new(0);
        let sampler: GoalSampler<S> = Box::new(move |rng| {
            let d = [rng.next_u64(), rng.next_u64(), rng.next_u64()];
            let c = ctr.fetch_add(1, std::sync::atomic::Ordering::Relaxed);
            if Some(c) == fail_at {
                return Err(StateSamplingError::GoalSamplingTimeout { attempts: 1 });
            }
            if fixed {
                Ok(tg2.clone())
            } else {
                Ok(nr(&tg2, goal_radius, &d))
            }
        });
        pdesc.push(J::obj(vec![
            ("start", J::Arr(coords(&start).iter().map(|x| J::Num(*x)).collect())),
            ("goal_target", J::Arr(coords(&target).iter().map(|x| J::Num(*x)).collect())),
            ("goal_radius", J::Num(goal_radius)),
            ("goal_sampler", J::s(if fixed { "target" } else { "near-target" })),
        ]));
        problems.push(Problem {
            starts: vec![start],
            goal: Arc::new(LogGoal {
                id: pi + 1,
                pred,
                sampler,
            }),
        });
    }
    let mut script = real_script(r, params.kind, o);
    let mut timeout_ms = None;
    if o.timing {
        let t = *r.pick(&[0u64, 1, 5, 30, 100]);
        timeout_ms = Some(t);
        script = if params.kind == PlannerKind::Prm {
            vec![Call::Setup(0, 0), Call::Construct(u64::MAX), Call::Solve(u64::MAX)]
        } else {
            vec![Call::Setup(0, 0), Call::Solve(u64::MAX)]
        };
        space_desc.push(("timeout_ms", J::Int(t as i128)));
    }
    space_desc.push(("obstacles", J::Arr(obs_desc)));
    space_desc.push(("problems", J::Arr(pdesc)));
    let preconds_c04 = !classes.iter().any(|c| c == "goal_outside_bounds");
    Scenario {
        family: family.into(),
        space: Arc::new(LogSpace::new(space)),
        problems,
        checkers,
        params,
        script,
        desc: J::obj(space_desc),
        real_metric: true,
        classes,
        preconds_c04,
        timeout_ms,
        keep_seed: false,
        trace: None,
        flat: None,
        edge_oracle: None,
    }
}

pub fn build_rv(r: &mut Sm, o: &GenOpts) -> Scenario<RealVectorState, RealVectorStateSpace> {
    let dim = 2 + r.below(2) as usize;
    let (lo, hi) = (0.0, 10.0);
    let mut space = RealVectorStateSpace::new(dim, Some(vec![(lo, hi); dim])).unwrap();
    let mut frac = pick_fraction(r);
    let mut rv_classes = vec![];
    if o.timing && r.chance(0.1) {
        frac = 0.0;
        rv_classes.push("zero_resolution".to_string());
    }
    space.set_longest_valid_segment_fraction(frac);
    let extent = space.get_maximum_extent();
    let coords: Arc<dyn Fn(&RealVectorState) -> Vec<f64>> = Arc::new(|s| s.values.clone());
    let mk: Arc<dyn Fn(&mut Sm) -> RealVectorState> =
        Arc::new(move |r| RealVectorState::new((0..dim).map(|_| if r.chance(0.1) { hi - 0.05 } else { r.range(lo + 0.2, hi - 0.2) }).collect()));
    // in 30% of the worlds the goal region sticks out of the box: goal samples are not clamped into the bounds
    // (C04 is then vacuous: its premise "every goal sample lies within the bounds" fails)
    let sticks_out = r.chance(0.3);
    if sticks_out {
        rv_classes.push("goal_outside_bounds".to_string());
    }
    let near: Arc<dyn Fn(&RealVectorState, f64, &[u64]) -> RealVectorState> = Arc::new(move |t, rad, d| {
        RealVectorState::new(
            t.values
                .iter()
                .enumerate()
                .map(|(i, x)| {
                    let v = x + rad * 0.5 * (2.0 * u01(d[i % 3]) - 1.0);
                    if sticks_out { v } else { v.clamp(lo, hi) }
                })
                .collect(),
        )
    });
    real_world(
        r,
        o,
        "rv",
        space,
        extent,
        coords,
        mk,
        near,
        dim.min(2),
        lo,
        hi,
        0.8,
        vec![("space", J::s("RealVector")), ("dim", J::Int(dim as i128)), ("fraction", J::Num(frac))],
        rv_classes,
    )
}

pub fn build_so2(r: &mut Sm, o: &GenOpts) -> Scenario<SO2State, SO2StateSpace> {
    // bounds: full circle, or an interval of span <= PI (convex under short-arc interpolation),
    // or (class so2_span_gt_pi) a wider interval
    let mut classes = vec![];
    let bounds = match r.below(4) {
        0 | 1 => None,
        2 => {
            let c = r.range(-1.0, 1.0);
            let h = r.range(0.5, 1.5);
            Some((c - h, c + h))
        }
        _ => {
            classes.push("so2_span_gt_pi".to_string());
            Some((-3.0, 3.0))
        }
    };
    let mut space = SO2StateSpace::new(bounds).unwrap();
    let frac = pick_fraction(r);
    space.set_longest_valid_segment_fraction(frac);
    let (blo, bhi) = space.bounds;
    let coords: Arc<dyn Fn(&SO2State) -> Vec<f64>> = Arc::new(|s| vec![s.value]);
    let mk: Arc<dyn Fn(&mut Sm) -> SO2State> =
        Arc::new(move |r| {
            let v = r.range(blo + 0.02, bhi - 0.02);
            // one state in ten is stored un-normalised through the public field (the same configuration + 2k PI)
            if r.chance(0.1) { SO2State { value: v + 2.0 * PI * *r.pick(&[-2.0, 2.0, 3.0]) } } else { SO2State::new(v) }
        });
    let near: Arc<dyn Fn(&SO2State, f64, &[u64]) -> SO2State> = Arc::new(move |t, rad, d| {
        // (the target may be stored un-normalised: sample around its canonical value, else the sample would not be
        // in the goal region and the goal sampler would be unsound)
        let tv = SO2State::new(t.value).value;
        let v = (tv + rad * 0.9 * (2.0 * u01(d[0]) - 1.0)).clamp(blo, bhi);
        SO2State::new(v.clamp(-PI, PI - 1e-9))
    });
    real_world(
        r,
        o,
        "so2",
        space,
        PI,
        coords,
        mk,
        near,
        1,
        blo,
        bhi,
        0.25,
        vec![
            ("space", J::s("SO2")),
            ("bounds", J::Arr(vec![J::Num(blo), J::Num(bhi)])),
            ("fraction", J::Num(frac)),
        ],
        classes,
    )
}

fn quat_from(r: &mut Sm) -> SO3State {
    loop {
        let (x, y, z, w) = (r.range(-1.0, 1.0), r.range(-1.0, 1.0), r.range(-1.0, 1.0), r.range(-1.0, 1.0));
        let n = (x * x + y * y + z * z + w * w).sqrt();
        if n > 0.1 && n < 1.0 {
            return SO3State::new(x / n, y / n, z / n, w / n);
        }
    }
}

fn quat_near(t: &SO3State, rad: f64, d: &[u64]) -> SO3State {
    // rotate t by a small rotation of angle <= 0.9*rad about an axis from the draws
    let ang = 0.9 * rad * u01(d[0]);
    let (ax, ay, az) = (2.0 * u01(d[1]) - 1.0, 2.0 * u01(d[2]) - 1.0, 0.3);
    let n = (ax * ax + ay * ay + az * az).sqrt();
    let (s, c) = ((ang / 2.0).sin(), (ang / 2.0).cos());
    let (qx, qy, qz, qw) = (ax / n * s, ay / n * s, az / n * s, c);
    // q * t
    let x = qw * t.x + qx * t.w + qy * t.z - qz * t.y;
    let y = qw * t.y - qx * t.z + qy * t.w + qz * t.x;
    let z = qw * t.z + qx * t.y - qy * t.x + qz * t.w;
    let w = qw * t.w - qx * t.x - qy * t.y - qz * t.z;
    let m = (x * x + y * y + z * z + w * w).sqrt();
    // the same rotation has two quaternions: hand out either sign
    let sg = if d[2] & 0x100 != 0 { -1.0 } else { 1.0 };
    SO3State::new(sg * x / m, sg * y / m, sg * z / m, sg * w / m)
}

pub fn build_so3(r: &mut Sm, o: &GenOpts) -> Scenario<SO3State, SO3StateSpace> {
    let mut space = SO3StateSpace::new(None).unwrap();
    let frac = pick_fraction(r);
    space.set_longest_valid_segment_fraction(frac);
    // obstacles: boxes in (x,y) quaternion coordinates
    let coords: Arc<dyn Fn(&SO3State) -> Vec<f64>> = Arc::new(|s| {
        let sg = if s.w < 0.0 { -1.0 } else { 1.0 };
        vec![s.x * sg, s.y * sg, s.z * sg, s.w * sg]
    });
    let mk: Arc<dyn Fn(&mut Sm) -> SO3State> = Arc::new(quat_from);
    let near: Arc<dyn Fn(&SO3State, f64, &[u64]) -> SO3State> = Arc::new(quat_near);
    real_world(
        r,
        o,
        "so3",
        space,
        0.5 * PI,
        coords,
        mk,
        near,
        2,
        -0.8,
        0.8,
        0.3,
        vec![("space", J::s("SO3")), ("fraction", J::Num(frac))],
        vec![],
    )
}

pub fn build_se2(r: &mut Sm, o: &GenOpts) -> Scenario<SE2State, SE2StateSpace> {
    let w = *r.pick(&[0.0, 0.5, 1.0, 2.0]);
    let space = SE2StateSpace::new(w, Some(vec![(0.0, 10.0), (0.0, 10.0), (-PI, PI)])).unwrap();
    let extent = 10.0 * 2f64.sqrt();
    let coords: Arc<dyn Fn(&SE2State) -> Vec<f64>> = Arc::new(|s| vec![s.get_x(), s.get_y(), s.get_yaw()]);
    let mk: Arc<dyn Fn(&mut Sm) -> SE2State> =
        Arc::new(|r| SE2State::new(r.range(0.2, 9.8), r.range(0.2, 9.8), r.range(-3.1, 3.1)));
    let near: Arc<dyn Fn(&SE2State, f64, &[u64]) -> SE2State> = Arc::new(|t, rad, d| {
        SE2State::new(
            (t.get_x() + rad * 0.4 * (2.0 * u01(d[0]) - 1.0)).clamp(0.0, 10.0),
            (t.get_y() + rad * 0.4 * (2.0 * u01(d[1]) - 1.0)).clamp(0.0, 10.0),
            t.get_yaw(),
        )
    });
    real_world(
        r,
        o,
        "se2",
        space,
        extent,
        coords,
        mk,
        near,
        2,
        0.0,
        10.0,
        0.8,
        vec![("space", J::s("SE2")), ("weight", J::Num(w))],
        vec![],
    )
}

pub fn build_se3(r: &mut Sm, o: &GenOpts) -> Scenario<SE3State, SE3StateSpace> {
    let w = *r.pick(&[0.0, 0.5, 1.0, 2.0]);
    let space = SE3StateSpace::new(w, Some(vec![(0.0, 10.0), (0.0, 10.0), (0.0, 10.0)])).unwrap();
    let extent = 10.0 * 3f64.sqrt();
    let coords: Arc<dyn Fn(&SE3State) -> Vec<f64>> =
        Arc::new(|s| vec![s.get_x(), s.get_y(), s.get_z()]);
    let mk: Arc<dyn Fn(&mut Sm) -> SE3State> =
        Arc::new(|r| SE3State::new(r.range(0.2, 9.8), r.range(0.2, 9.8), r.range(0.2, 9.8), quat_from(r)));
    let near: Arc<dyn Fn(&SE3State, f64, &[u64]) -> SE3State> = Arc::new(|t, rad, d| {
        SE3State::new(
            (t.get_x() + rad * 0.3 * (2.0 * u01(d[0]) - 1.0)).clamp(0.0, 10.0),
            (t.get_y() + rad * 0.3 * (2.0 * u01(d[1]) - 1.0)).clamp(0.0, 10.0),
            (t.get_z() + rad * 0.3 * (2.0 * u01(d[2]) - 1.0)).clamp(0.0, 10.0),
            t.get_rotation().clone(),
        )
    });
    real_world(
        r,
        o,
        "se3",
        space,
        extent,
        coords,
        mk,
        near,
        2,
        0.0,
        10.0,
        1.0,
        vec![("space", J::s("SE3")), ("weight", J::Num(w))],
        vec![],
    )
}

/// A general compound space R^2 x SO(2) x R^1 built directly with CompoundStateSpace.
pub fn build_css(r: &mut Sm, o: &GenOpts) -> Scenario<CompoundState, CompoundStateSpace> {
    let w = [1.0, *r.pick(&[0.0, 0.3, 1.0]), *r.pick(&[0.5, 1.0, 2.0])];
    let mut r2 = RealVectorStateSpace::new(2, Some(vec![(0.0, 10.0), (0.0, 10.0)])).unwrap();
    let frac = pick_fraction(r);
    r2.set_longest_valid_segment_fraction(frac);
    let so2 = SO2StateSpace::new(None).unwrap();
    let r1 = RealVectorStateSpace::new(1, Some(vec![(-1.0, 1.0)])).unwrap();
    let subs: Vec<Box<dyn AnyStateSpace>> = vec![Box::new(r2), Box::new(so2), Box::new(r1)];
    let space = CompoundStateSpace::new(subs, w.to_vec());
    let extent = 10.0 * 2f64.sqrt();
    fn get(s: &CompoundState) -> (f64, f64, f64, f64) {
        let a = s.components[0].as_any().downcast_ref::<RealVectorState>().unwrap();
        let b = s.components[1].as_any().downcast_ref::<SO2State>().unwrap();
        let c = s.components[2].as_any().downcast_ref::<RealVectorState>().unwrap();
        (a.values[0], a.values[1], b.value, c.values[0])
    }
    fn mkc(x: f64, y: f64, th: f64, z: f64) -> CompoundState {
        CompoundState::new(vec![
            Box::new(RealVectorState::new(vec![x, y])),
            Box::new(SO2State::new(th)),
            Box::new(RealVectorState::new(vec![z])),
        ])
    }
    let coords: Arc<dyn Fn(&CompoundState) -> Vec<f64>> = Arc::new(|s| {
        let (x, y, t, z) = get(s);
        vec![x, y, t, z]
    });
    let mk: Arc<dyn Fn(&mut Sm) -> CompoundState> =
        Arc::new(|r| mkc(r.range(0.2, 9.8), r.range(0.2, 9.8), r.range(-3.1, 3.1), r.range(-0.9, 0.9)));
    let near: Arc<dyn Fn(&CompoundState, f64, &[u64]) -> CompoundState> = Arc::new(|t, rad, d| {
        let (x, y, th, z) = get(t);
        mkc(
            (x + rad * 0.4 * (2.0 * u01(d[0]) - 1.0)).clamp(0.0, 10.0),
            (y + rad * 0.4 * (2.0 * u01(d[1]) - 1.0)).clamp(0.0, 10.0),
            th,
            z,
        )
    });
    real_world(
        r,
        o,
        "css",
        space,
        extent,
        coords,
        mk,
        near,
        2,
        0.0,
        10.0,
        0.8,
        vec![
            ("space", J::s("Compound[R2,SO2,R1]")),
            ("weights", J::Arr(w.iter().map(|x| J::Num(*x)).collect())),
            ("fraction", J::Num(frac)),
        ],
        vec![],
    )
}

// ------------------------------------------------------------------------------------------
// Python mirror scenarios (C19 / C20): everything the Python driver needs is in `desc.py`, with
// every float as a hex bit pattern; callbacks use only comparisons and the space's own distance,
// so that the Python and the Rust side compute bit-identical answers.

pub fn hexj(x: f64) -> J {
    J::Str(format!("{:016x}", x.to_bits()))
}
fn hexv(v: &[f64]) -> J {
    J::Arr(v.iter().map(|x| hexj(*x)).collect())
}

pub fn fnv(h: u64, w: u64) -> u64 {
    let mut h = h ^ w;
    h = h.wrapping_mul(0x100000001b3);
    h ^ (h >> 29)
}

pub struct PyKit<S> {
    pub flat: Arc<dyn Fn(&S) -> Vec<f64>>,
    pub coords: Arc<dyn Fn(&S) -> Vec<f64>>,
    pub mk: Arc<dyn Fn(&mut Sm) -> (S, Vec<f64>)>,
}

#[allow(clippy::too_many_arguments)]
pub fn py_world<S, SP>(
    r: &mut Sm,
    o: &GenOpts,
    variant: &str,
    space: SP,
    space_desc: J,
    extent: f64,
    kit: PyKit<S>,
    obst_dim: usize,
    obst_lo: f64,
    obst_hi: f64,
    goal_radius: f64,
) -> Scenario<S, SP>
where
    S: State + Clone + Key,
    SP: StateSpace<StateType = S> + Clone + 'static,
{
    let kind = pick_kind(r, o.only_planner);
    let q = |x: f64| (x * 64.0).round() / 64.0; // dyadic parameters: identical in Python and Rust
    let mut params = Params {
        kind,
        maxd: q(extent * *r.pick(&[0.05, 0.1, 0.2, 0.5])).max(1.0 / 64.0),
        bias: *r.pick(&[0.0, 0.0625, 0.25, 0.5, 1.0]),
        radius: q(extent * *r.pick(&[0.15, 0.3, 0.6])).max(1.0 / 64.0),
        // seeds over the whole u64 range: small, above 2^53 (not representable as a double), around 2^63, 2^64-1
        seed: Some(match r.below(6) {
            0 | 1 => r.next() % 100000,
            2 => (1u64 << 53) + 1 + 2 * (r.next() % 1000),
            3 => r.next() | 1,
            4 => (1u64 << 63) + (r.next() % 3),
            _ => u64::MAX - (r.next() % 2),
        }),
        build_secs: 0.05,
    };
    // obstacles: at most two boxes, generously away from nothing in particular; worlds stay feasible most of the time
    let nb = r.below(3) as usize;
    let mut boxes = vec![];
    for _ in 0..nb {
        let mut l = vec![];
        let mut h = vec![];
        for _ in 0..obst_dim {
            let c = q(r.range(obst_lo, obst_hi));
            let w = q(r.range(0.05, 0.2) * (obst_hi - obst_lo));
            l.push(c - w / 2.0);
            h.push(c + w / 2.0);
        }
        boxes.push(BoxObs { lo: l, hi: h });
    }
    // goal_bias = 1 (always steer at the goal) only in free worlds: behind an obstacle the greedy planner spins through
    // millions of rejected extensions until its real-time limit, which these unbudgeted mirrored runs cannot replay
    if params.bias == 1.0 && (!boxes.is_empty() || o.faults) {
        params.bias = 0.5;
    }
    // C20: a fault region (a box in the same coordinates) on which the Python callback raises / returns None /
    // returns a non-bool; the Rust mirror (and the model) treat it as invalid
    let fault: Option<(String, BoxObs)> = if o.faults {
        let mut l = vec![];
        let mut h = vec![];
        for _ in 0..obst_dim {
            let c = q(r.range(obst_lo, obst_hi));
            let w = q(r.range(0.1, 0.35) * (obst_hi - obst_lo));
            l.push(c - w / 2.0);
            h.push(c + w / 2.0);
        }
        Some((r.pick(&["raise", "none", "nonbool", "str", "tuple", "int1", "float", "obj", "zero", "empty", "npbool", "raise_kbd", "raise_base", "raise_sysexit"]).to_string(), BoxObs { lo: l, hi: h }))
    } else {
        None
    };
    let goal_fault = o.faults && r.chance(0.3);
    let trace = Arc::new(std::sync::Mutex::new((0xcbf29ce484222325u64, 0u64)));
    let (start, start_flat, target, target_flat) = {
        let inside = |c: &[f64]| boxes.iter().any(|b| b.contains(&c[..b.lo.len()])) || fault.as_ref().map(|(_, b)| b.contains(&c[..b.lo.len()])).unwrap_or(false);
        let mut pick = |r: &mut Sm| {
            let mut x = (kit.mk)(r);
            for _ in 0..100 {
                if !inside(&(kit.coords)(&x.0)) {
                    break;
                }
                x = (kit.mk)(r);
            }
            x
        };
        let (s, sf) = pick(r);
        let (t, tf) = pick(r);
        (s, sf, t, tf)
    };
    // a goal fault: the goal callback (not the validity callback) fails on a box around the goal target, i.e. on part
    // of the goal region itself - the planner has to reach the rest of the region
    let fault: Option<(String, BoxObs)> = match (&fault, goal_fault) {
        (Some((k, b)), true) => {
            let tc = (kit.coords)(&target);
            let n = b.lo.len();
            let hw = q(goal_radius * 0.5);
            Some((k.clone(), BoxObs { lo: (0..n).map(|i| q(tc[i]) - hw).collect(), hi: (0..n).map(|i| q(tc[i]) + hw).collect() }))
        }
        _ => fault,
    };
    let mut checkers = vec![];
    for vi in 0..2u32 {
        let bx = boxes.clone();
        let ft = if goal_fault { None } else { fault.clone() };
        let c = kit.coords.clone();
        let fl = kit.flat.clone();
        let tr = trace.clone();
        let pred: Pred<S> = Box::new(move |s: &S| {
            let x = c(s);
            let ans = !(bx.iter().any(|b| b.contains(&x[..b.lo.len()])) || ft.as_ref().map(|(_, b)| b.contains(&x[..b.lo.len()])).unwrap_or(false));
            let mut t = tr.lock().unwrap();
            for w in fl(s) {
                t.0 = fnv(t.0, w.to_bits());
            }
            t.0 = fnv(t.0, ans as u64);
            t.1 += 1;
            ans
        });
        checkers.push(Arc::new(LogChecker::new(vi + 1, pred)));
    }
    let mut problems = vec![];
    for pi in 0..2u32 {
        let sp = space.clone();
        let tg = target.clone();
        let c = kit.coords.clone();
        let ft = fault.clone();
        // Python: space.distance(target, state) <= goal_radius ; a raising is_satisfied counts as False
        let pred: Pred<S> = Box::new(move |s: &S| {
            if goal_fault {
                if let Some((_, b)) = &ft {
                    let x = c(s);
                    if b.contains(&x[..b.lo.len()]) {
                        return false;
                    }
                }
            }
            sp.distance(&tg, s) <= goal_radius
        });
        let tg2 = target.clone();
        let sampler: GoalSampler<S> = Box::new(move |_rng| Ok(tg2.clone()));
        problems.push(Problem {
            starts: vec![start.clone()],
            goal: Arc::new(LogGoal { id: pi + 1, pred, sampler }),
        });
    }
    let script = if kind == PlannerKind::Prm {
        vec![Call::Setup(0, 0), Call::Construct(u64::MAX), Call::Solve(u64::MAX)]
    } else {
        vec![Call::Setup(0, 0), Call::Solve(u64::MAX)]
    };
    let py = J::obj(vec![
        ("variant", J::s(variant)),
        ("planner", J::s(kind.name())),
        ("max_distance", hexj(params.maxd)),
        ("goal_bias", hexj(params.bias)),
        ("radius", hexj(params.radius)),
        ("seed", J::Int(params.seed.unwrap() as i128)),
        ("space", space_desc),
        ("start", hexv(&start_flat)),
        ("target", hexv(&target_flat)),
        ("goal_radius", hexj(goal_radius)),
        ("boxes", J::Arr(boxes.iter().map(|b| J::obj(vec![("lo", hexv(&b.lo)), ("hi", hexv(&b.hi))])).collect())),
        ("fault", match &fault { Some((k, b)) => J::obj(vec![("kind", J::s(k)), ("lo", hexv(&b.lo)), ("hi", hexv(&b.hi)), ("goal", J::Bool(goal_fault))]), None => J::Null }),
        ("timeout", J::Num(1.0)),
        ("build_secs", J::Num(params.build_secs)),
    ]);
    Scenario {
        family: format!("py-{variant}"),
        space: Arc::new(LogSpace::new(space)),
        problems,
        checkers,
        params,
        script,
        desc: J::obj(vec![("py", py)]),
        real_metric: true,
        classes: if fault.is_some() { vec!["py_fault".into()] } else { vec![] },
        preconds_c04: true,
        timeout_ms: Some(1000),
        keep_seed: true,
        trace: Some(trace),
        flat: Some(kit.flat.clone()),
        edge_oracle: None,
    }
}

pub fn build_py_rv(r: &mut Sm, o: &GenOpts) -> Scenario<RealVectorState, RealVectorStateSpace> {
    let mut space = RealVectorStateSpace::new(2, Some(vec![(0.0, 10.0), (0.0, 10.0)])).unwrap();
    let fr = *r.pick(&[0.05, 0.05, 0.03125, 0.125, 0.5, 4.0]);
    space.set_longest_valid_segment_fraction(fr);
    let kit = PyKit {
        flat: Arc::new(|s: &RealVectorState| s.values.clone()),
        coords: Arc::new(|s: &RealVectorState| s.values.clone()),
        mk: Arc::new(|r: &mut Sm| {
            let v = vec![(r.range(0.5, 9.5) * 64.0).round() / 64.0, (r.range(0.5, 9.5) * 64.0).round() / 64.0];
            (RealVectorState::new(v.clone()), v)
        }),
    };
    let desc = J::obj(vec![("dim", J::Int(2)), ("bounds", J::Arr(vec![hexv(&[0.0, 10.0]), hexv(&[0.0, 10.0])])), ("fractions", hexv(&[fr]))]);
    py_world(r, o, "rv", space, desc, 14.0, kit, 2, 1.0, 9.0, 0.75)
}

pub fn build_py_so2(r: &mut Sm, o: &GenOpts) -> Scenario<SO2State, SO2StateSpace> {
    // half of the worlds restrict the angle to an interval (uniform samples are then raw draws from that interval, which
    // are not in general fixed points of a second normalisation)
    let bounds: Option<(f64, f64)> = *r.pick(&[None, None, Some((-1.0, 2.0)), Some((-2.5, 2.5))]);
    let mut space = SO2StateSpace::new(bounds).unwrap();
    let fr = *r.pick(&[0.05, 0.05, 0.03125, 0.125, 0.5, 4.0]);
    space.set_longest_valid_segment_fraction(fr);
    let (lo, hi) = bounds.unwrap_or((-3.0, 3.0));
    let kit = PyKit {
        flat: Arc::new(|s: &SO2State| vec![s.value]),
        coords: Arc::new(|s: &SO2State| vec![s.value]),
        mk: Arc::new(move |r: &mut Sm| {
            let v = (r.range(lo + 0.1, hi - 0.1) * 64.0).round() / 64.0;
            let s = SO2State::new(v);
            (s.clone(), vec![v])
        }),
    };
    let bj = match bounds { Some((a, b)) => hexv(&[a, b]), None => J::Null };
    py_world(r, o, "so2", space, J::obj(vec![("bounds", bj), ("fractions", hexv(&[fr]))]), PI, kit, 1, lo + 0.5, hi - 0.5, 0.25)
}

pub fn build_py_so3(r: &mut Sm, o: &GenOpts) -> Scenario<SO3State, SO3StateSpace> {
    let mut space = SO3StateSpace::new(None).unwrap();
    let fr = *r.pick(&[0.05, 0.05, 0.03125, 0.125, 0.5, 4.0]);
    space.set_longest_valid_segment_fraction(fr);
    let kit = PyKit {
        flat: Arc::new(|s: &SO3State| vec![s.x, s.y, s.z, s.w]),
        coords: Arc::new(|s: &SO3State| {
            let sg = if s.w < 0.0 { -1.0 } else { 1.0 };
            vec![s.x * sg, s.y * sg]
        }),
        mk: Arc::new(|r: &mut Sm| {
            let q = quat_from(r);
            // one state in five is a non-unit quaternion (twice a unit one: exact in binary floating point); the core
            // stores whatever it is given, and so must the Python layer
            let k = if r.chance(0.2) { 2.0 } else { 1.0 };
            let q = SO3State::new(q.x * k, q.y * k, q.z * k, q.w * k);
            (q.clone(), vec![q.x, q.y, q.z, q.w])
        }),
    };
    py_world(r, o, "so3", space, J::obj(vec![("fractions", hexv(&[fr]))]), 0.5 * PI, kit, 2, -0.7, 0.7, 0.3)
}

pub fn build_py_se2(r: &mut Sm, o: &GenOpts) -> Scenario<SE2State, SE2StateSpace> {
    let w = *r.pick(&[0.5, 1.0]);
    let space = SE2StateSpace::new(w, Some(vec![(0.0, 10.0), (0.0, 10.0), (-PI, PI)])).unwrap();
    let kit = PyKit {
        flat: Arc::new(|s: &SE2State| vec![s.get_x(), s.get_y(), s.get_yaw()]),
        coords: Arc::new(|s: &SE2State| vec![s.get_x(), s.get_y()]),
        mk: Arc::new(|r: &mut Sm| {
            let v = vec![(r.range(0.5, 9.5) * 64.0).round() / 64.0, (r.range(0.5, 9.5) * 64.0).round() / 64.0, (r.range(-3.0, 3.0) * 64.0).round() / 64.0];
            (SE2State::new(v[0], v[1], v[2]), v)
        }),
    };
    let desc = J::obj(vec![("weight", hexj(w)), ("bounds", J::Arr(vec![hexv(&[0.0, 10.0]), hexv(&[0.0, 10.0]), hexv(&[-PI, PI])]))]);
    py_world(r, o, "se2", space, desc, 14.0, kit, 2, 1.0, 9.0, 0.75)
}

pub fn build_py_se3(r: &mut Sm, o: &GenOpts) -> Scenario<SE3State, SE3StateSpace> {
    let w = *r.pick(&[0.5, 1.0]);
    let space = SE3StateSpace::new(w, Some(vec![(0.0, 10.0), (0.0, 10.0), (0.0, 10.0)])).unwrap();
    let kit = PyKit {
        flat: Arc::new(|s: &SE3State| {
            let q = s.get_rotation();
            vec![s.get_x(), s.get_y(), s.get_z(), q.x, q.y, q.z, q.w]
        }),
        coords: Arc::new(|s: &SE3State| vec![s.get_x(), s.get_y()]),
        mk: Arc::new(|r: &mut Sm| {
            let v = [(r.range(0.5, 9.5) * 64.0).round() / 64.0, (r.range(0.5, 9.5) * 64.0).round() / 64.0, (r.range(0.5, 9.5) * 64.0).round() / 64.0];
            let q = quat_from(r);
            (SE3State::new(v[0], v[1], v[2], q.clone()), vec![v[0], v[1], v[2], q.x, q.y, q.z, q.w])
        }),
    };
    let desc = J::obj(vec![("weight", hexj(w)), ("bounds", J::Arr(vec![hexv(&[0.0, 10.0]), hexv(&[0.0, 10.0]), hexv(&[0.0, 10.0])]))]);
    py_world(r, o, "se3", space, desc, 17.0, kit, 2, 1.0, 9.0, 1.0)
}

pub fn build_py_css(r: &mut Sm, o: &GenOpts) -> Scenario<CompoundState, CompoundStateSpace> {
    let w = *r.pick(&[0.5, 1.0]);
    let mut r2 = RealVectorStateSpace::new(2, Some(vec![(0.0, 10.0), (0.0, 10.0)])).unwrap();
    let mut so2 = SO2StateSpace::new(None).unwrap();
    // the resolution fractions are set on the subspaces BEFORE they are composed (Python: same calls, same order)
    let (fr1, fr2) = (*r.pick(&[0.05, 0.05, 0.03125, 0.125, 0.5, 4.0]), *r.pick(&[0.05, 0.05, 0.03125, 0.125, 0.5, 4.0]));
    r2.set_longest_valid_segment_fraction(fr1);
    so2.set_longest_valid_segment_fraction(fr2);
    let subs: Vec<Box<dyn AnyStateSpace>> = vec![Box::new(r2), Box::new(so2)];
    let space = CompoundStateSpace::new(subs, vec![1.0, w]);
    fn get(s: &CompoundState) -> (f64, f64, f64) {
        let a = s.components[0].as_any().downcast_ref::<RealVectorState>().unwrap();
        let b = s.components[1].as_any().downcast_ref::<SO2State>().unwrap();
        (a.values[0], a.values[1], b.value)
    }
    let kit = PyKit {
        flat: Arc::new(|s: &CompoundState| {
            let (x, y, t) = get(s);
            vec![x, y, t]
        }),
        coords: Arc::new(|s: &CompoundState| {
            let (x, y, _) = get(s);
            vec![x, y]
        }),
        mk: Arc::new(|r: &mut Sm| {
            let v = vec![(r.range(0.5, 9.5) * 64.0).round() / 64.0, (r.range(0.5, 9.5) * 64.0).round() / 64.0, (r.range(-3.0, 3.0) * 64.0).round() / 64.0];
            (
                CompoundState::new(vec![Box::new(RealVectorState::new(vec![v[0], v[1]])), Box::new(SO2State::new(v[2]))]),
                v,
            )
        }),
    };
    let desc = J::obj(vec![("weights", hexv(&[1.0, w])), ("bounds", J::Arr(vec![hexv(&[0.0, 10.0]), hexv(&[0.0, 10.0])])), ("fractions", hexv(&[fr1, fr2]))]);
    py_world(r, o, "compound", space, desc, 14.0, kit, 2, 1.0, 9.0, 0.75)
}
