//! Space-level correspondence and oracles (C09-C14): every public operation of the six real
//! state spaces is executed on a structured lattice of special values plus random inputs; the
//! inputs, the libm values used (SO(3) only) and the outputs are encoded for the Coq float model
//! (coq/Spaces/SpacesF.v), and the property text is evaluated directly on the results.
use crate::json::J;
use crate::oracle::Finding;
use crate::prng::Sm;
use oxmpl::base::{
    error::{StateSamplingError, StateSpaceError},
    space::{
        AnyStateSpace, CompoundStateSpace, RealVectorStateSpace, SE2StateSpace, SE3StateSpace,
        SO2StateSpace, SO3StateSpace, StateSpace,
    },
    state::{CompoundState, RealVectorState, SE2State, SE3State, SO2State, SO3State, State},
};
use rand::RngCore;
use std::f64::consts::PI;
use std::panic::{catch_unwind, AssertUnwindSafe};

// ------------------------------------------------------------------------------------------
// descriptions shared with the model

#[derive(Clone, Debug)]
pub enum Sp {
    Rv { dim: usize, bounds: Option<Vec<(f64, f64)>>, frac: Option<f64> },
    So2 { bounds: Option<(f64, f64)>, frac: Option<f64> },
    So3 { bounds: Option<([f64; 4], f64)>, frac: Option<f64> },
    Cs(Vec<(Sp, f64)>),
    Se2 { w: f64, bounds: Option<Vec<(f64, f64)>> },
    Se3 { w: f64, bounds: Option<Vec<(f64, f64)>> },
}

#[derive(Clone, Debug)]
pub enum St {
    Rv(Vec<f64>),
    So2(f64),
    So3([f64; 4]),
    C(Vec<St>),
}

pub struct Enc(pub Vec<u64>);
impl Enc {
    fn n(&mut self, x: u64) {
        self.0.push(x)
    }
    fn f(&mut self, x: f64) {
        let b = if x.is_nan() { 0x7ff8000000000000u64 } else { x.to_bits() };
        self.0.push(b >> 32);
        self.0.push(b & 0xFFFF_FFFF);
    }
    fn w64(&mut self, b: u64) {
        self.0.push(b >> 32);
        self.0.push(b & 0xFFFF_FFFF);
    }
    fn optf(&mut self, o: Option<f64>) {
        self.n(o.is_some() as u64);
        self.f(o.unwrap_or(0.0));
    }
    fn bounds(&mut self, b: &Option<Vec<(f64, f64)>>) {
        self.n(b.is_some() as u64);
        let v = b.clone().unwrap_or_default();
        self.n(v.len() as u64);
        for (lo, hi) in v {
            self.f(lo);
            self.f(hi);
        }
    }
    fn sp(&mut self, s: &Sp) {
        match s {
            Sp::Rv { dim, bounds, frac } => {
                self.n(0);
                self.n(*dim as u64);
                self.bounds(bounds);
                self.optf(*frac);
            }
            Sp::So2 { bounds, frac } => {
                self.n(1);
                self.n(bounds.is_some() as u64);
                let (lo, hi) = bounds.unwrap_or((0.0, 0.0));
                self.f(lo);
                self.f(hi);
                self.optf(*frac);
            }
            Sp::So3 { bounds, frac } => {
                self.n(2);
                self.n(bounds.is_some() as u64);
                let (c, m) = bounds.unwrap_or(([0.0; 4], 0.0));
                for x in c {
                    self.f(x);
                }
                self.f(m);
                self.optf(*frac);
            }
            Sp::Cs(subs) => {
                self.n(3);
                self.n(subs.len() as u64);
                for (s, w) in subs {
                    self.sp(s);
                    self.f(*w);
                }
            }
            Sp::Se2 { w, bounds } => {
                self.n(4);
                self.f(*w);
                self.bounds(bounds);
            }
            Sp::Se3 { w, bounds } => {
                self.n(5);
                self.f(*w);
                self.bounds(bounds);
            }
        }
    }
    fn st(&mut self, s: &St) {
        match s {
            St::Rv(v) => {
                self.n(0);
                self.n(v.len() as u64);
                for x in v {
                    self.f(*x);
                }
            }
            St::So2(v) => {
                self.n(1);
                self.f(*v);
            }
            St::So3(q) => {
                self.n(2);
                for x in q {
                    self.f(*x);
                }
            }
            St::C(l) => {
                self.n(3);
                self.n(l.len() as u64);
                for x in l {
                    self.st(x);
                }
            }
        }
    }
}

// ------------------------------------------------------------------------------------------
// real objects

pub enum RealSp {
    Rv(RealVectorStateSpace),
    So2(SO2StateSpace),
    So3(SO3StateSpace),
    Cs(CompoundStateSpace),
    Se2(SE2StateSpace),
    Se3(SE3StateSpace),
}

fn err_code(e: &StateSpaceError) -> u64 {
    match e {
        StateSpaceError::DimensionMismatch { .. } => 1,
        StateSpaceError::InvalidBound { .. } => 2,
        StateSpaceError::ZeroDimensionUnbounded => 3,
        StateSpaceError::InvalidAngularDistance { .. } => 4,
    }
}
fn serr_code(e: &StateSamplingError) -> u64 {
    match e {
        StateSamplingError::UnboundedDimension { .. } => 5,
        StateSamplingError::ZeroVolume => 6,
        _ => 99,
    }
}

fn quat(q: &[f64; 4]) -> SO3State {
    SO3State::new(q[0], q[1], q[2], q[3])
}

pub fn build(sp: &Sp) -> Result<RealSp, u64> {
    Ok(match sp {
        Sp::Rv { dim, bounds, frac } => {
            let mut s = RealVectorStateSpace::new(*dim, bounds.clone()).map_err(|e| err_code(&e))?;
            if let Some(f) = frac {
                s.set_longest_valid_segment_fraction(*f);
            }
            RealSp::Rv(s)
        }
        Sp::So2 { bounds, frac } => {
            let mut s = SO2StateSpace::new(*bounds).map_err(|e| err_code(&e))?;
            if let Some(f) = frac {
                s.set_longest_valid_segment_fraction(*f);
            }
            RealSp::So2(s)
        }
        Sp::So3 { bounds, frac } => {
            let mut s = SO3StateSpace::new(bounds.map(|(c, m)| (quat(&c), m))).map_err(|e| err_code(&e))?;
            if let Some(f) = frac {
                s.set_longest_valid_segment_fraction(*f);
            }
            RealSp::So3(s)
        }
        Sp::Cs(subs) => {
            let mut v: Vec<Box<dyn AnyStateSpace>> = vec![];
            let mut w = vec![];
            for (s, wi) in subs {
                v.push(match build(s)? {
                    RealSp::Rv(x) => Box::new(x),
                    RealSp::So2(x) => Box::new(x),
                    RealSp::So3(x) => Box::new(x),
                    RealSp::Cs(x) => Box::new(x),
                    RealSp::Se2(x) => Box::new(x),
                    RealSp::Se3(x) => Box::new(x),
                });
                w.push(*wi);
            }
            RealSp::Cs(CompoundStateSpace::new(v, w))
        }
        Sp::Se2 { w, bounds } => RealSp::Se2(SE2StateSpace::new(*w, bounds.clone()).map_err(|e| err_code(&e))?),
        Sp::Se3 { w, bounds } => RealSp::Se3(SE3StateSpace::new(*w, bounds.clone()).map_err(|e| err_code(&e))?),
    })
}

fn dyn_state(s: &St) -> Box<dyn State> {
    match s {
        St::Rv(v) => Box::new(RealVectorState::new(v.clone())),
        St::So2(v) => Box::new(SO2State { value: *v }),
        St::So3(q) => Box::new(quat(q)),
        St::C(l) => Box::new(CompoundState::new(l.iter().map(dyn_state).collect())),
    }
}
fn from_dyn(s: &dyn State) -> St {
    let a = s.as_any();
    if let Some(x) = a.downcast_ref::<RealVectorState>() {
        St::Rv(x.values.clone())
    } else if let Some(x) = a.downcast_ref::<SO2State>() {
        St::So2(x.value)
    } else if let Some(x) = a.downcast_ref::<SO3State>() {
        St::So3([x.x, x.y, x.z, x.w])
    } else if let Some(x) = a.downcast_ref::<CompoundState>() {
        St::C(x.components.iter().map(|c| from_dyn(&**c)).collect())
    } else if let Some(x) = a.downcast_ref::<SE2State>() {
        St::C(x.0.components.iter().map(|c| from_dyn(&**c)).collect())
    } else if let Some(x) = a.downcast_ref::<SE3State>() {
        St::C(x.0.components.iter().map(|c| from_dyn(&**c)).collect())
    } else {
        St::C(vec![])
    }
}
fn comp(s: &St) -> CompoundState {
    match s {
        St::C(l) => CompoundState::new(l.iter().map(dyn_state).collect()),
        other => CompoundState::new(vec![dyn_state(other)]),
    }
}

/// result of an operation: Ok(value) | Panic | Err(code); None = the state kind does not fit the
/// space's static type at all (cannot even be expressed through the API)
#[derive(Clone, Debug, PartialEq)]
pub enum R<T> {
    Ok(T),
    Panic,
    Err(u64),
}

fn guard<T>(f: impl FnOnce() -> T) -> R<T> {
    match catch_unwind(AssertUnwindSafe(f)) {
        Ok(v) => R::Ok(v),
        Err(_) => R::Panic,
    }
}

macro_rules! with_space {
    ($sp:expr, $a:expr, |$s:ident, $x:ident| $body:expr) => {
        match ($sp, $a) {
            (RealSp::Rv($s), St::Rv(v)) => {
                let $x = RealVectorState::new(v.clone());
                Some($body)
            }
            (RealSp::So2($s), St::So2(v)) => {
                let $x = SO2State { value: *v };
                Some($body)
            }
            (RealSp::So3($s), St::So3(q)) => {
                let $x = quat(q);
                Some($body)
            }
            (RealSp::Cs($s), St::C(_)) => {
                let $x = comp($a);
                Some($body)
            }
            (RealSp::Se2($s), St::C(_)) => {
                let $x = SE2State(comp($a));
                Some($body)
            }
            (RealSp::Se3($s), St::C(_)) => {
                let $x = SE3State(comp($a));
                Some($body)
            }
            _ => None,
        }
    };
}

pub fn op_dist(sp: &RealSp, a: &St, b: &St) -> Option<R<f64>> {
    match (sp, a, b) {
        (RealSp::Rv(s), St::Rv(x), St::Rv(y)) => {
            Some(guard(|| s.distance(&RealVectorState::new(x.clone()), &RealVectorState::new(y.clone()))))
        }
        (RealSp::So2(s), St::So2(x), St::So2(y)) => Some(guard(|| s.distance(&SO2State { value: *x }, &SO2State { value: *y }))),
        (RealSp::So3(s), St::So3(x), St::So3(y)) => Some(guard(|| s.distance(&quat(x), &quat(y)))),
        (RealSp::Cs(s), St::C(_), St::C(_)) => Some(guard(|| s.distance(&comp(a), &comp(b)))),
        (RealSp::Se2(s), St::C(_), St::C(_)) => Some(guard(|| s.distance(&SE2State(comp(a)), &SE2State(comp(b))))),
        (RealSp::Se3(s), St::C(_), St::C(_)) => Some(guard(|| s.distance(&SE3State(comp(a)), &SE3State(comp(b))))),
        _ => None,
    }
}

pub fn op_interp(sp: &RealSp, a: &St, b: &St, t: f64, out: &St) -> Option<R<St>> {
    match (sp, a, b, out) {
        (RealSp::Rv(s), St::Rv(x), St::Rv(y), St::Rv(o)) => Some(guard(|| {
            let mut r = RealVectorState::new(o.clone());
            s.interpolate(&RealVectorState::new(x.clone()), &RealVectorState::new(y.clone()), t, &mut r);
            St::Rv(r.values)
        })),
        (RealSp::So2(s), St::So2(x), St::So2(y), St::So2(o)) => Some(guard(|| {
            let mut r = SO2State { value: *o };
            s.interpolate(&SO2State { value: *x }, &SO2State { value: *y }, t, &mut r);
            St::So2(r.value)
        })),
        (RealSp::So3(s), St::So3(x), St::So3(y), St::So3(o)) => Some(guard(|| {
            let mut r = quat(o);
            s.interpolate(&quat(x), &quat(y), t, &mut r);
            St::So3([r.x, r.y, r.z, r.w])
        })),
        (RealSp::Cs(s), St::C(_), St::C(_), St::C(_)) => Some(guard(|| {
            let mut r = comp(out);
            s.interpolate(&comp(a), &comp(b), t, &mut r);
            from_dyn(&r)
        })),
        (RealSp::Se2(s), St::C(_), St::C(_), St::C(_)) => Some(guard(|| {
            let mut r = SE2State(comp(out));
            s.interpolate(&SE2State(comp(a)), &SE2State(comp(b)), t, &mut r);
            from_dyn(&r)
        })),
        (RealSp::Se3(s), St::C(_), St::C(_), St::C(_)) => Some(guard(|| {
            let mut r = SE3State(comp(out));
            s.interpolate(&SE3State(comp(a)), &SE3State(comp(b)), t, &mut r);
            from_dyn(&r)
        })),
        _ => None,
    }
}

pub fn op_enforce(sp: &RealSp, a: &St) -> Option<R<St>> {
    with_space!(sp, a, |s, x| guard(|| {
        let mut y = x.clone();
        s.enforce_bounds(&mut y);
        from_dyn(&y)
    }))
}
pub fn op_satisfies(sp: &RealSp, a: &St) -> Option<R<bool>> {
    with_space!(sp, a, |s, x| guard(|| s.satisfies_bounds(&x)))
}
pub fn op_lvs(sp: &RealSp) -> R<f64> {
    match sp {
        RealSp::Rv(s) => guard(|| s.get_longest_valid_segment_length()),
        RealSp::So2(s) => guard(|| s.get_longest_valid_segment_length()),
        RealSp::So3(s) => guard(|| s.get_longest_valid_segment_length()),
        RealSp::Cs(s) => guard(|| s.get_longest_valid_segment_length()),
        RealSp::Se2(s) => guard(|| s.get_longest_valid_segment_length()),
        RealSp::Se3(s) => guard(|| s.get_longest_valid_segment_length()),
    }
}

/// a scripted generator: hands out the given u64s, then a fixed filler
pub struct ScriptRng {
    pub vals: Vec<u64>,
    pub pos: usize,
}
impl RngCore for ScriptRng {
    fn next_u32(&mut self) -> u32 {
        self.next_u64() as u32
    }
    fn next_u64(&mut self) -> u64 {
        // beyond the script: a deterministic filler stream (so that rejection loops terminate)
        let v = self.vals.get(self.pos).copied().unwrap_or_else(|| {
            let mut z = (self.pos as u64).wrapping_mul(0x9E37_79B9_7F4A_7C15).wrapping_add(0xD1B5_4A32_D192_ED03);
            z = (z ^ (z >> 30)).wrapping_mul(0xBF58_476D_1CE4_E5B9);
            z = (z ^ (z >> 27)).wrapping_mul(0x94D0_49BB_1331_11EB);
            z ^ (z >> 31)
        });
        self.pos += 1;
        v
    }
    fn fill_bytes(&mut self, dest: &mut [u8]) {
        for b in dest.iter_mut() {
            *b = self.next_u64() as u8;
        }
    }
}

pub fn op_sample(sp: &RealSp, us: &[u64]) -> (R<St>, usize) {
    let mut rng = ScriptRng { vals: us.to_vec(), pos: 0 };
    let r = match catch_unwind(AssertUnwindSafe(|| -> Result<St, StateSamplingError> {
        Ok(match sp {
            RealSp::Rv(s) => from_dyn(&s.sample_uniform(&mut rng)?),
            RealSp::So2(s) => from_dyn(&s.sample_uniform(&mut rng)?),
            RealSp::So3(s) => from_dyn(&s.sample_uniform(&mut rng)?),
            RealSp::Cs(s) => from_dyn(&s.sample_uniform(&mut rng)?),
            RealSp::Se2(s) => from_dyn(&s.sample_uniform(&mut rng)?),
            RealSp::Se3(s) => from_dyn(&s.sample_uniform(&mut rng)?),
        })
    })) {
        Ok(Ok(s)) => R::Ok(s),
        Ok(Err(e)) => R::Err(serr_code(&e)),
        Err(_) => R::Panic,
    };
    (r, rng.pos)
}

// ------------------------------------------------------------------------------------------
// libm shadow: the (function, argument) pairs at which the SO(3) code calls acos / sin

#[derive(Default)]
pub struct Libm(pub Vec<(u64, u64, u64)>);
impl Libm {
    fn acos(&mut self, x: f64) -> f64 {
        let r = x.acos();
        self.0.push((0, x.to_bits(), r.to_bits()));
        r
    }
    fn sin(&mut self, x: f64) -> f64 {
        let r = x.sin();
        self.0.push((1, x.to_bits(), r.to_bits()));
        r
    }
    fn dist(&mut self, a: &[f64; 4], b: &[f64; 4]) -> f64 {
        let d = (a[0] * b[0] + a[1] * b[1] + a[2] * b[2] + a[3] * b[3]).abs();
        2.0 * self.acos(d.min(1.0))
    }
    fn interp(&mut self, a: &[f64; 4], b: &[f64; 4], t: f64) {
        let mut dot = a[0] * b[0] + a[1] * b[1] + a[2] * b[2] + a[3] * b[3];
        let sign = if dot < 0.0 { -1.0 } else { 1.0 };
        dot *= sign;
        if !(dot > 0.9995) {
            let th = self.acos(dot);
            self.sin(th);
            self.sin((1.0 - t) * th);
            self.sin(t * th);
        }
    }
}

fn so3_params(sp: &Sp) -> Option<([f64; 4], f64)> {
    if let Sp::So3 { bounds, .. } = sp {
        Some(match bounds {
            Some((c, m)) => (*c, m.min(PI)),
            None => ([0.0, 0.0, 0.0, 1.0], PI),
        })
    } else {
        None
    }
}

/// walks the space / state trees and lets `f` see every SO(3) leaf
fn for_so3(sp: &Sp, sts: &[&St], f: &mut dyn FnMut(&Sp, Vec<[f64; 4]>)) {
    match sp {
        Sp::So3 { .. } => {
            let qs: Vec<[f64; 4]> = sts.iter().filter_map(|s| if let St::So3(q) = s { Some(*q) } else { None }).collect();
            if qs.len() == sts.len() {
                f(sp, qs);
            }
        }
        Sp::Cs(subs) => {
            for (i, (s, _)) in subs.iter().enumerate() {
                let comps: Vec<&St> = sts.iter().filter_map(|x| if let St::C(l) = x { l.get(i) } else { None }).collect();
                if comps.len() == sts.len() {
                    for_so3(s, &comps, f);
                }
            }
        }
        Sp::Se3 { .. } => {
            let so3 = Sp::So3 { bounds: None, frac: None };
            let comps: Vec<&St> = sts.iter().filter_map(|x| if let St::C(l) = x { l.get(1) } else { None }).collect();
            if comps.len() == sts.len() {
                for_so3(&so3, &comps, f);
            }
        }
        _ => {}
    }
}

pub fn libm_for(sp: &Sp, op: u64, sts: &[&St], t: f64, sampled: Option<&St>) -> Libm {
    let mut lm = Libm::default();
    match op {
        0 => for_so3(sp, sts, &mut |_, q| {
            lm.dist(&q[0], &q[1]);
        }),
        1 => for_so3(sp, &sts[..2], &mut |_, q| lm.interp(&q[0], &q[1], t)),
        2 | 3 => for_so3(sp, sts, &mut |s, q| {
            let (c, m) = so3_params(s).unwrap();
            let mut x = q[0];
            if op == 2 {
                let n = (x[0] * x[0] + x[1] * x[1] + x[2] * x[2] + x[3] * x[3]).sqrt();
                x = if n < 1e-9 { [0.0, 0.0, 0.0, 1.0] } else { [x[0] / n, x[1] / n, x[2] / n, x[3] / n] };
            }
            let d = lm.dist(&c, &x);
            if op == 2 && !(d <= m) && !(d < 1e-9) {
                lm.interp(&c, &x, m / d);
            }
        }),
        5 => {
            // every candidate the rejection loop looked at is unknown here; the accepted one is known
            if let Some(s) = sampled {
                for_so3(sp, &[s], &mut |sx, q| {
                    let (c, _) = so3_params(sx).unwrap();
                    lm.dist(&c, &q[0]);
                });
            }
        }
        _ => {}
    }
    lm
}

// ------------------------------------------------------------------------------------------
// lattices

pub fn ulp_up(x: f64) -> f64 {
    f64::from_bits(if x >= 0.0 { x.to_bits() + 1 } else { x.to_bits() - 1 })
}
pub fn ulp_down(x: f64) -> f64 {
    f64::from_bits(if x > 0.0 { x.to_bits() - 1 } else if x == 0.0 { (-f64::MIN_POSITIVE * 0.0).to_bits() | 1 | (1 << 63) } else { x.to_bits() + 1 })
}

pub fn angles(r: &mut Sm, malformed: bool) -> Vec<f64> {
    let mut v = vec![
        0.0, -0.0, PI, -PI, ulp_up(PI), ulp_down(PI), ulp_up(-PI), ulp_down(-PI), PI / 2.0, -PI / 2.0, 2.0 * PI, -2.0 * PI,
        0.5 + 2.0 * PI, 3.0 * PI, -3.0 * PI, 1e6, -1e6, 0.1, 0.7, 3.0, -3.0, 3.1, -3.1, 1.0, -1.0, 1e-300, 1e16,
    ];
    for _ in 0..8 {
        v.push(r.range(-4.0, 4.0));
    }
    if malformed {
        v.extend([f64::NAN, f64::INFINITY, f64::NEG_INFINITY, 1e300]);
    }
    v
}

pub fn reals(r: &mut Sm, malformed: bool) -> Vec<f64> {
    let mut v = vec![0.0, -0.0, 1.0, -1.0, 0.1, 0.7, 2.5, 10.0, -10.0, 1e16, 1e-300, 7.6377461897661405, 2.550690257394217, 1e154, -1e154];
    for _ in 0..6 {
        v.push(r.range(-12.0, 12.0));
    }
    if malformed {
        v.extend([f64::NAN, f64::INFINITY, f64::NEG_INFINITY, 1e308, -1e308]);
    }
    v
}

fn unitq(x: f64, y: f64, z: f64, w: f64) -> [f64; 4] {
    let n = (x * x + y * y + z * z + w * w).sqrt();
    [x / n, y / n, z / n, w / n]
}
fn rot_x(a: f64) -> [f64; 4] {
    [(a / 2.0).sin(), 0.0, 0.0, (a / 2.0).cos()]
}

pub fn quats(r: &mut Sm, malformed: bool) -> Vec<[f64; 4]> {
    let mut v = vec![
        [0.0, 0.0, 0.0, 1.0],
        [0.0, 0.0, 0.0, -1.0],
        [1.0, 0.0, 0.0, 0.0],
        [0.0, 1.0, 0.0, 0.0],
        unitq(1.0, 1.0, 1.0, 1.0),
        unitq(-1.0, -1.0, -1.0, -1.0),
        rot_x(1e-8),
        rot_x(3e-5),
        rot_x(8e-5),
        rot_x(2e-3),
        rot_x(0.03),
        rot_x(0.0632),  // dot with identity just above 0.9995
        rot_x(0.0633),  // just below
        rot_x(1.9),
        rot_x(-1.9),
        rot_x(PI),
        rot_x(PI - 1e-9),
        unitq(0.5, -0.5, 0.5, 0.5),
    ];
    for _ in 0..8 {
        v.push(unitq(r.range(-1.0, 1.0), r.range(-1.0, 1.0), r.range(-1.0, 1.0), r.range(-1.0, 1.0)));
    }
    if malformed {
        v.extend([
            [0.0, 0.0, 0.0, 0.0],
            [1e-10, 0.0, 0.0, 0.0],
            [2.0, 0.0, 0.0, 0.0],
            [1e200, 0.0, 0.0, 0.0],
            [f64::NAN, 0.0, 0.0, 1.0],
            [0.3, 0.4, 0.5, 0.6],
        ]);
    }
    v
}

pub fn ts(r: &mut Sm, malformed: bool) -> Vec<f64> {
    let mut v = vec![0.0, 1.0, 0.5, 1.0 / 3.0, 0.21, 0.79, 1e-17, 0.999999];
    v.push(r.unit());
    if malformed {
        v.extend([-0.5, 1.5, f64::NAN]);
    }
    v
}

pub fn fracs() -> Vec<Option<f64>> {
    vec![None, None, Some(0.05), Some(1e-3), Some(1.0), Some(0.5), Some(2.0), Some(0.0), Some(-1.0), Some(f64::NAN)]
}

pub fn rv_spaces(r: &mut Sm) -> Vec<Sp> {
    let mut v = vec![];
    for dim in 1..=3usize {
        v.push(Sp::Rv { dim, bounds: Some(vec![(-10.0, 10.0); dim]), frac: r.pick(&fracs()).clone() });
        v.push(Sp::Rv { dim, bounds: None, frac: None });
        v.push(Sp::Rv { dim, bounds: Some((0..dim).map(|i| (i as f64, i as f64 + 0.5 + i as f64 * 3.0)).collect()), frac: r.pick(&fracs()).clone() });
    }
    // boxes whose first and last intervals coincide while the ones in between differ; four dimensions
    v.push(Sp::Rv { dim: 3, bounds: Some(vec![(-1.0, 1.0), (-5.0, 5.0), (-1.0, 1.0)]), frac: None });
    v.push(Sp::Rv { dim: 4, bounds: Some(vec![(0.0, 1.0), (5.0, 10.0), (2.0, 3.0), (0.0, 1.0)]), frac: None });
    v.push(Sp::Rv { dim: 0, bounds: Some(vec![]), frac: None });
    v.push(Sp::Rv { dim: 2, bounds: Some(vec![(f64::NEG_INFINITY, 0.0), (0.0, f64::INFINITY)]), frac: None });
    v.push(Sp::Rv { dim: 1, bounds: Some(vec![(-1.7e308, 1.7e308)]), frac: None });
    v.push(Sp::Rv { dim: 1, bounds: Some(vec![(1.0, ulp_up(1.0))]), frac: None });
    v
}

pub fn so2_spaces(r: &mut Sm) -> Vec<Sp> {
    let bs = [None, Some((-1.0, 1.0)), Some((3.0, PI)), Some((-PI, -3.0)), Some((-3.0, 3.0)), Some((-0.5, 2.5)), Some((-4.0, 4.0)), Some((0.0, 1e-9)),
              Some((-PI / 2.0, PI / 2.0)), Some((0.0, PI)), Some((-PI, 0.0)), Some((-2.0, 2.0 - PI))];
    bs.iter().map(|b| Sp::So2 { bounds: *b, frac: r.pick(&fracs()).clone() }).collect()
}

pub fn so3_spaces(r: &mut Sm) -> Vec<Sp> {
    let id = [0.0, 0.0, 0.0, 1.0];
    let c2 = unitq(0.3, -0.2, 0.5, 0.7);
    let bs = [None, Some((id, 2.0)), Some((c2, 0.5)), Some((id, 1e-10)), Some((id, PI)), Some((c2, 4.0)), Some((id, 0.1)), Some((c2, 1.5707963267948966))];
    bs.iter().map(|b| Sp::So3 { bounds: *b, frac: r.pick(&fracs()).clone() }).collect()
}

pub fn leaf_pool(r: &mut Sm) -> Vec<Sp> {
    vec![
        Sp::Rv { dim: 1, bounds: Some(vec![(-1.0, 1.0)]), frac: None },
        Sp::Rv { dim: 2, bounds: Some(vec![(0.0, 10.0), (0.0, 10.0)]), frac: r.pick(&fracs()).clone() },
        Sp::So2 { bounds: None, frac: None },
        Sp::So2 { bounds: Some((-1.0, 1.0)), frac: None },
        Sp::So3 { bounds: None, frac: None },
        Sp::So3 { bounds: Some(([0.0, 0.0, 0.0, 1.0], 1.0)), frac: None },
    ]
}

pub fn compound_spaces(r: &mut Sm, n: usize) -> Vec<Sp> {
    let mut v = vec![];
    let ws = [0.0, 1e-3, 1.0, 1.0, 10.0];
    for _ in 0..n {
        let k = 1 + r.below(4) as usize;
        let pool = leaf_pool(r);
        let subs: Vec<(Sp, f64)> = (0..k).map(|_| (r.pick(&pool).clone(), *r.pick(&ws))).collect();
        v.push(Sp::Cs(subs));
    }
    for w in [0.0, 0.5, 1.0, 7.0] {
        v.push(Sp::Se2 { w, bounds: Some(vec![(0.0, 10.0), (-5.0, 5.0), (-PI, PI)]) });
        v.push(Sp::Se2 { w, bounds: Some(vec![(0.0, 10.0), (-5.0, 5.0), (-1.0, 2.0)]) });
        // yaw intervals at least a full turn wide that do not contain [-PI, PI] (the SO(2) constructor clamps them)
        v.push(Sp::Se2 { w, bounds: Some(vec![(0.0, 10.0), (-5.0, 5.0), (0.0, 2.0 * PI)]) });
        v.push(Sp::Se2 { w, bounds: Some(vec![(0.0, 10.0), (-5.0, 5.0), (-PI / 2.0, 7.0)]) });
        v.push(Sp::Se2 { w, bounds: None });
        v.push(Sp::Se3 { w, bounds: Some(vec![(0.0, 10.0), (-5.0, 5.0), (1.0, 2.0)]) });
        v.push(Sp::Se3 { w, bounds: None });
    }
    v
}

/// a state of the right shape for `sp` drawn from the lattices
pub fn state_for(sp: &Sp, r: &mut Sm, malformed: bool) -> St {
    match sp {
        Sp::Rv { dim, .. } => {
            let pool = reals(r, malformed);
            let d = if malformed && r.chance(0.1) { dim + 1 } else { *dim };
            St::Rv((0..d).map(|_| *r.pick(&pool)).collect())
        }
        Sp::So2 { .. } => St::So2({ let tmp_ = angles(r, malformed); *r.pick(&tmp_) }),
        Sp::So3 { .. } => St::So3({ let tmp_ = quats(r, malformed); *r.pick(&tmp_) }),
        Sp::Cs(subs) => {
            let mut l: Vec<St> = subs.iter().map(|(s, _)| state_for(s, r, malformed)).collect();
            if malformed && r.chance(0.1) && !l.is_empty() {
                // mismatched layout: wrong component kind
                l[0] = St::So2(0.5);
            }
            St::C(l)
        }
        Sp::Se2 { .. } => {
            let pool = reals(r, malformed);
            St::C(vec![St::Rv(vec![*r.pick(&pool), *r.pick(&pool)]), St::So2({ let tmp_ = angles(r, malformed); *r.pick(&tmp_) })])
        }
        Sp::Se3 { .. } => {
            let pool = reals(r, malformed);
            St::C(vec![St::Rv(vec![*r.pick(&pool), *r.pick(&pool), *r.pick(&pool)]), St::So3({ let tmp_ = quats(r, malformed); *r.pick(&tmp_) })])
        }
    }
}

pub fn sp_json(s: &Sp) -> J {
    J::Str(format!("{s:?}"))
}
pub fn st_json(s: &St) -> J {
    J::Str(format!("{s:?}"))
}

pub fn finding(property: &'static str, class: &str, what: String) -> Finding {
    Finding { property, class: class.into(), what, call: 0 }
}

// ------------------------------------------------------------------------------------------
// shadow of the sampling arithmetic, only to learn at which quaternions acos is called

fn u01(u: u64) -> f64 {
    f64::from_bits((u >> 12) | 0x3FF0_0000_0000_0000) - 1.0
}

pub fn shadow_sample(sp: &Sp, us: &[u64], mut pos: usize, lm: &mut Libm) -> Option<usize> {
    match sp {
        Sp::Rv { dim, bounds, .. } => {
            let b = bounds.clone().unwrap_or(vec![(f64::NEG_INFINITY, f64::INFINITY); *dim]);
            for i in 0..*dim {
                let (lo, hi) = *b.get(i)?;
                if !lo.is_finite() || !hi.is_finite() || lo >= hi || !(hi - lo).is_finite() {
                    return None;
                }
                pos += 1;
            }
            Some(pos)
        }
        Sp::So2 { .. } => Some(pos + 1),
        Sp::So3 { .. } => {
            let (c, m) = so3_params(sp)?;
            if m < 1e-9 {
                return Some(pos);
            }
            for _ in 0..64 {
                if pos + 4 > us.len() {
                    return None;
                }
                let x = u01(us[pos]) * 2.0 + -1.0;
                let y = u01(us[pos + 1]) * 2.0 + -1.0;
                let z = u01(us[pos + 2]) * 2.0 + -1.0;
                let w = u01(us[pos + 3]) * 2.0 + -1.0;
                pos += 4;
                let n2 = x * x + y * y + z * z + w * w;
                if n2 > 1e-9 && n2 < 1.0 {
                    let n = n2.sqrt();
                    let q = [x / n, y / n, z / n, w / n];
                    if lm.dist(&c, &q) <= m {
                        return Some(pos);
                    }
                }
            }
            None
        }
        Sp::Cs(subs) => {
            for (s, _) in subs {
                pos = shadow_sample(s, us, pos, lm)?;
            }
            Some(pos)
        }
        Sp::Se2 { bounds, .. } => {
            let b = bounds.clone();
            let r2 = Sp::Rv { dim: 2, bounds: b.as_ref().map(|v| vec![v[0], v[1]]), frac: None };
            pos = shadow_sample(&r2, us, pos, lm)?;
            Some(pos + 1)
        }
        Sp::Se3 { bounds, .. } => {
            let r3 = Sp::Rv { dim: 3, bounds: bounds.clone(), frac: None };
            pos = shadow_sample(&r3, us, pos, lm)?;
            shadow_sample(&Sp::So3 { bounds: None, frac: None }, us, pos, lm)
        }
    }
}

// ------------------------------------------------------------------------------------------
// case construction

pub struct SpCase {
    pub id: String,
    pub enc: Vec<u64>,
    pub json: J,
    pub findings: Vec<Finding>,
    pub nontrivial: bool,
}

fn enc_res_f(e: &mut Enc, r: &R<f64>) {
    match r {
        R::Ok(x) => {
            e.n(0);
            e.f(*x);
        }
        R::Panic => e.n(1),
        R::Err(c) => {
            e.n(2);
            e.n(*c);
        }
    }
}
fn enc_res_st(e: &mut Enc, r: &R<St>) {
    match r {
        R::Ok(x) => {
            e.n(0);
            e.st(x);
        }
        R::Panic => e.n(1),
        R::Err(c) => {
            e.n(2);
            e.n(*c);
        }
    }
}
fn enc_res_b(e: &mut Enc, r: &R<bool>) {
    match r {
        R::Ok(x) => {
            e.n(0);
            e.n(*x as u64);
        }
        R::Panic => e.n(1),
        R::Err(c) => {
            e.n(2);
            e.n(*c);
        }
    }
}

fn header(op: u64, lm: &Libm) -> Enc {
    let mut e = Enc(vec![op, lm.0.len() as u64]);
    for (f, a, r) in &lm.0 {
        e.n(*f);
        e.w64(if f64::from_bits(*a).is_nan() { 0x7ff8000000000000 } else { *a });
        e.w64(if f64::from_bits(*r).is_nan() { 0x7ff8000000000000 } else { *r });
    }
    e
}

fn hexf(x: f64) -> J {
    J::Str(format!("{:016x}", x.to_bits()))
}
fn leaf_ref(sp: &Sp, sts: &[&St], extra: Vec<(&str, J)>) -> J {
    let kind = match sp {
        Sp::Rv { .. } => "rv",
        Sp::So2 { .. } => "so2",
        Sp::So3 { .. } => "so3",
        _ => return J::Null,
    };
    let flat = |s: &St| -> J {
        J::Arr(match s {
            St::Rv(v) => v.iter().map(|x| hexf(*x)).collect(),
            St::So2(v) => vec![hexf(*v)],
            St::So3(q) => q.iter().map(|x| hexf(*x)).collect(),
            St::C(_) => vec![],
        })
    };
    let mut v = vec![("kind", J::s(kind)), ("states", J::Arr(sts.iter().map(|s| flat(s)).collect()))];
    v.extend(extra);
    J::obj(v)
}

pub fn case_dist(id: String, sp: &Sp, a: &St, b: &St) -> Option<SpCase> {
    let real = build(sp).ok()?;
    let r = op_dist(&real, a, b)?;
    let lm = libm_for(sp, 0, &[a, b], 0.0, None);
    let mut e = header(0, &lm);
    e.sp(sp);
    e.st(a);
    e.st(b);
    enc_res_f(&mut e, &r);
    Some(SpCase {
        id,
        enc: e.0,
        json: J::obj(vec![("op", J::s("distance")), ("space", sp_json(sp)), ("a", st_json(a)), ("b", st_json(b)), ("result", J::Str(format!("{r:?}"))),
            ("ref", leaf_ref(sp, &[a, b], vec![("d", match &r { R::Ok(d) => hexf(*d), _ => J::Null })])),
            ("pyw", match (sp, a, b, &r) {
                (Sp::Rv { dim, .. }, St::Rv(x), St::Rv(y), R::Ok(d)) if x.len() == *dim && y.len() == *dim && *dim > 0 =>
                    J::obj(vec![("op", J::s("dist")), ("kind", J::s("rv")), ("states", J::Arr(vec![J::Arr(x.iter().map(|v| hexf(*v)).collect()), J::Arr(y.iter().map(|v| hexf(*v)).collect())])), ("expect", hexf(*d))]),
                (Sp::So2 { .. }, St::So2(x), St::So2(y), R::Ok(_)) if x.is_finite() && y.is_finite() => {
                    // the Python constructor canonicalises: expected = the core on canonicalised states
                    let s2 = SO2StateSpace::new(None).unwrap();
                    let d = s2.distance(&SO2State::new(*x), &SO2State::new(*y));
                    J::obj(vec![("op", J::s("dist")), ("kind", J::s("so2")), ("states", J::Arr(vec![J::Arr(vec![hexf(*x)]), J::Arr(vec![hexf(*y)])])), ("expect", hexf(d)),
                        ("canon", J::Arr(vec![hexf(SO2State::new(*x).value), hexf(SO2State::new(*y).value)]))])
                }
                (Sp::So3 { .. }, St::So3(x), St::So3(y), R::Ok(d)) =>
                    J::obj(vec![("op", J::s("dist")), ("kind", J::s("so3")), ("states", J::Arr(vec![J::Arr(x.iter().map(|v| hexf(*v)).collect()), J::Arr(y.iter().map(|v| hexf(*v)).collect())])), ("expect", hexf(*d))]),
                _ => J::Null,
            })]),
        findings: vec![],
        nontrivial: matches!(r, R::Ok(d) if d != 0.0),
    })
}

pub fn case_interp(id: String, sp: &Sp, a: &St, b: &St, t: f64, out: &St) -> Option<SpCase> {
    let real = build(sp).ok()?;
    let r = op_interp(&real, a, b, t, out)?;
    let lm = libm_for(sp, 1, &[a, b], t, None);
    let mut e = header(1, &lm);
    e.sp(sp);
    e.st(a);
    e.st(b);
    e.f(t);
    e.st(out);
    enc_res_st(&mut e, &r);
    Some(SpCase {
        id,
        enc: e.0,
        json: J::obj(vec![("op", J::s("interpolate")), ("space", sp_json(sp)), ("a", st_json(a)), ("b", st_json(b)), ("t", J::Num(t)), ("result", J::Str(format!("{r:?}"))),
            ("ref", match &r { R::Ok(o) => leaf_ref(sp, &[a, b, o], vec![("t", hexf(t))]), _ => J::Null })]),
        findings: vec![],
        nontrivial: t != 0.0,
    })
}

pub fn case_enforce(id: String, sp: &Sp, a: &St) -> Option<SpCase> {
    let real = build(sp).ok()?;
    let r = op_enforce(&real, a)?;
    let lm = libm_for(sp, 2, &[a], 0.0, None);
    let mut e = header(2, &lm);
    e.sp(sp);
    e.st(a);
    enc_res_st(&mut e, &r);
    Some(SpCase {
        id,
        enc: e.0,
        json: J::obj(vec![("op", J::s("enforce_bounds")), ("space", sp_json(sp)), ("a", st_json(a)), ("result", J::Str(format!("{r:?}")))]),
        findings: vec![],
        nontrivial: true,
    })
}

pub fn case_satisfies(id: String, sp: &Sp, a: &St) -> Option<SpCase> {
    let real = build(sp).ok()?;
    let r = op_satisfies(&real, a)?;
    let lm = libm_for(sp, 3, &[a], 0.0, None);
    let mut e = header(3, &lm);
    e.sp(sp);
    e.st(a);
    enc_res_b(&mut e, &r);
    Some(SpCase {
        id,
        enc: e.0,
        json: J::obj(vec![("op", J::s("satisfies_bounds")), ("space", sp_json(sp)), ("a", st_json(a)), ("result", J::Str(format!("{r:?}")))]),
        findings: vec![],
        nontrivial: true,
    })
}

pub fn case_lvs(id: String, sp: &Sp) -> Option<SpCase> {
    let real = build(sp).ok()?;
    let r = op_lvs(&real);
    let mut e = header(4, &Libm::default());
    e.sp(sp);
    enc_res_f(&mut e, &r);
    Some(SpCase {
        id,
        enc: e.0,
        json: J::obj(vec![("op", J::s("longest_valid_segment_length")), ("space", sp_json(sp)), ("result", J::Str(format!("{r:?}")))]),
        findings: vec![],
        nontrivial: true,
    })
}

pub fn case_sample(id: String, sp: &Sp, us: &[u64]) -> Option<SpCase> {
    let real = build(sp).ok()?;
    let (r, used) = op_sample(&real, us);
    if used > us.len() {
        return None; // consumed more than the script held (rejection loop ran long): not comparable
    }
    let mut lm = Libm::default();
    shadow_sample(sp, us, 0, &mut lm);
    let mut e = header(5, &lm);
    e.sp(sp);
    e.n(us.len() as u64);
    for u in us {
        e.w64(*u);
    }
    enc_res_st(&mut e, &r);
    e.n(used as u64);
    let mut findings = vec![];
    // C11: a sample satisfies the bounds; sampling never panics on a constructible space
    match &r {
        R::Ok(s) => {
            if let Some(R::Ok(false)) = op_satisfies(&real, s) {
                let class = if us.iter().take(used).any(|u| *u >> 12 == (u64::MAX >> 12)) { "sample_out_of_bounds:upper_end" } else { "sample_out_of_bounds" };
                findings.push(finding("C11", class, format!("sample_uniform of {sp:?} returned {s:?} which satisfies_bounds rejects")));
            }
        }
        R::Panic => {
            let class = match sp {
                Sp::Rv { bounds: Some(b), .. } if b.iter().any(|(lo, hi)| lo.is_finite() && hi.is_finite() && !(hi - lo).is_finite()) => "sample_panics:infinite_width",
                _ => "sample_panics",
            };
            findings.push(finding("C11", class, format!("sample_uniform of {sp:?} panicked")));
        }
        R::Err(_) => {}
    }
    Some(SpCase {
        id,
        enc: e.0,
        json: J::obj(vec![("op", J::s("sample_uniform")), ("space", sp_json(sp)), ("u64s", J::Int(used as i128)), ("result", J::Str(format!("{r:?}")))]),
        findings,
        nontrivial: matches!(r, R::Ok(_)),
    })
}

pub fn case_ctor(id: String, sp: &Sp) -> SpCase {
    let r = build(sp);
    let mut e = header(6, &Libm::default());
    e.sp(sp);
    let mut findings = vec![];
    match &r {
        Ok(real) => {
            e.n(0);
            match real {
                RealSp::Rv(s) => {
                    e.n(0);
                    e.n(s.dimension as u64);
                    e.n(s.bounds.len() as u64);
                    for (lo, hi) in &s.bounds {
                        e.f(*lo);
                        e.f(*hi);
                    }
                    // C12: stored bounds well-formed
                    if s.bounds.len() != s.dimension || s.bounds.iter().any(|(lo, hi)| !(lo < hi)) {
                        findings.push(finding("C12", "rv_bounds_malformed", format!("RealVectorStateSpace::new accepted {sp:?}: stored {:?}", s.bounds)));
                    }
                }
                RealSp::So2(s) => {
                    e.n(1);
                    e.f(s.bounds.0);
                    e.f(s.bounds.1);
                    let (lo, hi) = s.bounds;
                    if !(lo < hi) || !(lo >= -PI) || !(hi <= PI) {
                        findings.push(finding("C12", "so2_bounds_malformed", format!("SO2StateSpace::new accepted {sp:?}: stored {:?}", s.bounds)));
                    }
                }
                RealSp::So3(s) => {
                    e.n(2);
                    let c = &s.bounds.0;
                    for x in [c.x, c.y, c.z, c.w] {
                        e.f(x);
                    }
                    e.f(s.bounds.1);
                    if !(s.bounds.1 >= 0.0) || !(s.bounds.1 <= PI) {
                        findings.push(finding("C12", "so3_radius_malformed", format!("SO3StateSpace::new accepted {sp:?}: stored radius {}", s.bounds.1)));
                    }
                }
                _ => e.n(3),
            }
            // every space that is returned can be used for bounds operations and sampled without panicking
            let mut r0 = Sm::new(7, "ctor-use", 0);
            let s0 = state_for(sp, &mut r0, false);
            if let Some(R::Panic) = op_enforce(real, &s0) {
                findings.push(finding("C12", "constructed_space_panics", format!("enforce_bounds panics on the space constructed from {sp:?}")));
            }
            if let Some(R::Panic) = op_satisfies(real, &s0) {
                findings.push(finding("C12", "constructed_space_panics", format!("satisfies_bounds panics on the space constructed from {sp:?}")));
            }
        }
        Err(c) => {
            e.n(2);
            e.n(*c);
        }
    }
    SpCase {
        id,
        enc: e.0,
        json: J::obj(vec![("op", J::s("constructor")), ("args", sp_json(sp)), ("result", J::Str(match &r { Ok(_) => "Ok".into(), Err(c) => format!("Err({c})") })),
            ("pyw", {
                let bj = |b: &Option<Vec<(f64, f64)>>| match b { Some(v) => J::Arr(v.iter().map(|(lo, hi)| J::Arr(vec![hexf(*lo), hexf(*hi)])).collect()), None => J::Null };
                let exp = ("expect_ok", J::Bool(r.is_ok()));
                let ext = ("extent", match &r { Ok(RealSp::Rv(s)) => hexf(s.get_maximum_extent()), Ok(RealSp::So2(s)) => hexf(s.get_maximum_extent()), Ok(RealSp::So3(s)) => hexf(s.get_maximum_extent()), _ => J::Null });
                match sp {
                    Sp::Rv { dim, bounds, frac: None } => J::obj(vec![("op", J::s("ctor_rv")), ("dim", J::Int(*dim as i128)), ("bounds", bj(bounds)), exp, ext]),
                    Sp::So2 { bounds, frac: None } => J::obj(vec![("op", J::s("ctor_so2")), ("bounds", match bounds { Some((lo, hi)) => J::Arr(vec![hexf(*lo), hexf(*hi)]), None => J::Null }), exp, ext]),
                    Sp::So3 { bounds, frac: None } => J::obj(vec![("op", J::s("ctor_so3")), ("bounds", match bounds { Some((c, m)) => J::Arr(vec![J::Arr(c.iter().map(|x| hexf(*x)).collect()), hexf(*m)]), None => J::Null }), exp, ext]),
                    Sp::Se2 { w, bounds } => J::obj(vec![("op", J::s("ctor_se2")), ("w", hexf(*w)), ("bounds", bj(bounds)), exp]),
                    Sp::Se3 { w, bounds } => J::obj(vec![("op", J::s("ctor_se3")), ("w", hexf(*w)), ("bounds", bj(bounds)), exp]),
                    _ => J::Null,
                }
            })]),
        findings,
        nontrivial: true,
    }
}

pub fn case_so2new(id: String, v: f64) -> SpCase {
    let s = SO2State::new(v);
    let mut e = header(7, &Libm::default());
    e.f(v);
    e.f(s.value);
    let mut findings = vec![];
    if v.is_finite() {
        if !(s.value >= -PI && s.value <= PI) {
            findings.push(finding("C12", "so2_state_not_canonical", format!("SO2State::new({v}) = {}", s.value)));
        }
        if v.abs() <= 1e6 {
            // congruent modulo 2 pi (float 2 pi; absolute tolerance of DESIGN 3.3)
            let k = ((v - s.value) / (2.0 * PI)).round();
            if ((v - s.value) - k * 2.0 * PI).abs() > 1e-9 {
                findings.push(finding("C12", "so2_state_not_congruent", format!("SO2State::new({v}) = {} is not congruent to the input", s.value)));
            }
        }
    }
    SpCase { id, enc: e.0, json: J::obj(vec![("op", J::s("SO2State::new")), ("v", J::Num(v)), ("result", J::Num(s.value)),
        ("pyw", J::obj(vec![("op", J::s("so2_new")), ("v", hexf(v)), ("expect", hexf(s.value))]))]), findings, nontrivial: true }
}

pub fn case_so3norm(id: String, q: &[f64; 4]) -> SpCase {
    let r = quat(q).normalise();
    let mut e = header(8, &Libm::default());
    e.st(&St::So3(*q));
    let mut findings = vec![];
    match &r {
        Ok(n) => {
            e.n(0);
            e.st(&St::So3([n.x, n.y, n.z, n.w]));
            let norm = (n.x * n.x + n.y * n.y + n.z * n.z + n.w * n.w).sqrt();
            if q.iter().all(|x| x.is_finite()) && !((norm - 1.0).abs() <= 1e-9) {
                let class = if q.iter().any(|x| x.abs() > 1e150) { "normalise_not_unit:huge" } else { "normalise_not_unit" };
                findings.push(finding("C12", class, format!("normalise of {q:?} returned a quaternion of norm {norm}")));
            }
        }
        Err(_) => {
            e.n(2);
            e.n(7);
        }
    }
    SpCase { id, enc: e.0, json: J::obj(vec![("op", J::s("SO3State::normalise")), ("q", J::Str(format!("{q:?}"))), ("result", J::Str(format!("{r:?}")))]), findings, nontrivial: true }
}

// ------------------------------------------------------------------------------------------
// tolerances (DESIGN section 3.3) and direct oracles

fn has_so3(sp: &Sp) -> bool {
    match sp {
        Sp::So3 { .. } | Sp::Se3 { .. } => true,
        Sp::Cs(s) => s.iter().any(|(x, _)| has_so3(x)),
        _ => false,
    }
}
/// absolute tolerance of a distance in this space
fn abs_tol(sp: &Sp) -> f64 {
    match sp {
        Sp::Rv { .. } => 0.0,
        Sp::So2 { .. } => 1e-9,
        Sp::So3 { .. } => 2e-7,
        Sp::Cs(s) => s.iter().map(|(x, w)| abs_tol(x) * w.abs()).sum(),
        Sp::Se2 { w, .. } => 1e-9 * w.abs(),
        Sp::Se3 { w, .. } => 2e-7 * w.abs(),
    }
}
fn tol(sp: &Sp, scale: f64) -> f64 {
    1e-12 * scale.abs() + abs_tol(sp) + 1e-300
}
fn lerp_extra(sp: &Sp) -> f64 {
    if has_so3(sp) {
        match sp {
            Sp::Cs(s) => s.iter().map(|(x, w)| if has_so3(x) { 1.1e-6 * w.abs() } else { 0.0 }).sum(),
            Sp::Se3 { w, .. } => 1.1e-6 * w.abs(),
            _ => 1.1e-6,
        }
    } else {
        0.0
    }
}

fn okf(r: Option<R<f64>>) -> Option<f64> {
    match r {
        Some(R::Ok(x)) if x.is_finite() => Some(x),
        _ => None,
    }
}

/// the stated tolerances for angles hold for |angle| <= 1e6 (DESIGN 3.3)
fn big_angle(s: &St) -> bool {
    match s {
        St::So2(v) => v.abs() > 1e6,
        St::C(l) => l.iter().any(big_angle),
        _ => false,
    }
}

/// states of moderate size: no NaN / infinite / huge component (differences and squares cannot overflow), rotations
/// given by unit quaternions
fn tame(s: &St) -> bool {
    match s {
        St::Rv(v) => v.iter().all(|x| x.is_finite() && x.abs() < 1e100),
        St::So2(v) => v.is_finite() && v.abs() < 1e6,
        St::So3(q) => q.iter().all(|x| x.is_finite()) && (q.iter().map(|x| x * x).sum::<f64>().sqrt() - 1.0).abs() < 1e-9,
        St::C(l) => l.iter().all(tame),
    }
}

pub fn oracle_metric(sp: &Sp, real: &RealSp, a: &St, b: &St, c: &St, out: &mut Vec<Finding>) {
    if big_angle(a) || big_angle(b) || big_angle(c) {
        return;
    }
    // a distance between states of moderate size (no NaN / infinite / huge component; rotations given by unit
    // quaternions) is a number: NaN is a failure of every metric law at once
    fn tame_weights(sp: &Sp) -> bool {
        match sp {
            Sp::Cs(s) => s.iter().all(|(x, w)| w.is_finite() && tame_weights(x)),
            Sp::Se2 { w, .. } | Sp::Se3 { w, .. } => w.is_finite(),
            _ => true,
        }
    }
    if tame(a) && tame(b) && tame_weights(sp) {
        for (x, y) in [(a, b), (a, a), (b, b)] {
            if let Some(R::Ok(d)) = op_dist(real, x, y) {
                if d.is_nan() {
                    out.push(finding("C09", "distance_nan", format!("{sp:?}: d({x:?}, {y:?}) is NaN")));
                    // seen from PRM: `distance < connection_radius` is false for NaN, so a milestone at (true)
                    // distance 0 from the start or from another milestone is neither connected nor linked
                    out.push(finding("C18", "radius_test_undefined", format!("{sp:?}: d({x:?}, {y:?}) is NaN, so the test `distance < connection_radius` fails for states that are within any radius of each other")));
                }
            }
        }
    }
    let (Some(dab), Some(dba), Some(dbc), Some(dac), Some(daa)) = (
        okf(op_dist(real, a, b)),
        okf(op_dist(real, b, a)),
        okf(op_dist(real, b, c)),
        okf(op_dist(real, a, c)),
        okf(op_dist(real, a, a)),
    ) else {
        return;
    };
    let t = |s: f64| tol(sp, s);
    if dab < 0.0 {
        out.push(finding("C09", "negative_distance", format!("{sp:?}: d({a:?},{b:?}) = {dab}")));
    }
    if daa.abs() > t(0.0) {
        out.push(finding("C09", "self_distance_nonzero", format!("{sp:?}: d(a,a) = {daa} for a = {a:?}")));
    }
    if (dab - dba).abs() > t(dab) {
        out.push(finding("C09", "asymmetric", format!("{sp:?}: d(a,b) = {dab}, d(b,a) = {dba} for {a:?}, {b:?}")));
    }
    if dac > dab + dbc + t(dab + dbc) + t(dac) {
        out.push(finding("C09", "triangle", format!("{sp:?}: d(a,c) = {dac} > d(a,b) + d(b,c) = {} for {a:?}, {b:?}, {c:?}", dab + dbc)));
    }
    match sp {
        Sp::So2 { .. } | Sp::So3 { .. } => {
            if dab > PI + t(PI) {
                out.push(finding("C09", "exceeds_diameter", format!("{sp:?}: d = {dab} > pi")));
            }
        }
        _ => {}
    }
    // equivalent representations
    match (sp, a) {
        (Sp::So2 { .. }, St::So2(x)) if x.abs() < 1e5 => {
            for k in [-2.0, 1.0, 3.0] {
                if let Some(d2) = okf(op_dist(real, &St::So2(x + k * 2.0 * PI), b)) {
                    if (d2 - dab).abs() > t(dab) + 1e-9 {
                        out.push(finding("C09", "not_periodic", format!("SO2: d({x}+{k}*2pi, b) = {d2} vs {dab}")));
                    }
                }
            }
        }
        (Sp::So3 { .. }, St::So3(q)) => {
            let nq = [-q[0], -q[1], -q[2], -q[3]];
            if let Some(d2) = okf(op_dist(real, &St::So3(nq), b)) {
                if (d2 - dab).abs() > t(dab) {
                    out.push(finding("C09", "q_and_minus_q_differ", format!("SO3: d(-q,b) = {d2} vs d(q,b) = {dab} for q = {q:?}")));
                }
            }
        }
        _ => {}
    }
}

fn canonical(sp: &Sp, s: &St) -> bool {
    match (sp, s) {
        (Sp::So2 { .. }, St::So2(v)) => *v >= -PI && *v <= PI,
        (Sp::So3 { .. }, St::So3(q)) => ((q[0] * q[0] + q[1] * q[1] + q[2] * q[2] + q[3] * q[3]).sqrt() - 1.0).abs() <= 1e-9,
        (Sp::Cs(subs), St::C(l)) => subs.iter().zip(l).all(|((x, _), y)| canonical(x, y)),
        (Sp::Se2 { .. }, St::C(l)) => matches!(l.get(1), Some(St::So2(v)) if *v >= -PI && *v <= PI),
        (Sp::Se3 { .. }, St::C(l)) => matches!(l.get(1), Some(St::So3(q)) if ((q[0]*q[0]+q[1]*q[1]+q[2]*q[2]+q[3]*q[3]).sqrt() - 1.0).abs() <= 1e-9),
        _ => true,
    }
}

pub fn oracle_interp(sp: &Sp, real: &RealSp, a: &St, b: &St, t: f64, out: &mut Vec<Finding>) {
    if !(0.0..=1.0).contains(&t) || big_angle(a) || big_angle(b) {
        return;
    }
    let Some(R::Ok(r)) = op_interp(real, a, b, t, a) else { return };
    // interpolating between finite canonical states (unit quaternions) gives a state, not NaNs - also for q and -q
    {
        let fin = |s: &St| st_bits(s).iter().all(|x| f64::from_bits(*x).is_finite());
        if tame(a) && tame(b) && canonical(sp, a) && canonical(sp, b) && !fin(&r) {
            let what = format!("{sp:?}: interpolate({a:?}, {b:?}, {t}) = {r:?}");
            out.push(finding("C10", "result_not_finite", what.clone()));
            out.push(finding("C16", "steer_result_not_finite", what.clone()));
            out.push(finding("C05", "steer_result_not_finite", what.clone()));
            out.push(finding("C03", "interpolation_not_finite", what));
        }
    }
    let Some(dab) = okf(op_dist(real, a, b)) else { return };
    let (Some(dar), Some(drb)) = (okf(op_dist(real, a, &r)), okf(op_dist(real, &r, b))) else { return };
    // rounding of from + (to - from) * t is relative to the size of the coordinates, not to d(a, b)
    // (adjacent floats: d = 1 ulp, and the midpoint rounds onto an end point)
    fn mag(s: &St) -> f64 {
        match s {
            St::Rv(v) => v.iter().fold(0.0, |m, x| m.max(x.abs())),
            St::C(l) => l.iter().map(mag).fold(0.0, f64::max),
            _ => 0.0,
        }
    }
    let tl = tol(sp, dab) * 4.0 + lerp_extra(sp) + 8.0 * f64::EPSILON * mag(a).max(mag(b));
    // exactly antipodal pairs have two shortest paths; the laws below still hold for either
    if (dar - t * dab).abs() > tl {
        out.push(finding("C10", "not_constant_speed_from", format!("{sp:?}: d(a, interp(a,b,{t})) = {dar}, expected {} (a = {a:?}, b = {b:?})", t * dab)));
    }
    if (drb - (1.0 - t) * dab).abs() > tl {
        out.push(finding("C10", "not_constant_speed_to", format!("{sp:?}: d(interp(a,b,{t}), b) = {drb}, expected {} (a = {a:?}, b = {b:?})", (1.0 - t) * dab)));
    }
    // the same law seen from the planners: the steering step interpolate(near, sample, max/d) must land max away from
    // `near` (C05), and the states check_motion samples at k/n must be d/n apart (C03) - an interpolated state that is
    // farther along than its parameter says breaks both
    if dar - t * dab > tl || (t * dab - dar > tl && dab > 0.0) {
        out.push(finding("C16", "steer_not_on_shortest_path", format!("{sp:?}: the state a step of length {} from a towards b is {dar} away from a (a = {a:?}, b = {b:?}, t = {t})", t * dab)));
    }
    if dar - t * dab > tl {
        out.push(finding("C15", "tree_edge_longer_than_step", format!("{sp:?}: steering by {} from a towards b yields a state {dar} away from a: the tree edge is longer than the extension step (a = {a:?}, b = {b:?}, t = {t})", t * dab)));
        out.push(finding("C05", "steer_overshoot", format!("{sp:?}: a step of length {} from a towards b lands {dar} away from a (a = {a:?}, b = {b:?}, t = {t})", t * dab)));
    }
    if dar - t * dab > tl || drb - (1.0 - t) * dab > tl {
        out.push(finding("C03", "interpolation_spacing", format!("{sp:?}: interpolate(a,b,{t}) is {dar} from a and {drb} from b although d(a,b) = {dab}: states sampled along the motion are farther apart than the resolution assumes (a = {a:?}, b = {b:?})")));
    }
    if canonical(sp, a) && canonical(sp, b) && !canonical(sp, &r) {
        out.push(finding("C10", "result_not_canonical", format!("{sp:?}: interp({a:?},{b:?},{t}) = {r:?}")));
    }
    if let (Sp::So2 { .. }, St::So2(v)) = (sp, &r) {
        if !(*v >= -PI && *v <= PI) {
            out.push(finding("C10", "so2_result_outside_pm_pi", format!("SO2 interp({a:?},{b:?},{t}) = {v}")));
        }
    }
    // reversal (not at the antipodal tie)
    let near_tie = match sp {
        Sp::Rv { .. } => false,
        _ => has_rot_tie(sp, real, a, b),
    };
    if !near_tie {
        if let Some(R::Ok(r2)) = op_interp(real, b, a, 1.0 - t, b) {
            if let Some(d) = okf(op_dist(real, &r, &r2)) {
                if d > tl + tol(sp, dab) {
                    out.push(finding("C10", "reverse_differs", format!("{sp:?}: interp(b,a,1-t) is {d} away from interp(a,b,t) (a = {a:?}, b = {b:?}, t = {t})")));
                }
            }
        }
    }
}

/// C04 at the level of one space: boxes and SO(2) intervals of span <= PI are convex under the space's own
/// interpolation - from two states inside the bounds every interpolated state is inside (bounded SO(3) cones are
/// excluded: not convex in general, see Props/C04.v)
pub fn oracle_convex(sp: &Sp, real: &RealSp, a: &St, b: &St, t: f64, out: &mut Vec<Finding>) {
    fn bounded_so3(sp: &Sp) -> bool {
        match sp {
            Sp::So3 { bounds: Some(_), .. } => true,
            Sp::Cs(s) => s.iter().any(|(x, _)| bounded_so3(x)),
            _ => false,
        }
    }
    fn wide_so2(sp: &Sp) -> bool {
        match sp {
            Sp::So2 { bounds: Some((lo, hi)), .. } => hi.min(PI) - lo.max(-PI) > PI,
            Sp::Se2 { bounds: Some(b), .. } if b.len() == 3 => b[2].1.min(PI) - b[2].0.max(-PI) > PI,
            Sp::Cs(s) => s.iter().any(|(x, _)| wide_so2(x)),
            _ => false,
        }
    }
    if bounded_so3(sp) || !(0.0..=1.0).contains(&t) || st_bits(a).iter().chain(st_bits(b).iter()).any(|x| !f64::from_bits(*x).is_finite()) {
        return;
    }
    if bounds_excess(sp, a) > 0.0 || bounds_excess(sp, b) > 0.0 {
        return;
    }
    // "within the bounds" as the library itself judges it (a state stored as PI / -PI on an interval ending at PI is
    // rejected by satisfies_bounds: recorded under C11, and then the premise of C04 does not hold)
    if !matches!(op_satisfies(real, a), Some(R::Ok(true))) || !matches!(op_satisfies(real, b), Some(R::Ok(true))) {
        return;
    }
    // boxes wider than f64::MAX: `to - from` overflows; no planner can sample such a box (sample_uniform panics,
    // recorded under C11) and a steering step towards a state at infinite distance yields NaN, never a path
    fn overflowing(sp: &Sp) -> bool {
        match sp {
            Sp::Rv { bounds: Some(b), .. } => b.iter().any(|(lo, hi)| !(hi - lo).is_finite()),
            Sp::Cs(s) => s.iter().any(|(x, _)| overflowing(x)),
            Sp::Se2 { bounds: Some(b), .. } | Sp::Se3 { bounds: Some(b), .. } => b.iter().any(|(lo, hi)| !(hi - lo).is_finite()),
            _ => false,
        }
    }
    if overflowing(sp) {
        return;
    }
    if let Some(R::Ok(o)) = op_interp(real, a, b, t, a) {
        let ex = bounds_excess(sp, &o);
        if ex > 1e-9 {
            let class = if wide_so2(sp) { "out_of_bounds:so2_span_gt_pi" } else { "out_of_bounds:interpolation" };
            out.push(finding("C04", class, format!("{sp:?}: interpolate({a:?}, {b:?}, {t}) = {o:?} is outside the bounds by {ex:e} although both end points are inside")));
        }
    }
}

fn has_rot_tie(sp: &Sp, _real: &RealSp, a: &St, b: &St) -> bool {
    // any rotational component within 1e-6 of being antipodal
    fn go(sp: &Sp, a: &St, b: &St) -> bool {
        match (sp, a, b) {
            (Sp::So2 { .. }, St::So2(x), St::So2(y)) => {
                let d = ((x - y + PI).rem_euclid(2.0 * PI) - PI).abs();
                (d - PI).abs() < 1e-6
            }
            (Sp::So3 { .. }, St::So3(p), St::So3(q)) => (p[0] * q[0] + p[1] * q[1] + p[2] * q[2] + p[3] * q[3]).abs() < 1e-6,
            (Sp::Cs(subs), St::C(x), St::C(y)) => subs.iter().zip(x.iter().zip(y)).any(|((s, _), (p, q))| go(s, p, q)),
            (Sp::Se2 { .. }, St::C(x), St::C(y)) if x.len() > 1 && y.len() > 1 => go(&Sp::So2 { bounds: None, frac: None }, &x[1], &y[1]),
            (Sp::Se3 { .. }, St::C(x), St::C(y)) if x.len() > 1 && y.len() > 1 => go(&Sp::So3 { bounds: None, frac: None }, &x[1], &y[1]),
            _ => false,
        }
    }
    go(sp, a, b)
}

fn st_bits(s: &St) -> Vec<u64> {
    match s {
        St::Rv(v) => v.iter().map(|x| x.to_bits()).collect(),
        St::So2(v) => vec![v.to_bits()],
        St::So3(q) => q.iter().map(|x| x.to_bits()).collect(),
        St::C(l) => l.iter().flat_map(st_bits).collect(),
    }
}

/// how far outside the bounds of `sp` the state is, in the natural measure of each component (0 = inside)
pub fn bounds_excess(sp: &Sp, s: &St) -> f64 {
    fn wrap(a: f64) -> f64 {
        (a + PI).rem_euclid(2.0 * PI) - PI
    }
    match (sp, s) {
        (Sp::Rv { bounds: Some(b), .. }, St::Rv(v)) => v.iter().zip(b).map(|(x, (lo, hi))| (lo - x).max(x - hi).max(0.0)).fold(0.0, f64::max),
        (Sp::So2 { bounds: Some((lo, hi)), .. }, St::So2(a)) => {
            let (lo, hi) = (lo.max(-PI), hi.min(PI));
            let a = wrap(*a);
            if lo <= a && a <= hi { 0.0 } else { wrap(a - lo).abs().min(wrap(a - hi).abs()) }
        }
        (Sp::So3 { bounds: Some((c, m)), .. }, St::So3(q)) => {
            let n = q.iter().map(|x| x * x).sum::<f64>().sqrt();
            if !(n > 0.0) || !n.is_finite() {
                return PI;
            }
            let dot: f64 = q.iter().zip(c).map(|(x, y)| x / n * y).sum();
            (2.0 * dot.abs().min(1.0).acos() - m).max(0.0)
        }
        (Sp::Cs(subs), St::C(l)) => subs.iter().zip(l).map(|((sp, _), s)| bounds_excess(sp, s)).fold(0.0, f64::max),
        (Sp::Se2 { bounds: Some(b), .. }, St::C(l)) if l.len() == 2 && b.len() == 3 => {
            bounds_excess(&Sp::Rv { dim: 2, bounds: Some(vec![b[0], b[1]]), frac: None }, &l[0])
                .max(bounds_excess(&Sp::So2 { bounds: Some(b[2]), frac: None }, &l[1]))
        }
        (Sp::Se3 { bounds: Some(b), .. }, St::C(l)) if l.len() == 2 => bounds_excess(&Sp::Rv { dim: 3, bounds: Some(b.clone()), frac: None }, &l[0]),
        _ => 0.0,
    }
}

pub fn oracle_bounds(sp: &Sp, real: &RealSp, s: &St, out: &mut Vec<Finding>) {
    let Some(R::Ok(e1)) = op_enforce(real, s) else { return };
    let huge_quat = {
        fn hq(s: &St) -> bool {
            match s {
                St::So3(q) => q.iter().any(|x| x.abs() > 1e150),
                St::C(l) => l.iter().any(hq),
                _ => false,
            }
        }
        hq(s)
    };
    let kind = match sp {
        _ if huge_quat => "huge_quaternion",
        Sp::Rv { .. } => "rv",
        Sp::So2 { bounds: Some((lo, hi)), .. } if hi.min(PI) >= PI && lo.max(-PI) > -PI => "so2_upper_pi",
        Sp::So2 { .. } => "so2",
        // a space without an effective bound (no cone, or a cone of radius >= PI) contains every rotation: a rejection
        // there has nothing to do with the recorded rounding-at-the-boundary findings
        Sp::So3 { bounds: None, .. } => "so3_unbounded",
        Sp::So3 { bounds: Some((_, m)), .. } if *m >= PI => "so3_unbounded",
        Sp::So3 { .. } => "so3",
        _ => {
            // an SO(2) component whose (clamped) interval ends at PI with a lower end above -PI: the recorded
            // so2_upper_pi defect seen through SE(2) / a compound space
            fn upper_pi(sp: &Sp) -> bool {
                match sp {
                    Sp::So2 { bounds: Some((lo, hi)), .. } => hi.min(PI) >= PI && lo.max(-PI) > -PI,
                    Sp::Se2 { bounds: Some(b), .. } if b.len() == 3 => b[2].1.min(PI) >= PI && b[2].0.max(-PI) > -PI,
                    Sp::Cs(s) => s.iter().any(|(x, _)| upper_pi(x)),
                    _ => false,
                }
            }
            if has_so3(sp) { "compound_with_so3" } else if upper_pi(sp) { "compound_with_so2_upper_pi" } else { "compound" }
        }
    };
    // the property quantifies over states (finite numbers); NaN / infinite components are the malformed stream
    let nan_in = st_bits(s).iter().any(|b| !f64::from_bits(*b).is_finite());
    if nan_in {
        return;
    }
    match op_satisfies(real, &e1) {
        Some(R::Ok(true)) => {}
        Some(R::Ok(false)) => {
            // the recorded findings are all rounding-level misses (the enforced state sits within a few ulp of the
            // boundary); an enforced state that is really outside is a different class
            let far = if !huge_quat && bounds_excess(sp, &e1) > 1e-9 { ":far" } else { "" };
            out.push(finding("C11", &format!("enforce_not_satisfied:{kind}{far}"), format!("{sp:?}: satisfies_bounds(enforce_bounds({s:?})) = false (enforced: {e1:?}, outside by {:e})", bounds_excess(sp, &e1))))
        }
        Some(R::Panic) => out.push(finding("C11", "satisfies_panics", format!("{sp:?}: satisfies_bounds panics on {e1:?}"))),
        _ => {}
    }
    if let Some(R::Ok(e2)) = op_enforce(real, &e1) {
        // idempotent up to the representation of one configuration (+PI / -PI at the seam, re-normalisation
        // rounding): judged in the space's own metric within its tolerance
        let same_cfg = okf(op_dist(real, &e1, &e2)).map(|d| d <= tol(sp, 0.0)).unwrap_or(false);
        if st_bits(&e2) != st_bits(&e1) && !same_cfg {
            let moved = okf(op_dist(real, &e1, &e2)).unwrap_or(f64::INFINITY);
            let far = if !huge_quat && !(moved <= 1e-6) { ":far" } else { "" };
            out.push(finding("C11", &format!("enforce_not_idempotent:{kind}{far}"), format!("{sp:?}: enforce(enforce({s:?})) = {e2:?} differs from {e1:?} (moved by {moved:e})")));
        }
    }
    if !canonical(sp, &e1) {
        out.push(finding("C11", &format!("enforce_not_canonical:{kind}"), format!("{sp:?}: enforce_bounds({s:?}) = {e1:?}")));
    }
    if canonical(sp, s) {
        if let Some(R::Ok(true)) = op_satisfies(real, s) {
            // already satisfying canonical states are left unchanged (quaternions: up to re-normalisation rounding)
            // unchanged up to the rounding of re-normalisation (angles: (v + pi) rem 2 pi - pi, quaternions: division by the norm)
            let same = st_bits(&e1) == st_bits(s)
                || st_bits(&e1).iter().zip(st_bits(s)).all(|(x, y)| (f64::from_bits(*x) - f64::from_bits(y)).abs() <= 1e-12 * (1.0 + f64::from_bits(y).abs()))
                // +PI and -PI are the same configuration: "unchanged" is judged in the space's own metric
                || okf(op_dist(real, s, &e1)).map(|d| d <= tol(sp, 0.0)).unwrap_or(false);
            if !same {
                out.push(finding("C11", &format!("enforce_changes_satisfying_state:{kind}"), format!("{sp:?}: enforce_bounds({s:?}) = {e1:?}")));
            }
        }
    }
}

/// C13: the compound result equals the documented law evaluated on the component results (bit-exact)
pub fn oracle_compound(sp: &Sp, real: &RealSp, a: &St, b: &St, t: f64, out: &mut Vec<Finding>) {
    let (subs, eq_sp): (Vec<(Sp, f64)>, Option<Sp>) = match sp {
        Sp::Cs(s) => (s.clone(), None),
        Sp::Se2 { w, bounds } => {
            let s = vec![
                (Sp::Rv { dim: 2, bounds: bounds.as_ref().map(|v| vec![v[0], v[1]]), frac: None }, 1.0),
                (Sp::So2 { bounds: bounds.as_ref().map(|v| v[2]), frac: None }, *w),
            ];
            (s.clone(), Some(Sp::Cs(s)))
        }
        Sp::Se3 { w, bounds } => {
            let s = vec![(Sp::Rv { dim: 3, bounds: bounds.clone(), frac: None }, 1.0), (Sp::So3 { bounds: None, frac: None }, *w)];
            (s.clone(), Some(Sp::Cs(s)))
        }
        _ => return,
    };
    let (St::C(xa), St::C(xb)) = (a, b) else { return };
    if xa.len() != subs.len() || xb.len() != subs.len() {
        return;
    }
    let mut comps = vec![];
    for (s, _) in &subs {
        match build(s) {
            Ok(r) => comps.push(r),
            Err(_) => return,
        }
    }
    // distance law
    if let Some(R::Ok(d)) = op_dist(real, a, b) {
        let mut acc = 0.0f64;
        let mut ok = true;
        for (i, (_, w)) in subs.iter().enumerate() {
            match op_dist(&comps[i], &xa[i], &xb[i]) {
                Some(R::Ok(di)) => acc += (di * w).powi(2),
                _ => ok = false,
            }
        }
        if ok && acc.sqrt().to_bits() != d.to_bits() && !(acc.sqrt().is_nan() && d.is_nan()) {
            out.push(finding("C13", "distance_law", format!("{sp:?}: distance {d} but sqrt(sum (w_i d_i)^2) = {} for {a:?}, {b:?}", acc.sqrt())));
        }
    }
    // interpolation component-wise
    if let Some(R::Ok(St::C(r))) = op_interp(real, a, b, t, a) {
        for i in 0..subs.len() {
            if let Some(R::Ok(ri)) = op_interp(&comps[i], &xa[i], &xb[i], t, &xa[i]) {
                if r.get(i).map(st_bits) != Some(st_bits(&ri)) {
                    out.push(finding("C13", "interpolation_law", format!("{sp:?}: component {i} of interpolate = {:?}, the component space gives {ri:?}", r.get(i))));
                }
            }
        }
    }
    // enforce / satisfies component-wise
    if let Some(R::Ok(St::C(r))) = op_enforce(real, a) {
        for i in 0..subs.len() {
            if let Some(R::Ok(ri)) = op_enforce(&comps[i], &xa[i]) {
                if r.get(i).map(st_bits) != Some(st_bits(&ri)) {
                    out.push(finding("C13", "enforce_law", format!("{sp:?}: component {i} of enforce_bounds = {:?}, the component space gives {ri:?}", r.get(i))));
                }
            }
        }
    }
    if let Some(R::Ok(sat)) = op_satisfies(real, a) {
        let mut all = true;
        let mut ok = true;
        for i in 0..subs.len() {
            match op_satisfies(&comps[i], &xa[i]) {
                Some(R::Ok(x)) => all &= x,
                _ => ok = false,
            }
        }
        if ok && all != sat {
            out.push(finding("C13", "satisfies_law", format!("{sp:?}: satisfies_bounds = {sat}, conjunction of components = {all} for {a:?}")));
        }
    }
    // resolution law
    if let R::Ok(l) = op_lvs(real) {
        let mut acc = 0.0f64;
        let mut ok = true;
        for (i, (_, w)) in subs.iter().enumerate() {
            match op_lvs(&comps[i]) {
                R::Ok(li) => acc += (li * w).powi(2),
                _ => ok = false,
            }
        }
        if ok && acc.sqrt().to_bits() != l.to_bits() {
            out.push(finding("C13", "resolution_law", format!("{sp:?}: longest valid segment {l} but the weighted combination is {}", acc.sqrt())));
            // the motion-check resolution of C03 IS this length: a compound space that reports a longer one than the
            // law gives makes every planner sample its motions more coarsely than configured
            if l > acc.sqrt() {
                out.push(finding("C06", "false_success_through_coarse_checks", format!("{sp:?}: longest valid segment {l} exceeds sqrt(sum (w_i l_i)^2) = {}: motions are sampled more coarsely than configured, so a sealing wall thinner than the inflated step no longer prevents a path", acc.sqrt())));
                out.push(finding("C18", "edge_validation_too_coarse", format!("{sp:?}: longest valid segment {l} exceeds sqrt(sum (w_i l_i)^2) = {}: roadmap edges are validated at a coarser resolution than configured", acc.sqrt())));
                out.push(finding("C03", "compound_resolution_too_coarse", format!("{sp:?}: longest valid segment {l} exceeds sqrt(sum (w_i l_i)^2) = {}: motions are checked at a coarser resolution than the subspaces' settings give", acc.sqrt())));
            }
        }
    }
    // SE(2)/SE(3) behave exactly as the compound of their parts with weights (1, w)
    if let Some(eq) = eq_sp {
        if let Ok(er) = build(&eq) {
            let same_f = |x: Option<R<f64>>, y: Option<R<f64>>| match (x, y) {
                (Some(R::Ok(p)), Some(R::Ok(q))) => p.to_bits() == q.to_bits() || (p.is_nan() && q.is_nan()),
                (p, q) => p == q,
            };
            if !same_f(op_dist(real, a, b), op_dist(&er, a, b)) {
                out.push(finding("C13", "se_not_compound:distance", format!("{sp:?} and the equivalent compound disagree on distance({a:?},{b:?})")));
            }
            let same_s = |x: Option<R<St>>, y: Option<R<St>>| match (x, y) {
                (Some(R::Ok(p)), Some(R::Ok(q))) => st_bits(&p) == st_bits(&q),
                (Some(R::Panic), Some(R::Panic)) => true,
                _ => false,
            };
            if !same_s(op_interp(real, a, b, t, a), op_interp(&er, a, b, t, a)) {
                out.push(finding("C13", "se_not_compound:interpolate", format!("{sp:?} and the equivalent compound disagree on interpolate")));
            }
            if !same_s(op_enforce(real, a), op_enforce(&er, a)) {
                out.push(finding("C13", "se_not_compound:enforce", format!("{sp:?} and the equivalent compound disagree on enforce_bounds({a:?})")));
            }
            if op_satisfies(real, a) != op_satisfies(&er, a) {
                out.push(finding("C13", "se_not_compound:satisfies", format!("{sp:?} and the equivalent compound disagree on satisfies_bounds({a:?})")));
            }
            if op_lvs(real) != op_lvs(&er) {
                out.push(finding("C13", "se_not_compound:resolution", format!("{sp:?} and the equivalent compound disagree on the resolution")));
            }
        }
    }
}
