#!/usr/bin/env python3
"""Python side of C19 / C20.

   run_py.py planners <cases.jsonl> <out.jsonl> [--faults-as-false]
       runs every scenario of the harness's py-* families through the Python API (oxmpl_py built from /repo's
       current tree) with callbacks whose arithmetic is bit-identical to the Rust mirror's, and records the
       path (float bit patterns), the exception and an order-sensitive hash of the validity-callback trace.
       With a fault region the callback raises / returns None / returns a non-bool there; with
       --faults-as-false it returns False there instead (the reference run of C20).
   run_py.py wrappers <cases.jsonl> <out.jsonl>
       replays constructor / distance / canonicalisation cases of the spaces families through the Python
       wrappers and records what they return or raise.
"""
import sys, json, struct, math, os

def f(h):
    return struct.unpack("<d", struct.pack("<Q", int(h, 16)))[0]

def hx(x):
    return "%016x" % struct.unpack("<Q", struct.pack("<d", float(x)))[0]

MASK = (1 << 64) - 1

def fnv(h, w):
    h ^= w
    h = (h * 0x100000001b3) & MASK
    return h ^ (h >> 29)

def bits(x):
    return struct.unpack("<Q", struct.pack("<d", float(x)))[0]


def load_module():
    import importlib
    sys.path.insert(0, os.environ.get("OXMPL_PY_DIR", os.path.join(os.path.dirname(os.path.abspath(__file__)), "..", ".cache", "py")))
    return importlib.import_module("oxmpl_py")


class Kit:
    """per-variant construction of spaces / states and flattening, mirroring harness/src/scen.rs::build_py_*"""

    def __init__(self, ox, py):
        self.ox = ox
        b = ox.base
        v = py["variant"]
        sp = py["space"]
        self.v = v
        fr = [f(x) for x in sp.get("fractions", [])]
        if v == "rv":
            self.space = b.RealVectorStateSpace(dimension=sp["dim"], bounds=[(f(lo), f(hi)) for lo, hi in sp["bounds"]])
            if fr:
                self.space.set_longest_valid_segment_fraction(fr[0])
            self.mk = lambda c: b.RealVectorState(list(c))
            self.flat = lambda s: list(s.values)
            self.coords = lambda s: list(s.values)
            self.pd = b.ProblemDefinition.from_real_vector
        elif v == "so2":
            self.space = b.SO2StateSpace((f(sp["bounds"][0]), f(sp["bounds"][1]))) if sp.get("bounds") else b.SO2StateSpace()
            if fr:
                self.space.set_longest_valid_segment_fraction(fr[0])
            self.mk = lambda c: b.SO2State(c[0])
            self.flat = lambda s: [s.value]
            self.coords = lambda s: [s.value]
            self.pd = b.ProblemDefinition.from_so2
        elif v == "so3":
            self.space = b.SO3StateSpace()
            if fr:
                self.space.set_longest_valid_segment_fraction(fr[0])
            self.mk = lambda c: b.SO3State(c[0], c[1], c[2], c[3])
            self.flat = lambda s: [s.x, s.y, s.z, s.w]
            def coords(s):
                sg = -1.0 if s.w < 0.0 else 1.0
                return [s.x * sg, s.y * sg]
            self.coords = coords
            self.pd = b.ProblemDefinition.from_so3
        elif v == "se2":
            self.space = b.SE2StateSpace(f(sp["weight"]), [(f(lo), f(hi)) for lo, hi in sp["bounds"]])
            self.mk = lambda c: b.SE2State(c[0], c[1], c[2])
            self.flat = lambda s: [s.x, s.y, s.yaw]
            self.coords = lambda s: [s.x, s.y]
            self.pd = b.ProblemDefinition.from_se2
        elif v == "se3":
            self.space = b.SE3StateSpace(f(sp["weight"]), [(f(lo), f(hi)) for lo, hi in sp["bounds"]])
            self.mk = lambda c: b.SE3State(c[0], c[1], c[2], b.SO3State(c[3], c[4], c[5], c[6]))
            def flat(s):
                q = s.rotation
                return [s.x, s.y, s.z, q.x, q.y, q.z, q.w]
            self.flat = flat
            self.coords = lambda s: [s.x, s.y]
            self.pd = b.ProblemDefinition.from_se3
        elif v == "compound":
            r2 = b.RealVectorStateSpace(dimension=2, bounds=[(f(lo), f(hi)) for lo, hi in sp["bounds"]])
            so2 = b.SO2StateSpace()
            if fr:
                r2.set_longest_valid_segment_fraction(fr[0])
                so2.set_longest_valid_segment_fraction(fr[1])
            self.space = b.CompoundStateSpace([r2, so2], [f(w) for w in sp["weights"]])
            self.mk = lambda c: b.CompoundState([b.RealVectorState([c[0], c[1]]), b.SO2State(c[2])])
            def flat(s):
                comps = s.components
                return [comps[0].values[0], comps[0].values[1], comps[1].value]
            self.flat = flat
            self.coords = lambda s: flat(s)[:2]
            self.pd = b.ProblemDefinition.from_compound
        else:
            raise ValueError(v)


def in_box(c, box):
    lo = [f(x) for x in box["lo"]]
    hi = [f(x) for x in box["hi"]]
    return all(l <= x <= h for x, l, h in zip(c, lo, hi))


class Goal:
    def __init__(self, kit, target, radius, fault, as_false):
        self.kit, self.target, self.radius, self.fault, self.as_false = kit, target, radius, fault, as_false

    def is_satisfied(self, state):
        if self.fault and self.fault.get("goal") and in_box(self.kit.coords(state), self.fault):
            if self.as_false:
                return False
            k = len(self.fault.get("kind", "")) % 4
            if k == 0:
                raise RuntimeError("goal callback failed (injected)")
            if k == 1:
                return self.no_such_attribute          # AttributeError raised INSIDE a present is_satisfied
            if k == 2:
                raise TypeError("goal callback failed (injected)")
            raise KeyboardInterrupt()
        return self.kit.space.distance(self.target, state) <= self.radius

    def distance_goal(self, state):
        # a correctly implemented goal region: 0 inside the region
        return max(0.0, self.kit.space.distance(self.target, state) - self.radius)

    def sample_goal(self):
        return self.target


class InjectedBase(BaseException):
    pass


class Truthy:
    """an object that converts to True (what numpy.bool_ looks like to a strict bool extraction)"""
    def __bool__(self):
        return True


def run_planner(ox, case, as_false, fault_call=None):
    py = case["world"]["py"]
    kit = Kit(ox, py)
    g = ox.geometric
    b = ox.base
    start = kit.mk([f(x) for x in py["start"]])
    target = kit.mk([f(x) for x in py["target"]])
    fault = py.get("fault")
    goal = Goal(kit, target, f(py["goal_radius"]), fault, as_false)
    trace = {"h": 0xcbf29ce484222325, "n": 0, "faulted": 0}
    boxes = py["boxes"]

    def is_valid(state):
        c = kit.coords(state)
        faulty = bool(fault) and not fault.get("goal") and in_box(c, fault)       # a goal fault leaves validity alone
        ans = not (any(in_box(c, bx) for bx in boxes) or faulty)
        for x in kit.flat(state):
            trace["h"] = fnv(trace["h"], bits(x))
        trace["h"] = fnv(trace["h"], 1 if ans else 0)
        trace["n"] += 1
        if fault_call is not None and trace["n"] == fault_call and not as_false:
            trace["faulted"] += 1
            raise RuntimeError("validity callback failed at call %d (injected)" % fault_call)
        if fault_call is not None and trace["n"] == fault_call and as_false:
            return False
        if faulty and not as_false:
            trace["faulted"] += 1
            k = fault["kind"]
            if k == "raise":
                raise RuntimeError("validity callback failed (injected)")
            if k == "raise_kbd":
                raise KeyboardInterrupt()
            if k == "raise_base":
                raise InjectedBase("validity callback failed (injected, not an Exception subclass)")
            if k == "raise_sysexit":
                raise SystemExit(3)
            if k == "none":
                return None
            if k == "nonbool":
                return [1, 2, 3]
            if k == "tuple":
                return (False, "in collision")
            if k == "int1":
                return 1
            if k == "float":
                return 1.0
            if k == "obj":
                return object()
            if k == "zero":
                return 0
            if k == "empty":
                return ""
            if k == "npbool":
                return Truthy()
            return "yes"
        return ans

    pd = kit.pd(kit.space, start, goal)
    cfg = b.PlannerConfig(seed=py["seed"])
    name = py["planner"]
    md, gb, rad = f(py["max_distance"]), f(py["goal_bias"]), f(py["radius"])
    out = {"id": case["id"], "planner": name}
    try:
        if name == "RRT":
            pl = g.RRT(max_distance=md, goal_bias=gb, problem_definition=pd, planner_config=cfg)
        elif name == "RRT*":
            pl = g.RRTStar(max_distance=md, goal_bias=gb, search_radius=rad, problem_definition=pd, planner_config=cfg)
        elif name == "RRT-Connect":
            pl = g.RRTConnect(max_distance=md, goal_bias=gb, problem_definition=pd, planner_config=cfg)
        else:
            pl = g.PRM(timeout=py["build_secs"], connection_radius=rad, problem_definition=pd, planner_config=cfg)
        pl.setup(is_valid)
        if name == "PRM":
            pl.construct_roadmap()
        path = pl.solve(timeout_secs=float(os.environ.get("OXPY_TIMEOUT", "20")))
        states = [kit.flat(s) for s in path.states]
        out["path"] = [[hx(x) for x in s] for s in states]
        # soundness w.r.t. the Python callbacks (the only claim for PRM)
        out["path_valid"] = all(not (any(in_box(kit.coords(s), bx) for bx in boxes) or (bool(fault) and not fault.get("goal") and in_box(kit.coords(s), fault))) for s in path.states)
        if fault and fault.get("goal") and in_box(kit.coords(path.states[-1]), fault):
            out["ends_on_failed_goal_check"] = True
        out["starts_at_start"] = [hx(x) for x in kit.flat(path.states[0])] == [hx(x) for x in kit.flat(start)]
        out["ends_in_goal"] = bool(kit.space.distance(target, path.states[-1]) <= f(py["goal_radius"]))
    except BaseException as e:     # noqa: BLE001 - includes pyo3 PanicException
        out["error"] = type(e).__name__
        out["msg"] = str(e)[:200]
    out["valid_trace_hash"] = "%016x" % trace["h"]
    out["valid_calls"] = trace["n"]
    out["faulted_calls"] = trace["faulted"]
    return out


def planners(inp, outp, as_false, kth):
    ox = load_module()
    devnull = os.open(os.devnull, os.O_WRONLY)
    saved = (os.dup(1), os.dup(2))
    res = []
    for line in open(inp):
        case = json.loads(line)
        if "py" not in (case.get("world") or {}):
            continue
        if (case.get("kinds") or [""])[-1] == "Timeout":
            continue      # the core ran out of time on this world: the number of completed iterations is time-dependent, nothing to compare
        os.dup2(devnull, 1); os.dup2(devnull, 2)       # the core prints progress, the glue prints tracebacks
        try:
            fk = ((case["world"]["py"].get("fault") or {}).get("kind"))
            if fk == "raise_sysexit" and not as_false:
                # a callback that raises SystemExit may take the whole process down: run it in a child
                rd, wr = os.pipe()
                pid = os.fork()
                if pid == 0:
                    os.close(rd)
                    try:
                        rr = run_planner(ox, case, as_false, kth)
                        os.write(wr, json.dumps(rr).encode())
                    finally:
                        os._exit(0)
                os.close(wr)
                buf = b""
                while True:
                    chunk = os.read(rd, 65536)
                    if not chunk:
                        break
                    buf += chunk
                os.close(rd)
                _, status = os.waitpid(pid, 0)
                if buf:
                    r = json.loads(buf.decode())
                else:
                    r = {"id": case["id"], "planner": case["world"]["py"]["planner"], "process_exit": os.waitstatus_to_exitcode(status)}
            else:
                r = run_planner(ox, case, as_false, kth)
        finally:
            os.dup2(saved[0], 1); os.dup2(saved[1], 2)
        res.append(r)
    with open(outp, "w") as fo:
        for r in res:
            fo.write(json.dumps(r) + "\n")


def wrappers(inp, outp):
    ox = load_module()
    b = ox.base
    res = []
    for line in open(inp):
        c = json.loads(line)
        case = c["case"]
        pyw = case.get("pyw")
        if not pyw:
            continue
        out = {"id": c["id"]}
        try:
            k = pyw["op"]
            if k == "ctor_rv":
                bounds = None if pyw["bounds"] is None else [(f(lo), f(hi)) for lo, hi in pyw["bounds"]]
                sp = b.RealVectorStateSpace(dimension=pyw["dim"], bounds=bounds)
                out["ok"] = True
                out["extent"] = hx(sp.get_maximum_extent())
            elif k == "ctor_so2":
                bounds = None if pyw["bounds"] is None else (f(pyw["bounds"][0]), f(pyw["bounds"][1]))
                sp = b.SO2StateSpace(bounds)
                out["ok"] = True
                out["extent"] = hx(sp.get_maximum_extent())
            elif k == "ctor_so3":
                bounds = None if pyw["bounds"] is None else (b.SO3State(*[f(x) for x in pyw["bounds"][0]]), f(pyw["bounds"][1]))
                sp = b.SO3StateSpace(bounds)
                out["ok"] = True
                out["extent"] = hx(sp.get_maximum_extent())
            elif k == "ctor_se2":
                bounds = None if pyw["bounds"] is None else [(f(lo), f(hi)) for lo, hi in pyw["bounds"]]
                sp = b.SE2StateSpace(f(pyw["w"]), bounds)
                out["ok"] = True
            elif k == "ctor_se3":
                bounds = None if pyw["bounds"] is None else [(f(lo), f(hi)) for lo, hi in pyw["bounds"]]
                sp = b.SE3StateSpace(f(pyw["w"]), bounds)
                out["ok"] = True
            elif k == "so2_new":
                out["value"] = hx(b.SO2State(f(pyw["v"])).value)
            elif k == "dist":
                kind = pyw["kind"]
                a, bb = [[f(x) for x in s] for s in pyw["states"]]
                # d(x, x) is asked with ONE Python object passed twice (what user code does), other pairs with two objects
                same = [bits(x) for x in a] == [bits(x) for x in bb]
                if kind == "rv":
                    sp = b.RealVectorStateSpace(dimension=len(a), bounds=None)
                    sa = b.RealVectorState(a)
                    sb = sa if same else b.RealVectorState(bb)
                elif kind == "so2":
                    sp = b.SO2StateSpace()
                    # the wrapper constructor canonicalises: compare through the same constructor on both sides
                    sa = b.SO2State(a[0])
                    sb = sa if same else b.SO2State(bb[0])
                    out["canon"] = [hx(b.SO2State(a[0]).value), hx(b.SO2State(bb[0]).value)]
                else:
                    sp = b.SO3StateSpace()
                    sa = b.SO3State(*a)
                    sb = sa if same else b.SO3State(*bb)
                d = sp.distance(sa, sb)
                out["d"] = hx(d)
                # and the answer must not depend on object identity
                d2 = sp.distance(sa, type(sa)(*([a] if kind == "rv" else a))) if same else d
                if hx(d2) != hx(d):
                    out["d_identity_dependent"] = [hx(d), hx(d2)]
        except ValueError as e:
            out["ok"] = False
            out["error"] = "ValueError"
        except BaseException as e:     # noqa: BLE001
            out["ok"] = False
            out["error"] = type(e).__name__
            out["msg"] = str(e)[:200]
        res.append(out)
    with open(outp, "w") as fo:
        for r in res:
            fo.write(json.dumps(r) + "\n")


if __name__ == "__main__":
    mode = sys.argv[1]
    if mode == "planners":
        kth = None
        if "--kth" in sys.argv:
            kth = int(sys.argv[sys.argv.index("--kth") + 1])
        planners(sys.argv[2], sys.argv[3], "--faults-as-false" in sys.argv, kth)
    else:
        wrappers(sys.argv[2], sys.argv[3])
