#!/bin/sh
# Builds the framework from files on disk only (offline): generated Coq fragments, the whole Coq
# development (full .vo build) and the Rust harness against /repo's current tree.
set -e
cd "$(dirname "$0")"
export CARGO_NET_OFFLINE=true
mkdir -p .cache evidence replays
python3 tools/gen_consts.py > .cache/gen_consts.json
cd coq
coq_makefile -f _CoqProject -o Makefile > /dev/null
timeout 3000 make -j16 > ../.cache/coq_build.log 2>&1 || { tail -30 ../.cache/coq_build.log; exit 1; }
cd ../harness
cp /repo/Cargo.lock Cargo.lock
RUSTFLAGS="--cfg oxmpl_verif" CARGO_TARGET_DIR=../.cache/target cargo build --release --offline 2>&1 | tail -3
cd /repo
CARGO_TARGET_DIR=/verif/.cache/pytarget cargo build -p oxmpl-py --release --offline 2>&1 | tail -2
mkdir -p /verif/.cache/py && cp /verif/.cache/pytarget/release/liboxmpl_py.so /verif/.cache/py/oxmpl_py.so
echo "setup done"
